#!/bin/sh
# Builds the checker from source, offline.
set -e
cd "$(dirname "$0")/checker"
unset GOWORK
export GOFLAGS=-mod=mod GOPROXY=off GOSUMDB=off GOTOOLCHAIN=local CGO_ENABLED=0
mkdir -p ../bin
go build -o ../bin/polycheck .
echo "built $(cd .. && pwd)/bin/polycheck"
