#!/usr/bin/env python3
"""Regenerates /verif/MANIFEST.json from the table below. Properties without a registered rule set
in the checker stay under not_applicable with the reason given here."""
import json, subprocess, sys, os
V = os.path.dirname(os.path.dirname(os.path.abspath(__file__)))
props = [json.loads(l)['id'] for l in open(os.path.join(V, 'properties.jsonl'))]

# id -> (technique, decides, does-not-decide)
claimed = {
 'C01': ("static: keyword->field agreement under path conditions, head/continuation pairing, lossy-operation classification on the qualifier def-use spine, regexp tables, wrapper terms over go/ssa",
         "every top-level and reference keyword stores into the field the format assigns, unknown keywords into Other[keyword]; every continuation-joining call gets X[i] and X[i+1:]; no deleting/truncating string op between feature lines and Attributes values; ORIGIN filter deletes exactly non-letters; LOCUS topology words matched as whole tokens; features attached in order via AddFeature; Read*/Parse* wrapper plumbing incl. the 10-line header and the //\\n split",
         "the line scanner itself (LOCUS length/molecule/division regexes, location and qualifier continuation detection, final-newline dependence of ParseMulti): known defects remain there, see DESIGN §6"),
 'C02': ("static: coordinate-offset terms of parser/printer/evaluator, marker-pattern table, evaluation and printing term shapes, loop rule for join operands over go/ssa",
         "span and single-base literals Start=atoi-1/End=atoi; printer Itoa(Start+1)/Itoa(End); evaluator parent[Start:End]; markers stripped by a pattern matching exactly < and >, flags from Contains; inner nodes concatenate all sub-locations in order, complement = ReverseComplement of the whole; printer's three forms, tokens equal the parser's, < before start, > before end (fails today: known finding); join operands appended in a loop",
         "that the parser accepts the whole grammar beyond the arity condition"),
 'C03': ("static: writer/reader keyword+field agreement, column-constant layout rules, map-order and no-shared-state rules over go/ssa",
         "no map-ordered output; every reader-filled field is written under the reader's keyword, optional lines depend only on their own field; LOCUS line items; key pad 12 = continuation indent, feature columns 5/16/21, qualifier line shape, ORIGIN 60/10/9, section order and // terminator, wrap<=68; cached-or-built location; Build uses no package state; Write truncates",
         "Parse(Build(x)) equality as a whole; word-wrap/rejoin identity on long text"),
 'C04': ("static: def-use term of the digest input under each of the 12 mode valuations (feasible-edge lattice), dependence rule, prerequisite table/shape rules over go/ssa",
         "digest input = Min{Rot(x),Rot(RC(x))} / Rot(x) / Min{x,RC(x)} / x with x = ToUpper(seq) then U->T iff RNA, for every accepted type and flag combination; raw sequence only under ToUpper; type letter is the only RNA/DNA difference; complement table = involutive oracle; ReverseComplement shape; RotateSequence window",
         "minimality of the rotation index (C12), BLAKE3"),
 'C05': ("static: per-valuation canonical-form and format terms, guard reachability under mode valuations, alphabet tables vs complement table over go/ssa",
         "as C04 plus: result = v1_ + T C S + _ + hex(Sum256(canonical)[:]); digest unreachable for unknown types and double-stranded proteins; exactly one per-letter membership loop over the hashed string per type, miss -> error; alphabets; accepted nucleotide letters inside the complement table's domain and injective (fails today for DNA U and Z: known findings)",
         "collision resistance; minimality of Rot"),
 'C09': ("static: channel/WaitGroup typestate (Add-before-go, deferred Done, collector<Wait<close<receive), ligation and dedup term shapes under path conditions, no-shared-state, variant rule over go/ssa",
         "happens-before skeleton of CircularLigate/recurseLigate/getConstructs; closure, forward and flipped extension terms and their independent conditions; dedup key = seqhash(x,DNA,circular,double-stranded), keep iff unseen; goroutines use no package state; GoldenGate plumbing; recursive spawns carry a decreasing measure (fails today: known findings)",
         "completeness/exactness of the enumerated ring set; scheduling beyond the listed edges"),
 'C10': ("static: enzyme constant table vs REBASE geometry, overhang/fragment term shapes under path conditions, strict cut-off comparison rule, dependence rule over go/ssa",
         "BsaI/BbsI/BtgZI patterns, skip and overhang; forward = matchEnd+Skip, reverse = matchStart-Skip searched iff site != RC(site); fragments between consecutive sorted overhangs, directional keeps cur.Forward && !next.Forward; Fragment slices; circular scan stops only strictly beyond the original length; sequence only under ToUpper/len; ByName wrapper",
         "rotation independence in general and the doubled-sequence bookkeeping (violated today for some rotations)"),
 'C12': ("static: term shape of the rotation window, comparison-direction and reaching-definition rules over go/ssa",
         "RotateSequence = (s+s)[k:k+len(s)] with k = boothLeastRotation(s), no arithmetic on len that fails for the empty string; every byte comparison is 'current character < reference'; every table/string index uses the reaching definitions of the loop variables",
         "MINIMALITY of k (correctness of Booth's failure-function scan): the heart of the property, needs a loop-invariant proof"),
 'C06': ("static: constant-table evaluation vs NCBI oracle + def-use term shape of generator/Translate over go/ssa",
         "all 25x128 genetic-code table facts against an independent NCBI oracle; generator pairs base1/2/3[i] with residue i and start/stop marks; translation map = all Triplet->Letter; Translate = lookup of ToUpper(3-letter window), one residue per window, no early exit",
         "std strings.Builder/ToUpper behaviour; non-ASCII input"),
 'C11': ("static: constant-table laws (complement, IUPAC) + reversal-idiom recognition over go/ssa",
         "complement table equals oracle, involutive, case-preserving; IUPAC expansions equal oracle, duplicate-free, commute with complement; ReverseComplement = reversal∘Map(ComplementBase); IsPalindromic = (s==RC(s)); AllVariantsIUPAC plumbing and carry-loop range",
         "that cartRune enumerates the full product exactly once beyond the carry-loop range"),
 'C13': ("static: channel typestate (close exactly once, no send after close) + scanner-capacity, prefix-guard, no-shared-state and wrapper rules over go/ssa",
         "ParseConcurrent closes once after the last send on every path; Parse collects until close in order; no silent 64KiB line cap; line[0:k] guarded; record = header[1:], Join(raw lines,\"\"); Build layout; Write truncates; no package-level state",
         "consumer timing beyond blocking sends; gzip; CR handling (std contract)"),
 'C14': ("static: writer/reader column agreement and coordinate-offset terms at the AddFeature call site, map-order and prefix-guard rules over go/ssa",
         "Parse: Start=atoi(col4)-1, End=atoi(col5), columns->fields; Build: Itoa(Start+1), Itoa(End), same columns, tab, k=v;k=v; header lines agree; keys sorted; prefix tests guarded; sequence = concat of FASTA lines; Write truncates",
         "Build's defaults as round-trip fixpoints; 70-column wrap vs RegionEnd; foreign writers' layouts"),
 'C15': ("static: struct-tag discipline over the type closure of poly.Sequence + re-link call-site rules over go/ssa",
         "every field exported with a unique JSON name, only ParentSequence excluded, no omitempty on collections, no custom marshalers; Parse re-adds every decoded feature unconditionally in order to the returned value; AddFeature links before copying; writers deterministic (map order); Write truncates",
         "encoding/json itself; nil-vs-empty Features; GenBank/GFF text equality beyond determinism"),
 'C16': ("static: tag->field agreement under path conditions, trim-cutset and table-start constants, freshness of the supplier list, struct tags over go/ssa",
         "<1>..<8> each store line[3:] into the format's field; entry stored at <8> under Name then accumulator reset; suppliers = one lookup per code letter onto a fresh slice; trims strip spaces and tabs; header+blank skipped exactly; Enzyme tags; Read/Export plumbing; no capped scanner",
         "header detection by exact text; name offset of supplier lines"),
 'C07': ("static: def-use terms and path conditions of chooser/Optimize, comma-ok guard rule, alphabet table vs the default tables, over go/ssa",
         "Choice offered iff float(w)/float(sum over the amino acid) > 0.10 with Item=Triplet, Weight=uint(Weight), keyed by Letter; no chooser without an eligible codon; Optimize writes Pick() of chooser[string(residue)] once per residue in order; lookup is comma-ok and the miss returns an error; empty-input guards; seed from the ns clock; random protein alphabet = the 20 amino acids every table encodes",
         "draw statistics (weightedrand, math/rand); global Seed side effects"),
 'C08': ("static: origin (fresh/param/global) ownership analysis over the type closure of codon.Table + counting terms over go/ssa",
         "which exported functions hand out Table memory shared with package state and which functions store through Table arguments (leak x mutator pairs); complete list of in-place writers; table map and package state written only by init; generator returns only fresh memory; getCodonFrequency counts +1 per complete 3-letter window over every rune; OptimizeTable sets Weight=freq(ToUpper(seq))[Triplet] and writes nothing else",
         "data races beyond memory disjointness; callers holding tables across calls"),
 'C17': ("static: lock-step (coinductive) invariants over the window/barcodeNum phi webs, re-test and restart-after-shift CFG rules, alphabet/term shape over go/ssa",
         "barcode = debruijn[start:end] with end-start=length; start = barcodeNum*(length-(n-1)) and every shift also advances barcodeNum; every shift is re-tested by its loop and bounded; after a shift all test loops are restarted before the append (fails today: known findings); sequence = b+b[0:n-1] over a 4-letter ACGT alphabet",
         "that the Lyndon-word construction yields a De Bruijn sequence"),
 'C18': ("static: def-use terms (collect/zip normalisation, additive decomposition) and path conditions of Add/CompromiseCodonTable, origin-based no-argument-writes rule over go/ssa",
         "cutOff<0 / >1 strict guards on the float itself before any work; Add: weight = first+second under equal triplets, letters/start/stop from the first table, no extra filter; Compromise: share=int(w/sum*10000) over the matching table (second matched by letter AND triplet), cut=int(10000*cutOff), 0 iff either share<cut else int((s1+s2)/2); neither function writes its arguments",
         "tables over different genetic codes; float rounding (±1)"),
 'C19': ("static: additive decomposition of dH/dS with path conditions, formula term of Tm, linear form of MarmurDoty, table symmetry, dependence (slicing) rules over go/ssa",
         "dH,dS = initiation + symmetry iff s==RC(s) + terminal penalty iff last letter in {A,T} + neighbour sum over windows [i,i+2), i=0..len-2; salt term in dS only; Tm = dH*1000/(dS+1.9872*ln(C/f))-273.15 with f=1 iff self-complementary else 4; dH independent of concentrations; sequence used only via ToUpper; no state between calls; NN table 16 keys, strand-symmetric; MeltingTemp defaults; MarmurDoty coefficients",
         "monotonicity in concentrations; the parameter values"),
 'C20': ("static: channel typestate + loop-exit rule on sticky decoder errors + guard/path-condition rules over go/ssa",
         "both channels closed exactly once on every path, no send after close; a Token error leaves the loop; one Token site, every token inspected; entry sent iff StartElement \"entry\", decoded from that element; Read starts Parse only after both opens, hands over the gzip reader untouched; xml tags",
         "progress with unbuffered error channel when consumer drains entries first; partially decoded entries; encoding/xml, gzip"),
}
pending_reason = "rule set not registered yet in this commit (build in progress; design in DESIGN.md §3)"

def entry(pid):
    tech, dec, undec = claimed[pid]
    return {
        "property_id": pid,
        "quick_cmd": f"bin/polycheck -p {pid} -tier quick -q",
        "thorough_cmd": f"bin/polycheck -p {pid} -tier thorough -q",
        "evidence_file": f"/verif/evidence/{pid}.json",
        "replay_cmd_template": f"bin/polycheck -p {pid} -explain {{path}}",
        "engine": "polycheck",
        "technique": tech + "; plus the shared effect rules on package-level and goroutine-shared state over everything reachable from the anchors (state.go)",
        "level_claimed": {"category": "other", "design_ref": f"DESIGN.md §3 {pid}",
                          "text": "Static necessary conditions only, three-valued per obligation (held / VIOLATION / UNDECIDED). A VIOLATION is raised only on positive evidence in recognised code: a table entry that differs from the oracle, a recognised formula, layout or condition that differs in a detail, a typestate or ownership fact. Code whose shape a rule does not recognise is reported as UNDECIDED in the evidence file and on stdout and does not alarm. Decides: " + dec + ". Does NOT decide: " + undec + ". A pass means these specific ways of breaking the property are absent from the source, not that the behaviour holds."},
        "level_note": "shared STATE obligations (every property): no argument-dependent data kept in package-level memory outside init/Once/lock, every remembered value is a function of its key, no pooled memory in results, no variable shared unsynchronised with a started goroutine, no input text used as a fmt format; trusted: go/types, go/packages, go/ssa (x/tools v0.29.0), the std contracts and oracle tables named in the evidence file; no pointer analysis (origin abstraction instead); missing exported anchors, load/type errors and checker panics fail the check; unrecognised shapes are UNDECIDED (exit 0, listed in evidence)",
    }

m = {
 "version": 1,
 "setup_cmd": "./setup.sh",
 "hooks": {"guard": "verif", "enable": "none needed: the analysis reads unexported code from source; there are no hook commits",
           "baseline_off_cmd": "cd /repo && GOFLAGS=-mod=mod GOPROXY=off GOSUMDB=off GOTOOLCHAIN=local go test -vet=off -count=1 ./...",
           "source_commits": [], "add_only": True},
 "engines": [{"name": "polycheck", "path": "checker", "serves_properties": sorted(claimed),
              "kind_free_text": "repo-specific static analyser: typed-AST constant tables vs oracles, def-use terms, path conditions, channel typestate and ownership rules over go/ssa (x/tools v0.29.0); rebuilt from source by setup.sh; re-loads /repo's working tree on every run"}],
 "checks": [entry(p) for p in props if p in claimed],
 "notes": "Technique family: static analysis only. Known findings and repaired defects: KNOWN_FINDINGS.txt. Seeded breaking changes (with demonstrations) and which rule catches them: seeded/ (200) and DESIGN.md §8; behaviour-preserving refactors the checks must stay silent on: benign/.",
 "not_applicable": [{"property_id": p, "reason": pending_reason} for p in props if p not in claimed],
}
json.dump(m, open(os.path.join(V, 'MANIFEST.json'), 'w'), indent=1, ensure_ascii=False)
print("claimed", len(m['checks']), "not_applicable", len(m['not_applicable']))
