#!/usr/bin/env python3
"""Re-verifies one seeded change against the CURRENT /repo HEAD in a scratch worktree and, if every
fact holds, stores it under /verif/seeded/<name>/ (patch.diff regenerated against HEAD, demo, meta.json).
usage: curate_seed.py <srcdir> <name>   (srcdir has patch.diff, meta.json and the demo file)"""
import json, os, subprocess, sys, shutil, tempfile, glob
ENV = dict(os.environ, GOFLAGS="-mod=mod", GOPROXY="off", GOSUMDB="off", GOTOOLCHAIN="local")
def run(cmd, cwd, timeout=600):
    try:
        p = subprocess.run(cmd, cwd=cwd, shell=True, env=ENV, capture_output=True, text=True, timeout=timeout)
        return p.returncode, (p.stdout + p.stderr)[-3000:]
    except subprocess.TimeoutExpired:
        return 124, "timeout"
src, name = sys.argv[1], sys.argv[2]
meta = json.load(open(os.path.join(src, "meta.json")))
prop = meta["property"]
demo = meta["demo"]
wt = tempfile.mkdtemp(prefix="curate.", dir="/tmp")
res = {"applies": False}
try:
    subprocess.run(["git", "-C", "/repo", "worktree", "add", "--detach", wt, "HEAD"], check=True, capture_output=True)
    head = subprocess.run(["git", "-C", "/repo", "rev-parse", "--short", "HEAD"], capture_output=True, text=True).stdout.strip()
    rc, out = run(f"git apply {src}/patch.diff", wt)
    if rc != 0:
        rc, out = run(f"git apply --3way {src}/patch.diff", wt)
    res["applies"] = rc == 0
    if rc != 0:
        print(json.dumps({"name": name, "applies": False, "out": out[-500:]})); sys.exit(1)
    run("git reset -q", wt)
    rc, patch = subprocess.getstatusoutput(f"git -C {wt} diff")
    res["build"] = run("go build ./...", wt)[0] == 0
    res["vet"] = run("go vet ./...", wt)[0] == 0
    rc, out = run("go test -vet=off -count=1 ./...", wt)
    res["suite_passes_with_change"] = rc == 0
    # install demo
    demofiles = [f for f in os.listdir(src) if f not in ("patch.diff", "meta.json")]
    installed = []
    for f in demofiles:
        d = os.path.join(wt, demo.get("dir", "."))
        if demo.get("kind") == "program" and os.path.isdir(os.path.join(src, f)):
            shutil.copytree(os.path.join(src, f), os.path.join(wt, f)); installed.append(os.path.join(wt, f)); continue
        os.makedirs(d, exist_ok=True)
        shutil.copy(os.path.join(src, f), os.path.join(d, f)); installed.append(os.path.join(d, f))
    rc, out = run(demo["run"], wt, timeout=300)
    res["demo_fails_with_change"] = rc != 0
    res["demo_out_with_change"] = out[-400:]
    # static check on the changed tree
    rc, out = run(f"/verif/bin/polycheck -repo {wt} -p {prop} -q -no-evidence", "/verif")
    fired = [l.split("  ")[0].replace("FAIL ", "") for l in out.splitlines() if l.startswith("FAIL ")]
    res["check_exit_with_change"] = rc
    res["rules_fired"] = fired
    # other properties that fire too
    rc2, out2 = run(f"/verif/bin/polycheck -repo {wt} -p all -q -no-evidence", "/verif")
    res["all_props_fired"] = sorted(set(l.split("property=")[1].split()[0] for l in out2.splitlines() if l.startswith("VIOLATION")))
    # revert source change, keep the demo
    run("git checkout -- .", wt)
    rc, out = run(demo["run"], wt, timeout=300)
    res["demo_passes_without_change"] = rc == 0
    res["demo_out_without_change"] = out[-300:] if rc != 0 else ""
    ok = all(res.get(k) for k in ("build", "vet", "suite_passes_with_change", "demo_fails_with_change", "demo_passes_without_change"))
    res["kept"] = ok
    if ok:
        dst = os.path.join("/verif/seeded", name)
        os.makedirs(dst, exist_ok=True)
        open(os.path.join(dst, "patch.diff"), "w").write(patch + "\n")
        for f in demofiles:
            p = os.path.join(src, f)
            if os.path.isdir(p):
                shutil.copytree(p, os.path.join(dst, f), dirs_exist_ok=True)
            else:
                shutil.copy(p, os.path.join(dst, f))
        m = dict(meta)
        m["verified_against_repo_head"] = head
        m["verified"] = {k: res[k] for k in ("build", "vet", "suite_passes_with_change", "demo_fails_with_change", "demo_passes_without_change")}
        m["what_i_ran"] = ["git apply patch.diff (scratch worktree of /repo HEAD)", "go build ./... && go vet ./...", "go test -vet=off -count=1 ./... (suite passes with the change)", demo["run"] + " (fails with the change, passes without)", f"bin/polycheck -repo <worktree> -p {prop}"]
        m["static_check"] = {"detected": res["check_exit_with_change"] == 1, "rules_fired": fired, "other_properties_alarmed": [p for p in res["all_props_fired"] if p != prop]}
        json.dump(m, open(os.path.join(dst, "meta.json"), "w"), indent=1)
    print(json.dumps({"name": name, **{k: v for k, v in res.items() if k not in ("demo_out_with_change",)}}))
finally:
    subprocess.run(["git", "-C", "/repo", "worktree", "remove", "--force", wt], capture_output=True)
    shutil.rmtree(wt, ignore_errors=True)
