#!/usr/bin/env python3
"""Evaluates one round-2 change (breaking or benign) against the CURRENT /repo HEAD in a scratch worktree.
usage: eval_round2.py <srcdir> <name> [--keep]   prints one JSON line; with --keep stores it under /verif/seeded/<name>/"""
import json, os, subprocess, sys, shutil, tempfile
ENV = dict(os.environ, GOFLAGS="-mod=mod", GOPROXY="off", GOSUMDB="off", GOTOOLCHAIN="local")
def run(cmd, cwd, timeout=600):
    try:
        p = subprocess.run(cmd, cwd=cwd, shell=True, env=ENV, capture_output=True, text=True, timeout=timeout)
        return p.returncode, (p.stdout + p.stderr)
    except subprocess.TimeoutExpired:
        return 124, "timeout"
src, name = sys.argv[1], sys.argv[2]
keep = "--keep" in sys.argv
meta = json.load(open(os.path.join(src, "meta.json")))
prop = meta["property"]; kind = meta.get("kind", "breaking")
wt = tempfile.mkdtemp(prefix="r2.", dir="/tmp")
res = {"name": name, "kind": kind}
try:
    subprocess.run(["git", "-C", "/repo", "worktree", "add", "--detach", wt, "HEAD"], check=True, capture_output=True)
    head = subprocess.run(["git", "-C", "/repo", "rev-parse", "--short", "HEAD"], capture_output=True, text=True).stdout.strip()
    rc, out = run(f"git apply {src}/patch.diff", wt)
    if rc != 0:
        rc, out = run(f"git apply --3way {src}/patch.diff", wt)
    res["applies"] = rc == 0
    if rc != 0:
        print(json.dumps(res)); sys.exit(0)
    run("git reset -q", wt)
    run("git add -A -N .", wt)  # intent-to-add: files the change creates must be part of the stored patch
    patch = subprocess.run(["git", "-C", wt, "diff"], capture_output=True, text=True).stdout
    res["touches_tests"] = "_test.go" in "".join(l for l in patch.splitlines() if l.startswith("diff --git"))
    res["build"] = run("go build ./...", wt)[0] == 0
    res["vet"] = run("go vet ./...", wt)[0] == 0
    res["suite"] = run("go test -vet=off -count=1 ./...", wt)[0] == 0
    rc, out = run(f"/verif/bin/polycheck -repo {wt} -p all -q -no-evidence", "/verif")
    viol = sorted(set(l.split("property=")[1].split()[0] for l in out.splitlines() if l.startswith("VIOLATION")))
    fails = [l[5:].split("  ")[0] for l in out.splitlines() if l.startswith("FAIL ")]
    res["props_alarmed"] = viol
    res["rules_fired"] = fails[:8]
    if kind == "breaking":
        demo = meta["demo"]
        d = os.path.join(wt, demo["dir"]); os.makedirs(d, exist_ok=True)
        demofiles = [f for f in os.listdir(src) if f.endswith("_test.go")]
        for f in demofiles:
            shutil.copy(os.path.join(src, f), os.path.join(d, f))
        rc, out = run(demo["run"], wt, timeout=300)
        res["demo_fails_with_change"] = rc != 0
        run("git checkout -- .", wt)
        rc, out = run(demo["run"], wt, timeout=300)
        res["demo_passes_without_change"] = rc == 0
        if rc != 0:
            res["demo_out"] = out[-300:]
        ok = all(res.get(k) for k in ("build", "vet", "suite", "demo_fails_with_change", "demo_passes_without_change")) and not res["touches_tests"]
        res["valid"] = ok
        res["detected"] = prop in viol
    else:
        ok = all(res.get(k) for k in ("build", "vet", "suite")) and not res["touches_tests"]
        res["valid"] = ok
        res["false_alarm"] = len(viol) > 0
    if keep and ok:
        dst = os.path.join("/verif/seeded" if kind == "breaking" else "/verif/benign", name); os.makedirs(dst, exist_ok=True)
        open(os.path.join(dst, "patch.diff"), "w").write(patch)
        for f in os.listdir(src):
            if f.endswith("_test.go"):
                shutil.copy(os.path.join(src, f), os.path.join(dst, f))
        m = dict(meta); m["verified_against_repo_head"] = head
        if kind == "breaking":
            m["verified"] = {"build": res["build"], "vet": res["vet"], "suite_passes_with_change": res["suite"], "demo_fails_with_change": res["demo_fails_with_change"], "demo_passes_without_change": res["demo_passes_without_change"]}
            m["what_i_ran"] = ["git apply patch.diff (scratch worktree of /repo HEAD)", "go build ./... && go vet ./...", "go test -vet=off -count=1 ./...", meta["demo"]["run"] + " (fails with the change, passes without)", "bin/polycheck -repo <worktree> -p all"]
            m["static_check"] = {"detected": res["detected"], "rules_fired": [f for f in fails], "properties_alarmed": viol}
        else:
            m["verified"] = {"build": res["build"], "vet": res["vet"], "suite_passes_with_change": res["suite"]}
            m["what_i_ran"] = ["git apply patch.diff (scratch worktree of /repo HEAD)", "go build ./... && go vet ./...", "go test -vet=off -count=1 ./...", "bin/polycheck -repo <worktree> -p all (must stay silent)"]
            m["static_check"] = {"false_alarm": res["false_alarm"], "rules_fired": fails, "properties_alarmed": viol}
        json.dump(m, open(os.path.join(dst, "meta.json"), "w"), indent=1)
    print(json.dumps(res))
finally:
    subprocess.run(["git", "-C", "/repo", "worktree", "remove", "--force", wt], capture_output=True)
    shutil.rmtree(wt, ignore_errors=True)
