#!/usr/bin/env python3
"""Re-runs the current checker on every stored change (seeded/ = breaking, benign/ = behaviour-preserving)
and rewrites meta.json's static_check block. Uses REFRESH_WORKERS (default 8) scratch worktrees of /repo HEAD outside /repo and /verif, removed at the end.
usage: refresh_seeds.py [--table]   (--table prints the DESIGN.md section 8 tables)"""
import json, os, subprocess, sys, tempfile, shutil
V = os.path.dirname(os.path.dirname(os.path.abspath(__file__)))
ENV = dict(os.environ, GOFLAGS="-mod=mod", GOPROXY="off", GOSUMDB="off", GOTOOLCHAIN="local")
def sh(cmd, cwd):
    p = subprocess.run(cmd, cwd=cwd, shell=True, env=ENV, capture_output=True, text=True)
    return p.returncode, p.stdout + p.stderr
from concurrent.futures import ThreadPoolExecutor
import threading
NW = int(os.environ.get("REFRESH_WORKERS", "8"))
ONLY = os.environ.get("REFRESH_ONLY", "")
import re
wts = []
for _ in range(NW):
    w = tempfile.mkdtemp(prefix="seedwt.", dir=os.environ.get("TMPDIR", "/tmp"))
    subprocess.run(["git", "-C", "/repo", "worktree", "add", "--detach", w, "HEAD"], check=True, capture_output=True)
    wts.append(w)
free = list(wts); lock = threading.Lock()
def one(job):
    kind, d, name = job
    base = os.path.join(V, d)
    mp = os.path.join(base, name, "meta.json")
    meta = json.load(open(mp))
    with lock:
        wt = free.pop()
    try:
        sh("git checkout -q -- . && git clean -qfd", wt)
        rc, out = sh(f"git apply {base}/{name}/patch.diff", wt)
        if rc != 0:
            print("PATCH FAILED", name, out[:200]); return None
        rc, out = sh(f"{V}/bin/polycheck -repo {wt} -p all -q -no-evidence", V)
    finally:
        with lock:
            free.append(wt)
    viol = sorted(set(l.split("property=")[1].split()[0] for l in out.splitlines() if l.startswith("VIOLATION")))
    prop = meta["property"]
    fails, own, last = [], [], None
    for l in out.splitlines():
        if l.startswith("FAIL "):
            last = l[5:].split("  ")[0]
        elif l.startswith("VIOLATION") and last is not None:
            pid = l.split("property=")[1].split()[0]
            fails.append(pid + ":" + last)
            if pid == prop:
                own.append(last)
            last = None
    if kind == "breaking":
        meta["static_check"] = {"detected": prop in viol, "rules_fired_own_property": own, "rules_fired": fails, "properties_alarmed": viol}
    else:
        meta["static_check"] = {"false_alarm": len(viol) > 0, "rules_fired": fails, "properties_alarmed": viol}
    json.dump(meta, open(mp, "w"), indent=1)
    return (kind, name, meta)
jobs = []
for kind, d in (("breaking", "seeded"), ("benign", "benign")):
    base = os.path.join(V, d)
    for name in sorted(os.listdir(base)):
        if os.path.exists(os.path.join(base, name, "meta.json")):
            if ONLY and not re.search(ONLY, name):
                continue  # REFRESH_ONLY=<regex>: a partial refresh (one round, one rule's changes); totals then cover that part only
            jobs.append((kind, d, name))
rows = []
try:
    with ThreadPoolExecutor(NW) as ex:
        for r in ex.map(one, jobs):
            if r is not None:
                rows.append(r)
finally:
    for w in wts:
        subprocess.run(["git", "-C", "/repo", "worktree", "remove", "--force", w], capture_output=True)
        shutil.rmtree(w, ignore_errors=True)
br = [r for r in rows if r[0] == "breaking"]; be = [r for r in rows if r[0] == "benign"]
print(f"breaking: {len(br)} stored, {sum(1 for r in br if r[2]['static_check']['detected'])} detected by their own property's check")
print(f"benign:   {len(be)} stored, {sum(1 for r in be if r[2]['static_check']['false_alarm'])} false alarms")
if "--table" in sys.argv:
    def short(s, n):
        s = " ".join(str(s).split()).replace("|", "/")  # a bar would end the table cell
        return s if len(s) <= n else s[:n-1] + "…"
    print("\n| id | change | caught by |\n|----|--------|-----------|")
    for _, name, m in br:
        sc = m["static_check"]
        rules = sorted(set(r.split("#")[0] for r in sc.get("rules_fired_own_property", [])))
        by = "; ".join(short(r, 70) for r in rules[:3]) if sc["detected"] else ("**missed**" + (" (alarms " + ",".join(sc["properties_alarmed"]) + ")" if sc["properties_alarmed"] else ""))
        print(f"| {name} | {short(m.get('title', m.get('what','')), 110)} | {by} |")
