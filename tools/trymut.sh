#!/bin/bash
# usage: trymut.sh <patch.diff> <prop|all> : applies the patch in a scratch worktree, runs the check there, removes it.
set -u
patch=$1; prop=${2:-all}
wt=$(mktemp -d /tmp/trymut.XXXXXX)
git -C /repo worktree add --detach "$wt" HEAD >/dev/null 2>&1
if ! git -C "$wt" apply "$patch" 2>/dev/null; then
  if ! git -C "$wt" apply --3way "$patch" >/dev/null 2>&1; then echo "PATCH-DOES-NOT-APPLY"; git -C /repo worktree remove --force "$wt"; exit 3; fi
fi
/verif/bin/polycheck -repo "$wt" -p "$prop" -q -no-evidence 2>&1 | grep -E '^(FAIL|KNOWN|SUMMARY)' | sed -e "s#$wt/##g" | cut -c1-400
git -C /repo worktree remove --force "$wt"
