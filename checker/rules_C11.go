package main

// C11 Reverse complement and IUPAC expansion obey nucleotide-code semantics.

import (
	"fmt"
	"go/token"
	"sort"
	"strings"

	"golang.org/x/tools/go/ssa"
)

func init() { register("C11", ruleC11) }

// complementTable resolves by role the table ComplementBase indexes and reads it from the typed AST.
func complementTable(c *Ctx, rule string) (map[rune]rune, token.Pos, bool) {
	w := c.W
	cb := w.fn("transform", "ComplementBase")
	if cb == nil {
		c.missing(rule, "transform.ComplementBase", "exported function transform.ComplementBase")
		return nil, 0, false
	}
	c.useFn(cb)
	tb := newTB(cb)
	rets := returnsOf(cb)
	var t *Term
	ok := len(rets) == 1 && len(rets[0].Results) == 1
	if ok {
		t = tb.T(rets[0].Results[0])
		ok = t.Op == "lookup" && t.Name == "" && t.Args[0].Op == "global" && t.Args[1].isParam(0)
	}
	identityDefault := false
	if !ok && len(rets) == 2 {
		// "if c, ok := table[base]; ok { return c }; return base": the table, with letters it does not list left
		// as they are
		var hit, miss *Term
		for _, r := range rets {
			if len(r.Results) != 1 {
				continue
			}
			rt := tb.T(r.Results[0])
			switch {
			case rt.isParam(0):
				miss = rt
			case rt.Op == "extract" && rt.Name == "0" && len(rt.Args) == 1 && rt.Args[0].Op == "lookup" && rt.Args[0].Name == ",ok" && rt.Args[0].Args[0].Op == "global" && rt.Args[0].Args[1].isParam(0):
				hit = rt
			}
		}
		if hit != nil && miss != nil {
			t = &Term{Op: "lookup", Args: hit.Args[0].Args, V: hit.Args[0].V}
			ok, identityDefault = true, true
		}
	}
	if !ok {
		// a switch over the argument with constant cases and constant results is the same table
		if m, okS := tableFromSwitch(cb); okS {
			c.ok(rule, "ComplementBase=table[base]", cb.Pos(), fmt.Sprintf("a switch with %d constant cases", len(m)))
			return m, cb.Pos(), true
		}
		c.undecided(rule, "ComplementBase=table[base]", cb.Pos(), "ComplementBase is neither a lookup in a package-level literal table nor a switch of constants; got "+short(fmt.Sprint(t)))
		return nil, 0, false
	}
	c.ok(rule, "ComplementBase=table[base]", cb.Pos(), "returns "+t.Args[0].Name+"[basePair]")
	name := t.Args[0].Name[strings.LastIndex(t.Args[0].Name, ".")+1:]
	p := w.pkg("transform")
	v := pkgVar(p, name)
	if v == nil {
		c.missingHelper(rule, "complement table", "package variable "+name)
		return nil, 0, false
	}
	init := varInit(p, v)
	if init == nil {
		c.undecided(rule, "complement table", v.Pos(), "complement table is not initialised by one composite literal or is reassigned")
		return nil, 0, false
	}
	av := evalAST(p, init)
	m, ok := av.runeMap()
	if !ok {
		c.undecided(rule, "complement table", av.Pos, "complement table is not a literal of constant rune pairs (or has a duplicate key)")
		return nil, 0, false
	}
	if identityDefault {
		// letters the table does not list come back unchanged from ComplementBase; a reader that indexes the
		// table itself gets the zero rune for them
		var lacking []string
		for k := range oracleComplement() {
			if _, have := m[k]; !have {
				lacking = append(lacking, string(k))
			}
		}
		sort.Strings(lacking)
		if len(lacking) > 0 {
			if sp := w.spkg("transform"); sp != nil {
				if g, _ := sp.Members[name].(*ssa.Global); g != nil {
					for _, f := range w.moduleFuncs() {
						if f == cb {
							continue
						}
						eachInstr(f, func(i ssa.Instruction) {
							lk, isLk := i.(*ssa.Lookup)
							if !isLk || lk.CommaOk {
								return
							}
							if u, isU := lk.X.(*ssa.UnOp); isU && u.X == ssa.Value(g) {
								c.bad(rule, "complement table:read through ComplementBase", lk.Pos(), fname(f)+" indexes the complement table directly; the table does not list "+strings.Join(lacking, ", ")+" (ComplementBase leaves those letters unchanged), so this reader turns them into the zero rune")
							}
						})
					}
				}
			}
		}
		for k, v := range oracleComplement() {
			if _, have := m[k]; !have && k == v {
				m[k] = k // listed nowhere, left unchanged: its own complement
			}
		}
	}
	// the table must not be written anywhere else in the module
	writers := globalWriters(c, "transform", name)
	if len(writers) > 0 {
		c.bad(rule, "complement table:readonly", av.Pos, "complement table is written outside its initialiser: "+strings.Join(writers, ", "))
	}
	return m, av.Pos, true
}

// globalWriters lists module functions (other than package init) that update or replace a package-level variable.
func globalWriters(c *Ctx, rel, name string) []string {
	var out []string
	sp := c.W.spkg(rel)
	if sp == nil {
		return nil
	}
	g, _ := sp.Members[name].(*ssa.Global)
	if g == nil {
		return nil
	}
	for _, f := range c.W.moduleFuncs() {
		if f.Name() == "init" || strings.HasPrefix(f.Name(), "init#") {
			continue
		}
		eachInstr(f, func(i ssa.Instruction) {
			switch i := i.(type) {
			case *ssa.Store:
				if i.Addr == ssa.Value(g) {
					out = append(out, fname(f)+" (assigns)")
				}
			case *ssa.MapUpdate:
				if u, ok := i.Map.(*ssa.UnOp); ok && u.X == ssa.Value(g) {
					out = append(out, fname(f)+" (map update)")
				}
			case ssa.CallInstruction:
				if calleeName(i) == "builtin:delete" {
					if u, ok := i.Common().Args[0].(*ssa.UnOp); ok && u.X == ssa.Value(g) {
						out = append(out, fname(f)+" (delete)")
					}
				}
			}
		})
	}
	sort.Strings(out)
	return out
}

// descendingFill recognises "result[len-1-k] = k-th rune of S" and returns S:
//
//	n := len(S'); dst := make([]rune, n); for _, r := range S { n--; dst[n] = r }; return string(dst)
//
// (S' must be S). Also accepts the two-index swap idiom? – not present in the repo; reported as unrecognised.
func descendingFill(tb *TermBuilder, f *ssa.Function) (*Term, string) {
	rets := returnsOf(f)
	if len(rets) != 1 || len(rets[0].Results) != 1 {
		return nil, "several returns"
	}
	cv, ok := rets[0].Results[0].(*ssa.Convert)
	if !ok {
		return nil, "result is not string(<rune slice>)"
	}
	ms, ok := cv.X.(*ssa.MakeSlice)
	if !ok {
		return nil, "result is not built in a fresh rune slice"
	}
	lenT := tb.T(ms.Len)
	if !lenT.isCall("builtin:len") {
		return nil, "slice length is not len(source)"
	}
	src := lenT.Args[0]
	// stores into ms
	var stores []*ssa.Store
	for _, r := range *ms.Referrers() {
		ia, ok := r.(*ssa.IndexAddr)
		if !ok {
			if r == ssa.Instruction(cv) {
				continue
			}
			return nil, "destination slice escapes or is re-sliced"
		}
		for _, rr := range *ia.Referrers() {
			if st, ok := rr.(*ssa.Store); ok && st.Addr == ssa.Value(ia) {
				stores = append(stores, st)
			} else {
				return nil, "destination element used other than by a store"
			}
		}
	}
	if len(stores) != 1 {
		return nil, fmt.Sprintf("%d stores into the destination, want 1", len(stores))
	}
	st := stores[0]
	val := tb.T(st.Val)
	if val.String() != "extract[2](next(range("+src.String()+")))" {
		return nil, "stored value is not the range value over the source: " + short(val.String())
	}
	ia := st.Addr.(*ssa.IndexAddr)
	// index = P - 1, P = phi(len(src), index)
	bo, ok := ia.Index.(*ssa.BinOp)
	if !ok || bo.Op != token.SUB {
		return nil, "store index is not a pre-decremented counter"
	}
	one, ok := bo.Y.(*ssa.Const)
	if !ok || one.Value == nil || one.Value.ExactString() != "1" {
		return nil, "counter is not decremented by exactly 1"
	}
	ph, ok := bo.X.(*ssa.Phi)
	if !ok || len(ph.Edges) != 2 {
		return nil, "counter is not loop-carried"
	}
	okInit, okStep := false, false
	for _, e := range ph.Edges {
		if e == ssa.Value(bo) {
			okStep = true
		} else if tb.T(e).String() == lenT.String() {
			okInit = true
		}
	}
	if !okInit || !okStep {
		return nil, "counter does not start at len(source) and step by -1 per iteration"
	}
	// the store must execute on every iteration: its block is the range body
	blk := st.Block()
	if len(blk.Preds) != 1 {
		return nil, "store is conditional"
	}
	if _, isIf := blk.Preds[0].Instrs[len(blk.Preds[0].Instrs)-1].(*ssa.If); !isIf || !strings.HasPrefix(tb.T(blk.Preds[0].Instrs[len(blk.Preds[0].Instrs)-1].(*ssa.If).Cond).String(), "extract[0](next(range(") {
		return nil, "store is not in the range body"
	}
	return src, ""
}

// readLocalRuneTable reads a map[rune][]rune built by constant MapUpdates on m.
func readMapUpdates(tb *TermBuilder, f *ssa.Function, m ssa.Value) (map[rune][]rune, []string) {
	out := map[rune][]rune{}
	var problems []string
	eachInstr(f, func(i ssa.Instruction) {
		mu, ok := i.(*ssa.MapUpdate)
		if !ok || mu.Map != m {
			return
		}
		k, okk := tb.T(mu.Key).constInt()
		if !okk {
			problems = append(problems, "non-constant key at "+fmt.Sprint(mu.Pos()))
			return
		}
		v := tb.T(mu.Value)
		if v.Op != "slice" {
			problems = append(problems, fmt.Sprintf("value of %c is not a literal list", rune(k)))
			return
		}
		elems := map[int]rune{}
		inner := v.Args[0]
		parts := []*Term{inner}
		if inner.Op == "anyof" {
			parts = inner.Args
		}
		for _, p := range parts {
			if p.Op != "partial" {
				problems = append(problems, fmt.Sprintf("value of %c is not a literal list", rune(k)))
				return
			}
			var idx int
			fmt.Sscanf(p.Name, "[%d]", &idx)
			r, okr := p.Args[0].constInt()
			if !okr {
				problems = append(problems, fmt.Sprintf("value of %c has a non-constant element", rune(k)))
				return
			}
			elems[idx] = rune(r)
		}
		if _, dup := out[rune(k)]; dup {
			problems = append(problems, fmt.Sprintf("key %c stored twice", rune(k)))
		}
		lst := make([]rune, len(elems))
		for i := range lst {
			lst[i] = elems[i]
		}
		out[rune(k)] = lst
	})
	return out, problems
}

func ruleC11(c *Ctx) {
	c.Decided = []string{
		"TABLE-COMP: complement table domain = 16 letters x 2 cases, equals the oracle pairs, case-preserving, involutive on the 15 IUPAC codes, U/u -> A/a; table read-only",
		"TABLE-IUPAC: each code expands to its oracle base set with no duplicate; commutation expand(comp(c)) = comp(expand(c)) for all 15 codes",
		"TERM: ComplementBase=table lookup; Complement=strings.Map(ComplementBase); Reverse/ReverseComplement fill a same-length rune slice from the back; ReverseComplement reverses the complemented string; IsPalindromic(s) = (s == ReverseComplement(s))",
		"SHAPE: AllVariantsIUPAC upper-cases, rejects unknown letters with an error, hands one list per position in order to the product, returns each product row as a string in order; ODOMETER: the product's carry loop visits every position len-1..0",
	}
	c.Undec = []string{"that cartRune enumerates the full Cartesian product exactly once beyond the carry-loop range (algorithmic)", "strings.Map semantics (std contract: maps each rune, drops negative results)"}
	c.Trusted = []string{"strings.Map", "IUPAC nucleotide code table as encoded in oracle.go"}
	c.floor("TABLE-COMP", 5)
	c.floor("TABLE-IUPAC", 3)
	c.floor("TERM", 5)
	c.floor("SHAPE", 4)
	w := c.W

	// ---- TABLE-COMP
	tab, pos, ok := complementTable(c, "TERM")
	if ok {
		orc := oracleComplement()
		var diffs []string
		keys := []int{}
		for k := range orc {
			keys = append(keys, int(k))
		}
		sort.Ints(keys)
		for _, k := range keys {
			got, has := tab[rune(k)]
			if !has {
				diffs = append(diffs, fmt.Sprintf("%c missing", rune(k)))
			} else if got != orc[rune(k)] {
				diffs = append(diffs, fmt.Sprintf("%c -> %c, should be %c", rune(k), got, orc[rune(k)]))
			}
		}
		c.check(len(diffs) == 0, "TABLE-COMP", "oracle pairs", pos, "all 32 entries equal A<->T C<->G R<->Y K<->M B<->V D<->H S W N fixed, U->A, in both cases", strings.Join(diffs, "; "))
		var extra []string
		for k := range tab {
			if _, in := orc[k]; !in {
				extra = append(extra, fmt.Sprintf("%c(%d)", k, k))
			}
		}
		sort.Strings(extra)
		c.check(len(extra) == 0 && len(tab) == 32, "TABLE-COMP", "domain", pos, "domain is exactly the 16 nucleotide letters in both cases", fmt.Sprintf("domain has %d entries, unexpected: %v", len(tab), extra))
		// laws by the checker's own arithmetic
		var inv, cs []string
		for _, ch := range iupac15 {
			for _, r := range []rune{ch, ch + 32} {
				if tab[tab[r]] != r {
					inv = append(inv, fmt.Sprintf("comp(comp(%c))=%c", r, tab[tab[r]]))
				}
			}
			if tab[ch]+32 != tab[ch+32] {
				cs = append(cs, fmt.Sprintf("comp(%c)=%c but comp(%c)=%c", ch, tab[ch], ch+32, tab[ch+32]))
			}
		}
		c.check(len(inv) == 0, "TABLE-COMP", "involution", pos, "comp(comp(x)) = x on the 15 IUPAC codes in both cases", strings.Join(inv, "; "))
		c.check(len(cs) == 0, "TABLE-COMP", "case preservation", pos, "lower-case entries are the lower-cased upper-case entries", strings.Join(cs, "; "))
		c.check(tab['U'] == 'A' && tab['u'] == 'a', "TABLE-COMP", "U->A", pos, "U/u complement to A/a", fmt.Sprintf("U->%c u->%c", tab['U'], tab['u']))
		c.Sites += 32
	}

	// ---- TERM
	compl := "call[strings.Map](func[poly/transform.ComplementBase], param[0])"
	if f := w.fn("transform", "Complement"); f != nil {
		c.useFn(f)
		t, _, ok1 := singleReturnTerm(f, 0)
		if ok1 {
			c.cmpTerm("TERM", "Complement=Map(ComplementBase)", f.Pos(), t, compl, "Complement(s) = strings.Map(ComplementBase, s)", "Complement is not the pointwise map of ComplementBase")
		} else {
			c.undecided("TERM", "Complement=Map(ComplementBase)", f.Pos(), "several returns")
		}
	} else {
		c.missing("TERM", "Complement", "transform.Complement")
	}
	if f := w.fn("transform", "Reverse"); f != nil {
		c.useFn(f)
		tb := newTB(f)
		src, why := descendingFill(tb, f)
		st := unknown
		if src != nil {
			st = holds
			if !src.isParam(0) {
				st = stateOf(false, nil, src)
			}
		}
		c.judge(st, "TERM", "Reverse=reversal(s)", f.Pos(), "fills a len(s) rune slice from the back with the runes of s in order", "Reverse is not a recognised exact reversal of its argument: "+why)
	} else {
		c.missing("TERM", "Reverse", "transform.Reverse")
	}
	if f := w.fn("transform", "ReverseComplement"); f != nil {
		c.useFn(f)
		st, why := rcState(w)
		c.judge(st, "TERM", "ReverseComplement=reversal(Map(ComplementBase,s))", f.Pos(), "reverses the pointwise complement of the whole input (no special cases)", "ReverseComplement is not exactly reversal∘complement: "+why)
	} else {
		c.missing("TERM", "ReverseComplement", "transform.ReverseComplement")
	}
	if f := w.fn("checks", "IsPalindromic"); f != nil {
		c.useFn(f)
		st, why := palindromeState(f)
		c.judge(st, "TERM", "IsPalindromic=(s==RC(s))", f.Pos(), "IsPalindromic(s) = (s == transform.ReverseComplement(s))", why)
	} else {
		c.missing("TERM", "IsPalindromic", "checks.IsPalindromic")
	}
	// ---- TABLE-IUPAC + SHAPE
	av := w.fn("transform/variants", "AllVariantsIUPAC")
	if av == nil {
		c.missing("SHAPE", "AllVariantsIUPAC", "variants.AllVariantsIUPAC")
		return
	}
	c.useFn(av)
	tb := newTB(av)
	// the lookup: comma-ok lookup of a rune of ToUpper(param0) in a local map
	var lk *ssa.Lookup
	eachInstr(av, func(i ssa.Instruction) {
		if l, ok := i.(*ssa.Lookup); ok && l.CommaOk {
			if tb.T(l.Index).String() == "extract[2](next(range(call[strings.ToUpper](param[0]))))" {
				lk = l
			}
		}
	})
	if lk == nil {
		c.undecided("SHAPE", "lookup(ToUpper(seq)[i])", av.Pos(), "no comma-ok table lookup keyed by the runes of strings.ToUpper(seq) found")
		if stRaw, whyRaw := judgeCaseR(c.W, av, 0, true); stRaw == broken {
			c.bad("SHAPE", "DEPEND: raw input only under ToUpper", av.Pos(), whyRaw+": lower-case codes are treated differently from upper-case ones")
		}
		return
	}
	c.ok("SHAPE", "lookup(ToUpper(seq)[i])", lk.Pos(), "each rune of the upper-cased input is looked up (comma-ok) in the code table")
	stRaw, whyRaw := judgeCaseR(c.W, av, 0, true)
	c.judge(stRaw, "SHAPE", "DEPEND: raw input only under ToUpper", av.Pos(), "letter case cannot influence the expansion", whyRaw+": lower-case codes are treated differently from upper-case ones")
	var tabI map[rune][]rune
	var problems []string
	if _, isMake := lk.X.(*ssa.MakeMap); isMake {
		tabI, problems = readMapUpdates(tb, av, lk.X)
	} else if gt := tb.T(lk.X); gt.Op == "global" {
		tabI, problems = readGlobalRuneLists(w, gt)
	} else {
		problems = append(problems, "code table is neither a local nor a package-level literal")
	}
	if len(problems) > 0 {
		c.undecided("TABLE-IUPAC", "literal", lk.Pos(), strings.Join(problems, "; "))
		return
	}
	c.ok("TABLE-IUPAC", "literal", lk.Pos(), "code table is a literal of constant rune lists")
	var diffs, dups []string
	for _, ch := range iupac15 {
		got, has := tabI[ch]
		if !has {
			diffs = append(diffs, fmt.Sprintf("%c missing", ch))
			continue
		}
		seen := map[rune]bool{}
		for _, g := range got {
			if seen[g] {
				dups = append(dups, fmt.Sprintf("%c lists %c twice", ch, g))
			}
			seen[g] = true
		}
		gs := make([]string, 0, len(seen))
		for g := range seen {
			gs = append(gs, string(g))
		}
		sort.Strings(gs)
		if strings.Join(gs, "") != iupacSets[byte(ch)] {
			diffs = append(diffs, fmt.Sprintf("%c expands to {%s}, IUPAC says {%s}", ch, strings.Join(gs, ""), iupacSets[byte(ch)]))
		}
	}
	for k := range tabI {
		if !strings.ContainsRune(iupac15, k) {
			diffs = append(diffs, fmt.Sprintf("unexpected code %c", k))
		}
	}
	sort.Strings(diffs)
	c.check(len(diffs) == 0 && len(dups) == 0, "TABLE-IUPAC", "expansions", lk.Pos(), "15 codes expand to their IUPAC base sets, no duplicates (each concrete sequence at most once)", strings.Join(append(diffs, dups...), "; "))
	if ok {
		var bad []string
		for _, ch := range iupac15 {
			a := map[rune]bool{}
			for _, g := range tabI[tab[ch]] {
				a[g] = true
			}
			b := map[rune]bool{}
			for _, g := range tabI[ch] {
				b[tab[g]] = true
			}
			same := len(a) == len(b)
			for k := range a {
				if !b[k] {
					same = false
				}
			}
			if !same {
				bad = append(bad, fmt.Sprintf("expand(comp(%c)) != comp(expand(%c))", ch, ch))
			}
		}
		c.check(len(bad) == 0, "TABLE-IUPAC", "commutes with complement", lk.Pos(), "expand(comp(c)) = comp(expand(c)) for all 15 codes", strings.Join(bad, "; "))
	}
	c.Sites += 15
	// miss branch returns a non-nil error; hit branch appends the list in order
	okBit := &ssa.Extract{}
	_ = okBit
	var missOK, hitOK bool
	var prodCall *ssa.Call
	eachInstr(av, func(i ssa.Instruction) {
		if r, isRet := i.(*ssa.Return); isRet && len(r.Results) == 2 {
			pc := pathCond(tb, av.Blocks[0], r.Block()).String()
			e := tb.T(r.Results[1])
			if strings.Contains(pc, "!(extract[1](lookup[,ok]") && e.isCall("errors.New") {
				missOK = true
			}
		}
		if cl, isCall := i.(*ssa.Call); isCall && calleeName(cl) == "poly/transform/variants.cartRune" {
			prodCall = cl
		}
	})
	missSt := holds
	if !missOK {
		missSt = unknown
		for _, r := range returnsOf(av) {
			if len(r.Results) == 2 {
				pc := pathCond(tb, av.Blocks[0], r.Block()).String()
				e := tb.T(r.Results[1])
				if strings.Contains(pc, "!(extract[1](lookup[,ok]") && e.Op == "const" {
					missSt = broken
				}
			}
		}
	}
	c.judge(missSt, "SHAPE", "unknown letter -> error", av.Pos(), "the miss branch of the lookup returns a non-nil error", "the miss branch of the code-table lookup returns a nil error")
	if prodCall != nil {
		arg := tb.T(prodCall.Call.Args[0])
		apps := topAppendSites(arg)
		if len(apps) == 1 {
			want := "extract[0](lookup[,ok](" + tb.T(lk.X).String() + ", extract[2](next(range(call[strings.ToUpper](param[0]))))))"
			hitOK = apps[0].Elem.String() == want
			pc := pathCond(tb, av.Blocks[0], apps[0].At.Block())
			okAtom := "extract[1](lookup[,ok](" + tb.T(lk.X).String() + ", extract[2](next(range(call[strings.ToUpper](param[0]))))))"
			if !pc.implies(okAtom, false) {
				hitOK = false
			}
		}
		hitSt := holds
		if !hitOK {
			hitSt = unknown
		}
		c.judge(hitSt, "SHAPE", "one list per position, in order", prodCall.Pos(), "each position's expansion list is appended once, in input order, and all are passed to the product", "the lists handed to the product are not exactly one expansion list per input position in order")
		// result rows converted in order
		var succ *ssa.Return
		for _, r := range returnsOf(av) {
			if e := tb.T(r.Results[1]); e.Op == "const" && strings.HasPrefix(e.Name, "nil:") {
				succ = r
			}
		}
		good := false
		if succ != nil {
			rt := tb.T(succ.Results[0])
			apps := topAppendSites(rt)
			if len(apps) == 1 {
				good = apps[0].Elem.String() == "conv[string](each("+tb.T(prodCall).String()+"))"
			}
		}
		rowSt := holds
		if !good {
			rowSt = unknown
		}
		c.judge(rowSt, "SHAPE", "result=each product row as string", av.Pos(), "every row of the product is returned as a string, in order", "the returned list is not exactly string(row) for each row of the product (unrecognised shape)")
		checkOdometer(c, w.fn("transform/variants", "cartRune"))
	} else {
		c.undecided("SHAPE", "product call", av.Pos(), "AllVariantsIUPAC does not call the Cartesian product helper")
	}
}

// checkOdometer: the carry loop of the product must range over every position len-1 .. 0.
// A counted loop "for i := len(X)-1; i >= 0; i--" that increments choice[i], breaks when choice[i] < len(list[i]), else resets it.
func checkOdometer(c *Ctx, f *ssa.Function) {
	if f == nil {
		c.missingHelper("SHAPE", "ODOMETER", "variants.cartRune")
		return
	}
	c.useFn(f)
	tb := newTB(f)
	found, good, unknownLoops := 0, 0, 0
	var pos token.Pos
	why := "no descending carry loop found"
	for _, b := range f.Blocks {
		for _, ins := range b.Instrs {
			ph, ok := ins.(*ssa.Phi)
			if !ok || len(ph.Edges) != 2 {
				continue
			}
			// phi(len(X)-1, phi-1)
			var init, step ssa.Value
			for _, e := range ph.Edges {
				if bo, ok := e.(*ssa.BinOp); ok && bo.Op == token.SUB && bo.X == ssa.Value(ph) {
					step = e
				} else {
					init = e
				}
			}
			if init == nil || step == nil {
				continue
			}
			it := tb.T(init)
			base, k := it.linear()
			if base == nil || !base.isCall("builtin:len") || k != -1 {
				continue
			}
			found++
			pos = ph.Pos()
			// loop condition in the phi's block: phi >= 0  (normalised: const[0] <= phi)
			ifi, ok := b.Instrs[len(b.Instrs)-1].(*ssa.If)
			if !ok {
				why = "carry loop header has no condition"
				continue
			}
			cond, ok := ifi.Cond.(*ssa.BinOp)
			if !ok {
				why = "carry loop condition unrecognised"
				continue
			}
			zero := func(v ssa.Value) bool {
				cst, ok := v.(*ssa.Const)
				return ok && cst.Value != nil && cst.Value.ExactString() == "0"
			}
			m1 := func(v ssa.Value) bool {
				cst, ok := v.(*ssa.Const)
				return ok && cst.Value != nil && cst.Value.ExactString() == "-1"
			}
			covers := (cond.Op == token.GEQ && cond.X == ssa.Value(ph) && zero(cond.Y)) ||
				(cond.Op == token.LEQ && cond.Y == ssa.Value(ph) && zero(cond.X)) ||
				(cond.Op == token.GTR && cond.X == ssa.Value(ph) && m1(cond.Y)) ||
				(cond.Op == token.LSS && cond.Y == ssa.Value(ph) && m1(cond.X))
			st, ok2 := step.(*ssa.BinOp)
			one := false
			if ok2 {
				if cst, ok := st.Y.(*ssa.Const); ok && cst.Value != nil && cst.Value.ExactString() == "1" {
					one = true
				}
			}
			// evidence that position 0 is left out: the loop is bounded by a comparison of its own index with a
			// constant that stops above 0 (i > 0, i >= 1). A loop that runs while a condition on the DATA holds
			// (choices[i] == last) has no such bound and is not this model's loop.
			indexBound := (cond.X == ssa.Value(ph) || cond.Y == ssa.Value(ph))
			if _, isC := cond.X.(*ssa.Const); !isC {
				if _, isC2 := cond.Y.(*ssa.Const); !isC2 {
					indexBound = false
				}
			}
			if covers && one && b.Succs[0] != nil {
				good++
			} else if !indexBound {
				unknownLoops++
				why = "the carry loop is not bounded by a comparison of its index with a constant (" + short(tb.T(cond).String()) + ")"
			} else {
				why = fmt.Sprintf("carry loop runs from len-1 while %s (step 1=%v): position 0 is not visited", short(tb.T(cond).String()), one)
			}
		}
	}
	odSt := holds
	if found == 0 {
		odSt = unknown
	} else if good+unknownLoops != found {
		odSt = broken
	} else if unknownLoops > 0 {
		odSt = unknown
	}
	c.judge(odSt, "SHAPE", "ODOMETER covers positions len-1..0", pos, "the carry loop advances every position, including position 0", why)
}

// tableFromSwitch reads func(r rune) rune written as a switch of constant cases returning constants.
func tableFromSwitch(f *ssa.Function) (map[rune]rune, bool) {
	if len(f.Params) != 1 {
		return nil, false
	}
	tb := newTB(f)
	m := map[rune]rune{}
	for _, a := range resultAlts(tb, f, 0) {
		// expand a merged result
		vals := []*Term{a.T}
		if a.T.Op == "phi" {
			return nil, false
		}
		k, isC := vals[0].constInt()
		var keys []rune
		neg := 0
		for _, at := range a.Cond.atoms() {
			if at.Atom.isBin("==") {
				for i := 0; i < 2; i++ {
					if at.Atom.Args[i].isParam(0) {
						if kk, ok := at.Atom.Args[1-i].constInt(); ok {
							if at.Neg {
								neg++
							} else if !at.Disj {
								keys = append(keys, rune(kk))
							} else {
								keys = append(keys, rune(kk))
							}
						}
					}
				}
			}
		}
		if len(keys) == 0 {
			// default branch: must yield the zero rune (like a missing map key) or the input
			if isC && k == 0 {
				continue
			}
			return nil, false
		}
		if !isC {
			return nil, false
		}
		for _, key := range keys {
			if _, dup := m[key]; dup {
				return nil, false
			}
			m[key] = rune(k)
		}
	}
	return m, len(m) > 0
}

// palindromeState: IsPalindromic(s) must be s == ReverseComplement(s) on every path; a fast path that
// answers from the length alone is wrong for odd lengths (GANTC) – only the empty string may be special.
func palindromeState(f *ssa.Function) (int, string) {
	tb := newTB(f)
	want := "binop[==](call[poly/transform.ReverseComplement](param[0]), param[0])"
	alts := resultAlts(tb, f, 0)
	if len(alts) == 0 {
		return unknown, "no result"
	}
	st := holds
	why := ""
	for _, a := range alts {
		switch {
		case a.T.String() == want:
		case a.T.Op == "const":
			empty := false
			for _, at := range a.Cond.atoms() {
				s := at.Atom.String()
				if !at.Neg && (s == "binop[==](call[builtin:len](param[0]), const[0])" || s == `binop[==](const[""], param[0])`) {
					empty = true
				}
			}
			if !empty {
				// a loop comparing mirrored positions element by element?
				if a.Cond.String() != "true" && strings.Contains(a.Cond.String(), "omplement") || loopCompares(f) {
					return mirrorLoopState(f)
				}
				if a.T.Name == "false" {
					// two shapes of an early "no" are decided. (1) It depends on the LENGTH alone: there is a
					// palindrome of every length ("N", "AT", "ANT", ...), so no length can be ruled out.
					lengthOnly, lettersEqual := true, false
					for _, at := range a.Cond.atoms() {
						stripped := strings.ReplaceAll(at.Atom.String(), "call[builtin:len](param[0])", "L")
						if strings.Contains(stripped, "param[0]") {
							lengthOnly = false
						}
						// (2) two letters of the text compared with each other for equality, no complement involved
						if at.Atom.isBin("==") && !at.Neg && !at.Disj && len(at.Atom.Args) == 2 {
							x, y := stripConv(at.Atom.Args[0]), stripConv(at.Atom.Args[1])
							if x.Op == "index" && y.Op == "index" && len(x.Args) == 2 && len(y.Args) == 2 && x.Args[0].isParam(0) && y.Args[0].isParam(0) && !strings.Contains(a.Cond.String(), "omplement") {
								lettersEqual = true
							}
						}
					}
					if lengthOnly && len(a.Cond.atoms()) > 0 {
						return broken, "a path answers false under " + short(a.Cond.String()) + ", a condition on the length alone: there are palindromes of every length (\"N\", \"AT\", \"ANT\"), so none can be ruled out by its length"
					}
					if lettersEqual {
						return broken, "a path answers false under " + short(a.Cond.String()) + " because two letters of the sequence are equal: the codes that are their own complement (N, S, W) pair with themselves, so \"NN\" and \"SATS\" are palindromic"
					}
					// an early "no": a necessary condition of being palindromic tested first (a composition count,
					// the two end letters) is sound when it really is necessary; whether it is, is not decided here
					st = unknown
					why = "a path answers false under " + short(a.Cond.String()) + " before the sequence is compared with its reverse complement; whether every palindrome passes that test is not decided"
					continue
				}
				return broken, "a path answers " + a.T.Name + " under " + short(a.Cond.String()) + " without comparing the sequence with its reverse complement"
			}
		case (a.T.isCall("strings.EqualFold") || a.T.isCall("bytes.EqualFold")) && len(a.T.Args) == 2 &&
			((a.T.Args[0].isParam(0) && a.T.Args[1].String() == "call[poly/transform.ReverseComplement](param[0])") || (a.T.Args[1].isParam(0) && a.T.Args[0].String() == "call[poly/transform.ReverseComplement](param[0])")):
			// the very comparison the property names, made with a weaker equality
			return broken, "IsPalindromic compares the sequence with its reverse complement case-insensitively (EqualFold): \"aT\" is reported palindromic although its reverse complement is \"At\"; reverse complement preserves case, so the property's equality is exact"
		case a.T.isBin("==") && len(a.T.Args) == 2 && func() bool {
			// the comparison is made, but on a copy of the sequence that a library function has cut or respelt
			// (Trim, TrimSpace, ToUpper ...): flanks or case that the sequence has and the copy has not decide it
			x, y := a.T.Args[0], a.T.Args[1]
			if y.isCall("poly/transform.ReverseComplement") {
				x, y = y, x
			}
			if !x.isCall("poly/transform.ReverseComplement") || len(x.Args) != 1 || x.Args[0].String() != y.String() {
				return false
			}
			return y.Op == "call" && strings.HasPrefix(y.Name, "strings.") && y.Name != "strings.Clone" && len(y.Args) >= 1 && y.Args[0].isParam(0) && len(opaqueParts(y, nil)) == 0
		}():
			return broken, "IsPalindromic compares a rewritten copy of the sequence with that copy's reverse complement (" + short(a.T.String()) + "): what the library call takes off or respells (flanking letters, letter case) is part of the sequence the property speaks of"
		default:
			st = unknown
			why = "IsPalindromic is " + short(a.T.String())
			if len(opaqueParts(a.T, vocabOf(want, "call[poly/transform.Complement](x)", "call[poly/transform.Reverse](x)"))) == 0 && localDiff(a.T, want) {
				return broken, "IsPalindromic compares " + short(a.T.String()) + "; want s == ReverseComplement(s)"
			}
		}
	}
	return st, why
}

// readGlobalRuneLists reads a package-level map[rune][]rune / map[rune]string literal.
func readGlobalRuneLists(w *World, gt *Term) (map[rune][]rune, []string) {
	g, ok := gt.V.(*ssa.Global)
	if !ok || g.Pkg == nil {
		return nil, []string{"not a package-level variable"}
	}
	var pk = w.Pkgs[g.Pkg.Pkg.Path()]
	v := pkgVar(pk, g.Name())
	if v == nil {
		return nil, []string{"variable not found"}
	}
	init := varInit(pk, v)
	if init == nil {
		return nil, []string{"not initialised by one literal"}
	}
	av := evalAST(pk, init)
	if av.Kind != "comp" {
		return nil, []string{"not a composite literal"}
	}
	out := map[rune][]rune{}
	for _, e := range av.Elts {
		if e.Key == nil || e.Key.Kind != "int" {
			return nil, []string{"non-constant key"}
		}
		var lst []rune
		switch e.Val.Kind {
		case "string":
			lst = []rune(e.Val.Str)
		case "comp":
			for _, x := range e.Val.Elts {
				if x.Val.Kind != "int" {
					return nil, []string{"non-constant element"}
				}
				lst = append(lst, rune(x.Val.Int))
			}
		default:
			return nil, []string{"unrecognised value for " + string(rune(e.Key.Int))}
		}
		if _, dup := out[rune(e.Key.Int)]; dup {
			return nil, []string{"duplicate key"}
		}
		out[rune(e.Key.Int)] = lst
	}
	if ws := globalWriters(&Ctx{W: w}, strings.TrimPrefix(strings.TrimPrefix(g.Pkg.Pkg.Path(), modPath), "/"), g.Name()); len(ws) > 0 {
		return nil, []string{"table written at run time"}
	}
	return out, nil
}

// loopCompares: does f compare elements against a complement inside a loop?
func loopCompares(f *ssa.Function) bool {
	found := false
	eachInstr(f, func(i ssa.Instruction) {
		if ci, ok := i.(ssa.CallInstruction); ok && strings.Contains(calleeName(ci), "omplement") && inLoop(ci.Block()) {
			found = true
		}
	})
	return found
}
