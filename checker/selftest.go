package main

// selftest.go: rule liveness. Each rule ships single-edit variants of the *current* tree,
// produced in a scratch copy outside /repo and /verif and deleted right after. The variant must
// type-check and the rule must fire on it naming the edited construct. Liveness never decides a
// property: a silent rule is a checker defect (SELFTEST-FAILED), reported in the evidence.

import (
	"fmt"
	"os"
	"path/filepath"
	"regexp"
	"sort"
	"strings"
)

type variant struct {
	Prop    string
	Name    string
	File    string // repo-relative
	Find    string // regexp (single match required)
	Replace string
	Expect  string // substring of the obligation key expected to become VIOLATION
	Silent  bool   // behaviour-preserving variant: no new violation may appear
	All     bool   // replace every match (default: exactly one match required)
}

var variants []variant

func addVariant(v variant) { variants = append(variants, v) }

type liveResult struct {
	Variant string `json:"variant"`
	Edit    string `json:"edit"`
	Outcome string `json:"outcome"` // fired | silent-as-expected | SELFTEST-FAILED | skipped (anchor gone) | skipped (variant does not type-check)
	Report  string `json:"report,omitempty"`
}

func copyTree(src, dst string) error {
	return filepath.Walk(src, func(p string, info os.FileInfo, err error) error {
		if err != nil {
			return err
		}
		rel, _ := filepath.Rel(src, p)
		if info.IsDir() {
			if info.Name() == ".git" || (rel != "." && strings.HasPrefix(info.Name(), ".")) {
				return filepath.SkipDir
			}
			return os.MkdirAll(filepath.Join(dst, rel), 0o755)
		}
		if !info.Mode().IsRegular() {
			return nil
		}
		// data files are irrelevant to the analysis; keep go sources and module files
		if !(strings.HasSuffix(p, ".go") || info.Name() == "go.mod" || info.Name() == "go.sum") {
			return nil
		}
		b, err := os.ReadFile(p)
		if err != nil {
			return err
		}
		return os.WriteFile(filepath.Join(dst, rel), b, 0o644)
	})
}

func baselineVerdicts(repo, prop string) (map[string]Verdict, error) {
	w, err := loadWorld(repo, false, "", "")
	if err != nil {
		return nil, err
	}
	c := newCtx(w, prop, "quick")
	var perr error
	func() {
		defer func() {
			if r := recover(); r != nil {
				perr = fmt.Errorf("panic: %v", r)
			}
		}()
		registry[prop](c)
	}()
	if perr != nil {
		return nil, perr
	}
	for r, fl := range c.Floors {
		if c.Counts[r] < fl {
			c.add("FLOOR", r, UNDECIDED, 0, "floor")
		}
	}
	out := map[string]Verdict{}
	for _, o := range c.Obs {
		out[o.Key] = o.Verdict
	}
	return out, nil
}

func runLiveness(repo, prop string, seed int64) []liveResult {
	var vs []variant
	for _, v := range variants {
		if v.Prop == prop {
			vs = append(vs, v)
		}
	}
	if len(vs) == 0 {
		return nil
	}
	// VERIF_SEED only rotates the order
	if n := len(vs); n > 0 && seed != 0 {
		k := int(((seed % int64(n)) + int64(n)) % int64(n))
		vs = append(vs[k:], vs[:k]...)
	}
	base, err := baselineVerdicts(repo, prop)
	if err != nil {
		return []liveResult{{Variant: "*", Outcome: "skipped (baseline failed: " + err.Error() + ")"}}
	}
	var out []liveResult
	for _, v := range vs {
		out = append(out, runVariant(repo, v, base))
	}
	return out
}

func runVariant(repo string, v variant, base map[string]Verdict) liveResult {
	res := liveResult{Variant: v.Prop + "/" + v.Name, Edit: fmt.Sprintf("%s: s/%s/%s/", v.File, v.Find, v.Replace)}
	src, err := os.ReadFile(filepath.Join(repo, v.File))
	if err != nil {
		res.Outcome = "skipped (anchor gone)"
		return res
	}
	re, err := regexp.Compile(v.Find)
	if err != nil {
		res.Outcome = "skipped (bad pattern)"
		return res
	}
	locs := re.FindAllIndex(src, -1)
	if (len(locs) != 1 && !v.All) || len(locs) == 0 {
		res.Outcome = "skipped (anchor gone)"
		return res
	}
	tmp, err := os.MkdirTemp("", "polycheck-variant-")
	if err != nil {
		res.Outcome = "skipped (no temp dir)"
		return res
	}
	defer os.RemoveAll(tmp)
	if err := copyTree(repo, tmp); err != nil {
		res.Outcome = "skipped (copy failed)"
		return res
	}
	edited := re.ReplaceAll(src, []byte(v.Replace))
	os.WriteFile(filepath.Join(tmp, v.File), edited, 0o644)
	got, err := baselineVerdicts(tmp, v.Prop)
	if err != nil {
		res.Outcome = "skipped (variant does not type-check)"
		res.Report = err.Error()
		return res
	}
	var newBad []string
	for k, vd := range got {
		if vd == VIOLATION && base[k] != VIOLATION {
			newBad = append(newBad, k)
		}
	}
	sort.Strings(newBad)
	res.Report = strings.Join(newBad, " ; ")
	if v.Silent {
		if len(newBad) == 0 {
			res.Outcome = "silent-as-expected"
		} else {
			res.Outcome = "SELFTEST-FAILED (fired on a behaviour-preserving variant)"
		}
		return res
	}
	for _, k := range newBad {
		if strings.Contains(k, v.Expect) {
			res.Outcome = "fired"
			return res
		}
	}
	res.Outcome = "SELFTEST-FAILED (rule silent on its own variant)"
	return res
}

func runSelftest(repo, prop string, seed int64) int {
	ids := []string{}
	for id := range registry {
		if prop == "" || prop == "all" || prop == id {
			ids = append(ids, id)
		}
	}
	sort.Strings(ids)
	fail := 0
	total := 0
	for _, id := range ids {
		for _, r := range runLiveness(repo, id, seed) {
			total++
			fmt.Printf("%-40s %-28s %s\n", r.Variant, r.Outcome, r.Report)
			if strings.HasPrefix(r.Outcome, "SELFTEST-FAILED") || strings.HasPrefix(r.Outcome, "skipped") {
				fail++
			}
		}
	}
	fmt.Printf("selftest: %d variants, %d not as expected\n", total, fail)
	if fail > 0 {
		return 1
	}
	return 0
}
