package main

// tags.go (K4/TAGS): struct-tag discipline for encoding/json round trips.

import (
	"fmt"
	"go/types"
	"reflect"
	"sort"
	"strings"
)

// typeClosure lists the named struct types reachable from t through fields, slices, maps, pointers, arrays.
func typeClosure(t types.Type) []*types.Named {
	seen := map[*types.Named]bool{}
	var out []*types.Named
	var visit func(t types.Type)
	visit = func(t types.Type) {
		t = types.Unalias(t) // type Features = []Feature
		switch x := t.(type) {
		case *types.Named:
			if seen[x] {
				return
			}
			if st, ok := x.Underlying().(*types.Struct); ok {
				seen[x] = true
				out = append(out, x)
				for i := 0; i < st.NumFields(); i++ {
					visit(st.Field(i).Type())
				}
			} else {
				visit(x.Underlying())
			}
		case *types.Pointer:
			visit(x.Elem())
		case *types.Slice:
			visit(x.Elem())
		case *types.Array:
			visit(x.Elem())
		case *types.Map:
			visit(x.Key())
			visit(x.Elem())
		}
	}
	visit(t)
	sort.Slice(out, func(i, j int) bool { return out[i].Obj().Name() < out[j].Obj().Name() })
	return out
}

func jsonKindOK(t types.Type, closure map[*types.Named]bool) bool {
	t = types.Unalias(t)
	switch x := t.(type) {
	case *types.Basic:
		return x.Info()&(types.IsString|types.IsInteger|types.IsBoolean|types.IsFloat) != 0
	case *types.Named:
		if closure[x] {
			return true
		}
		return jsonKindOK(x.Underlying(), closure)
	case *types.Slice:
		return jsonKindOK(x.Elem(), closure)
	case *types.Map:
		b, ok := x.Key().Underlying().(*types.Basic)
		return ok && b.Kind() == types.String && jsonKindOK(x.Elem(), closure)
	case *types.Struct:
		return true
	}
	return false
}

// checkJSONTags applies the TAGS rule to every struct in the closure of root. allowDash lists
// "Type.Field" entries that may be excluded from JSON with a reason.
func checkJSONTags(c *Ctx, rule string, root types.Type, allowDash map[string]string) (structs, fields int) {
	cl := typeClosure(root)
	inCl := map[*types.Named]bool{}
	for _, n := range cl {
		inCl[n] = true
	}
	// a type that encodes itself (MarshalJSON & co.) decides its member names in code: the tags of that type and of
	// everything it contains no longer say what is written, so nothing below is evidence either way
	custom := map[*types.Named][]string{}
	anyCustom := false
	for _, n := range cl {
		for _, recv := range []types.Type{n, types.NewPointer(n)} {
			ms := types.NewMethodSet(recv)
			for i := 0; i < ms.Len(); i++ {
				switch ms.At(i).Obj().Name() {
				case "MarshalJSON", "UnmarshalJSON", "MarshalText", "UnmarshalText":
					custom[n] = append(custom[n], ms.At(i).Obj().Name())
					anyCustom = true
				}
			}
		}
	}
	for _, n := range cl {
		st := n.Underlying().(*types.Struct)
		structs++
		var problems []string
		names := map[string]string{}
		var embedded []string
		for i := 0; i < st.NumFields(); i++ {
			f := st.Field(i)
			fields++
			q := n.Obj().Name() + "." + f.Name()
			tag := reflect.StructTag(st.Tag(i)).Get("json")
			parts := strings.Split(tag, ",")
			name := parts[0]
			if tag == "-" {
				if _, ok := allowDash[q]; !ok {
					problems = append(problems, q+" is excluded from JSON (json:\"-\"): its value is lost")
				}
				continue
			}
			if !f.Exported() {
				problems = append(problems, q+" is unexported: encoding/json silently skips it")
				continue
			}
			if f.Embedded() {
				// encoding/json promotes the members of an untagged embedded struct into the outer object: the
				// shape may well be the same as before; which names result is not worked out here
				embedded = append(embedded, q)
			}
			if name == "" {
				name = f.Name()
			}
			for _, opt := range parts[1:] {
				if opt == "omitempty" {
					switch f.Type().Underlying().(type) {
					case *types.Slice, *types.Map, *types.Pointer:
						problems = append(problems, q+" has omitempty on a collection: empty and absent become indistinguishable")
					}
				}
				if opt == "string" {
					problems = append(problems, q+" uses the ,string option (changes the encoding)")
				}
			}
			lc := strings.ToLower(name)
			if prev, dup := names[lc]; dup {
				problems = append(problems, fmt.Sprintf("%s and %s share the JSON name %q (case-insensitively): encoding/json drops or cross-assigns them", prev, q, name))
			}
			names[lc] = q
			if !jsonKindOK(f.Type(), inCl) {
				problems = append(problems, q+" has type "+tname(f.Type())+", outside {string,int,bool,float,struct,slice,map[string]T}")
			}
		}
		sort.Strings(problems)
		// dedupe
		u := problems[:0]
		for i, p := range problems {
			if i == 0 || p != problems[i-1] {
				u = append(u, p)
			}
		}
		if anyCustom {
			sort.Strings(custom[n])
			why := "a type in this closure encodes itself; the member names are decided in that code, not by the tags"
			if len(custom[n]) > 0 {
				why = n.Obj().Name() + " has its own " + strings.Join(dedupe(custom[n]), ", ") + ": the member names are decided in that code, not by the tags"
			}
			c.undecided(rule, n.Obj().Pkg().Name()+"."+n.Obj().Name(), n.Obj().Pos(), why)
			continue
		}
		if len(u) == 0 && len(embedded) > 0 {
			c.undecided(rule, n.Obj().Pkg().Name()+"."+n.Obj().Name(), n.Obj().Pos(), strings.Join(embedded, ", ")+" is embedded: its members are promoted into the outer JSON object; the resulting names are not worked out")
			continue
		}
		c.check(len(u) == 0, rule, n.Obj().Pkg().Name()+"."+n.Obj().Name(), n.Obj().Pos(), fmt.Sprintf("%d fields: exported, unique JSON names, plain kinds, no omitempty on collections, no custom marshaler", st.NumFields()), strings.Join(u, "; "))
	}
	return
}
