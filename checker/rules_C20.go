package main

// C20 Uniprot streaming delivers every entry once, in order, and terminates.

import (
	"fmt"
	"go/types"
	"reflect"
	"strings"

	"golang.org/x/tools/go/ssa"
)

func init() { register("C20", ruleC20) }

func structTag(t types.Type, field, key string) (string, bool) {
	st, ok := t.Underlying().(*types.Struct)
	if !ok {
		return "", false
	}
	for i := 0; i < st.NumFields(); i++ {
		if st.Field(i).Name() == field {
			return reflect.StructTag(st.Tag(i)).Get(key), true
		}
	}
	return "", false
}

func ruleC20(c *Ctx) {
	c.Decided = []string{
		"CHANLIFE: entries and errors are each closed exactly once on every path out of Parse, no send after close, sends are plain blocking sends; Read starts Parse as a goroutine only after both open steps succeeded, hands it the gzip reader untouched, and returns the same two channels",
		"LOOPEXIT: in the loop that calls (*xml.Decoder).Token every path from a non-EOF error leaves the loop (decoder errors are sticky)",
		"GUARD: one Token call site per iteration and every token is inspected; an entry is sent exactly for StartElement with local name \"entry\", once per element (single send, not nested in another loop), decoded from that start element",
		"TAGS: Entry.Accession/Name/Sequence carry the uniprot-namespace element names, SequenceType.Value is ,chardata",
	}
	c.Undec = []string{"progress when the error channel is unbuffered and the consumer drains entries first", "content of a partially decoded entry", "encoding/xml and compress/gzip behaviour (std contract)"}
	c.Trusted = []string{"encoding/xml: Token returns the same syntax error once it has failed", "compress/gzip reads all members by default"}
	c.floor("CHANLIFE", 7)
	c.floor("LOOPEXIT", 1)
	c.floor("GUARD", 3)
	c.floor("TAGS", 4)
	w := c.W
	parse := w.fn("io/uniprot", "Parse")
	read := w.fn("io/uniprot", "Read")
	if parse == nil || read == nil {
		c.missing("CHANLIFE", "uniprot.Parse/Read", "exported functions uniprot.Parse and uniprot.Read")
		return
	}
	c.useFn(parse)
	c.useFn(read)
	if len(parse.Params) != 3 || !isChanType(parse.Params[1].Type()) || !isChanType(parse.Params[2].Type()) {
		c.bad("CHANLIFE", "uniprot.Parse:signature", parse.Pos(), "Parse(r, entries, errors) signature changed (unrecognised shape)")
		return
	}
	entries, errs := parse.Params[1], parse.Params[2]
	checkCloseOnce(c, "CHANLIFE", parse, entries, "entries")
	checkCloseOnce(c, "CHANLIFE", parse, errs, "errors")
	for _, p := range []*ssa.Parameter{entries, errs} {
		esc := chanEscapes(parse, p, nil)
		c.check(len(esc) == 0, "CHANLIFE", "no-handoff/"+p.Name(), parse.Pos(), "channel is only sent on and closed inside Parse", "channel "+p.Name()+" is handed to other code that this analysis does not follow: "+strings.Join(esc, ", "))
	}
	tb := newTB(parse)

	// ---- LOOPEXIT + GUARD
	tokCalls := callsIn(parse, "(*encoding/xml.Decoder).Token")
	var advancing []string
	eachInstr(parse, func(i ssa.Instruction) {
		if ci, ok := i.(ssa.CallInstruction); ok {
			n := calleeName(ci)
			if strings.HasPrefix(n, "(*encoding/xml.Decoder).") && n != "(*encoding/xml.Decoder).Token" && n != "(*encoding/xml.Decoder).DecodeElement" {
				advancing = append(advancing, n)
			}
		}
	})
	if len(tokCalls) != 1 || len(advancing) > 0 {
		c.bad("GUARD", "one Token site, every token inspected", parse.Pos(), fmt.Sprintf("%d (*xml.Decoder).Token call sites (want 1) and other decoder-advancing calls %v: a token read elsewhere is never tested for being an entry start", len(tokCalls), advancing))
		if len(tokCalls) == 0 {
			return
		}
	}
	tok := tokCalls[0].(*ssa.Call)
	tokBlock := tok.Block()
	if !inLoop(tokBlock) {
		c.bad("LOOPEXIT", "token loop", tok.Pos(), "Token is not called in a loop (unrecognised shape)")
		return
	}
	// token value must flow to a StartElement type assertion
	var ta *ssa.TypeAssert
	var errVal ssa.Value
	for _, r := range *tok.Referrers() {
		if ex, ok := r.(*ssa.Extract); ok {
			if ex.Index == 0 {
				for _, rr := range *ex.Referrers() {
					if t, ok := rr.(*ssa.TypeAssert); ok && tname(t.AssertedType) == "encoding/xml.StartElement" {
						ta = t
					}
				}
			} else {
				errVal = ex
			}
		}
	}
	if len(tokCalls) == 1 && len(advancing) == 0 {
		c.check(ta != nil, "GUARD", "one Token site, every token inspected", tok.Pos(), "the single Token() result is type-asserted to xml.StartElement", "the token is not tested for being a StartElement")
	}
	// LOOPEXIT
	var errIf *ssa.If
	if errVal != nil {
		for _, r := range *errVal.Referrers() {
			if bo, ok := r.(*ssa.BinOp); ok {
				for _, rr := range *bo.Referrers() {
					if ifi, ok := rr.(*ssa.If); ok && strings.HasPrefix(tb.T(bo).String(), "binop[!=](const[nil:error]") {
						errIf = ifi
					}
				}
			}
		}
	}
	if errIf == nil {
		c.bad("LOOPEXIT", "Token error leaves the loop", tok.Pos(), "the error returned by Token is not tested with err != nil (unrecognised shape)")
	} else {
		tsucc := errIf.Block().Succs[0]
		back := tsucc == tokBlock || reaches(tsucc, tokBlock)
		c.check(!back, "LOOPEXIT", "Token error leaves the loop", errIf.Pos(),
			"no path from the err != nil branch returns to the Token call",
			"a path from the `err != nil` branch of Token() re-enters the loop: a sticky decoder error (truncated/malformed input) is re-read forever, the consumer is blocked and the channels are never closed")
	}
	// GUARD: the entry send
	es := sendsOn(parse, entries)
	if len(es) != 1 {
		c.bad("GUARD", "entry send", parse.Pos(), fmt.Sprintf("%d send sites on entries, want 1", len(es)))
	} else {
		s := es[0]
		pc := pathCond(tb, tokBlock, s.Block()).String()
		hasOK := ta != nil && strings.Contains(pc, "extract[1]("+tb.T(ta).String()+")") && !strings.Contains(pc, "!(extract[1]("+tb.T(ta).String()+"))")
		hasName := strings.Contains(pc, "const[\"entry\"]") && strings.Contains(pc, "field[Local](field[Name](") && strings.Contains(pc, "binop[==](")
		negName := strings.Contains(pc, "!(binop[==](") && strings.Contains(pc[strings.Index(pc, "!(binop[==]("):], "const[\"entry\"]") && !strings.Contains(pc, "const[nil:error]")
		hdr := enclosingLoopHeader(s.Block())
		sameLoop := hdr != nil && (hdr == enclosingLoopHeader(tokBlock))
		c.check(hasOK && hasName && !negName && sameLoop, "GUARD", "entry send iff StartElement \"entry\"", s.Pos(),
			"sent under ok && Name.Local == \"entry\", once per token",
			"the entry send is not guarded by (token is StartElement && Name.Local == \"entry\") in the token loop: "+short(pc))
		// the value sent was decoded by DecodeElement from that start element
		de := callsIn(parse, "(*encoding/xml.Decoder).DecodeElement")
		good := false
		if len(de) == 1 {
			v := tb.T(s.X)
			good = v.contains(func(x *Term) bool { return x.Op == "outparam" && x.Name == "(*encoding/xml.Decoder).DecodeElement" }) || v.Op == "zero"
			// the alloc sent must be the one handed to DecodeElement
			if ld, ok := s.X.(*ssa.UnOp); ok {
				good = ld.X == unwrap(de[0].Common().Args[1]) && domInstr(de[0], s)
			}
		}
		c.check(good, "GUARD", "entry decoded from its start element", s.Pos(), "the value sent is the Entry filled by DecodeElement(&e, &startElement) just before", "the value sent is not the Entry decoded by the single DecodeElement call")
	}

	// ---- Read
	rtb := newTB(read)
	gs := goSites(read, parse)
	if len(gs) != 1 {
		c.bad("CHANLIFE", "Read:go Parse", read.Pos(), fmt.Sprintf("%d `go Parse` sites in Read, want 1", len(gs)))
	} else {
		g := gs[0]
		args := []ssa.Value{unwrap(g.Call.Args[0]), unwrap(g.Call.Args[1]), unwrap(g.Call.Args[2])}
		rd := rtb.T(args[0]).String()
		wantRd := "extract[0](call[compress/gzip.NewReader](extract[0](call[os.Open](param[0]))))"
		pc := pathCond(rtb, read.Blocks[0], g.Block()).String()
		n := strings.Count(pc, "!(binop[!=](const[nil:error]")
		_, mk1 := args[1].(*ssa.MakeChan)
		_, mk2 := args[2].(*ssa.MakeChan)
		c.check(rd == wantRd && n == 2 && mk1 && mk2, "CHANLIFE", "Read:go Parse after both opens", g.Pos(),
			"Parse is started on gzip.NewReader(os.Open(path)) only when both calls returned nil errors",
			fmt.Sprintf("reader=%s (want %s); nil-error guards dominating the go statement=%d (want 2)", short(rd), wantRd, n))
		// the reader is handed over untouched
		uses := 0
		if refs := args[0].Referrers(); refs != nil {
			for _, r := range *refs {
				if _, ok := r.(*ssa.DebugRef); !ok {
					uses++
				}
			}
		}
		c.check(uses == 1, "CHANLIFE", "Read:reader untouched", g.Pos(), "the gzip reader's only use is being passed to Parse", fmt.Sprintf("the gzip reader is used %d times in Read (reconfigured or consumed before Parse sees it)", uses))
		okRet := true
		for _, r := range returnsOf(read) {
			if len(r.Results) != 3 || unwrap(r.Results[0]) != args[1] || unwrap(r.Results[1]) != args[2] {
				okRet = false
			}
		}
		c.check(okRet, "CHANLIFE", "Read:returns the parser's channels", read.Pos(), "every return hands back the two channels given to Parse", "Read returns channels other than the ones Parse writes to")
	}

	// ---- TAGS
	sp := w.spkg("io/uniprot")
	for _, tg := range []struct{ typ, field, key, want string }{
		{"Entry", "Accession", "xml", "http://uniprot.org/uniprot accession"},
		{"Entry", "Name", "xml", "http://uniprot.org/uniprot name"},
		{"Entry", "Sequence", "xml", "http://uniprot.org/uniprot sequence"},
		{"SequenceType", "Value", "xml", ",chardata"},
	} {
		t := sp.Type(tg.typ)
		if t == nil {
			c.missing("TAGS", tg.typ+"."+tg.field, "type uniprot."+tg.typ)
			continue
		}
		got, ok := structTag(t.Type(), tg.field, tg.key)
		c.check(ok && got == tg.want, "TAGS", tg.typ+"."+tg.field, t.Pos(), "xml tag = "+tg.want, fmt.Sprintf("xml tag is %q, want %q", got, tg.want))
	}
}
