package main

// C20 Uniprot streaming delivers every entry once, in order, and terminates.

import (
	"go/token"
	"fmt"
	"go/types"
	"reflect"
	"strings"

	"golang.org/x/tools/go/ssa"
)

func init() { register("C20", ruleC20) }

func structTag(t types.Type, field, key string) (string, bool) {
	st, ok := t.Underlying().(*types.Struct)
	if !ok {
		return "", false
	}
	for i := 0; i < st.NumFields(); i++ {
		if st.Field(i).Name() == field {
			return reflect.StructTag(st.Tag(i)).Get(key), true
		}
	}
	return "", false
}

func ruleC20(c *Ctx) {
	c.Decided = []string{
		"CHANLIFE: entries and errors are each closed exactly once on every path out of Parse, no send after close, sends are plain blocking sends; Read starts Parse as a goroutine only after both open steps succeeded, hands it the gzip reader untouched, and returns the same two channels",
		"LOOPEXIT: in the loop that calls (*xml.Decoder).Token every path from a non-EOF error leaves the loop (decoder errors are sticky)",
		"GUARD: one Token call site per iteration and every token is inspected; an entry is sent exactly for StartElement with local name \"entry\", once per element (single send, not nested in another loop), decoded from that start element",
		"TAGS: Entry.Accession/Name/Sequence carry the uniprot-namespace element names, SequenceType.Value is ,chardata",
	}
	c.Undec = []string{"progress when the error channel is unbuffered and the consumer drains entries first", "content of a partially decoded entry", "encoding/xml and compress/gzip behaviour (std contract)"}
	c.Trusted = []string{"encoding/xml: Token returns the same syntax error once it has failed", "compress/gzip reads all members by default"}
	c.floor("CHANLIFE", 8)
	c.floor("LOOPEXIT", 2)
	c.floor("GUARD", 3)
	c.floor("TAGS", 4)
	w := c.W
	parse := w.fn("io/uniprot", "Parse")
	read := w.fn("io/uniprot", "Read")
	if parse == nil || read == nil {
		c.missing("CHANLIFE", "uniprot.Parse/Read", "exported functions uniprot.Parse and uniprot.Read")
		return
	}
	c.useFn(parse)
	c.useFn(read)
	if len(parse.Params) != 3 || !isChanType(parse.Params[1].Type()) || !isChanType(parse.Params[2].Type()) {
		c.undecided("CHANLIFE", "uniprot.Parse:signature", parse.Pos(), "Parse(r, entries, errors) signature changed")
		return
	}
	entries, errs := parse.Params[1], parse.Params[2]
	checkCloseOnce(c, "CHANLIFE", parse, entries, "entries")
	checkCloseOnce(c, "CHANLIFE", parse, errs, "errors")
	for _, p := range []*ssa.Parameter{entries, errs} {
		esc := chanEscapes(parse, p, nil)
		c.checkShape(len(esc) == 0, "CHANLIFE", "no-handoff/"+p.Name(), parse.Pos(), "channel is only sent on and closed inside Parse", "channel "+p.Name()+" is handed to other code that this analysis does not follow: "+strings.Join(esc, ", "))
	}
	tb := newDeepTB(parse)

	// ---- LOOPEXIT + GUARD
	tokCalls := callsIn(parse, "(*encoding/xml.Decoder).Token")
	var advancing []string
	eachInstr(parse, func(i ssa.Instruction) {
		if ci, ok := i.(ssa.CallInstruction); ok {
			n := calleeName(ci)
			if strings.HasPrefix(n, "(*encoding/xml.Decoder).") && n != "(*encoding/xml.Decoder).Token" && n != "(*encoding/xml.Decoder).DecodeElement" {
				advancing = append(advancing, n)
			}
		}
	})
	if len(tokCalls) == 0 {
		c.undecided("GUARD", "one Token site, every token inspected", parse.Pos(), "no (*xml.Decoder).Token call in Parse")
		return
	}
	// every Token result must be inspected for being an entry start
	nUninspected := 0
	var tok *ssa.Call
	var ta *ssa.TypeAssert
	var errVal ssa.Value
	for _, tc := range tokCalls {
		call, ok := tc.(*ssa.Call)
		if !ok {
			continue
		}
		inspected := false
		var thisTA *ssa.TypeAssert
		var thisErr ssa.Value
		for _, r := range *call.Referrers() {
			if ex, ok := r.(*ssa.Extract); ok {
				if ex.Index == 0 {
					for _, rr := range *ex.Referrers() {
						switch t := rr.(type) {
						case *ssa.TypeAssert:
							if tname(t.AssertedType) == "encoding/xml.StartElement" {
								inspected, thisTA = true, t
							}
						case *ssa.DebugRef:
						default:
							_ = t
						}
					}
				} else {
					thisErr = ex
				}
			}
		}
		if inspected {
			tok, ta, errVal = call, thisTA, thisErr
		} else {
			nUninspected++
		}
	}
	switch {
	case nUninspected > 0 && tok != nil:
		c.bad("GUARD", "one Token site, every token inspected", parse.Pos(), fmt.Sprintf("%d of the %d (*xml.Decoder).Token calls discard their token without testing it for an entry start: an <entry> element read there is skipped", nUninspected, len(tokCalls)))
	case tok == nil:
		c.undecided("GUARD", "one Token site, every token inspected", parse.Pos(), "no Token result is type-asserted to xml.StartElement")
		return
	case len(advancing) > 0:
		c.undecided("GUARD", "one Token site, every token inspected", parse.Pos(), fmt.Sprintf("other decoder-advancing calls %v", advancing))
	default:
		c.ok("GUARD", "one Token site, every token inspected", tok.Pos(), "the Token() result is type-asserted to xml.StartElement")
	}
	tokBlock := tok.Block()
	if !inLoop(tokBlock) {
		c.undecided("LOOPEXIT", "token loop", tok.Pos(), "Token is not called in a loop")
		return
	}
	// LOOPEXIT
	var errIf *ssa.If
	errIsNonNilOnTrue := true
	if errVal != nil {
		for _, r := range *errVal.Referrers() {
			if bo, ok := r.(*ssa.BinOp); ok {
				for _, rr := range *bo.Referrers() {
					if ifi, ok := rr.(*ssa.If); ok {
						t := tb.T(bo)
						if strings.HasPrefix(t.String(), "binop[!=](const[nil:error]") {
							errIf, errIsNonNilOnTrue = ifi, true
						} else if strings.HasPrefix(t.String(), "binop[==](const[nil:error]") {
							errIf, errIsNonNilOnTrue = ifi, false
						}
					}
				}
			}
		}
	}
	if errIf == nil {
		c.undecided("LOOPEXIT", "Token error leaves the loop", tok.Pos(), "the error returned by Token is not tested against nil in a form the rule knows")
	} else {
		tsucc := errIf.Block().Succs[0]
		if !errIsNonNilOnTrue {
			tsucc = errIf.Block().Succs[1]
		}
		back := tsucc == tokBlock || reachesFlagAware(errIf.Block(), tsucc, tokBlock)
		c.check(!back, "LOOPEXIT", "Token error leaves the loop", tok.Pos(),
			"no path from the err != nil branch returns to the Token call",
			"a path from the `err != nil` branch of Token() re-enters the loop: a sticky decoder error (truncated/malformed input) is re-read forever, the consumer is blocked and the channels are never closed")
		// which errors end the stream silently: only io.EOF
		errT := tb.T(errVal).String()
		stE, whyE := unknown, "no end-of-input test found in the error branch"
		for _, b := range parse.Blocks {
			if !(b == tsucc || tsucc.Dominates(b)) {
				continue
			}
			ifi, ok := b.Instrs[len(b.Instrs)-1].(*ssa.If)
			if !ok {
				continue
			}
			cd := condOfBool(tb, ifi.Cond, 0)
			for _, a := range cd.atoms() {
				t := a.Atom
				if !strings.Contains(t.String(), errT) || !t.isBin("==") {
					continue
				}
				for k := 0; k < 2; k++ {
					o, e := t.Args[k], t.Args[1-k]
					isErr := e.String() == errT || strings.Contains(e.String(), ".Error]("+errT)
					if !isErr {
						continue
					}
					switch {
					case o.Op == "global" && strings.HasSuffix(o.Name, "io.EOF"):
						if stE != broken {
							stE = holds
						}
					case o.Op == "const" && o.Name == `"EOF"`:
						if stE != broken {
							stE = holds
						}
					case o.Op == "global" || o.Op == "const":
						stE, whyE = broken, "the error "+o.Name+" is treated like a clean end of input: a truncated stream that surfaces as that error between elements ends the parse without any error being reported"
					}
				}
			}
		}
		// the tokenizer's error is looked at for presence only: nothing sends it, stores it, wraps it or tells
		// the end of input from damage (an assignment meant for it went to a variable of the same name
		// declared in the loop, say)
		if stE == unknown && errVal.Referrers() != nil {
			onlyNilTests := len(*errVal.Referrers()) > 0
			for _, r := range *errVal.Referrers() {
				if _, isDbg := r.(*ssa.DebugRef); isDbg {
					continue
				}
				bo, isCmp := r.(*ssa.BinOp)
				if !isCmp || (bo.Op != token.NEQ && bo.Op != token.EQL) {
					onlyNilTests = false
					break
				}
				other := bo.X
				if other == errVal {
					other = bo.Y
				}
				if k, isC := other.(*ssa.Const); !isC || !k.IsNil() {
					onlyNilTests = false
					break
				}
			}
			if onlyNilTests {
				stE, whyE = broken, "the error returned by Token() is only compared with nil: it is never sent, kept or told apart from the end of input, so damage between entries (a truncated stream, a stray tag) ends the parse without any error being reported"
			}
		}
		// the same for the entry decoder: an error from DecodeElement that nobody looks at (the next Token call
		// does not repeat a value-conversion failure) leaves a damaged entry unreported
		eachInstr(parse, func(i ssa.Instruction) {
			cl, ok := i.(*ssa.Call)
			if !ok || stE == broken {
				return
			}
			if n := calleeName(cl); n != "(*encoding/xml.Decoder).DecodeElement" && n != "(*encoding/xml.Decoder).Decode" && n != "(*encoding/xml.Decoder).Skip" {
				return
			}
			used, onlyNil := false, true
			if cl.Referrers() != nil {
				for _, r := range *cl.Referrers() {
					switch x := r.(type) {
					case *ssa.DebugRef:
					case *ssa.BinOp:
						used = true
						k, isK := x.Y.(*ssa.Const)
						if x.X != ssa.Value(cl) {
							k, isK = x.X.(*ssa.Const)
						}
						if !isK || !k.IsNil() || (x.Op != token.EQL && x.Op != token.NEQ) {
							onlyNil = false
						}
					default:
						used, onlyNil = true, false
					}
				}
			}
			if used && onlyNil {
				stE, whyE = broken, "the error returned by "+strings.TrimPrefix(calleeName(cl), "(*encoding/xml.Decoder).")+" is only compared with nil: it is never sent or kept, so a stream that is cut off or damaged there ends the parse (or goes on) without any error being reported"
			}
			if !used {
				stE, whyE = broken, "the error returned by "+strings.TrimPrefix(calleeName(cl), "(*encoding/xml.Decoder).")+" is discarded: an entry that fails to decode (a malformed value, a truncated element) is delivered half-filled and no error is reported for it"
			}
		})
		c.judge(stE, "LOOPEXIT", "only io.EOF ends the stream silently", tok.Pos(), "the only error not forwarded to the error channel is the end of input", whyE)
	}
	// GUARD: the entry send
	es := sendsOn(parse, entries)
	if len(es) != 1 {
		c.undecided("GUARD", "entry send", parse.Pos(), fmt.Sprintf("%d send sites on entries, the model needs 1", len(es)))
	} else {
		s := es[0]
		pc := pathCond(tb, tokBlock, s.Block())
		okAtom := "extract[1](" + tb.T(ta).String() + ")"
		nameAtom := `binop[==](const["entry"], field[Local](field[Name](extract[0](` + tb.T(ta).String() + `))))`
		hdr := enclosingLoopHeader(s.Block())
		sameLoop := hdr != nil && (hdr == enclosingLoopHeader(tokBlock))
		st, why := holds, ""
		switch {
		case pc.implies(okAtom, true):
			st, why = broken, "an entry is sent when the token is NOT a start element"
		case pc.implies(nameAtom, true):
			st, why = broken, "an entry is sent for start elements whose name is NOT \"entry\""
		case !pc.implies(okAtom, false):
			st, why = unknown, "the entry send is not visibly guarded by the StartElement test: "+short(pc.String())
		case !pc.implies(nameAtom, false):
			st, why = unknown, "the entry send is not visibly guarded by Name.Local == \"entry\": "+short(pc.String())
			for _, a := range pc.atoms() {
				if a.Atom.isBin("==") && !a.Neg && !a.Disj && strings.Contains(a.Atom.String(), "field[Local](field[Name](") {
					for k := 0; k < 2; k++ {
						if cs, ok := a.Atom.Args[k].constStr(); ok && cs != "entry" {
							st, why = broken, fmt.Sprintf("entries are sent for elements named %q, not \"entry\"", cs)
						}
					}
				}
			}
		case !sameLoop:
			st, why = broken, "the entry send sits in an inner loop: one element can be delivered several times"
			if hdr == nil {
				st, why = unknown, "the entry send is not in the token loop"
			}
		}
		if st == holds {
			// nothing else may decide whether a decoded entry is delivered: a condition on what was decoded
			// drops well-formed entries without a word
			if des := callsIn(parse, "(*encoding/xml.Decoder).DecodeElement"); len(des) == 1 && len(des[0].Common().Args) >= 2 {
				if al, isAl := des[0].Common().Args[1].(*ssa.MakeInterface); isAl {
					ent := tb.T(al.X).String()
					for _, a := range pc.atoms() {
						as := a.Atom.String()
						if as == okAtom || as == nameAtom {
							continue
						}
						if strings.Contains(as, ent) || strings.Contains(as, "outparam[(*encoding/xml.Decoder).DecodeElement]") {
							st, why = broken, "a decoded entry is delivered only under "+short(pathCondString([]condAtom{a}))+", a condition on what was decoded: an <entry> element for which it fails is dropped with neither an entry nor an error, so k entries in the document yield fewer than k"
						}
					}
				}
			}
		}
		c.judge(st, "GUARD", "entry send iff StartElement \"entry\"", s.Pos(), "sent under ok && Name.Local == \"entry\", once per token", why)
		// the value sent was decoded by DecodeElement from that start element
		de := callsIn(parse, "(*encoding/xml.Decoder).DecodeElement")
		good := false
		if len(de) == 1 {
			if ld, ok := s.X.(*ssa.UnOp); ok {
				good = ld.X == unwrap(de[0].Common().Args[1]) && domInstr(de[0], s)
			}
		}
		if good {
			// a fresh record per element: the Entry decoded into is allocated inside the token loop. A record that
			// lives across iterations shares its slices with the copies already sent (still queued in the channel).
			if a, ok := unwrap(de[0].Common().Args[1]).(*ssa.Alloc); ok {
				hdrA, hdrT := enclosingLoopHeader(a.Block()), enclosingLoopHeader(tokBlock)
				if hdrA == nil && hdrT != nil {
					wholeReset := false
					eachInstr(parse, func(i ssa.Instruction) {
						if stx, ok := i.(*ssa.Store); ok && stx.Addr == ssa.Value(a) && inLoop(stx.Block()) {
							if v := tb.T(stx.Val); v.Op == "const" || v.Op == "zero" {
								wholeReset = true
							}
						}
					})
					// ... and a reset that keeps the old backing arrays (x = T{F: x.F[:0]}) is no reset of what was sent
					reused := false
					eachInstr(parse, func(i ssa.Instruction) {
						if stx, ok := i.(*ssa.Store); ok && inLoop(stx.Block()) {
							if fa, ok := stx.Addr.(*ssa.FieldAddr); ok && fa.X == ssa.Value(a) {
								if v := tb.T(stx.Val); v.Op == "slice" && v.contains(func(x *Term) bool { return x.Op == "outparam" && strings.Contains(x.Name, "DecodeElement") }) {
									reused = true
								}
							}
						}
					})
					if !wholeReset || reused {
						c.bad("GUARD", "a fresh Entry per element", a.Pos(), "the Entry that DecodeElement fills is declared outside the token loop and never reset as a whole: every entry sent shares its slices (accessions, names, ...) with the next decode, so entries still queued in the channel are overwritten before the consumer reads them")
					}
				}
			}
		}
		c.checkShape(good, "GUARD", "entry decoded from its start element", s.Pos(), "the value sent is the Entry filled by DecodeElement(&e, &startElement) just before", "the value sent is not visibly the Entry decoded by the single DecodeElement call")
	}

	// the decoder stays strict: with Strict = false (or AutoClose / Entity tables) encoding/xml accepts
	// malformed input silently, so damage is not reported as the property requires
	lenient := false
	for _, g := range family(parse) {
		eachInstr(g, func(i ssa.Instruction) {
			st, ok := i.(*ssa.Store)
			if !ok {
				return
			}
			fa, ok := st.Addr.(*ssa.FieldAddr)
			if !ok || tname(deref(fa.X.Type())) != "encoding/xml.Decoder" {
				return
			}
			switch storeFieldName(fa) {
			case "Strict":
				if k, isC := st.Val.(*ssa.Const); isC && k.Value != nil && k.Value.String() == "false" {
					lenient = true
					c.bad("GUARD", "decoder stays strict", st.Pos(), "the XML decoder is switched to Strict = false: a bare '&', an unknown entity, an unquoted attribute or a missing end tag is accepted without an error, so a malformed stream is delivered as if it were well-formed and nothing is reported")
				}
			case "AutoClose", "Entity":
				lenient = true
				c.undecided("GUARD", "decoder stays strict", st.Pos(), "the XML decoder's "+storeFieldName(fa)+" table is set; what it accepts is not modelled")
			}
		})
	}
	if !lenient {
		c.ok("GUARD", "decoder stays strict", parse.Pos(), "no store into the decoder's Strict / AutoClose / Entity fields")
	}

	// ---- Read
	rview := newFamView(read)
	rtb := rview.tb[read]
	gs := goSites(read, parse)
	if len(gs) != 1 {
		c.undecided("CHANLIFE", "Read:go Parse", read.Pos(), fmt.Sprintf("%d `go Parse` sites in Read, the model needs 1", len(gs)))
	} else {
		g := gs[0]
		args := []ssa.Value{unwrap(g.Call.Args[0]), unwrap(g.Call.Args[1]), unwrap(g.Call.Args[2])}
		rd := rtb.T(args[0])
		wantRd := "extract[0](call[compress/gzip.NewReader](extract[0](call[os.Open](param[0]))))"
		pc := pathCond(rtb, read.Blocks[0], g.Block())
		st, why := holds, ""
		switch {
		case rd.String() != wantRd:
			// a wrapped or differently opened reader (bufio, OpenFile, Reset) reads the same bytes:
			// a different term is not evidence; only a reader that does not come from the path at all is
			st, why = unknown, "Parse reads "+short(rd.String())
			if rd.Op != "phi" && len(opaqueParts(rd, vocabOf(wantRd))) == 0 && !rd.contains(func(x *Term) bool {
				return x.isParam(0) || x.Op == "alloc" || x.Op == "phi" || x.Op == "load" || x.Op == "closure"
			}) {
				st, why = broken, "Parse reads "+short(rd.String())+", which does not depend on the path given to Read"
			}
		default:
			for _, e := range []string{"extract[1](call[os.Open](param[0]))", "extract[1](call[compress/gzip.NewReader](extract[0](call[os.Open](param[0]))))"} {
				if !pc.implies("binop[==](const[nil:error], "+e+")", false) {
					st, why = broken, "Parse is started although "+short(e)+" may be non-nil: it would read from a nil reader"
				}
			}
		}
		c.judge(st, "CHANLIFE", "Read:go Parse after both opens", g.Pos(), "Parse is started on gzip.NewReader(os.Open(path)) only when both calls returned nil errors", why)
		// the reader is handed over untouched
		// calls known to consume or narrow the stream are evidence; any other call on the reader
		// (Reset on a fresh reader, a wrapper's constructor, a logging helper) is not followed
		var touched, other []string
		if refs := args[0].Referrers(); refs != nil {
			for _, r := range *refs {
				if ci, ok := r.(ssa.CallInstruction); ok && r != ssa.Instruction(g) {
					n := calleeName(ci)
					harmful := false
					switch {
					case strings.HasSuffix(n, ".Read") || strings.HasSuffix(n, ".Close") || strings.HasSuffix(n, ".WriteTo") || n == "io.ReadAll" || n == "io/ioutil.ReadAll" || n == "io.Copy" || n == "io.CopyN" || n == "io.ReadFull":
						harmful = true
					case strings.HasSuffix(n, ".Multistream"):
						as := callArgs(ci)
						if k, ok := as[len(as)-1].(*ssa.Const); ok && k.Value != nil && k.Value.String() == "false" {
							harmful = true
						} else if !ok {
							other = append(other, n)
						}
						if !harmful {
							continue
						}
					}
					if harmful {
						touched = append(touched, n)
					} else {
						other = append(other, n)
					}
				}
			}
		}
		if len(touched) == 0 && len(other) > 0 {
			c.undecided("CHANLIFE", "Read:reader untouched", g.Pos(), "the gzip reader is also used by "+strings.Join(other, ", ")+", whose effect on the stream is not modelled")
		} else {
			c.check(len(touched) == 0, "CHANLIFE", "Read:reader untouched", g.Pos(), "the gzip reader's only use is being passed to Parse", "the gzip reader is reconfigured or consumed before Parse sees it: "+strings.Join(touched, ", ")+" (e.g. Multistream(false) makes every gzip member after the first invisible)")
		}
		okRet := true
		for _, r := range returnsOf(read) {
			if len(r.Results) != 3 || unwrap(r.Results[0]) != args[1] || unwrap(r.Results[1]) != args[2] {
				okRet = false
			}
		}
		c.checkShape(okRet, "CHANLIFE", "Read:returns the parser's channels", read.Pos(), "every return hands back the two channels given to Parse", "Read does not visibly return the channels Parse writes to")
		// capacity of the error channel against the errors one damaged entry can produce
		errSends := sendsOn(parse, errs)
		chain := 0
		for _, a := range errSends {
			n := 1
			for _, b := range errSends {
				if a != b && (a.Block() == b.Block() && instrIndex(a) < instrIndex(b) || a.Block() != b.Block() && reaches(a.Block(), b.Block())) {
					n = 2
				}
			}
			if n > chain {
				chain = n
			}
		}
		if mk, ok := args[2].(*ssa.MakeChan); ok {
			if k, isC := rtb.T(mk.Size).constInt(); isC {
				c.check(int(k) >= chain, "CHANLIFE", "Read:error channel holds the errors of one damaged entry", mk.Pos(), fmt.Sprintf("capacity %d >= %d error sends that can follow one another in Parse", k, chain),
					fmt.Sprintf("the error channel has capacity %d but Parse can send %d errors one after the other (a failed DecodeElement, then the failing Token call): with the documented consumer (drain entries, then errors) the second send blocks, entries is never closed and the consumer hangs", k, chain))
			} else {
				c.undecided("CHANLIFE", "Read:error channel holds the errors of one damaged entry", mk.Pos(), "capacity is "+short(rtb.T(mk.Size).String()))
			}
		} else {
			c.undecided("CHANLIFE", "Read:error channel holds the errors of one damaged entry", g.Pos(), "the error channel is not created in Read")
		}
	}

	// ---- TAGS
	sp := w.spkg("io/uniprot")
	for _, tg := range []struct{ typ, field, key, want string }{
		{"Entry", "Accession", "xml", "http://uniprot.org/uniprot accession"},
		{"Entry", "Name", "xml", "http://uniprot.org/uniprot name"},
		{"Entry", "Sequence", "xml", "http://uniprot.org/uniprot sequence"},
		{"SequenceType", "Value", "xml", ",chardata"},
	} {
		t := sp.Type(tg.typ)
		if t == nil {
			c.missing("TAGS", tg.typ+"."+tg.field, "type uniprot."+tg.typ)
			continue
		}
		got, ok := structTag(t.Type(), tg.field, tg.key)
		c.check(ok && got == tg.want, "TAGS", tg.typ+"."+tg.field, t.Pos(), "xml tag = "+tg.want, fmt.Sprintf("xml tag is %q, want %q", got, tg.want))
	}
}
