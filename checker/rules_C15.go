package main

// C15 JSON is a lossless interchange form for annotated sequences.

import (
	"go/token"
	"fmt"
	"go/types"
	"strings"

	"golang.org/x/tools/go/ssa"
)

func init() { register("C15", ruleC15) }

// parentStoredInHelper: some function reachable from af inside the package (other than af) stores
// into a ParentSequence field, or af hands the feature pointer to a call that is not resolved.
func parentStoredInHelper(af *ssa.Function) bool {
	found := false
	for _, g := range family(af) {
		if g == af {
			continue
		}
		eachInstr(g, func(i ssa.Instruction) {
			if s, ok := i.(*ssa.Store); ok {
				if fa, ok := s.Addr.(*ssa.FieldAddr); ok && storeFieldName(fa) == "ParentSequence" {
					found = true
				}
			}
		})
	}
	eachInstr(af, func(i ssa.Instruction) {
		if ci, ok := i.(ssa.CallInstruction); ok && ci.Common().StaticCallee() == nil && ci.Common().IsInvoke() == false {
			if _, isB := ci.Common().Value.(*ssa.Builtin); isB {
				return
			}
			for _, a := range ci.Common().Args {
				if a == ssa.Value(af.Params[1]) {
					found = true
				}
			}
		}
	})
	return found
}

// checkAddFeature: AddFeature links the parent BEFORE taking the copy it appends (shared with C01/C02).
func checkAddFeature(c *Ctx, rule string) {
	af := c.W.method("", "Sequence", "AddFeature")
	if af == nil {
		c.missing(rule, "Sequence.AddFeature", "method (*poly.Sequence).AddFeature")
		return
	}
	c.useFn(af)
	var linkStore *ssa.Store
	var copyLoad *ssa.UnOp
	var app ssa.Instruction
	tb := newTB(af)
	eachInstr(af, func(i ssa.Instruction) {
		switch x := i.(type) {
		case *ssa.Store:
			if tb.T(x.Addr).String() == "fieldaddr[ParentSequence](param[1])" && tb.T(x.Val).isParam(0) {
				linkStore = x
			}
		case *ssa.UnOp:
			if x.Op.String() == "*" && x.X == ssa.Value(af.Params[1]) {
				copyLoad = x
			}
		case *ssa.Call:
			if calleeName(x) == "builtin:append" {
				app = x
			}
		}
	})
	st, why := unknown, "the append of the copied feature was not recognised"
	switch {
	case linkStore == nil && parentStoredInHelper(af):
		why = "ParentSequence is stored inside a helper of AddFeature; the order of link and copy is not followed through it"
	case linkStore == nil:
		st, why = broken, "AddFeature never stores the sequence into feature.ParentSequence: re-added features have no parent, GetSequence cannot find their bases"
	case copyLoad != nil && domInstr(copyLoad, linkStore) && !domInstr(linkStore, copyLoad):
		st, why = broken, "AddFeature copies *feature before it sets ParentSequence: the copy appended to sequence.Features has a nil or stale parent"
		// ... unless the copy is linked by a store of its own (copy first, then link copy and original)
		eachInstr(af, func(i ssa.Instruction) {
			if s2, ok := i.(*ssa.Store); ok && s2 != linkStore {
				if fa, ok := s2.Addr.(*ssa.FieldAddr); ok && storeFieldName(fa) == "ParentSequence" && tb.T(s2.Val).isParam(0) {
					if _, isLocal := fa.X.(*ssa.Alloc); isLocal {
						st, why = unknown, "the copy is taken before the feature is linked, and a local copy is linked by a store of its own; which copy is appended is not followed"
					}
				}
			}
		})
	case copyLoad != nil && app != nil && domInstr(linkStore, copyLoad):
		t := tb.T(app.(ssa.Value))
		stored := t.Args[0].String() == "field[Features](deref(param[0]))" && t.Args[1].contains(func(x *Term) bool { return x.Op == "partial" && x.Args[0].String() == "deref(param[1])" })
		okBack := false
		eachInstr(af, func(i ssa.Instruction) {
			if s, ok := i.(*ssa.Store); ok && tb.T(s.Addr).String() == "fieldaddr[Features](param[0])" && s.Val == app.(ssa.Value) {
				okBack = true
			}
		})
		if stored && okBack {
			st = holds
		} else {
			why = "the linked copy is not visibly appended to sequence.Features and stored back"
		}
	}
	// a copy of the feature's nested values that is rebuilt field by field must carry every field
	for _, tn := range []string{"Location", "Feature", "Meta", "Reference", "Locus"} {
		if obj := c.W.pkg("").Types.Scope().Lookup(tn); obj != nil {
			if stT, ok := obj.Type().Underlying().(*types.Struct); ok {
				for _, om := range copyOmissions(family(af), "poly."+tn, stT) {
					c.bad(rule, "AddFeature copies every field of "+tn, af.Pos(), om+": a feature re-added after a JSON read (or added by a parser) loses them")
				}
			}
		}
	}
	c.judge(st, rule, "AddFeature:link-before-copy", af.Pos(), "ParentSequence is set on the feature before the copy that is appended to sequence.Features", why)
	// GetSequence goes through the parent pointer
	gfs := c.W.fn("", "getFeatureSequence")
	if gfs == nil {
		// by role: what Feature.GetSequence calls in its own package
		if gsq := c.W.method("", "Feature", "GetSequence"); gsq != nil {
			for _, g := range family(gsq) {
				if g != gsq {
					gfs = g
					break
				}
			}
			if gfs == nil {
				gfs = gsq
			}
		}
	}
	if gfs == nil {
		c.missingHelper(rule, "GetSequence evaluator", "the evaluator behind Feature.GetSequence")
		return
	}
	c.useFn(gfs)
	gtb := newTB(gfs)
	reads := false
	eachInstr(gfs, func(i ssa.Instruction) {
		if s, ok := i.(*ssa.Slice); ok {
			if strings.HasPrefix(gtb.T(s).String(), "slice(field[Sequence](deref(field[ParentSequence](param[0]))),") {
				reads = true
			}
		}
	})
	c.checkShape(reads, rule, "GetSequence:reads parent through the link", gfs.Pos(), "bases are sliced from feature.ParentSequence.Sequence", "no slice of feature.ParentSequence.Sequence found in getFeatureSequence")
}

func ruleC15(c *Ctx) {
	c.Decided = []string{
		"TAGS: over the type closure of poly.Sequence every field is exported, JSON names are unique case-insensitively per struct, the only json:\"-\" is Feature.ParentSequence, kinds are {string,int,bool,struct,slice,map[string]string}, no omitempty on collections, no custom marshalers",
		"RELINK: polyjson.Parse unmarshals into the whole Sequence and calls AddFeature for every decoded feature, unconditionally, in order, on the variable it returns; AddFeature links the parent before copying; GetSequence reads through that link",
		"WRAPPERS: Write = WriteFile(path, MarshalIndent(whole sequence)) (truncating), Read = Parse(ReadFile(path))",
		"MAPORDER (prerequisite of the 'same text' clause): genbank.Build and gff.Build emit no map-ordered text",
	}
	c.Undec = []string{"encoding/json itself (std contract: valid UTF-8 strings, ints, bools round-trip)", "nil vs empty Features after Parse (behavioural)", "equality of GenBank/GFF text after a JSON round trip beyond determinism + field preservation"}
	c.Trusted = []string{"encoding/json", "ioutil.WriteFile truncates"}
	c.floor("TAGS", 6)
	c.floor("RELINK", 4)
	c.floor("WRAPPERS", 2)
	c.floor("MAPORDER", 3)
	w := c.W
	root := w.pkg("")
	if root == nil {
		c.missing("TAGS", "poly.Sequence", "package poly")
		return
	}
	seqObj := root.Types.Scope().Lookup("Sequence")
	if seqObj == nil {
		c.missing("TAGS", "poly.Sequence", "type poly.Sequence")
		return
	}
	ns, nf := checkJSONTags(c, "TAGS", seqObj.Type(), map[string]string{"Feature.ParentSequence": "back link, restored by polyjson.Parse via AddFeature"})
	c.Extra["tag_structs"] = ns
	c.Extra["tag_fields"] = nf

	// RELINK
	parse := w.fn("io/polyjson", "Parse")
	if parse == nil {
		c.missing("RELINK", "polyjson.Parse", "polyjson.Parse")
		return
	}
	c.useFn(parse)
	checkJSONRelink(c, parse, seqObj.Type())
	checkAddFeature(c, "RELINK")

	// WRAPPERS
	checkReturnIs(c, "WRAPPERS", "Read", w.fn("io/polyjson", "Read"), 0, "call[poly/io/polyjson.Parse](extract[0](call[os.ReadFile](param[0])))", "Read(path) = Parse(ReadFile(path))")
	// a record decoded in Read itself and returned as it comes out of the decoder: nothing re-links its features
	if rd := w.fn("io/polyjson", "Read"); rd != nil {
		rtb := newTB(rd)
		rtb.NoInline = true
		for _, alt := range resultAlts(rtb, rd, 0) {
			decoded := alt.T.contains(func(x *Term) bool {
				return x.Op == "outparam" && (strings.Contains(x.Name, "encoding/json") || strings.Contains(x.Name, "json."))
			})
			viaParse := alt.T.contains(func(x *Term) bool { return x.Op == "call" && inModuleName(x.Name) })
			if !decoded || viaParse {
				continue
			}
			followed := true
			// a Sequence that decodes itself may re-link in that method
			for _, tt := range typeClosure(seqObj.Type()) {
				ms := types.NewMethodSet(types.NewPointer(tt))
				for k := 0; k < ms.Len(); k++ {
					if ms.At(k).Obj().Name() == "UnmarshalJSON" {
						followed = false
					}
				}
			}
			eachInstr(rd, func(i ssa.Instruction) {
				ci, ok := i.(ssa.CallInstruction)
				if !ok {
					return
				}
				callee := ci.Common().StaticCallee()
				switch {
				case callee == nil:
					if _, isB := ci.Common().Value.(*ssa.Builtin); !isB {
						followed = false // an interface method or function value: not followed
					}
				case inModule(callee) && fname(callee) != "poly/io/polyjson.Parse":
					followed = false // a helper that may do the re-linking
				}
			})
			eachInstr(rd, func(i ssa.Instruction) {
				if stx, ok := i.(*ssa.Store); ok {
					if fa, ok := stx.Addr.(*ssa.FieldAddr); ok && storeFieldName(fa) == "ParentSequence" {
						followed = false
					}
				}
			})
			if followed {
				c.bad("RELINK", "Read hands back a re-linked record", alt.Ret.Pos(), "Read decodes the JSON itself and returns the record as the decoder filled it ("+short(alt.T.String())+"): the features' ParentSequence (json:\"-\") stays nil, so GetSequence fails on every feature of a record that was read from a file")
			}
		}
	}
	checkFileWrite(c, "WRAPPERS", "Write", w.fn("io/polyjson", "Write"), 1, `extract[0](call[encoding/json.MarshalIndent](param[0], const[""], const[" "]))`)

	// the JSON document is never edited as text: a substitution on the serialised bytes (or on the input
	// before decoding) cannot tell structure from the content of string values
	nSub := 0
	for _, root := range []*ssa.Function{w.fn("io/polyjson", "Write"), w.fn("io/polyjson", "Parse"), w.fn("io/polyjson", "Read")} {
		if root == nil {
			continue
		}
		for _, g := range family(root) {
			g := g
			eachInstr(g, func(i ssa.Instruction) {
				cl, ok := i.(*ssa.Call)
				if !ok {
					return
				}
				n := calleeName(cl)
				isSub := n == "bytes.ReplaceAll" || n == "bytes.Replace" || n == "strings.ReplaceAll" || n == "strings.Replace" || strings.HasPrefix(n, "(*regexp.Regexp).ReplaceAll") || n == "(*strings.Replacer).Replace"
				if !isSub {
					return
				}
				// does the result reach a file write or the decoder?
				seen := map[ssa.Value]bool{}
				work := []ssa.Value{cl}
				sink := ""
				for len(work) > 0 && sink == "" {
					v := work[len(work)-1]
					work = work[:len(work)-1]
					if seen[v] || v.Referrers() == nil {
						continue
					}
					seen[v] = true
					for _, r := range *v.Referrers() {
						switch x := r.(type) {
						case *ssa.Phi, *ssa.Convert, *ssa.ChangeType, *ssa.Slice, *ssa.MakeInterface:
							work = append(work, x.(ssa.Value))
						case *ssa.Call:
							switch m := calleeName(x); {
							case m == "encoding/json.Unmarshal" || m == "os.WriteFile" || m == "io/ioutil.WriteFile" || strings.HasSuffix(m, ").Write") || m == "(*encoding/json.Decoder).Decode":
								sink = m
							case m == n:
								work = append(work, x) // a chain of substitutions
							}
						case *ssa.Return:
							sink = "the caller"
						}
					}
				}
				if sink != "" && sink != "the caller" {
					nSub++
					c.bad("WRAPPERS", "JSON text is not edited:"+strings.TrimPrefix(fname(g), "poly/"), cl.Pos(), fmt.Sprintf("%s rewrites the JSON document as text with %s before it reaches %s: a substitution on the bytes also hits the same characters inside string values (sequence descriptions, qualifiers), so such values come back changed or the document stops being valid JSON", strings.TrimPrefix(fname(g), "poly/"), n, sink))
				}
			})
		}
	}
	if nSub == 0 {
		c.ok("WRAPPERS", "JSON text is not edited", parse.Pos(), "no text substitution is applied to the serialised document or to the input before decoding")
	}

	// MAPORDER prerequisite
	var fs []*ssa.Function
	for _, r := range []*ssa.Function{w.fn("io/genbank", "Build"), w.fn("io/gff", "Build")} {
		if r == nil {
			c.missing("MAPORDER", "Build", "genbank.Build / gff.Build")
			continue
		}
		for _, f := range funcsSorted(reachable(r)) {
			if inModule(f) {
				fs = append(fs, f)
			}
		}
	}
	checkMapOrder(c, "MAPORDER", fs)
}

// checkJSONRelink: polyjson.Parse decodes one whole Sequence, re-adds every decoded feature to the
// sequence it returns, and that sequence carries every other decoded field.
// selfNormalisedFields: in the reader's family, a field is overwritten with a rewritten form of itself
// (x.F = strings.ToUpper(x.F), TrimSpace, ...): what the document states in that field is not what Parse
// returns whenever the two forms differ. Only this self-assignment shape is decided; other stores are
// left to the rules above.
func selfNormalisedFields(c *Ctx, parse *ssa.Function) {
	var sameAddr func(a, b ssa.Value, d int) bool
	sameAddr = func(a, b ssa.Value, d int) bool {
		if a == b {
			return true
		}
		fa, okA := a.(*ssa.FieldAddr)
		fb, okB := b.(*ssa.FieldAddr)
		if !okA || !okB || d > 6 || fa.Field != fb.Field || !types.Identical(fa.X.Type(), fb.X.Type()) {
			return false
		}
		return sameAddr(fa.X, fb.X, d+1)
	}
	nStores, nFns, nBad := 0, 0, 0
	for _, g := range family(parse) {
		nFns++
		eachInstr(g, func(i ssa.Instruction) {
			st, isSt := i.(*ssa.Store)
			if !isSt {
				return
			}
			fa, isF := st.Addr.(*ssa.FieldAddr)
			if !isF {
				return
			}
			nStores++
			cl, isCall := st.Val.(*ssa.Call)
			if !isCall || len(cl.Call.Args) == 0 {
				return
			}
			n := calleeName(cl)
			switch n {
			case "strings.ToUpper", "strings.ToLower", "strings.Title", "strings.ToTitle", "strings.TrimSpace", "strings.Trim", "strings.TrimLeft", "strings.TrimRight",
				"strings.TrimFunc", "strings.TrimPrefix", "strings.TrimSuffix", "strings.Replace", "strings.ReplaceAll":
			default:
				return
			}
			ld, isLd := cl.Call.Args[0].(*ssa.UnOp)
			if !isLd || ld.Op != token.MUL || !sameAddr(ld.X, fa, 0) {
				return
			}
			fld := deref(fa.X.Type()).Underlying().(*types.Struct).Field(fa.Field).Name()
			nBad++
			c.bad("RELINK", "decoded fields are returned as read:"+g.Name()+":"+fld, st.Pos(), fmt.Sprintf("%s overwrites field %s with %s of itself while the document is read: a document whose %s differs from its rewritten form (other case, blanks at the ends) is not returned as written, so write-then-read does not give the record back", g.Name(), fld, n, fld))
		})
	}
	if nBad == 0 {
		c.ok("RELINK", "decoded fields are returned as read", parse.Pos(), fmt.Sprintf("no field is overwritten with a rewritten form of itself (%d stores into struct fields in the %d functions of Parse's family examined)", nStores, nFns))
	}
}

func checkJSONRelink(c *Ctx, parse *ssa.Function, seqT types.Type) {
	view := newFamView(parse)
	selfNormalisedFields(c, parse)
	tb := view.tb[parse]
	um, n := findCall(parse, "encoding/json.Unmarshal")
	var dec *ssa.Alloc
	if n == 1 {
		dec, _ = unwrap(um.Common().Args[1]).(*ssa.Alloc)
	}
	switch {
	case n != 1 || dec == nil:
		c.undecided("RELINK", "Parse:unmarshal whole Sequence", parse.Pos(), fmt.Sprintf("%d json.Unmarshal calls into a local", n))
		return
	case tname(deref(dec.Type())) != "poly.Sequence":
		// a type of the package's own (an envelope, a type with an UnmarshalJSON hook) may decode every
		// field all the same: which keys it reads is decided by encoding/json from its tags and methods
		c.undecided("RELINK", "Parse:unmarshal whole Sequence", um.Pos(), "the input is decoded into a "+tname(deref(dec.Type()))+", not directly into a poly.Sequence; what that type decodes is not followed")
		return
	case !stripConv(tb.T(um.Common().Args[0])).isParam(0):
		c.undecided("RELINK", "Parse:unmarshal whole Sequence", um.Pos(), "decoded data is "+short(tb.T(um.Common().Args[0]).String()))
		return
	}
	c.ok("RELINK", "Parse:unmarshal whole Sequence", um.Pos(), "json.Unmarshal(file, &sequence) into a poly.Sequence")
	// what the decoder filled is left as it is: apart from re-linking the features (the Features list itself),
	// Parse stores nothing into the record that is worked out from other fields of the record ("an equal value in
	// every field" fails for every record whose stored value differs from the recomputed one)
	{
		var recomputed []string
		var at token.Pos
		tb.buildStores()
		for _, st := range tb.stores[dec] {
			if st.Parent() != parse || !domInstr(um.(ssa.Instruction), st) {
				continue
			}
			_, pth, isLocal := rootAlloc(st.Addr)
			if !isLocal || len(pth) == 0 || pth[0] == ".Features" {
				continue
			}
			v := tb.T(st.Val)
			fromRecord := v.contains(func(x *Term) bool {
				return x.Op == "field" && len(x.Args) == 1 && (strings.Contains(x.Args[0].String(), decT0(tb, dec)) || x.Args[0].Op == "outparam" || x.Args[0].Op == "field")
			})
			if v.Op == "const" && !strings.HasPrefix(v.Name, "nil") && st.Block() != um.Block() {
				// a constant put into a field when other fields of the record say so
				isRec := func(x *Term) bool {
					return x.Op == "field" && len(x.Args) == 1 && (strings.Contains(x.Args[0].String(), decT0(tb, dec)) || x.Args[0].Op == "outparam" || x.Args[0].Op == "field")
				}
				for _, a := range pathCond(tb, um.Block(), st.Block()).atoms() {
					if a.Atom.contains(isRec) {
						recomputed = append(recomputed, strings.Join(pth, "")+" = "+v.String()+" when "+short(pathCondString([]condAtom{a})))
						if at == token.NoPos {
							at = st.Pos()
						}
						break
					}
				}
				continue
			}
			if fromRecord && (v.Op == "binop" || v.Op == "call" || v.Op == "conv") {
				recomputed = append(recomputed, strings.Join(pth, "")+" = "+short(v.String()))
				if at == token.NoPos {
					at = st.Pos()
				}
			}
		}
		// the same for what sits in the maps of the decoded record (qualifier values)
		eachInstr(parse, func(i ssa.Instruction) {
			mu, ok := i.(*ssa.MapUpdate)
			if !ok || !domInstr(um.(ssa.Instruction), mu) {
				return
			}
			isRecord := func(x *Term) bool {
				return x.Op == "outparam" || strings.Contains(x.String(), decT0(tb, dec))
			}
			mt, v := tb.T(mu.Map), tb.T(mu.Value)
			if !mt.contains(isRecord) || !v.contains(isRecord) {
				return
			}
			if v.Op == "binop" || v.Op == "call" || v.Op == "conv" || v.Op == "slice" {
				recomputed = append(recomputed, short(mt.String())+"[…] = "+short(v.String()))
				if at == token.NoPos {
					at = mu.Pos()
				}
			}
		})
		eachInstr(parse, func(i ssa.Instruction) {
			cl, ok := i.(*ssa.Call)
			if !ok || !domInstr(um.(ssa.Instruction), cl) || len(cl.Call.Args) != 2 {
				return
			}
			if b, isB := cl.Call.Value.(*ssa.Builtin); !isB || b.Name() != "delete" {
				return
			}
			mt := tb.T(cl.Call.Args[0])
			if mt.contains(func(x *Term) bool { return x.Op == "outparam" || strings.Contains(x.String(), decT0(tb, dec)) }) {
				recomputed = append(recomputed, "delete("+short(mt.String())+", …)")
				if at == token.NoPos {
					at = cl.Pos()
				}
			}
		})
		if len(recomputed) > 0 {
			c.bad("RELINK", "Parse:decoded fields are left as decoded", at, "after decoding, Parse overwrites "+strings.Join(recomputed, "; ")+": a record whose stored value is not what that formula gives comes back changed")
		}
	}
	decT := tb.T(dec).String()
	decoded := []string{"outparam[encoding/json.Unmarshal]", "deref(" + decT + ")"}
	// the AddFeature call, wherever in the family
	var af ssa.CallInstruction
	var afFn *ssa.Function
	nAF := 0
	view.each(func(g *ssa.Function, i ssa.Instruction) {
		if ci, ok := i.(ssa.CallInstruction); ok && calleeName(ci) == "(*poly.Sequence).AddFeature" {
			af, afFn = ci, g
			nAF++
		}
	})
	if nAF != 1 {
		st := unknown
		why := fmt.Sprintf("%d AddFeature calls in Parse and its helpers, the model needs 1", nAF)
		if nAF == 0 && len(view.fns) == len(family(parse)) {
			// the parent link may also be restored directly: features[i].ParentSequence = &sequence for every i
			linked := false
			view.each(func(g *ssa.Function, i ssa.Instruction) {
				if stx, ok := i.(*ssa.Store); ok {
					if fa, ok := stx.Addr.(*ssa.FieldAddr); ok && storeTarget(fa) == "Feature.ParentSequence" {
						linked = true
						st, why = unknown, "ParentSequence is assigned directly at "+c.W.pos(stx.Pos())
						if entry := loopBodyEntry(stx.Block()); entry != nil && pathCond(view.tb[g], entry, stx.Block()).Op == "true" {
							if a, isAlloc := unwrap(stx.Val).(*ssa.Alloc); isAlloc && a == dec {
								st = holds
							} else if ph, isPhi := unwrap(stx.Val).(*ssa.Phi); isPhi && len(ph.Edges) == 1 && unwrap(ph.Edges[0]) == ssa.Value(dec) {
								st = holds
							} else if view.T(g, stx.Val).String() == decT {
								st = holds
							}
						}
					}
				}
			})
			// ... or through another function of the module that is handed the sequence (a batch AddFeatures):
			// any module callee, reached from Parse, whose own code stores a ParentSequence
			if !linked {
				view.each(func(g *ssa.Function, i ssa.Instruction) {
					ci, ok := i.(ssa.CallInstruction)
					if !ok {
						return
					}
					callee := ci.Common().StaticCallee()
					if callee == nil {
						// a method called through an interface, or a function value: where the features go from
						// there is not followed (a sink interface that *poly.Sequence satisfies, a callback)
						if _, isB := ci.Common().Value.(*ssa.Builtin); !isB && !linked {
							linked = true
							what := "a function value"
							if ci.Common().IsInvoke() {
								what = "the interface method " + ci.Common().Method.Name()
							}
							st, why = unknown, "Parse's family calls "+what+" at "+c.W.pos(ci.Pos())+"; whether the decoded features are re-added there is not followed"
						}
						return
					}
					if !inModule(callee) || callee.Blocks == nil {
						return
					}
					for cf := range reachable(callee) {
						if !inModule(cf) || cf.Blocks == nil {
							continue
						}
						eachInstr(cf, func(j ssa.Instruction) {
							if stx, ok := j.(*ssa.Store); ok {
								if fa, ok := stx.Addr.(*ssa.FieldAddr); ok && storeFieldName(fa) == "ParentSequence" {
									linked = true
									st, why = unknown, "the features are handed to "+calleeName(ci)+", which assigns ParentSequence; whether every decoded feature gets there is not followed"
								}
							}
						})
					}
				})
			}
			if !linked {
				st, why = broken, "the decoded features are never re-added with AddFeature (nor is their ParentSequence assigned): it stays nil (json:\"-\"), so GetSequence fails on every feature read from JSON"
			}
		}
		if st == holds {
			c.ok("RELINK", "Parse:AddFeature for every decoded feature", parse.Pos(), "every decoded feature's ParentSequence is set to the decoded sequence, unconditionally, in a loop over the features")
			return
		}
		c.judge(st, "RELINK", "Parse:AddFeature for every decoded feature", parse.Pos(), "", why)
		return
	}
	st, why := holds, ""
	atb := view.tb[afFn]
	// which feature
	var feat *Term
	switch a := unwrap(af.Common().Args[1]).(type) {
	case *ssa.Alloc:
		feat = atb.at(a, nil, af)
		if afFn != parse {
			feat = substParams(feat, view.args[afFn])
		}
	default:
		feat = view.T(afFn, a)
		if feat.Op == "indexaddr" || feat.Op == "addr" {
			feat = &Term{Op: "each", Args: feat.Args[:1]}
		}
	}
	okFeat := false
	fs := feat.String()
	for _, d := range decoded {
		if fs == "each(field[Features]("+d+"))" {
			okFeat = true
		}
	}
	if !okFeat {
		// indexaddr(list, rangeidx) over the decoded list
		if feat.Op == "indexaddr" || feat.Op == "index" {
			for _, d := range decoded {
				if feat.Args[0].String() == "field[Features]("+d+")" && feat.Args[1].Op == "rangeidx" {
					okFeat = true
				}
			}
		}
	}
	if !okFeat {
		st, why = unknown, "the feature re-added is "+short(fs)
	}
	// unconditional, once per decoded feature
	if st == holds {
		entry := loopBodyEntry(af.Block())
		if entry == nil && afFn != parse {
			// re-added by a helper that handles one feature: the loop is where Parse calls the helper
			st, why = unknown, "AddFeature is called in "+fname(afFn)+", outside any loop; how often Parse calls that is not followed"
			var sites []*ssa.Call
			eachInstr(parse, func(i ssa.Instruction) {
				if cl, ok := i.(*ssa.Call); ok && cl.Call.StaticCallee() == afFn {
					sites = append(sites, cl)
				}
			})
			if len(sites) == 1 && pathCond(atb, afFn.Blocks[0], af.Block()).Op == "true" {
				if e2 := loopBodyEntry(sites[0].Block()); e2 != nil {
					if pc := pathCond(view.tb[parse], e2, sites[0].Block()); pc.Op == "true" {
						st, why = holds, ""
					} else {
						st, why = unknown, "features are handed to "+fname(afFn)+" under "+short(pc.String())
					}
				}
			}
		} else if entry == nil {
			st, why = broken, "AddFeature is not called in a loop over the decoded features: at most one feature is re-linked"
		} else if hdr := enclosingLoopHeader(af.Block()); hdr != nil && !reachesAvoiding(entry, hdr, map[*ssa.BasicBlock]bool{af.Block(): true}) {
			// no way round the call within one turn of the loop (an inner loop that runs first has to end before
			// it; its exit condition is not a condition on the feature)
		} else if pc := pathCond(atb, entry, af.Block()); pc.Op != "true" {
			st, why = unknown, "features are re-added under "+short(pc.String())
			nOpaque := 0
			for _, a := range pc.atoms() {
				nOpaque += len(opaqueParts(a.Atom, vocabOf(decoded...)))
			}
			if nOpaque == 0 {
				st, why = broken, "a decoded feature is re-added only under "+short(substCond(pc, view.args[afFn]).String())+": the others are dropped from the result"
			}
		}
	}
	// onto which sequence, and is that what Parse returns with all the other decoded fields
	recv := view.T(afFn, af.Common().Args[0])
	var target *ssa.Alloc
	if a, ok := recv.V.(*ssa.Alloc); ok && a.Parent() == parse {
		target = a
	} else if recv.String() == decT {
		target = dec
	}
	if st == holds {
		switch {
		case target == nil:
			st, why = unknown, "features are added to "+short(recv.String())
		default:
			for _, r := range returnsOf(parse) {
				ld, ok := r.Results[0].(*ssa.UnOp)
				if !ok || ld.X != ssa.Value(target) {
					st, why = unknown, "the returned value is not visibly the sequence the features were added to"
				}
			}
		}
	}
	if st == holds && target != dec {
		// a second Sequence assembled from the decoded one: every field but Features must be carried over
		if stT, ok := seqT.Underlying().(*types.Struct); ok {
			rets := returnsOf(parse)
			for i := 0; i < stT.NumFields() && len(rets) > 0; i++ {
				f := stT.Field(i).Name()
				if f == "Features" {
					continue
				}
				got := tb.at(target, []string{"." + f}, rets[0])
				okF := false
				for _, l := range phiLeaves(got) {
					for _, d := range decoded {
						if l.String() == "field["+f+"]("+d+")" {
							okF = true
						}
					}
				}
				switch {
				case okF:
				case got.Op == "zero" || strings.HasPrefix(got.String(), "zero"):
					st, why = broken, "the sequence returned is assembled field by field from the decoded one and "+f+" is not copied: it comes back empty after a JSON round trip"
				case st == holds:
					st, why = unknown, "field "+f+" of the returned sequence is "+short(got.String())
				}
			}
		}
	}
	c.judge(st, "RELINK", "Parse:AddFeature for every decoded feature", af.Pos(), "every decoded feature is re-added, unconditionally and in order, to the returned sequence, which carries every other decoded field", why)
}


// inModuleName: the printed name of a callee belongs to the module under analysis.
func inModuleName(n string) bool {
	return strings.HasPrefix(n, "poly/") || strings.HasPrefix(n, "(poly/") || strings.HasPrefix(n, "(*poly/")
}


func decT0(tb *TermBuilder, dec *ssa.Alloc) string { return tb.T(dec).String() }
