package main

// C15 JSON is a lossless interchange form for annotated sequences.

import (
	"fmt"
	"strings"

	"golang.org/x/tools/go/ssa"
)

func init() { register("C15", ruleC15) }

// checkAddFeature: AddFeature links the parent BEFORE taking the copy it appends (shared with C01/C02).
func checkAddFeature(c *Ctx, rule string) {
	af := c.W.method("", "Sequence", "AddFeature")
	if af == nil {
		c.missing(rule, "Sequence.AddFeature", "method (*poly.Sequence).AddFeature")
		return
	}
	c.useFn(af)
	var linkStore *ssa.Store
	var copyLoad *ssa.UnOp
	var app ssa.Instruction
	tb := newTB(af)
	eachInstr(af, func(i ssa.Instruction) {
		switch x := i.(type) {
		case *ssa.Store:
			if tb.T(x.Addr).String() == "fieldaddr[ParentSequence](param[1])" && tb.T(x.Val).isParam(0) {
				linkStore = x
			}
		case *ssa.UnOp:
			if x.Op.String() == "*" && x.X == ssa.Value(af.Params[1]) {
				copyLoad = x
			}
		case *ssa.Call:
			if calleeName(x) == "builtin:append" {
				app = x
			}
		}
	})
	good := linkStore != nil && copyLoad != nil && app != nil && domInstr(linkStore, copyLoad)
	var stored bool
	if app != nil {
		t := tb.T(app.(ssa.Value))
		stored = t.Args[0].String() == "field[Features](deref(param[0]))" && t.Args[1].contains(func(x *Term) bool { return x.Op == "partial" && x.Args[0].String() == "deref(param[1])" })
		// and the result is stored back
		okBack := false
		eachInstr(af, func(i ssa.Instruction) {
			if s, ok := i.(*ssa.Store); ok && tb.T(s.Addr).String() == "fieldaddr[Features](param[0])" && s.Val == app.(ssa.Value) {
				okBack = true
			}
		})
		stored = stored && okBack
	}
	c.check(good && stored, rule, "AddFeature:link-before-copy", af.Pos(), "ParentSequence is set on the feature before the copy that is appended to sequence.Features", "AddFeature must store feature.ParentSequence = sequence before copying *feature into sequence.Features (a copy taken first has a nil/stale parent)")
	// GetSequence goes through the parent pointer
	gfs := c.W.fn("", "getFeatureSequence")
	if gfs == nil {
		c.missing(rule, "getFeatureSequence", "poly.getFeatureSequence")
		return
	}
	c.useFn(gfs)
	gtb := newTB(gfs)
	reads := false
	eachInstr(gfs, func(i ssa.Instruction) {
		if s, ok := i.(*ssa.Slice); ok {
			if strings.HasPrefix(gtb.T(s).String(), "slice(field[Sequence](deref(field[ParentSequence](param[0]))),") {
				reads = true
			}
		}
	})
	c.check(reads, rule, "GetSequence:reads parent through the link", gfs.Pos(), "bases are sliced from feature.ParentSequence.Sequence", "feature sequences are not read from feature.ParentSequence.Sequence")
}

func ruleC15(c *Ctx) {
	c.Decided = []string{
		"TAGS: over the type closure of poly.Sequence every field is exported, JSON names are unique case-insensitively per struct, the only json:\"-\" is Feature.ParentSequence, kinds are {string,int,bool,struct,slice,map[string]string}, no omitempty on collections, no custom marshalers",
		"RELINK: polyjson.Parse unmarshals into the whole Sequence and calls AddFeature for every decoded feature, unconditionally, in order, on the variable it returns; AddFeature links the parent before copying; GetSequence reads through that link",
		"WRAPPERS: Write = WriteFile(path, MarshalIndent(whole sequence)) (truncating), Read = Parse(ReadFile(path))",
		"MAPORDER (prerequisite of the 'same text' clause): genbank.Build and gff.Build emit no map-ordered text",
	}
	c.Undec = []string{"encoding/json itself (std contract: valid UTF-8 strings, ints, bools round-trip)", "nil vs empty Features after Parse (behavioural)", "equality of GenBank/GFF text after a JSON round trip beyond determinism + field preservation"}
	c.Trusted = []string{"encoding/json", "ioutil.WriteFile truncates"}
	c.floor("TAGS", 6)
	c.floor("RELINK", 4)
	c.floor("WRAPPERS", 2)
	c.floor("MAPORDER", 3)
	w := c.W
	root := w.pkg("")
	if root == nil {
		c.missing("TAGS", "poly.Sequence", "package poly")
		return
	}
	seqObj := root.Types.Scope().Lookup("Sequence")
	if seqObj == nil {
		c.missing("TAGS", "poly.Sequence", "type poly.Sequence")
		return
	}
	ns, nf := checkJSONTags(c, "TAGS", seqObj.Type(), map[string]string{"Feature.ParentSequence": "back link, restored by polyjson.Parse via AddFeature"})
	c.Extra["tag_structs"] = ns
	c.Extra["tag_fields"] = nf

	// RELINK
	parse := w.fn("io/polyjson", "Parse")
	if parse == nil {
		c.missing("RELINK", "polyjson.Parse", "polyjson.Parse")
		return
	}
	c.useFn(parse)
	tb := newTB(parse)
	um, n := findCall(parse, "encoding/json.Unmarshal")
	var seqAlloc *ssa.Alloc
	if n == 1 {
		seqAlloc, _ = unwrap(um.Common().Args[1]).(*ssa.Alloc)
	}
	okU := seqAlloc != nil && tname(deref(seqAlloc.Type())) == "poly.Sequence" && tb.T(um.Common().Args[0]).isParam(0)
	c.check(okU, "RELINK", "Parse:unmarshal whole Sequence", parse.Pos(), "json.Unmarshal(file, &sequence) into a poly.Sequence", "polyjson.Parse does not unmarshal its input into one whole poly.Sequence")
	if okU {
		af, n := findCall(parse, "(*poly.Sequence).AddFeature")
		good := n == 1
		why := fmt.Sprintf("%d AddFeature calls, want 1", n)
		if good {
			recv := unwrap(af.Common().Args[0])
			fa, _ := unwrap(af.Common().Args[1]).(*ssa.Alloc)
			feat := ""
			if fa != nil {
				feat = tb.at(fa, nil, af).String()
			}
			wantFeat := "each(field[Features](outparam[encoding/json.Unmarshal]))"
			hdr := enclosingLoopHeader(af.Block())
			uncond := hdr != nil && len(hdr.Succs) == 2 && pathCond(tb, hdr.Succs[0], af.Block()).Op == "true"
			if recv != ssa.Value(seqAlloc) || feat != wantFeat || !uncond {
				good = false
				why = fmt.Sprintf("receiver is the decoded sequence=%v; feature=%s (want %s); unconditional in the loop=%v", recv == ssa.Value(seqAlloc), short(feat), wantFeat, uncond)
			}
			// returned value is the same variable
			rets := returnsOf(parse)
			for _, r := range rets {
				ld, ok := r.Results[0].(*ssa.UnOp)
				if !ok || ld.X != ssa.Value(seqAlloc) {
					good = false
					why = "the returned value is not the sequence that was re-linked"
				}
			}
		}
		c.check(good, "RELINK", "Parse:AddFeature for every decoded feature", parse.Pos(), "every decoded feature is re-added, unconditionally and in order, to the returned sequence", why)
	}
	checkAddFeature(c, "RELINK")

	// WRAPPERS
	checkReturnIs(c, "WRAPPERS", "Read", w.fn("io/polyjson", "Read"), 0, "call[poly/io/polyjson.Parse](extract[0](call[os.ReadFile](param[0])))", "Read(path) = Parse(ReadFile(path))")
	checkFileWrite(c, "WRAPPERS", "Write", w.fn("io/polyjson", "Write"), 1, `extract[0](call[encoding/json.MarshalIndent](param[0], const[""], const[" "]))`)

	// MAPORDER prerequisite
	var fs []*ssa.Function
	for _, r := range []*ssa.Function{w.fn("io/genbank", "Build"), w.fn("io/gff", "Build")} {
		if r == nil {
			c.missing("MAPORDER", "Build", "genbank.Build / gff.Build")
			continue
		}
		for _, f := range funcsSorted(reachable(r)) {
			if inModule(f) {
				fs = append(fs, f)
			}
		}
	}
	checkMapOrder(c, "MAPORDER", fs)
}
