package main

// C10 Type IIS digestion cuts at enzyme geometry.

import (
	"fmt"
	"sort"
	"strings"

	"golang.org/x/tools/go/ssa"
)

func init() { register("C10", ruleC10) }

// allocFieldStores groups, per local struct alloc of the given type, the terms stored into its fields.
func allocFieldStores(tb *TermBuilder, f *ssa.Function, typ string) map[*ssa.Alloc]map[string]*Term {
	out := map[*ssa.Alloc]map[string]*Term{}
	eachInstr(f, func(i ssa.Instruction) {
		st, ok := i.(*ssa.Store)
		if !ok {
			return
		}
		a, p, ok := rootAlloc(st.Addr)
		if !ok || len(p) != 1 || tname(deref(a.Type())) != typ {
			return
		}
		if out[a] == nil {
			out[a] = map[string]*Term{}
		}
		out[a][strings.TrimPrefix(p[0], ".")] = tb.T(st.Val)
	})
	return out
}

func ruleC10(c *Ctx) {
	c.Decided = []string{
		"TABLE-ENZ: built-in enzymes: map key = Name, RegexpFor pattern = RecognitionSite, RegexpRev pattern = reverse complement of the site (checker's own), site not palindromic, (Skip, OverhangLen) = REBASE geometry BsaI(1/5) BbsI(2/6) BtgZI(10/14)",
		"TERM-GEOM: forward overhang Position = matchEnd + Skip, reverse Position = matchStart - Skip, Length = OverhangLen; reverse sites searched iff the site is not its own reverse complement; fragment = seq[cur.Position : next.Position] for consecutive overhangs; directional filter keeps exactly cur.Forward && !next.Forward; Fragment{Sequence: f[ovl:len-ovl], ForwardOverhang: f[:ovl], ReverseOverhang: f[len-ovl:]}",
		"DEPEND: seq.Sequence is used only under strings.ToUpper or len; circular => the upper-cased string is the input doubled",
		"WRAPPERS: CutWithEnzymeByName looks the name up, errors on a miss, forwards directional unchanged; C11's rules for ReverseComplement / IsPalindromic are prerequisites and are re-run",
	}
	c.Undec = []string{"rotation independence and the doubled-sequence bookkeeping (loop cut-off at the original length, end trimming): violated today for some rotations, no shape rule separates a wrong cut-off from a right one", "sorting stability among equal positions"}
	c.Trusted = []string{"REBASE geometry for BsaI, BbsI, BtgZI as encoded in oracle.go", "regexp.FindAllStringIndex returns [start,end) pairs in order", "sort.SliceStable"}
	c.floor("TABLE-ENZ", 3)
	c.floor("TERM-GEOM", 6)
	c.floor("DEPEND", 1)
	c.floor("WRAPPERS", 1)
	w := c.W
	cut := w.fn("clone", "CutWithEnzyme")
	byName := w.fn("clone", "CutWithEnzymeByName")
	base := w.fn("clone", "getBaseRestrictionEnzymes")
	if cut == nil || byName == nil {
		c.missing("TERM-GEOM", "clone.CutWithEnzyme/ByName", "exported digestion functions")
		return
	}
	c.useFn(cut)
	c.useFn(byName)
	// ---- TABLE-ENZ
	btb := newTB(byName)
	// the enzyme table: the module function whose result is indexed by the name parameter
	var tableFn *ssa.Function
	eachInstr(byName, func(i ssa.Instruction) {
		if lk, ok := i.(*ssa.Lookup); ok && btb.T(lk.Index).isParam(2) {
			if cl, ok := lk.X.(*ssa.Call); ok {
				tableFn = cl.Call.StaticCallee()
			}
		}
	})
	if tableFn == nil {
		tableFn = base
	}
	if tableFn == nil || tableFn.Blocks == nil {
		c.bad("TABLE-ENZ", "enzyme table", byName.Pos(), "CutWithEnzymeByName does not index a table built by a module function (unrecognised shape)")
	} else {
		c.useFn(tableFn)
		ttb := newTB(tableFn)
		seen := map[string]bool{}
		eachInstr(tableFn, func(i ssa.Instruction) {
			mu, ok := i.(*ssa.MapUpdate)
			if !ok {
				return
			}
			key, isStr := ttb.T(mu.Key).constStr()
			if !isStr {
				c.bad("TABLE-ENZ", "non-constant key", mu.Pos(), "enzyme stored under a non-constant key")
				return
			}
			seen[key] = true
			v := ttb.T(mu.Value)
			get := func(n string) *Term { return partialOf(v, n) }
			var problems []string
			str := func(n string) string {
				t := get(n)
				if t == nil {
					problems = append(problems, n+" not set")
					return ""
				}
				s, ok := t.constStr()
				if !ok {
					problems = append(problems, n+" is not a constant")
				}
				return s
			}
			num := func(n string) int64 {
				t := get(n)
				if t == nil {
					problems = append(problems, n+" not set")
					return -1
				}
				k, ok := t.constInt()
				if !ok {
					problems = append(problems, n+" is not a constant")
				}
				return k
			}
			pat := func(n string) string {
				t := get(n)
				if t == nil || !(t.isCall("regexp.MustCompile")) {
					problems = append(problems, n+" is not regexp.MustCompile(<const>)")
					return ""
				}
				s, ok := t.Args[0].constStr()
				if !ok {
					problems = append(problems, n+" pattern is not constant")
				}
				return s
			}
			name, site := str("Name"), str("RecognitionSite")
			fw, rv := pat("RegexpFor"), pat("RegexpRev")
			skip, ovl := num("Skip"), num("OverhangLen")
			if name != key {
				problems = append(problems, fmt.Sprintf("stored under %q but named %q", key, name))
			}
			if fw != site {
				problems = append(problems, fmt.Sprintf("forward pattern %q != recognition site %q", fw, site))
			}
			if rv != rcOracle(site) {
				problems = append(problems, fmt.Sprintf("reverse pattern %q != reverse complement of the site %q", rv, rcOracle(site)))
			}
			if site == rcOracle(site) {
				problems = append(problems, "recognition site is palindromic")
			}
			if g, ok := rebaseEnzymes[key]; ok {
				if site != g.site || skip != int64(g.k) || ovl != int64(g.m-g.k) {
					problems = append(problems, fmt.Sprintf("site/skip/overhang %s/%d/%d, REBASE says %s(%d/%d) i.e. skip %d overhang %d", site, skip, ovl, g.site, g.k, g.m, g.k, g.m-g.k))
				}
			} else {
				c.Notes = append(c.Notes, "enzyme "+key+" has no oracle entry; only internal consistency checked")
			}
			c.check(len(problems) == 0, "TABLE-ENZ", key, mu.Pos(), "name/key, patterns, non-palindromic site and REBASE geometry agree", strings.Join(problems, "; "))
		})
		var missing []string
		for k := range rebaseEnzymes {
			if !seen[k] {
				missing = append(missing, k)
			}
		}
		sort.Strings(missing)
		if len(missing) > 0 {
			c.bad("TABLE-ENZ", "built-in set", tableFn.Pos(), "built-in enzymes missing: "+strings.Join(missing, ","))
		}
	}
	// ---- WRAPPERS
	{
		var okCall, okErr bool
		for _, r := range returnsOf(byName) {
			v, e := btb.T(r.Results[0]), btb.T(r.Results[1])
			pc := pathCond(btb, byName.Blocks[0], r.Block())
			if e.Op == "const" {
				if v.isCall("poly/clone.CutWithEnzyme") && v.Args[0].isParam(0) && v.Args[1].isParam(1) && v.Args[2].Op == "lookup" && v.Args[2].Args[1].isParam(2) {
					okCall = true
				}
			} else if e.isCall("errors.New") || strings.HasPrefix(e.Name, "fmt.Errorf") {
				for _, a := range pc.atoms() {
					if a.Neg && strings.HasPrefix(a.Atom.String(), "extract[1](lookup[,ok](") {
						okErr = true
					}
				}
			}
		}
		c.check(okCall && okErr, "WRAPPERS", "CutWithEnzymeByName", byName.Pos(), "returns CutWithEnzyme(seq, directional, table[name]) or an error when the name is unknown", fmt.Sprintf("forwards (seq, directional, table[name]) unchanged: %v; errors on a missing name: %v", okCall, okErr))
	}
	// ---- TERM-GEOM
	tb := newTB(cut)
	seqRaw := "field[Sequence](param[0])"
	up1 := "call[strings.ToUpper](" + seqRaw + ")"
	up2 := "call[strings.ToUpper](binop[+](" + seqRaw + ", " + seqRaw + "))"
	// SEQ phi
	var SEQ string
	eachInstr(cut, func(i ssa.Instruction) {
		if ph, ok := i.(*ssa.Phi); ok && isStringType(ph.Type()) {
			t := tb.T(ph)
			leaves := phiLeaves(t)
			if len(leaves) == 2 {
				a, b := leaves[0].String(), leaves[1].String()
				if (a == up1 && b == up2) || (a == up2 && b == up1) {
					// doubled exactly on the Circular edge
					okEdges := true
					for k, e := range ph.Edges {
						pc := pathCond(tb, cut.Blocks[0], ph.Block().Preds[k])
						circ := pc.implies("field[Circular](param[0])", false)
						if (tb.T(e).String() == up2) != circ {
							okEdges = false
						}
					}
					if okEdges {
						SEQ = t.String()
					}
				}
			}
		}
	})
	c.check(SEQ != "", "DEPEND", "working sequence = ToUpper(seq) or ToUpper(seq+seq) iff Circular", cut.Pos(), "upper-cased; doubled exactly for circular parts", "the working sequence is not ToUpper(seq.Sequence), doubled exactly when seq.Circular (unrecognised shape)")
	if SEQ == "" {
		return
	}
	raw := 0
	var rawWhere []string
	eachInstr(cut, func(i ssa.Instruction) {
		v, ok := i.(ssa.Value)
		if !ok {
			return
		}
		t := tb.T(v)
		if t.String() != seqRaw {
			return
		}
		for _, r := range *v.Referrers() {
			switch x := r.(type) {
			case *ssa.DebugRef:
			case ssa.CallInstruction:
				n := calleeName(x)
				if n != "strings.ToUpper" && n != "builtin:len" {
					raw++
					rawWhere = append(rawWhere, n)
				}
			case *ssa.BinOp:
				// seq+seq feeding ToUpper
				for _, rr := range *x.Referrers() {
					if ci, ok := rr.(ssa.CallInstruction); !ok || calleeName(ci) != "strings.ToUpper" {
						if _, dbg := rr.(*ssa.DebugRef); !dbg {
							raw++
							rawWhere = append(rawWhere, "concatenation used raw")
						}
					}
				}
			default:
				raw++
				rawWhere = append(rawWhere, fmt.Sprintf("%T", r))
			}
		}
	})
	c.check(raw == 0, "DEPEND", "raw seq.Sequence only under ToUpper/len", cut.Pos(), "letter case cannot influence the result", "seq.Sequence is used without upper-casing: "+strings.Join(rawWhere, ", "))
	pal := "binop[==](call[poly/transform.ReverseComplement](field[RecognitionSite](param[2])), field[RecognitionSite](param[2]))"
	findAll := func(re string) string {
		return "call[(*regexp.Regexp).FindAllStringIndex](field[" + re + "](param[2]), " + SEQ + ", const[-1])"
	}
	ovs := allocFieldStores(tb, cut, "poly/clone.Overhang")
	var fwdOK, revOK bool
	var fwdWhy, revWhy = "no forward overhang literal", "no reverse overhang literal"
	for a, fl := range ovs {
		if fl["Forward"] == nil || fl["Position"] == nil || fl["Length"] == nil {
			continue
		}
		lenOK := fl["Length"].String() == "field[OverhangLen](param[2])"
		pos := fl["Position"].String()
		if fl["Forward"].isConst("true") {
			want := "binop[+](field[Skip](param[2]), index(each(" + findAll("RegexpFor") + "), const[1]))"
			fwdOK = lenOK && pos == want
			fwdWhy = "forward overhang {Length: " + short(fl["Length"].String()) + ", Position: " + short(pos) + "}; want Length=OverhangLen, Position = end of the forward match + Skip"
		} else if fl["Forward"].isConst("false") {
			want := "binop[-](index(each(" + findAll("RegexpRev") + "), const[0]), field[Skip](param[2]))"
			pc := pathCond(tb, cut.Blocks[0], a.Block())
			revOK = lenOK && pos == want && pc.implies(pal, true)
			revWhy = "reverse overhang {Length: " + short(fl["Length"].String()) + ", Position: " + short(pos) + "} under " + short(pc.String()) + "; want Position = start of the reverse match - Skip, searched iff the site is not its own reverse complement"
		}
	}
	c.check(fwdOK, "TERM-GEOM", "forward overhang = matchEnd+Skip, Length=OverhangLen", cut.Pos(), "cut downstream of every forward site", fwdWhy)
	c.check(revOK, "TERM-GEOM", "reverse overhang = matchStart-Skip, searched iff site != RC(site)", cut.Pos(), "cut upstream of every reverse site; palindromic sites are not searched twice", revWhy)
	// fragments: slice(SEQ, Position(cur), Position(next))
	type fragSite struct {
		st   *ssa.Store
		cur  *Term
		next *Term
	}
	var frags []fragSite
	eachInstr(cut, func(i ssa.Instruction) {
		st, ok := i.(*ssa.Store)
		if !ok {
			return
		}
		a, p, ok := rootAlloc(st.Addr)
		if !ok || len(p) != 1 || p[0] != "[0]" || tname(deref(a.Type())) != "[1]string" {
			return
		}
		v := tb.T(st.Val)
		if v.Op == "slice" && v.Args[0].String() == SEQ && v.Args[1].isField("Position") && v.Args[2].isField("Position") {
			frags = append(frags, fragSite{st, v.Args[1].Args[0], v.Args[2].Args[0]})
		}
	})
	nDir, nAll := 0, 0
	var whyF []string
	for _, fs := range frags {
		// cur = overhangs[i], next = overhangs[i+1]
		okPair := false
		if fs.cur.Op == "index" && fs.next.Op == "index" && fs.cur.Args[0].String() == fs.next.Args[0].String() {
			b1, k1 := fs.cur.Args[1].linear()
			b2, k2 := fs.next.Args[1].linear()
			okPair = b1 != nil && b2 != nil && b1.String() == b2.String() && k2-k1 == 1
		}
		if !okPair {
			whyF = append(whyF, "a fragment is not cut between consecutive overhangs i and i+1")
			continue
		}
		pc := pathCond(tb, cut.Blocks[0], fs.st.Block())
		curF := "field[Forward](" + fs.cur.String() + ")"
		nextF := "field[Forward](" + fs.next.String() + ")"
		if pc.implies("param[1]", false) && pc.implies(pal, true) {
			if pc.implies(curF, false) && pc.implies(nextF, true) {
				nDir++
			} else {
				whyF = append(whyF, "directional branch keeps a fragment under "+short(pc.String())+"; want current.Forward && !next.Forward")
			}
		} else {
			hasFilter := false
			for _, a := range pc.atoms() {
				if strings.HasPrefix(a.Atom.String(), "field[Forward](") {
					hasFilter = true
				}
			}
			if hasFilter {
				whyF = append(whyF, "non-directional branch filters by orientation")
			} else {
				nAll++
			}
		}
	}
	c.check(nDir == 1 && nAll == 1 && len(whyF) == 0, "TERM-GEOM", "fragment = seq[cur.Position:next.Position]; directional keeps cur.Forward && !next.Forward", cut.Pos(), "one directional and one unfiltered emission site, both between consecutive sorted overhangs", fmt.Sprintf("directional sites=%d unfiltered sites=%d; %s", nDir, nAll, strings.Join(whyF, "; ")))
	// overhangs are sorted by Position before pairing
	sorted := false
	eachInstr(cut, func(i ssa.Instruction) {
		if ci, ok := i.(ssa.CallInstruction); ok && (calleeName(ci) == "sort.SliceStable" || calleeName(ci) == "sort.Slice") {
			if fn, ok := unwrapClosure(ci.Common().Args[1]); ok {
				ltb := newTB(fn)
				if r := returnsOf(fn); len(r) == 1 {
					t := ltb.T(r[0].Results[0])
					if t.isBin("<") && t.Args[0].isField("Position") && t.Args[1].isField("Position") && strings.Contains(t.Args[0].String(), "param[0]") && strings.Contains(t.Args[1].String(), "param[1]") {
						sorted = true
					}
				}
			}
		}
	})
	c.check(sorted, "TERM-GEOM", "overhangs sorted by ascending Position", cut.Pos(), "sort.SliceStable with overhangs[i].Position < overhangs[j].Position", "the overhang list is not sorted by ascending Position before fragments are paired")
	// final Fragment fields
	frs := allocFieldStores(tb, cut, "poly/clone.Fragment")
	okFinal := false
	whyFinal := "no Fragment literal cut as f[ovl:len(f)-ovl], f[:ovl], f[len(f)-ovl:]"
	ovl := "field[OverhangLen](param[2])"
	for _, fl := range frs {
		s, fo, ro := fl["Sequence"], fl["ForwardOverhang"], fl["ReverseOverhang"]
		if s == nil || fo == nil || ro == nil || s.Op != "slice" || fo.Op != "slice" || ro.Op != "slice" {
			continue
		}
		f := s.Args[0].String()
		if !strings.HasPrefix(f, "each(") {
			continue
		}
		lenf := "call[builtin:len](" + f + ")"
		okS := s.Args[1].String() == ovl && s.Args[2].String() == "binop[-]("+lenf+", "+ovl+")"
		okF := fo.Args[0].String() == f && (fo.Args[1].Op == "nil" || fo.Args[1].isConst("0")) && fo.Args[2].String() == ovl
		okR := ro.Args[0].String() == f && ro.Args[1].String() == "binop[-]("+lenf+", "+ovl+")" && ro.Args[2].Op == "nil"
		if okS && okF && okR {
			okFinal = true
		} else {
			whyFinal = fmt.Sprintf("Fragment{Sequence:%s, ForwardOverhang:%s, ReverseOverhang:%s}", short(s.String()), short(fo.String()), short(ro.String()))
		}
	}
	c.check(okFinal, "TERM-GEOM", "Fragment = {f[ovl:len-ovl], f[:ovl], f[len-ovl:]}", cut.Pos(), "overhangs are the first and last OverhangLen letters of the cut stretch", whyFinal)
	// CUTOFF: an overhang at Position == len(original) is NOT a duplicate of one in the first copy (a
	// forward cut is always > 0), so any early exit that compares a Position with len(seq.Sequence)
	// must be strict: leave only for positions strictly beyond the original length.
	lenOrig := "call[builtin:len](" + seqRaw + ")"
	nCut, badCut := 0, []string{}
	eachInstr(cut, func(i ssa.Instruction) {
		ifi, ok := i.(*ssa.If)
		if !ok {
			return
		}
		t := tb.T(ifi.Cond)
		if t.Op != "binop" || !(t.Name == "<" || t.Name == "<=") {
			return
		}
		l, r := t.Args[0], t.Args[1]
		posSide := func(x *Term) bool { return x.contains(func(y *Term) bool { return y.isField("Position") }) }
		switch {
		case l.String() == lenOrig && posSide(r):
			nCut++
			if t.Name != "<" {
				badCut = append(badCut, "exit when Position >= len(seq): the overhang exactly at the origin is dropped")
			}
		case r.String() == lenOrig && posSide(l):
			nCut++
			// pos < len / pos <= len as a continue-condition: the exit is the false edge: !(pos <= len) = pos > len is fine; !(pos < len) = pos >= len is not
			if t.Name != "<=" {
				badCut = append(badCut, "continues only while Position < len(seq): the overhang exactly at the origin is dropped")
			}
		}
	})
	c.check(nCut >= 1 && len(badCut) == 0, "TERM-GEOM", "CUTOFF: circular scan stops only strictly beyond the original length", cut.Pos(), fmt.Sprintf("%d cut-off comparison(s), all strict", nCut), fmt.Sprintf("%d cut-off comparisons; %s", nCut, strings.Join(badCut, "; ")))
	// prerequisites from C11
	if f := w.fn("checks", "IsPalindromic"); f != nil {
		ptb := newTB(f)
		r := returnsOf(f)
		good := len(r) == 1 && ptb.T(r[0].Results[0]).String() == "binop[==](call[poly/transform.ReverseComplement](param[0]), param[0])"
		c.check(good, "TERM-GEOM", "prerequisite: IsPalindromic(s) = (s == RC(s))", f.Pos(), "as decided by C11", "checks.IsPalindromic is not s == ReverseComplement(s): reverse sites may be skipped for non-palindromic enzymes")
	}
}

func unwrapClosure(v ssa.Value) (*ssa.Function, bool) {
	switch x := unwrap(v).(type) {
	case *ssa.MakeClosure:
		f, ok := x.Fn.(*ssa.Function)
		return f, ok
	case *ssa.Function:
		return x, true
	}
	return nil, false
}
