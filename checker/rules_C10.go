package main

// C10 Type IIS digestion cuts at enzyme geometry.

import (
	"go/token"
	"go/constant"
	"go/types"
	"fmt"
	"sort"
	"strings"

	"golang.org/x/tools/go/ssa"
)

func init() { register("C10", ruleC10) }

// allocFieldStores groups, per local struct alloc of the given type, the terms stored into its fields.
func allocFieldStores(tb *TermBuilder, f *ssa.Function, typ string) map[*ssa.Alloc]map[string]*Term {
	out := map[*ssa.Alloc]map[string]*Term{}
	eachInstr(f, func(i ssa.Instruction) {
		st, ok := i.(*ssa.Store)
		if !ok {
			return
		}
		a, p, ok := rootAlloc(st.Addr)
		if !ok || len(p) != 1 || tname(deref(a.Type())) != typ {
			return
		}
		if out[a] == nil {
			out[a] = map[string]*Term{}
		}
		out[a][strings.TrimPrefix(p[0], ".")] = tb.T(st.Val)
	})
	return out
}

func ruleC10(c *Ctx) {
	c.Decided = []string{
		"TABLE-ENZ: built-in enzymes: map key = Name, RegexpFor pattern = RecognitionSite, RegexpRev pattern = reverse complement of the site (checker's own), site not palindromic, (Skip, OverhangLen) = REBASE geometry BsaI(1/5) BbsI(2/6) BtgZI(10/14)",
		"TERM-GEOM: forward overhang Position = matchEnd + Skip, reverse Position = matchStart - Skip, Length = OverhangLen; reverse sites searched iff the site is not its own reverse complement; fragment = seq[cur.Position : next.Position] for consecutive overhangs; directional filter keeps exactly cur.Forward && !next.Forward; Fragment{Sequence: f[ovl:len-ovl], ForwardOverhang: f[:ovl], ReverseOverhang: f[len-ovl:]}",
		"DEPEND: seq.Sequence is used only under strings.ToUpper or len; circular => the upper-cased string is the input doubled",
		"WRAPPERS: CutWithEnzymeByName looks the name up, errors on a miss, forwards directional unchanged; C11's rules for ReverseComplement / IsPalindromic are prerequisites and are re-run",
	}
	c.Undec = []string{"rotation independence and the doubled-sequence bookkeeping (loop cut-off at the original length, end trimming): violated today for some rotations, no shape rule separates a wrong cut-off from a right one", "sorting stability among equal positions"}
	c.Trusted = []string{"REBASE geometry for BsaI, BbsI, BtgZI as encoded in oracle.go", "regexp.FindAllStringIndex returns [start,end) pairs in order", "sort.SliceStable"}
	c.floor("TABLE-ENZ", 3)
	c.floor("TERM-GEOM", 6)
	c.floor("DEPEND", 1)
	c.floor("WRAPPERS", 1)
	w := c.W
	cut := w.fn("clone", "CutWithEnzyme")
	byName := w.fn("clone", "CutWithEnzymeByName")
	if cut == nil || byName == nil {
		c.missing("TERM-GEOM", "clone.CutWithEnzyme/ByName", "exported digestion functions")
		return
	}
	c.useFn(cut)
	c.useFn(byName)
	checkEnzymeTable(c, byName)
	checkCutByName(c, byName)
	checkCutGeometry(c, cut)
	// prerequisites from C11
	if f := w.fn("checks", "IsPalindromic"); f != nil {
		st, why := palindromeState(f)
		c.judge(st, "TERM-GEOM", "prerequisite: IsPalindromic(s) = (s == RC(s))", f.Pos(), "as decided by C11", "checks.IsPalindromic: "+why+": reverse sites may be skipped for non-palindromic enzymes")
	}
}

// checkEnzymeTable: every Enzyme literal with a constant name, wherever the package builds it.
func checkEnzymeTable(c *Ctx, byName *ssa.Function) {
	sp := pkgOf(byName)
	seen := map[string]bool{}
	var fs []*ssa.Function
	for _, f := range c.W.moduleFuncs() {
		if pkgOf(f) == sp && f.Blocks != nil {
			fs = append(fs, f)
		}
	}
	for _, f := range fs {
		v := &famView{root: f, fns: []*ssa.Function{f}, tb: map[*ssa.Function]*TermBuilder{f: newTB(f)}}
		for _, lit := range v.structLits("poly/clone.Enzyme") {
			nameT := lit.Fields["Name"]
			if nameT == nil {
				continue
			}
			name, isStr := nameT.constStr()
			if !isStr {
				continue
			}
			c.useFn(f)
			var problems, unknowns []string
			str := func(n string) (string, bool) {
				t := lit.Fields[n]
				if t == nil {
					unknowns = append(unknowns, n+" not set in the literal")
					return "", false
				}
				s, ok := t.constStr()
				if !ok {
					unknowns = append(unknowns, n+" is not a constant")
				}
				return s, ok
			}
			num := func(n string) (int64, bool) {
				t := lit.Fields[n]
				if t == nil {
					unknowns = append(unknowns, n+" not set in the literal")
					return -1, false
				}
				k, ok := t.constInt()
				if !ok {
					unknowns = append(unknowns, n+" is not a constant")
				}
				return k, ok
			}
			pat := func(n string) (string, bool) {
				t := lit.Fields[n]
				if t == nil || !(t.isCall("regexp.MustCompile")) {
					unknowns = append(unknowns, n+" is not regexp.MustCompile(<const>)")
					return "", false
				}
				s, ok := t.Args[0].constStr()
				if !ok {
					unknowns = append(unknowns, n+" pattern is not constant")
				}
				return s, ok
			}
			site, okSite := str("RecognitionSite")
			fw, okFw := pat("RegexpFor")
			rv, okRv := pat("RegexpRev")
			skip, okSkip := num("Skip")
			ovl, okOvl := num("OverhangLen")
			// a pattern is the site when it is the site's letters, whatever flags stand in front of it ("(?i)": the
			// search space is upper-cased anyway); a pattern with other regexp syntax in it is not compared
			plain := func(p string) (string, bool) {
				p = strings.TrimPrefix(p, "(?i)")
				for _, r := range p {
					if !(r >= 'A' && r <= 'Z') && !(r >= 'a' && r <= 'z') {
						return p, false
					}
				}
				return strings.ToUpper(p), true
			}
			if okFw {
				if q, isPlain := plain(fw); isPlain {
					fw = q
				} else {
					unknowns = append(unknowns, "forward pattern "+fw+" is not a plain site")
					okFw = false
				}
			}
			if okRv {
				if q, isPlain := plain(rv); isPlain {
					rv = q
				} else {
					unknowns = append(unknowns, "reverse pattern "+rv+" is not a plain site")
					okRv = false
				}
			}
			if okSite && okFw && fw != site {
				problems = append(problems, fmt.Sprintf("forward pattern %q != recognition site %q", fw, site))
			}
			if okSite && okRv && rv != rcOracle(site) {
				problems = append(problems, fmt.Sprintf("reverse pattern %q != reverse complement of the site %q", rv, rcOracle(site)))
			}
			if okSite && site == rcOracle(site) {
				problems = append(problems, "recognition site is palindromic")
			}
			if g, ok := rebaseEnzymes[name]; ok {
				if okSite && site != g.site {
					problems = append(problems, fmt.Sprintf("site %s, REBASE says %s", site, g.site))
				}
				if okSkip && skip != int64(g.k) {
					problems = append(problems, fmt.Sprintf("skip %d, REBASE says %s(%d/%d) i.e. skip %d", skip, g.site, g.k, g.m, g.k))
				}
				if okOvl && ovl != int64(g.m-g.k) {
					problems = append(problems, fmt.Sprintf("overhang %d, REBASE says %s(%d/%d) i.e. overhang %d", ovl, g.site, g.k, g.m, g.m-g.k))
				}
			} else {
				c.Notes = append(c.Notes, "enzyme "+name+" has no oracle entry; only internal consistency checked")
			}
			// the key it is filed under, if it is stored into a map with a constant key
			eachInstr(f, func(i ssa.Instruction) {
				if mu, ok := i.(*ssa.MapUpdate); ok {
					mv := v.T(f, mu.Value)
					if n := partialOf(mv, "Name"); n != nil && n.String() == nameT.String() {
						if key, isC := v.T(f, mu.Key).constStr(); isC && key != name {
							problems = append(problems, fmt.Sprintf("stored under %q but named %q", key, name))
						}
					}
				}
			})
			if seen[name] {
				continue
			}
			seen[name] = true
			switch {
			case len(problems) > 0:
				c.bad("TABLE-ENZ", name, lit.At.Pos(), strings.Join(problems, "; "))
			case len(unknowns) > 0:
				c.undecided("TABLE-ENZ", name, lit.At.Pos(), strings.Join(unknowns, "; "))
			default:
				c.ok("TABLE-ENZ", name, lit.At.Pos(), "name/key, patterns, non-palindromic site and REBASE geometry agree")
			}
		}
	}
	// whatever form the table has (literals, a list of definitions compiled in a loop): the site texts of the
	// function that compiles the patterns come in reverse-complement pairs
	for _, f := range funcsSorted(reachable(byName)) {
		if !inModule(f) || f.Blocks == nil {
			continue
		}
		compiles := false
		eachInstr(f, func(i ssa.Instruction) {
			if cl, ok := i.(*ssa.Call); ok && calleeName(cl) == "regexp.MustCompile" {
				compiles = true
			}
		})
		if !compiles {
			continue
		}
		sites := map[string]token.Pos{}
		eachInstr(f, func(i ssa.Instruction) {
			for _, op := range i.Operands(nil) {
				if op == nil || *op == nil {
					continue
				}
				k, ok := (*op).(*ssa.Const)
				if !ok || k.Value == nil || k.Value.Kind() != constant.String {
					continue
				}
				str := constant.StringVal(k.Value)
				if len(str) < 4 || strings.Trim(str, "ACGT") != "" {
					continue
				}
				if _, have := sites[str]; !have {
					sites[str] = i.Pos()
				}
			}
		})
		var lonely []string
		paired := 0
		var at token.Pos
		for str, pos := range sites {
			if _, ok := sites[rcOracle(str)]; ok {
				paired++
			} else {
				lonely = append(lonely, fmt.Sprintf("%s (its reverse complement %s is not among the sites)", str, rcOracle(str)))
				if at == token.NoPos || pos < at {
					at = pos
				}
			}
		}
		sort.Strings(lonely)
		switch {
		case len(sites) == 0:
		case len(lonely) == 0:
			c.ok("TABLE-ENZ", "sites come in reverse-complement pairs:"+fname(f), f.Pos(), fmt.Sprintf("%d site texts, each with its reverse complement", len(sites)))
		case paired >= 2:
			c.bad("TABLE-ENZ", "sites come in reverse-complement pairs:"+fname(f), at, "the built-in enzymes are given by a site and the pattern of the opposite strand; "+strings.Join(lonely, "; ")+": that enzyme's sites on the opposite strand are looked for under the wrong text")
		default:
			c.undecided("TABLE-ENZ", "sites come in reverse-complement pairs:"+fname(f), f.Pos(), "site texts without a partner: "+strings.Join(lonely, "; "))
		}
	}
	var missing []string
	for k := range rebaseEnzymes {
		if !seen[k] {
			missing = append(missing, k)
		}
	}
	sort.Strings(missing)
	if len(missing) > 0 {
		c.undecided("TABLE-ENZ", "built-in set", byName.Pos(), "no Enzyme literal found for: "+strings.Join(missing, ","))
	}
}

func checkCutByName(c *Ctx, byName *ssa.Function) {
	btb := newDeepTB(byName, "poly/clone.CutWithEnzyme")
	var okCall, okErr bool
	st, why := unknown, "no return of CutWithEnzyme(seq, directional, <enzyme looked up by name>) found"
	for _, r := range returnsOf(byName) {
		if len(r.Results) != 2 {
			continue
		}
		v, e := btb.T(r.Results[0]), btb.T(r.Results[1])
		pc := pathCond(btb, byName.Blocks[0], r.Block())
		if e.Op == "const" {
			if v.isCall("poly/clone.CutWithEnzyme") && len(v.Args) == 3 {
				byNameArg := v.Args[2].contains(func(x *Term) bool { return x.isParam(2) })
				switch {
				case v.Args[0].isParam(0) && v.Args[1].isParam(1) && byNameArg:
					okCall = true
				case !v.Args[1].isParam(1) && len(opaqueParts(v.Args[1], nil)) == 0:
					st, why = broken, "the directional flag handed to CutWithEnzyme is "+short(v.Args[1].String())+", not the caller's"
				case !v.Args[0].isParam(0) && len(opaqueParts(v.Args[0], nil)) == 0:
					st, why = broken, "the part handed to CutWithEnzyme is "+short(v.Args[0].String())+", not the caller's"
				}
			}
		} else if e.Op != "const" {
			for _, a := range pc.atoms() {
				if a.Neg && !a.Disj && a.Atom.Op == "extract" && a.Atom.Name == "1" {
					okErr = true
				}
			}
		}
	}
	if okCall && st != broken {
		st = holds
		if !okErr {
			st, why = unknown, "no error return under a failed lookup found"
		}
	}
	c.judge(st, "WRAPPERS", "CutWithEnzymeByName", byName.Pos(), "returns CutWithEnzyme(seq, directional, table[name]) or an error when the name is unknown", why)
}

func checkCutGeometry(c *Ctx, cut *ssa.Function) {
	view := newFamView(cut)
	for _, g := range view.fns {
		c.useFn(g)
	}
	tb := view.tb[cut]
	seqRaw := "field[Sequence](param[0])"
	up1 := "call[strings.ToUpper](" + seqRaw + ")"
	up2 := "call[strings.ToUpper](binop[+](" + seqRaw + ", " + seqRaw + "))"
	up2b := "binop[+](" + up1 + ", " + up1 + ")"
	E := "param[2]"
	// the working sequence: a phi of the upper-cased input and its doubling, doubled exactly on the Circular edge
	var SEQ string
	stSeq, whySeq := unknown, "no variable holding ToUpper(seq.Sequence) or its doubling found"
	eachInstr(cut, func(i ssa.Instruction) {
		ph, ok := i.(*ssa.Phi)
		if !ok || !isStringType(ph.Type()) || SEQ != "" {
			return
		}
		t := tb.T(ph)
		leaves := phiLeaves(t)
		if len(leaves) != 2 {
			return
		}
		a, b := leaves[0].String(), leaves[1].String()
		isDouble := func(s string) bool { return s == up2 || s == up2b }
		if !((a == up1 && isDouble(b)) || (isDouble(a) && b == up1)) {
			return
		}
		okEdges, inverted := true, true
		for k, e := range ph.Edges {
			pc := pathCond(tb, cut.Blocks[0], ph.Block().Preds[k])
			circ := pc.implies("field[Circular](param[0])", false)
			lin := pc.implies("field[Circular](param[0])", true)
			dbl := isDouble(tb.T(e).String())
			if dbl != circ {
				okEdges = false
			}
			if !(dbl && lin || !dbl && circ) {
				inverted = false
			}
		}
		switch {
		case okEdges:
			SEQ = t.String()
			stSeq = holds
		case inverted:
			stSeq, whySeq = broken, "the working sequence is doubled for linear parts and left single for circular ones"
		default:
			whySeq = "the doubling of the working sequence is not tied to seq.Circular in a recognised way"
		}
	})
	c.judge(stSeq, "DEPEND", "working sequence = ToUpper(seq) or ToUpper(seq+seq) iff Circular", cut.Pos(), "upper-cased; doubled exactly for circular parts", whySeq)
	if SEQ == "" {
		return
	}
	// raw uses of seq.Sequence
	var rawBad, rawUnknown []string
	view.each(func(g *ssa.Function, i ssa.Instruction) {
		v, ok := i.(ssa.Value)
		if !ok || v.Referrers() == nil {
			return
		}
		if view.T(g, v).String() != seqRaw {
			return
		}
		for _, r := range *v.Referrers() {
			switch x := r.(type) {
			case *ssa.DebugRef:
			case ssa.CallInstruction:
				n := calleeName(x)
				switch {
				case n == "strings.ToUpper" || n == "builtin:len" || n == "strings.ToLower":
				case x.Common().StaticCallee() != nil && inModule(x.Common().StaticCallee()):
					if !view.has(x.Common().StaticCallee()) {
						rawUnknown = append(rawUnknown, "passed to "+n)
					}
				default:
					rawBad = append(rawBad, "passed to "+n)
				}
			case *ssa.BinOp:
				for _, rr := range *x.Referrers() {
					if ci, ok := rr.(ssa.CallInstruction); !ok || calleeName(ci) != "strings.ToUpper" {
						if _, dbg := rr.(*ssa.DebugRef); !dbg {
							rawUnknown = append(rawUnknown, "concatenation used outside ToUpper")
						}
					}
				}
			case *ssa.Slice, *ssa.Index, *ssa.Lookup:
				rawBad = append(rawBad, "sliced or indexed as typed")
			default:
				rawUnknown = append(rawUnknown, fmt.Sprintf("%T", r))
			}
		}
	})
	switch {
	case len(rawBad) > 0:
		c.bad("DEPEND", "raw seq.Sequence only under ToUpper/len", cut.Pos(), "seq.Sequence is used without upper-casing: "+strings.Join(dedupe(rawBad), ", ")+": lower-case input changes the result")
	case len(rawUnknown) > 0:
		c.undecided("DEPEND", "raw seq.Sequence only under ToUpper/len", cut.Pos(), strings.Join(dedupe(rawUnknown), ", "))
	default:
		c.ok("DEPEND", "raw seq.Sequence only under ToUpper/len", cut.Pos(), "letter case cannot influence the result")
	}
	site := "field[RecognitionSite](" + E + ")"
	pals := []string{"binop[==](call[poly/transform.ReverseComplement](" + site + "), " + site + ")", "call[poly/checks.IsPalindromic](" + site + ")"}
	impliesPal := func(pc *Cond, neg bool) bool {
		for _, p := range pals {
			if pc.implies(p, neg) {
				return true
			}
		}
		return false
	}
	findAll := func(re string) string {
		return "call[(*regexp.Regexp).FindAllStringIndex](field[" + re + "](" + E + "), " + SEQ + ", const[-1])"
	}
	skip := "field[Skip](" + E + ")"
	vocab := vocabOf(skip, findAll("RegexpFor"), findAll("RegexpRev"), "field[OverhangLen]("+E+")", "const[0]", "const[1]", "binop[-](a, b)", "binop[+](a, b)", "index(each(x), const[0])")
	stF, whyF := unknown, "no forward overhang literal found"
	stR, whyR := unknown, "no reverse overhang literal found"
	var posF, posR = cut.Pos(), cut.Pos()
	for _, lit := range view.structLits("poly/clone.Overhang") {
		fl := lit.Fields
		if fl["Forward"] == nil || fl["Position"] == nil || fl["Length"] == nil {
			continue
		}
		pos := fl["Position"]
		judgeTerm := func(got *Term, want string) (int, string) {
			if got.String() == want {
				return holds, ""
			}
			if len(opaqueParts(got, vocab)) == 0 && localDiff(got, want) {
				return broken, short(got.String()) + "; want " + short(want)
			}
			return unknown, short(got.String()) + "; want " + short(want)
		}
		stL, whyL := judgeTerm(fl["Length"], "field[OverhangLen]("+E+")")
		if fl["Forward"].isConst("true") {
			posF = lit.At.Pos()
			want := "binop[+](" + skip + ", index(each(" + findAll("RegexpFor") + "), const[1]))"
			stP, whyP := judgeTerm(pos, want)
			stF, whyF = holds, ""
			if stP != holds {
				stF, whyF = stP, "forward overhang Position is "+whyP+" (end of the forward match + Skip)"
			} else if stL != holds {
				stF, whyF = stL, "forward overhang Length is "+whyL
			}
		} else if fl["Forward"].isConst("false") {
			posR = lit.At.Pos()
			want := "binop[-](index(each(" + findAll("RegexpRev") + "), const[0]), " + skip + ")"
			stP, whyP := judgeTerm(pos, want)
			pc := view.cond(lit.Fn, lit.At.Block())
			stR, whyR = holds, ""
			switch {
			case stP != holds:
				stR, whyR = stP, "reverse overhang Position is "+whyP+" (start of the reverse match - Skip)"
			case stL != holds:
				stR, whyR = stL, "reverse overhang Length is "+whyL
			case impliesPal(pc, false):
				stR, whyR = broken, "reverse sites are searched only when the site IS its own reverse complement (test inverted)"
			case !impliesPal(pc, true):
				stR, whyR = unknown, "reverse sites are searched under "+short(pc.String())
				onlyIter := true
				for _, a := range pc.atoms() {
					if !isIterCond(a.Atom) {
						onlyIter = false
					}
				}
				if onlyIter {
					stR, whyR = broken, "reverse sites are searched even when the site is its own reverse complement: each palindromic site is cut twice"
				}
			}
		}
	}
	// the meaning of the stored Position is the module's own business when every reader goes through a method
	// of the record that works Position out together with other fields (an edge() accessor): then the stored
	// number need not be the cut itself
	encapsulated := false
	view.each(func(g *ssa.Function, i ssa.Instruction) {
		ci, ok := i.(ssa.CallInstruction)
		if !ok {
			return
		}
		m := ci.Common().StaticCallee()
		if m == nil || m.Signature.Recv() == nil || !inModule(m) || m.Blocks == nil {
			return
		}
		if !strings.HasSuffix(tname(m.Signature.Recv().Type()), "Overhang") {
			return
		}
		readsPos, combines := false, false
		eachInstr(m, func(j ssa.Instruction) {
			switch x := j.(type) {
			case *ssa.Field:
				if st, isSt := x.X.Type().Underlying().(*types.Struct); isSt && st.Field(x.Field).Name() == "Position" {
					readsPos = true
				}
			case *ssa.FieldAddr:
				if storeFieldName(x) == "Position" {
					readsPos = true
				}
			case *ssa.BinOp:
				combines = true
			}
		})
		if readsPos && combines {
			encapsulated = true
		}
	})
	if encapsulated {
		if stF == broken && strings.Contains(whyF, "Position") {
			stF = unknown
		}
		if stR == broken && strings.Contains(whyR, "Position") {
			stR = unknown
		}
	}
	c.judge(stF, "TERM-GEOM", "forward overhang = matchEnd+Skip, Length=OverhangLen", posF, "cut downstream of every forward site", whyF)
	c.judge(stR, "TERM-GEOM", "reverse overhang = matchStart-Skip, searched iff site != RC(site)", posR, "cut upstream of every reverse site; palindromic sites are not searched twice", whyR)
	// fragments: slice(SEQ, Position(cur), Position(next)) appended to the list of stretches
	type fragSite struct {
		g    *ssa.Function
		st   *ssa.Store
		cur  *Term
		next *Term
	}
	var frags []fragSite
	var carried []string
	view.each(func(g *ssa.Function, i ssa.Instruction) {
		st, ok := i.(*ssa.Store)
		if !ok {
			return
		}
		a, p, ok := rootAlloc(st.Addr)
		if !ok || len(p) != 1 || p[0] != "[0]" || tname(deref(a.Type())) != "[1]string" {
			return
		}
		v := view.T(g, st.Val)
		if v.Op == "slice" && v.Args[0].String() == SEQ && v.Args[1].isField("Position") && v.Args[2].isField("Position") {
			frags = append(frags, fragSite{g, st, v.Args[1].Args[0], v.Args[2].Args[0]})
		} else if v.Op == "slice" && v.Args[0].String() == SEQ && v.Args[2].isField("Position") && v.Args[1].Op == "phi" && v.Args[1].Cyc {
			carried = append(carried, "a stretch starts at a position remembered from an earlier overhang (a loop-carried variable) and ends at the next backward cut: with two forward sites before a backward one the stretch spans the inner forward cut instead of starting at it")
		}
	})
	nDir, nAll := 0, 0
	var brokenF, unknownF []string
	brokenF = append(brokenF, carried...)
	for _, fs := range frags {
		// cur = overhangs[i], next = overhangs[i+1]
		okPair, wrongPair := false, false
		if fs.cur.Op == "index" && fs.next.Op == "index" && fs.cur.Args[0].String() == fs.next.Args[0].String() {
			b1, k1 := fs.cur.Args[1].linear()
			b2, k2 := fs.next.Args[1].linear()
			if b1 != nil && b2 != nil && b1.String() == b2.String() {
				okPair = k2-k1 == 1
				wrongPair = !okPair
			}
		}
		if wrongPair {
			brokenF = append(brokenF, "a fragment is cut between overhangs "+short(fs.cur.Args[1].String())+" and "+short(fs.next.Args[1].String())+", not between consecutive ones")
			continue
		}
		if !okPair {
			unknownF = append(unknownF, "a fragment is cut between "+short(fs.cur.String())+" and "+short(fs.next.String()))
			continue
		}
		pc := view.cond(fs.g, fs.st.Block())
		curF := "field[Forward](" + fs.cur.String() + ")"
		nextF := "field[Forward](" + fs.next.String() + ")"
		if pc.implies("param[1]", false) && impliesPal(pc, true) {
			switch {
			case pc.implies(curF, false) && pc.implies(nextF, true):
				nDir++
			case pc.implies(curF, true) || pc.implies(nextF, false):
				brokenF = append(brokenF, "the directional branch keeps a stretch whose left cut is not forward-pointing or whose right cut is not backward-pointing; want current.Forward && !next.Forward")
			default:
				unknownF = append(unknownF, "directional branch keeps a fragment under "+short(pc.String()))
			}
		} else {
			hasFilter := false
			for _, a := range pc.atoms() {
				if strings.HasPrefix(a.Atom.String(), "field[Forward](") {
					hasFilter = true
				}
			}
			if hasFilter {
				unknownF = append(unknownF, "the non-directional branch filters by orientation")
			} else {
				nAll++
			}
		}
	}
	switch {
	case len(brokenF) > 0:
		c.bad("TERM-GEOM", "fragment = seq[cur.Position:next.Position]; directional keeps cur.Forward && !next.Forward", cut.Pos(), strings.Join(brokenF, "; "))
	case nDir == 1 && nAll == 1 && len(unknownF) == 0:
		c.ok("TERM-GEOM", "fragment = seq[cur.Position:next.Position]; directional keeps cur.Forward && !next.Forward", cut.Pos(), "one directional and one unfiltered emission site, both between consecutive sorted overhangs")
	default:
		c.undecided("TERM-GEOM", "fragment = seq[cur.Position:next.Position]; directional keeps cur.Forward && !next.Forward", cut.Pos(), fmt.Sprintf("directional sites=%d unfiltered sites=%d; %s", nDir, nAll, strings.Join(unknownF, "; ")))
	}
	// overhangs are sorted by Position before pairing
	stS, whyS := unknown, "no sort of the overhang list found"
	view.each(func(g *ssa.Function, i ssa.Instruction) {
		ci, ok := i.(ssa.CallInstruction)
		if !ok || !(calleeName(ci) == "sort.SliceStable" || calleeName(ci) == "sort.Slice") {
			return
		}
		fn, ok := unwrapClosure(ci.Common().Args[1])
		if !ok {
			return
		}
		ltb := newTB(fn)
		if r := returnsOf(fn); len(r) == 1 {
			t := ltb.T(r[0].Results[0])
			if t.Op == "binop" && len(t.Args) == 2 && t.Args[0].isField("Position") && t.Args[1].isField("Position") {
				iFirst := strings.Contains(t.Args[0].String(), "param[0]") && strings.Contains(t.Args[1].String(), "param[1]")
				jFirst := strings.Contains(t.Args[0].String(), "param[1]") && strings.Contains(t.Args[1].String(), "param[0]")
				switch {
				case t.Name == "<" && iFirst:
					stS = holds
				case t.Name == "<" && jFirst:
					stS, whyS = broken, "the overhang list is sorted by descending Position: no forward cut is ever followed by a backward one in the paired order"
				default:
					whyS = "overhangs sorted by " + short(t.String())
				}
			}
		}
	})
	c.judge(stS, "TERM-GEOM", "overhangs sorted by ascending Position", cut.Pos(), "sort.SliceStable with overhangs[i].Position < overhangs[j].Position", whyS)
	// final Fragment fields
	stFin, whyFin := unknown, "no Fragment literal cut out of a stretch found"
	posFin := cut.Pos()
	ovl := "field[OverhangLen](" + E + ")"
	for _, lit := range view.structLits("poly/clone.Fragment") {
		fl := lit.Fields
		s, fo, ro := fl["Sequence"], fl["ForwardOverhang"], fl["ReverseOverhang"]
		if s == nil || fo == nil || ro == nil || s.Op != "slice" || fo.Op != "slice" || ro.Op != "slice" {
			continue
		}
		f := s.Args[0].String()
		if !strings.HasPrefix(f, "each(") {
			continue
		}
		posFin = lit.At.Pos()
		lenf := "call[builtin:len](" + f + ")"
		tail := "binop[-](" + lenf + ", " + ovl + ")"
		isZero := func(t *Term) bool { return t.Op == "nil" || t.isConst("0") }
		isEnd := func(t *Term) bool { return t.Op == "nil" || t.String() == lenf }
		okS := s.Args[1].String() == ovl && s.Args[2].String() == tail
		okF := fo.Args[0].String() == f && isZero(fo.Args[1]) && fo.Args[2].String() == ovl
		okR := ro.Args[0].String() == f && ro.Args[1].String() == tail && isEnd(ro.Args[2])
		if okS && okF && okR {
			stFin = holds
			// every stretch becomes a fragment
			if entry := loopBodyEntry(lit.At.Block()); entry != nil {
				if pc := view.condFrom(lit.Fn, entry, lit.At.Block()); pc.Op != "true" {
					onLen := false
					for _, a := range pc.atoms() {
						if strings.Contains(a.Atom.String(), lenf) && len(opaqueParts(parseTerm(strings.ReplaceAll(a.Atom.String(), f, "param[9]")), nil)) == 0 {
							onLen = true
						}
					}
					if len(opaqueCond(pc)) == 0 || onLen {
						stFin, whyFin = broken, "a cut stretch is turned into a Fragment only under "+short(pc.String())+": stretches failing it (e.g. cuts exactly two overhang lengths apart, whose interior is empty) are dropped"
					} else {
						stFin, whyFin = unknown, "stretches are filtered by "+short(pc.String())
					}
				}
			}
			continue
		}
		got := fmt.Sprintf("Fragment{Sequence:%s, ForwardOverhang:%s, ReverseOverhang:%s}", short(s.String()), short(fo.String()), short(ro.String()))
		lv := vocabOf(ovl, lenf, f, "binop[-](a,b)", "binop[+](a,b)", "const[0]", "const[1]")
		if stFin != holds {
			abstract := func(t *Term) *Term { return parseTerm(strings.ReplaceAll(t.String(), f, "param[9]")) }
			if len(opaqueParts(abstract(s), lv))+len(opaqueParts(abstract(fo), lv))+len(opaqueParts(abstract(ro), lv)) == 0 && fo.Args[0].String() == f && ro.Args[0].String() == f {
				stFin, whyFin = broken, got+"; want {f[ovl:len(f)-ovl], f[:ovl], f[len(f)-ovl:]}"
			} else {
				whyFin = got
			}
		}
	}
	c.judge(stFin, "TERM-GEOM", "Fragment = {f[ovl:len-ovl], f[:ovl], f[len-ovl:]}", posFin, "overhangs are the first and last OverhangLen letters of the cut stretch; every stretch is reported", whyFin)
	// CUTOFF: an overhang at Position == len(original) is NOT a duplicate of one in the first copy (a
	// forward cut is always > 0), so any early exit that compares a Position with len(seq.Sequence)
	// must be strict: leave only for positions strictly beyond the original length.
	lenOrig := "call[builtin:len](" + seqRaw + ")"
	nCut, badCut := 0, []string{}
	view.each(func(g *ssa.Function, i ssa.Instruction) {
		ifi, ok := i.(*ssa.If)
		if !ok {
			return
		}
		t := view.T(g, ifi.Cond)
		if t.Op != "binop" || !(t.Name == "<" || t.Name == "<=") {
			return
		}
		l, r := t.Args[0], t.Args[1]
		posSide := func(x *Term) bool { return x.contains(func(y *Term) bool { return y.isField("Position") }) }
		switch {
		case l.String() == lenOrig && posSide(r):
			nCut++
			if t.Name != "<" {
				badCut = append(badCut, "exit when Position >= len(seq): the overhang exactly at the origin is dropped")
			}
		case r.String() == lenOrig && posSide(l):
			nCut++
			// pos < len / pos <= len as a continue-condition: the exit is the false edge: !(pos <= len) = pos > len is fine; !(pos < len) = pos >= len is not
			if t.Name != "<=" {
				badCut = append(badCut, "continues only while Position < len(seq): the overhang exactly at the origin is dropped")
			}
		}
	})
	switch {
	case len(badCut) > 0:
		c.bad("TERM-GEOM", "CUTOFF: circular scan stops only strictly beyond the original length", cut.Pos(), fmt.Sprintf("%d cut-off comparisons; %s", nCut, strings.Join(badCut, "; ")))
	case nCut >= 1:
		c.ok("TERM-GEOM", "CUTOFF: circular scan stops only strictly beyond the original length", cut.Pos(), fmt.Sprintf("%d cut-off comparison(s), all strict", nCut))
	default:
		c.undecided("TERM-GEOM", "CUTOFF: circular scan stops only strictly beyond the original length", cut.Pos(), "no comparison of an overhang position with the original length found")
	}
}

func unwrapClosure(v ssa.Value) (*ssa.Function, bool) {
	switch x := unwrap(v).(type) {
	case *ssa.MakeClosure:
		f, ok := x.Fn.(*ssa.Function)
		return f, ok
	case *ssa.Function:
		return x, true
	}
	return nil, false
}
