package main

// C19 Melting temperatures follow the nearest-neighbour formula.

import (
	"fmt"
	"math"
	"sort"
	"strings"

	"golang.org/x/tools/go/ssa"
)

func init() { register("C19", ruleC19) }

func ruleC19(c *Ctx) {
	c.Decided = []string{
		"TABLE-NN: nearest-neighbour table key set = {A,C,G,T}^2 and strand symmetry p(XY)=p(rc(XY)); three penalty values present, each used for dH and dS under the same condition",
		"TERM-TM: dH and dS = initiation (always) + symmetry (iff s==RC(s)) + terminal penalty (iff last letter is A or T) + sum over windows [i,i+2) for i=0..len-2; salt term 0.368*(len-1)*ln(Na+140*Mg) added to dS only; Tm = dH*1000/(dS + R*ln(C/f)) - 273.15 with R=1.9872, f=1 on the self-complementary branch else 4",
		"DEPEND: returned dH's def-use slice contains none of the three concentrations; all results use sequence only through strings.ToUpper",
		"TERM: MeltingTemp(s) = SantaLucia(s, 500e-9, 50e-3, 0) first result; MarmurDoty = 2(A+T)+4(C+G)-7 over strings.Count of the upper-cased input",
		"NOSHARED: SantaLucia writes no package-level state (results depend on this call's arguments only)",
	}
	c.Undec = []string{"monotonicity in the three concentrations (an argument about reals given TERM-TM)", "the parameter values themselves (the property fixes the formula, not the numbers)"}
	c.Trusted = []string{"math.Log, strings.ToUpper, strings.Count"}
	c.floor("TABLE-NN", 2)
	c.floor("TERM-TM", 5)
	c.floor("DEPEND", 2)
	c.floor("TERM", 2)
	w := c.W
	sl := w.fn("primers", "SantaLucia")
	if sl == nil {
		c.missing("TERM-TM", "primers.SantaLucia", "primers.SantaLucia")
		return
	}
	c.useFn(sl)
	tb := newDeepTB(sl)
	rets := returnsOf(sl)
	if len(rets) != 1 || len(rets[0].Results) != 3 {
		c.undecided("TERM-TM", "SantaLucia:single result", sl.Pos(), fmt.Sprintf("SantaLucia has %d return sites; the model reads one", len(rets)))
		c.Floors["TERM-TM"] = 0
		santaLuciaDepend(c, sl, tb, nil)
		santaLuciaRest(c, "")
		return
	}
	up := "call[strings.ToUpper](param[0])"
	// self-complementarity is C11's reverse complement on A, C, G, T
	checkRCShape(c, "TERM")
	checkComplementOracleOn(c, "TERM", "ACGT")
	rc := "call[poly/transform.ReverseComplement](" + up + ")"
	symCond := "binop[==](" + rc + ", " + up + ")"
	last := "index(" + up + ", binop[-](call[builtin:len](" + up + "), const[1]))"
	dHv, dSv := rets[0].Results[1], rets[0].Results[2]

	// the four kinds of sequence the penalties distinguish
	type seqClass struct {
		name     string
		sym, lat bool
		lastCh   int64
	}
	classes := []seqClass{{"self-complementary, ends in A/T", true, true, 'T'}, {"self-complementary, ends in G/C", true, false, 'C'}, {"not self-complementary, ends in A/T", false, true, 'A'}, {"not self-complementary, ends in G/C", false, false, 'G'}}
	// a self-complementarity test delegated to a helper that compares mirrored positions
	symAtoms := map[string]bool{symCond: true}
	eachInstr(sl, func(i ssa.Instruction) {
		ifi, ok := i.(*ssa.If)
		if !ok {
			return
		}
		cl, ok := ifi.Cond.(*ssa.Call)
		if !ok {
			return
		}
		g := cl.Call.StaticCallee()
		if g == nil || !inModule(g) || g.Blocks == nil || len(cl.Call.Args) != 1 || tb.T(cl.Call.Args[0]).String() != up || !loopCompares(g) {
			return
		}
		c.useFn(g)
		st, why := mirrorLoopState(g)
		c.judge(st, "TERM-TM", "self-complementarity helper "+g.Name()+" compares every position with its mirror", g.Pos(), "for lengths 1..9 every position is compared with the complement of its mirror position", why)
		if st == holds {
			symAtoms[tb.T(cl).String()] = true
		}
	})
	valuation := func(cl seqClass) func(*Term) (bool, bool) {
		return func(t *Term) (bool, bool) {
			if symAtoms[t.String()] {
				return cl.sym, true
			}
			if t.isBin("==") {
				for k := 0; k < 2; k++ {
					if n, ok := t.Args[k].constInt(); ok && stripConv(t.Args[1-k]).String() == last {
						return n == cl.lastCh, true
					}
				}
			}
			return false, false
		}
	}
	table := func(cd *Cond) (string, bool) {
		out := ""
		for _, cl := range classes {
			v, known := evalCond3(cd, valuation(cl))
			if !known {
				return "", false
			}
			if v {
				out += "1"
			} else {
				out += "0"
			}
		}
		return out, true
	}
	const always, onSym, onAT = "1111", "1100", "1010"
	describe := map[string]string{always: "always", onSym: "iff self-complementary", onAT: "iff the last letter is A or T"}
	type penalty struct {
		global string
		table  string
		known  bool
		cond   *Cond
	}
	classify := func(v ssa.Value, fld string) (pen []penalty, nn []contrib, other []contrib) {
		for _, k := range additive(tb, v) {
			t := k.T
			switch {
			case t.Op == "field" && t.Name == fld && t.Args[0].Op == "global" && !k.Neg && !k.InLoop:
				tab, known := table(k.Cond)
				pen = append(pen, penalty{t.Args[0].Name, tab, known, k.Cond})
			case t.Op == "field" && t.Name == fld && (t.Args[0].Op == "lookup" || t.Args[0].Op == "index") && !k.Neg:
				nn = append(nn, k)
			default:
				other = append(other, k)
			}
		}
		return
	}
	penH, nnH, otherH := classify(dHv, "H")
	penS, nnS, otherS := classify(dSv, "S")
	for _, pair := range []struct {
		name string
		pen  []penalty
	}{{"dH", penH}, {"dS", penS}} {
		st, why := holds, ""
		seen := map[string]int{}
		for _, p := range pair.pen {
			switch {
			case !p.known:
				if st != broken {
					st, why = unknown, "penalty "+p.global+" is added under "+short(p.cond.String())
				}
			case describe[p.table] == "":
				var on []string
				for k, cl := range classes {
					if p.table[k] == '1' {
						on = append(on, cl.name)
					}
				}
				st, why = broken, "penalty "+p.global+" is added for {"+strings.Join(on, "; ")+"}; each penalty applies always, or exactly to self-complementary sequences, or exactly to sequences ending in A/T, independently of the others"
			default:
				seen[p.table]++
			}
		}
		if st == holds {
			for _, tb := range []string{always, onSym, onAT} {
				switch {
				case seen[tb] > 1 && len(pair.pen) == 3:
					st, why = broken, fmt.Sprintf("%d penalty terms are added %s", seen[tb], describe[tb])
				case seen[tb] > 1:
					// more package-level H/S terms than the three penalties: what the extra ones are is not read
					if st != broken {
						st, why = unknown, fmt.Sprintf("%d package-level terms are added %s (of %d in all; the model knows three penalties)", seen[tb], describe[tb], len(pair.pen))
					}
				case seen[tb] == 0 && len(pair.pen) == 3:
					st, why = broken, "no penalty term is added "+describe[tb]
				case seen[tb] == 0 && st == holds:
					st, why = unknown, "no penalty term found that is added "+describe[tb]
				}
			}
		}
		c.judge(st, "TERM-TM", pair.name+":penalties under {always, s==RC(s), last in {A,T}}", rets[0].Pos(),
			"initiation always, symmetry iff the upper-cased sequence equals its reverse complement, terminal penalty iff the LAST letter is A or T (decided on the four sequence classes)", why)
	}
	stP, whyP := holds, ""
	byTabH, byTabS := map[string]string{}, map[string]string{}
	for _, p := range penH {
		byTabH[p.table] = p.global
	}
	for _, p := range penS {
		byTabS[p.table] = p.global
	}
	distinct := map[string]bool{}
	for tbl, g := range byTabH {
		distinct[g] = true
		if tbl == "" {
			stP, whyP = unknown, "a penalty's condition was not evaluated"
		} else if gs, ok := byTabS[tbl]; ok && gs != g {
			stP, whyP = broken, "under the same condition dH takes its penalty from "+g+" and dS from "+gs
		}
	}
	if stP == holds && (len(distinct) != 3 || len(byTabS) != 3) {
		stP, whyP = unknown, fmt.Sprintf("dH penalties %v vs dS penalties %v", byTabH, byTabS)
	}
	c.judge(stP, "TABLE-NN", "three penalties used consistently for dH and dS", rets[0].Pos(), "each of three distinct penalty values contributes its H to dH and its S to dS under the same condition", whyP)
	// salt term: only in dS
	// the length of a text does not depend on its letter case or on its representation: len(ToUpper(x)),
	// len([]byte(x)) and len(x) are one term here
	lenNorm := func(t *Term) *Term {
		var rw func(x *Term) *Term
		rw = func(x *Term) *Term {
			if x == nil {
				return nil
			}
			args := make([]*Term, len(x.Args))
			for i, a := range x.Args {
				args[i] = rw(a)
			}
			if x.Op == "call" && x.Name == "builtin:len" && len(args) == 1 && args[0].Op == "call" && (args[0].Name == "strings.ToUpper" || args[0].Name == "strings.ToLower") && len(args[0].Args) == 1 {
				args = []*Term{args[0].Args[0]}
			}
			return &Term{Op: x.Op, Name: x.Name, Args: args, V: x.V, Cyc: x.Cyc}
		}
		return rw(normText(t))
	}
	salt := lenNorm(parseTerm("binop[*](binop[*](const[0.368], conv[float64](binop[-](call[builtin:len](" + up + "), const[1]))), call[math.Log](binop[+](binop[*](const[140], param[3]), param[2])))")).String()
	for i := range otherS {
		otherS[i].T = lenNorm(otherS[i].T)
	}
	stSalt, whySalt := unknown, ""
	var oh, os []string
	for _, k := range otherH {
		oh = append(oh, short(k.T.String()))
		if k.T.contains(func(x *Term) bool { return x.isCall("math.Log") }) && len(opaqueParts(k.T, nil)) == 0 {
			stSalt, whySalt = broken, "a salt-dependent term "+short(k.T.String())+" is added to dH: enthalpy must not depend on concentrations"
		}
	}
	for _, k := range otherS {
		os = append(os, short(k.T.String()))
	}
	if stSalt != broken {
		switch {
		case len(otherS) == 1 && len(otherH) == 0 && otherS[0].T.String() == salt:
			if otherS[0].Cond.Op == "true" && !otherS[0].InLoop && !otherS[0].Neg {
				stSalt = holds
			} else if otherS[0].InLoop {
				stSalt, whySalt = broken, "the salt correction is added inside a loop (once per iteration instead of once)"
			} else {
				whySalt = "the salt correction is added under " + short(otherS[0].Cond.String())
			}
		case len(otherS) == 1 && len(otherH) == 0:
			if len(opaqueParts(otherS[0].T, vocabOf(salt))) == 0 && localDiff(otherS[0].T, salt) {
				stSalt, whySalt = broken, "the salt correction is "+short(otherS[0].T.String())+"; want 0.368*(len-1)*ln(Na + 140*Mg)"
			} else {
				whySalt = "the extra dS term is " + short(otherS[0].T.String())
			}
		default:
			whySalt = fmt.Sprintf("extra dH terms %v; extra dS terms %v", oh, os)
		}
	}
	c.judge(stSalt, "TERM-TM", "salt term 0.368*(len-1)*ln(Na+140*Mg) in dS only", rets[0].Pos(), "the salt correction is added once, unconditionally, to dS and nothing else is added to dH or dS", whySalt)
	// neighbour loop: windows [i, i+2) for i = 0..len-2, decided for lengths 2..12
	stN, whyN := unknown, fmt.Sprintf("%d/%d nearest-neighbour lookups feed dH/dS, the model needs 1/1 inside the loop", len(nnH), len(nnS))
	var nnTable string
	if len(nnH) == 1 && len(nnS) == 1 && nnH[0].InLoop && nnS[0].InLoop {
		lk := normText(nnH[0].T.Args[0])
		// windows cut from the text as typed are as good as windows of the upper-cased text when the
		// table spells its keys in both cases
		if lk.Op == "lookup" && len(lk.Args) == 2 && lk.Args[0].Op == "global" && lk.Args[1].Op == "slice" && lk.Args[1].Args[0].String() == "param[0]" {
			switch keysCase(c.W, lk.Args[0].V) {
			case "both cases":
				lk = parseTerm(strings.Replace(lk.String(), "slice(param[0],", "slice("+up+",", 1))
				lk.Args[0].V = normText(nnH[0].T.Args[0]).Args[0].V
			case "":
				whyN = "neighbour windows are cut from the text as typed; the table's keys are not all constants, whether it knows both cases is not read"
				lk = &Term{Op: "unknown", Name: "table"}
			}
		}
		switch {
		case lk.Op == "unknown":
		case normText(nnS[0].T.Args[0]).String() != normText(nnH[0].T.Args[0]).String():
			stN, whyN = broken, "dH and dS look up different table entries: "+short(lk.String())+" vs "+short(nnS[0].T.Args[0].String())
		case lk.Op != "lookup" || lk.Args[0].Op != "global" || lk.Args[1].Op != "slice":
			whyN = "the neighbour lookup is " + short(lk.String())
		case lk.Args[1].Args[0].String() == "call[strings.ToLower](param[0])":
			// the other canonical case: consistent when the table is spelt in lower case, which is not read here
			whyN = "neighbour windows are cut from the lower-cased sequence; whether the table's keys are spelt in lower case is not compared"
		case lk.Args[1].Args[0].String() != up:
			stN, whyN = stateOf(false, vocabOf(up), lk.Args[1].Args[0]), "neighbour windows are cut from "+short(lk.Args[1].Args[0].String())+", not from the upper-cased sequence"
			if lk.Args[1].Args[0].contains(func(x *Term) bool {
				return x.Op == "phi" || x.Op == "anyof" || x.Op == "partial" || x.Op == "each" || x.Op == "alloc" || x.Op == "rec"
			}) {
				stN = unknown // a window assembled letter by letter: where its letters come from is not one source term
			}
		default:
			nnTable = lk.Args[0].Name
			lo, hi := lk.Args[1].Args[1], lk.Args[1].Args[2]
			hdr := enclosingLoopHeader(nnH[0].At.Block())
			if hdr == nil {
				break
			}
			ls, why := newLoopSim(tb, hdr)
			if ls == nil {
				whyN = why
				break
			}
			stN = holds
			for n := int64(2); n <= 12 && stN == holds; n++ {
				want := int64(0)
				ok, why := ls.run(n, nil, n+5, func(env map[string]int64) (bool, string) {
					l, ok1 := ls.evalInt(lo, env, 0)
					h, ok2 := ls.evalInt(hi, env, 0)
					switch {
					case !ok1 || !ok2:
						return false, "?window bounds not evaluable"
					case h > n || l < 0:
						return false, fmt.Sprintf("for a sequence of %d letters the loop reads the window [%d:%d], beyond the sequence", n, l, h)
					case l != want || h != want+2:
						return false, fmt.Sprintf("for a sequence of %d letters the loop reads the window [%d:%d] where [%d:%d] is due: adjacent pairs are skipped or repeated", n, l, h, want, want+2)
					}
					want++
					return true, ""
				})
				switch {
				case !ok && (strings.HasPrefix(why, "?") || strings.Contains(why, "not evaluable") || strings.Contains(why, "iteration bound")):
					stN, whyN = unknown, strings.TrimPrefix(why, "?")
				case !ok:
					stN, whyN = broken, why
				case want != n-1:
					stN, whyN = broken, fmt.Sprintf("for a sequence of %d letters %d adjacent pairs are summed; there are %d", n, want, n-1)
				}
			}
		}
	}
	c.judge(stN, "TERM-TM", "neighbour loop visits windows [i,i+2) for i=0..len-2", rets[0].Pos(), "every adjacent pair once, none beyond the end (decided for lengths 2..12)", whyN)
	// Tm formula
	tm := tb.T(rets[0].Results[0])
	stTm, whyTm := unknown, "Tm is "+short(tm.String())
	// a result cut off at a constant (math.Max(tm, 0), `if tm < 0 { tm = 0 }`) is the formula only on one side of it
	clamp := ""
	if (tm.isCall("math.Max") || tm.isCall("math.Min") || (tm.Op == "phi" && !tm.Cyc)) && len(tm.Args) == 2 {
		for k := 0; k < 2; k++ {
			if kf, isK := tm.Args[k].constFloat(); isK && tm.Args[1-k].isBin("-") && tm.Args[1-k].Args[0].isBin("/") {
				clamp = fmt.Sprintf("the temperature handed back is the constant %v on some inputs (cut off with %s): there the result is not the formula's value, and inputs that differ give the same answer", kf, map[bool]string{true: "a branch", false: tm.Name}[tm.Op == "phi"])
				tm = tm.Args[1-k]
				break
			}
		}
	}
	if tm.isBin("-") && tm.Args[0].isBin("/") {
		num, den := tm.Args[0].Args[0], tm.Args[0].Args[1]
		var problems, unknowns []string
		if clamp != "" {
			problems = append(problems, clamp)
		}
		if k, ok := tm.Args[1].constFloat(); !ok || k != 273.15 {
			if ok {
				problems = append(problems, fmt.Sprintf("Kelvin offset %v, want 273.15", k))
			} else {
				unknowns = append(unknowns, "offset "+short(tm.Args[1].String()))
			}
		}
		numOK := false
		if num.isBin("*") {
			for k := 0; k < 2; k++ {
				if num.Args[1-k].V == dHv {
					if f, ok := num.Args[k].constFloat(); ok {
						numOK = true
						if f != 1000 {
							problems = append(problems, fmt.Sprintf("dH is scaled by %v, want 1000 (kcal -> cal)", f))
						}
					}
				}
			}
		}
		if !numOK {
			unknowns = append(unknowns, "numerator "+short(num.String()))
		}
		var fTerm *Term
		denOK := false
		if den.isBin("+") {
			for k := 0; k < 2; k++ {
				a, b := den.Args[k], den.Args[1-k]
				if a.V == dSv && b.isBin("*") {
					for j := 0; j < 2; j++ {
						r, lg := b.Args[j], b.Args[1-j]
						if rf, ok := r.constFloat(); ok && lg.isCall("math.Log") && lg.Args[0].isBin("/") {
							denOK = true
							if rf != 1.9872 {
								problems = append(problems, fmt.Sprintf("gas constant %v, want 1.9872", rf))
							}
							if !lg.Args[0].Args[0].isParam(1) {
								if lg.Args[0].Args[0].Op == "param" {
									problems = append(problems, "the logarithm is taken of "+lg.Args[0].Args[0].String()+"/f, not of the oligo concentration")
								} else {
									unknowns = append(unknowns, "log argument "+short(lg.Args[0].String()))
								}
							}
							fTerm = lg.Args[0].Args[1]
						}
					}
				}
			}
		}
		if !denOK {
			unknowns = append(unknowns, "denominator "+short(den.String()))
		}
		if fTerm != nil {
			for _, sym := range []bool{true, false} {
				want := 4.0
				if sym {
					want = 1.0
				}
				leaf, ok := evalPhiUnder(tb, fTerm, valuation(seqClass{"", sym, false, 'C'}))
				f, isC := leaf.constFloat()
				switch {
				case !ok || !isC:
					unknowns = append(unknowns, "symmetry factor "+short(fTerm.String()))
				case f != want:
					problems = append(problems, fmt.Sprintf("the symmetry factor f is %v for %s sequences, want %v", f, map[bool]string{true: "self-complementary", false: "non-self-complementary"}[sym], want))
				}
			}
		}
		switch {
		case len(problems) > 0:
			stTm, whyTm = broken, strings.Join(problems, "; ")
		case len(unknowns) > 0:
			stTm, whyTm = unknown, strings.Join(dedupe(unknowns), "; ")
		default:
			stTm = holds
		}
	}
	c.judge(stTm, "TERM-TM", "Tm = dH*1000/(dS + R*ln(C/f)) - 273.15", rets[0].Pos(), "with R = 1.9872 and f = 1 for self-complementary sequences, 4 otherwise; dH and dS are the returned values", whyTm)
	santaLuciaDepend(c, sl, tb, dHv)
	santaLuciaRest(c, nnTable)
}

// evalPhiUnder resolves a value that is assigned in branches (a non-cyclic phi) under a valuation of
// the branch conditions: the leaf chosen, or ok=false if a needed condition is open.
func evalPhiUnder(tb *TermBuilder, t *Term, val func(*Term) (bool, bool)) (*Term, bool) {
	for depth := 0; depth < 6; depth++ {
		if t.Op != "phi" || t.Cyc {
			return t, true
		}
		ph, ok := t.V.(*ssa.Phi)
		if !ok || ph.Parent() != tb.F {
			return t, false
		}
		dom := ph.Block().Idom()
		if dom == nil {
			return t, false
		}
		var next *Term
		for k, e := range ph.Edges {
			pred := ph.Block().Preds[k]
			if !dom.Dominates(pred) {
				return t, false
			}
			ec := pathCond(tb, dom, pred)
			if ifi, ok := pred.Instrs[len(pred.Instrs)-1].(*ssa.If); ok && len(pred.Succs) == 2 && pred.Succs[0] != pred.Succs[1] {
				a := condOfBool(tb, ifi.Cond, 0)
				if pred.Succs[0] == ph.Block() {
					ec = cAnd(ec, a)
				} else {
					ec = cAnd(ec, cNot(a))
				}
			}
			v, known := evalCond3(ec, val)
			if !known {
				return t, false
			}
			if v {
				next = tb.T(e)
			}
		}
		if next == nil {
			return t, false
		}
		t = next
	}
	return t, false
}

func santaLuciaDepend(c *Ctx, sl *ssa.Function, tb *TermBuilder, dHv ssa.Value) {
	// DEPEND
	concInDH, concMaybe := false, false
	var dHc []contrib
	if dHv != nil {
		dHc = additive(tb, dHv)
	}
	isConc := func(x *Term) bool { return x.isParam(1) || x.isParam(2) || x.isParam(3) }
	for _, k := range dHc {
		d, u := occurs(k.T, isConc)
		concInDH = concInDH || d
		concMaybe = concMaybe || u
		for _, a := range k.Cond.atoms() {
			d, u := occurs(a.Atom, isConc)
			concInDH = concInDH || d
			concMaybe = concMaybe || u
		}
	}
	if !concInDH && concMaybe {
		c.undecided("DEPEND", "dH independent of concentrations", sl.Pos(), "a concentration parameter is part of a composite (or call argument) from which a dH contribution is read; whether the part read depends on it is not followed")
	} else {
		c.check(!concInDH, "DEPEND", "dH independent of concentrations", sl.Pos(), "no concentration parameter occurs in any dH contribution or its condition", "a concentration parameter flows into dH")
	}
	stRaw, whyRaw := judgeCase(c.W, sl, 0)
	if stRaw == broken {
		whyRaw += ": lower-case input changes the result (e.g. a lower-case self-complementary oligo is not recognised as such)"
	}
	c.judge(stRaw, "DEPEND", "sequence used only through ToUpper", sl.Pos(), "the letter case of the sequence reaches no case-sensitive operation", whyRaw)
}

func santaLuciaRest(c *Ctx, nnTable string) {
	w := c.W
	sl := w.fn("primers", "SantaLucia")
	up := "call[strings.ToUpper](param[0])"
	// TABLE-NN
	if nnTable == "" {
		c.undecided("TABLE-NN", "16 dinucleotides, strand-symmetric", sl.Pos(), "the nearest-neighbour table was not identified (no map lookup keyed by a 2-letter window)")
	}
	if nnTable != "" {
		name := nnTable[strings.LastIndex(nnTable, ".")+1:]
		p := w.pkg("primers")
		v := pkgVar(p, name)
		var av *AV
		if v != nil {
			if init := varInit(p, v); init != nil {
				av = evalAST(p, init)
			}
		}
		if av == nil || av.Kind != "comp" {
			c.undecided("TABLE-NN", "nearest-neighbour table", sl.Pos(), "table "+name+" is not a single composite literal")
		} else {
			vals := map[string][2]float64{}
			bad := []string{}
			for _, e := range av.Elts {
				if e.Key == nil || e.Key.Kind != "string" || e.Val.Kind != "comp" || len(e.Val.Elts) != 2 {
					bad = append(bad, "non-literal entry")
					continue
				}
				if _, dup := vals[e.Key.Str]; dup {
					bad = append(bad, "duplicate key "+e.Key.Str)
				}
				vals[e.Key.Str] = [2]float64{e.Val.Elts[0].Val.Float, e.Val.Elts[1].Val.Float}
			}
			for _, a := range "ACGT" {
				for _, b := range "ACGT" {
					k := string([]rune{a, b})
					if _, ok := vals[k]; !ok {
						bad = append(bad, "missing "+k)
						continue
					}
					r := rcOracle(k)
					if rv, ok := vals[r]; ok && (math.Abs(rv[0]-vals[k][0]) > 1e-12 || math.Abs(rv[1]-vals[k][1]) > 1e-12) {
						bad = append(bad, fmt.Sprintf("%s=%v but its reverse complement %s=%v", k, vals[k], r, rv))
					}
				}
			}
			if len(vals) != 16 {
				bad = append(bad, fmt.Sprintf("%d keys, want 16", len(vals)))
			}
			sort.Strings(bad)
			c.check(len(bad) == 0, "TABLE-NN", "16 dinucleotides, strand-symmetric", av.Pos, "key set {A,C,G,T}^2 and p(XY) = p(rc(XY))", strings.Join(bad, "; "))
			wr := globalWriters(c, "primers", name)
			if len(wr) > 0 {
				c.bad("TABLE-NN", "table read-only", av.Pos, "table written outside its initialiser: "+strings.Join(wr, ", "))
			}
		}
	}
	// NOSHARED: SantaLucia and helpers write no package-level variable
	var writes []string
	for _, f := range funcsSorted(reachable(sl)) {
		if !inModule(f) || f.Blocks == nil {
			continue
		}
		eachInstr(f, func(i ssa.Instruction) {
			switch x := i.(type) {
			case *ssa.Store:
				if g, ok := x.Addr.(*ssa.Global); ok {
					writes = append(writes, fname(f)+" assigns "+gname(g))
				}
			case *ssa.MapUpdate:
				if u, ok := x.Map.(*ssa.UnOp); ok {
					if g, ok := u.X.(*ssa.Global); ok {
						writes = append(writes, fname(f)+" updates "+gname(g))
					}
				}
			case ssa.CallInstruction:
				n := calleeName(x)
				if strings.HasPrefix(n, "(*sync.") {
					writes = append(writes, fname(f)+" calls "+n)
				}
			}
		})
	}
	// (whether such a write makes one call's answer depend on another's is what the shared STATE rules decide:
	// a table built once, a pooled buffer returned after use are writes too)
	if len(writes) == 0 {
		c.ok("DEPEND", "no state carried between calls", sl.Pos(), "SantaLucia and its helpers write no package-level state")
	} else {
		c.undecided("DEPEND", "no state carried between calls", sl.Pos(), "package-level state is written ("+strings.Join(writes, "; ")+"); whether a result can depend on an earlier call is judged by the STATE rules")
	}

	// TERM: MeltingTemp, MarmurDoty
	checkReturnIs(c, "TERM", "MeltingTemp=SantaLucia(s,500e-9,50e-3,0)[0]", w.fn("primers", "MeltingTemp"), 0, "extract[0](call[poly/primers.SantaLucia](param[0], const[5e-07], const[0.05], const[0]))", "defaults 500 nM oligo, 50 mM sodium, no magnesium; first result")
	if md := w.fn("primers", "MarmurDoty"); md != nil {
		c.useFn(md)
		st, whyM := unknown, "several returns"
		if alts := resultAlts(newDeepTB(md), md, 0); len(alts) == 1 {
			coefs, k, _ := linearForm(alts[0].T)
			want := map[string]float64{}
			for l, cf := range map[string]float64{"A": 2, "T": 2, "C": 4, "G": 4} {
				want[`call[strings.Count](`+up+`, const["`+l+`"])`] = cf
			}
			recognised := len(coefs) > 0
			for kk := range coefs {
				if !strings.HasPrefix(kk, "call[strings.Count]("+up+", const[") {
					recognised = false
				}
			}
			good := k == -7 && len(coefs) == 4
			for kk, v := range want {
				if coefs[kk] != v {
					good = false
				}
			}
			whyM = fmt.Sprintf("linear form %v %+g; want 2A+2T+4C+4G-7 over counts of the upper-cased input", coefs, k)
			switch {
			case good:
				st = holds
			case recognised:
				st = broken
			}
		}
		c.judge(st, "TERM", "MarmurDoty=2(A+T)+4(C+G)-7", md.Pos(), "coefficients 2,2,4,4 and constant -7 over strings.Count(ToUpper(s), letter)", short(whyM))
	} else {
		c.missing("TERM", "MarmurDoty", "primers.MarmurDoty")
	}
}

// rawParamUses lists instructions using parameter k of f other than as the argument of the allowed callee.
func rawParamUses(tb *TermBuilder, f *ssa.Function, k int, allowed string) []string {
	var out []string
	p := f.Params[k]
	for _, r := range *p.Referrers() {
		switch x := r.(type) {
		case *ssa.DebugRef:
		case ssa.CallInstruction:
			if calleeName(x) == allowed {
				continue
			}
			out = append(out, calleeName(x))
		case *ssa.Store:
			// value receiver / by-value parameter spilled to a local: follow loads of that local
			if a, ok := x.Addr.(*ssa.Alloc); ok && x.Val == ssa.Value(p) {
				for _, rr := range *a.Referrers() {
					if rr != ssa.Instruction(x) {
						if _, isDbg := rr.(*ssa.DebugRef); !isDbg {
							out = append(out, fmt.Sprintf("%T via local", rr))
						}
					}
				}
				continue
			}
			out = append(out, "store")
		default:
			out = append(out, fmt.Sprintf("%T", r))
		}
	}
	sort.Strings(out)
	return out
}
