package main

// C19 Melting temperatures follow the nearest-neighbour formula.

import (
	"fmt"
	"math"
	"sort"
	"strings"

	"golang.org/x/tools/go/ssa"
)

func init() { register("C19", ruleC19) }

func ruleC19(c *Ctx) {
	c.Decided = []string{
		"TABLE-NN: nearest-neighbour table key set = {A,C,G,T}^2 and strand symmetry p(XY)=p(rc(XY)); three penalty values present, each used for dH and dS under the same condition",
		"TERM-TM: dH and dS = initiation (always) + symmetry (iff s==RC(s)) + terminal penalty (iff last letter is A or T) + sum over windows [i,i+2) for i=0..len-2; salt term 0.368*(len-1)*ln(Na+140*Mg) added to dS only; Tm = dH*1000/(dS + R*ln(C/f)) - 273.15 with R=1.9872, f=1 on the self-complementary branch else 4",
		"DEPEND: returned dH's def-use slice contains none of the three concentrations; all results use sequence only through strings.ToUpper",
		"TERM: MeltingTemp(s) = SantaLucia(s, 500e-9, 50e-3, 0) first result; MarmurDoty = 2(A+T)+4(C+G)-7 over strings.Count of the upper-cased input",
		"NOSHARED: SantaLucia writes no package-level state (results depend on this call's arguments only)",
	}
	c.Undec = []string{"monotonicity in the three concentrations (an argument about reals given TERM-TM)", "the parameter values themselves (the property fixes the formula, not the numbers)"}
	c.Trusted = []string{"math.Log, strings.ToUpper, strings.Count"}
	c.floor("TABLE-NN", 2)
	c.floor("TERM-TM", 5)
	c.floor("DEPEND", 2)
	c.floor("TERM", 2)
	w := c.W
	sl := w.fn("primers", "SantaLucia")
	if sl == nil {
		c.missing("TERM-TM", "primers.SantaLucia", "primers.SantaLucia")
		return
	}
	c.useFn(sl)
	tb := newTB(sl)
	rets := returnsOf(sl)
	if len(rets) != 1 || len(rets[0].Results) != 3 {
		c.bad("TERM-TM", "SantaLucia:single result", sl.Pos(), fmt.Sprintf("SantaLucia has %d return sites; the formula must be computed on every call (a second return path, e.g. a cache, is not analysed)", len(rets)))
		return
	}
	up := "call[strings.ToUpper](param[0])"
	rc := "call[poly/transform.ReverseComplement](" + up + ")"
	symCond := "binop[==](" + rc + ", " + up + ")"
	last := "index(" + up + ", binop[-](call[builtin:len](" + up + "), const[1]))"
	atCond := "(binop[==](const[65], " + last + ") || binop[==](const[84], " + last + "))"
	dHv, dSv := rets[0].Results[1], rets[0].Results[2]

	type found struct {
		global string
		cond   string
	}
	classify := func(v ssa.Value, fld string, name string) (pen map[string]string, nn []contrib, other []contrib) {
		pen = map[string]string{} // cond -> global
		for _, k := range additive(tb, v) {
			t := k.T
			switch {
			case t.Op == "field" && t.Name == fld && t.Args[0].Op == "global" && !k.Neg && !k.InLoop:
				cs := k.Cond.String()
				if _, dup := pen[cs]; dup {
					other = append(other, k)
				}
				pen[cs] = t.Args[0].Name
			case t.Op == "field" && t.Name == fld && t.Args[0].Op == "lookup" && !k.Neg:
				nn = append(nn, k)
			default:
				other = append(other, k)
			}
		}
		return
	}
	penH, nnH, otherH := classify(dHv, "H", "dH")
	penS, nnS, otherS := classify(dSv, "S", "dS")
	wantConds := []string{"true", symCond, atCond}
	for _, pair := range []struct {
		name string
		pen  map[string]string
	}{{"dH", penH}, {"dS", penS}} {
		var got []string
		for k := range pair.pen {
			got = append(got, k)
		}
		sort.Strings(got)
		want := append([]string{}, wantConds...)
		sort.Strings(want)
		c.check(strings.Join(got, " ;; ") == strings.Join(want, " ;; "), "TERM-TM", pair.name+":penalties under {always, s==RC(s), last in {A,T}}", rets[0].Pos(),
			"initiation always, symmetry iff the upper-cased sequence equals its reverse complement, terminal penalty iff the LAST letter is A or T",
			"penalty terms are added under conditions ["+short(strings.Join(got, " ;; "))+"]; want always / "+short(symCond)+" / last letter A or T")
	}
	same := len(penH) == len(penS)
	for k, g := range penH {
		if penS[k] != g {
			same = false
		}
	}
	distinct := map[string]bool{}
	for _, g := range penH {
		distinct[g] = true
	}
	c.check(same && len(distinct) == 3, "TABLE-NN", "three penalties used consistently for dH and dS", rets[0].Pos(), "each of three distinct penalty values contributes its H to dH and its S to dS under the same condition", fmt.Sprintf("dH penalties %v vs dS penalties %v", penH, penS))
	// salt term: only in dS
	salt := "binop[*](binop[*](const[0.368], conv[float64](binop[-](call[builtin:len](" + up + "), const[1]))), call[math.Log](binop[+](binop[*](const[140], param[3]), param[2])))"
	saltOK := len(otherS) == 1 && otherS[0].T.String() == salt && otherS[0].Cond.Op == "true" && !otherS[0].InLoop && !otherS[0].Neg
	var oh []string
	for _, k := range otherH {
		oh = append(oh, short(k.T.String()))
	}
	var os []string
	for _, k := range otherS {
		os = append(os, short(k.T.String()))
	}
	c.check(saltOK && len(otherH) == 0, "TERM-TM", "salt term 0.368*(len-1)*ln(Na+140*Mg) in dS only", rets[0].Pos(), "the salt correction is added once, unconditionally, to dS and nothing else is added to dH or dS",
		fmt.Sprintf("extra dH terms %v; extra dS terms %v; want exactly the salt term in dS", oh, os))
	// neighbour loop
	nnOK := len(nnH) == 1 && len(nnS) == 1 && nnH[0].InLoop && nnS[0].InLoop
	why := fmt.Sprintf("%d/%d nearest-neighbour lookups feed dH/dS, want 1/1 inside the loop", len(nnH), len(nnS))
	var nnTable string
	if nnOK {
		lk := nnH[0].T.Args[0]
		if nnS[0].T.Args[0].String() != lk.String() {
			nnOK = false
			why = "dH and dS use different table lookups"
		} else if lk.Args[0].Op != "global" || lk.Args[1].Op != "slice" || lk.Args[1].Args[0].String() != up {
			nnOK = false
			why = "lookup key is not a window of the upper-cased sequence: " + short(lk.String())
		} else {
			nnTable = lk.Args[0].Name
			lo, hi := lk.Args[1].Args[1], lk.Args[1].Args[2]
			hb, hk := hi.linear()
			lb, lkk := lo.linear()
			if hb == nil || lb == nil || hb.String() != lb.String() || hk-lkk != 2 {
				nnOK = false
				why = "window is not [i, i+2)"
			} else {
				// i = phi(0, i+1)
				ph, isPhi := lb.V.(*ssa.Phi)
				if !isPhi || lkk != 0 {
					nnOK = false
					why = "window start is not the loop counter"
				} else {
					init0, step1 := false, false
					for _, e := range ph.Edges {
						et := tb.T(e)
						if et.isConst("0") {
							init0 = true
						} else if b, k := et.linear(); b != nil && b.V == ssa.Value(ph) && k == 1 {
							step1 = true
						}
					}
					// loop guard in the phi's block
					guardOK := false
					if ifi, ok := ph.Block().Instrs[len(ph.Block().Instrs)-1].(*ssa.If); ok {
						g := tb.T(ifi.Cond)
						if g.Op == "binop" && (g.Name == "<" || g.Name == "<=") {
							l, k1 := g.Args[0].linear()
							r, k2 := g.Args[1].linear()
							if l != nil && r != nil && l.V == ssa.Value(ph) && r.String() == "call[builtin:len]("+up+")" {
								d := k1 - k2
								guardOK = (g.Name == "<" && d == 1) || (g.Name == "<=" && d == 2)
							}
						}
					}
					if !init0 || !step1 || !guardOK {
						nnOK = false
						why = fmt.Sprintf("neighbour loop does not visit exactly i = 0..len-2 (starts at 0=%v, steps by 1=%v, guard i+1<len=%v)", init0, step1, guardOK)
					}
				}
			}
		}
	}
	c.check(nnOK, "TERM-TM", "neighbour loop visits windows [i,i+2) for i=0..len-2", rets[0].Pos(), "every adjacent pair once, none beyond the end", why)
	// Tm formula
	tm := tb.T(rets[0].Results[0])
	tmOK := false
	whyTm := "Tm is " + short(tm.String())
	if tm.isBin("-") && tm.Args[1].isConst("273.15") && tm.Args[0].isBin("/") {
		num, den := tm.Args[0].Args[0], tm.Args[0].Args[1]
		numOK := num.isBin("*") && ((num.Args[0].isConst("1000") && num.Args[1].V == dHv) || (num.Args[1].isConst("1000") && num.Args[0].V == dHv))
		denOK := false
		var fTerm *Term
		if den.isBin("+") {
			for k := 0; k < 2; k++ {
				a, b := den.Args[k], den.Args[1-k]
				if a.V == dSv && b.isBin("*") {
					for j := 0; j < 2; j++ {
						r, lg := b.Args[j], b.Args[1-j]
						if r.isConst("1.9872") && lg.isCall("math.Log") && lg.Args[0].isBin("/") && lg.Args[0].Args[0].isParam(1) {
							denOK = true
							fTerm = lg.Args[0].Args[1]
						}
					}
				}
			}
		}
		fOK := false
		if fTerm != nil {
			if ph, ok := fTerm.V.(*ssa.Phi); ok && len(ph.Edges) == 2 {
				fOK = true
				for i, e := range ph.Edges {
					pc := pathCond(tb, sl.Blocks[0], ph.Block().Preds[i])
					et := tb.T(e)
					if pc.implies(symCond, false) {
						fOK = fOK && et.isConst("1")
					} else if pc.implies(symCond, true) {
						fOK = fOK && et.isConst("4")
					} else {
						fOK = false
					}
				}
			}
		}
		tmOK = numOK && denOK && fOK
		whyTm = fmt.Sprintf("numerator dH*1000=%v; denominator dS + 1.9872*ln(C/f)=%v; f = 1 iff self-complementary else 4=%v", numOK, denOK, fOK)
	}
	c.check(tmOK, "TERM-TM", "Tm = dH*1000/(dS + R*ln(C/f)) - 273.15", rets[0].Pos(), "with R = 1.9872 and f = 1 on the s==RC(s) branch, 4 otherwise; dH and dS are the returned values", whyTm)

	// DEPEND
	concInDH := false
	for _, k := range additive(tb, dHv) {
		if k.T.contains(func(x *Term) bool { return x.isParam(1) || x.isParam(2) || x.isParam(3) }) {
			concInDH = true
		}
		for _, a := range k.Cond.atoms() {
			if a.Atom.contains(func(x *Term) bool { return x.isParam(1) || x.isParam(2) || x.isParam(3) }) {
				concInDH = true
			}
		}
	}
	c.check(!concInDH, "DEPEND", "dH independent of concentrations", rets[0].Pos(), "no concentration parameter occurs in any dH contribution or its condition", "a concentration parameter flows into dH")
	rawUse := rawParamUses(tb, sl, 0, "strings.ToUpper")
	c.check(len(rawUse) == 0, "DEPEND", "sequence used only through ToUpper", sl.Pos(), "the raw sequence parameter is only ever the operand of strings.ToUpper", "raw (not upper-cased) sequence used by: "+strings.Join(rawUse, ", "))

	// TABLE-NN
	if nnTable != "" {
		name := nnTable[strings.LastIndex(nnTable, ".")+1:]
		p := w.pkg("primers")
		v := pkgVar(p, name)
		var av *AV
		if v != nil {
			if init := varInit(p, v); init != nil {
				av = evalAST(p, init)
			}
		}
		if av == nil || av.Kind != "comp" {
			c.bad("TABLE-NN", "nearest-neighbour table", sl.Pos(), "table "+name+" is not a single composite literal")
		} else {
			vals := map[string][2]float64{}
			bad := []string{}
			for _, e := range av.Elts {
				if e.Key == nil || e.Key.Kind != "string" || e.Val.Kind != "comp" || len(e.Val.Elts) != 2 {
					bad = append(bad, "non-literal entry")
					continue
				}
				if _, dup := vals[e.Key.Str]; dup {
					bad = append(bad, "duplicate key "+e.Key.Str)
				}
				vals[e.Key.Str] = [2]float64{e.Val.Elts[0].Val.Float, e.Val.Elts[1].Val.Float}
			}
			for _, a := range "ACGT" {
				for _, b := range "ACGT" {
					k := string([]rune{a, b})
					if _, ok := vals[k]; !ok {
						bad = append(bad, "missing "+k)
						continue
					}
					r := rcOracle(k)
					if rv, ok := vals[r]; ok && (math.Abs(rv[0]-vals[k][0]) > 1e-12 || math.Abs(rv[1]-vals[k][1]) > 1e-12) {
						bad = append(bad, fmt.Sprintf("%s=%v but its reverse complement %s=%v", k, vals[k], r, rv))
					}
				}
			}
			if len(vals) != 16 {
				bad = append(bad, fmt.Sprintf("%d keys, want 16", len(vals)))
			}
			sort.Strings(bad)
			c.check(len(bad) == 0, "TABLE-NN", "16 dinucleotides, strand-symmetric", av.Pos, "key set {A,C,G,T}^2 and p(XY) = p(rc(XY))", strings.Join(bad, "; "))
			wr := globalWriters(c, "primers", name)
			if len(wr) > 0 {
				c.bad("TABLE-NN", "table read-only", av.Pos, "table written outside its initialiser: "+strings.Join(wr, ", "))
			}
		}
	}
	// NOSHARED: SantaLucia and helpers write no package-level variable
	var writes []string
	for _, f := range funcsSorted(reachable(sl)) {
		if !inModule(f) || f.Blocks == nil {
			continue
		}
		eachInstr(f, func(i ssa.Instruction) {
			switch x := i.(type) {
			case *ssa.Store:
				if g, ok := x.Addr.(*ssa.Global); ok {
					writes = append(writes, fname(f)+" assigns "+gname(g))
				}
			case *ssa.MapUpdate:
				if u, ok := x.Map.(*ssa.UnOp); ok {
					if g, ok := u.X.(*ssa.Global); ok {
						writes = append(writes, fname(f)+" updates "+gname(g))
					}
				}
			case ssa.CallInstruction:
				n := calleeName(x)
				if strings.HasPrefix(n, "(*sync.") {
					writes = append(writes, fname(f)+" calls "+n)
				}
			}
		})
	}
	c.check(len(writes) == 0, "DEPEND", "no state carried between calls", sl.Pos(), "SantaLucia and its helpers write no package-level state", "results may depend on earlier calls: "+strings.Join(writes, "; "))

	// TERM: MeltingTemp, MarmurDoty
	checkReturnIs(c, "TERM", "MeltingTemp=SantaLucia(s,500e-9,50e-3,0)[0]", w.fn("primers", "MeltingTemp"), 0, "extract[0](call[poly/primers.SantaLucia](param[0], const[5e-07], const[0.05], const[0]))", "defaults 500 nM oligo, 50 mM sodium, no magnesium; first result")
	if md := w.fn("primers", "MarmurDoty"); md != nil {
		c.useFn(md)
		t, _, ok := singleReturnTerm(md, 0)
		good := false
		whyM := "several returns"
		if ok {
			coefs, k, _ := linearForm(t)
			want := map[string]float64{}
			for l, cf := range map[string]float64{"A": 2, "T": 2, "C": 4, "G": 4} {
				want[`call[strings.Count](`+up+`, const["`+l+`"])`] = cf
			}
			good = k == -7 && len(coefs) == 4
			for kk, v := range want {
				if coefs[kk] != v {
					good = false
				}
			}
			whyM = fmt.Sprintf("linear form %v %+g; want 2A+2T+4C+4G-7 over counts of the upper-cased input", coefs, k)
		}
		c.check(good, "TERM", "MarmurDoty=2(A+T)+4(C+G)-7", md.Pos(), "coefficients 2,2,4,4 and constant -7 over strings.Count(ToUpper(s), letter)", short(whyM))
	} else {
		c.missing("TERM", "MarmurDoty", "primers.MarmurDoty")
	}
}

// rawParamUses lists instructions using parameter k of f other than as the argument of the allowed callee.
func rawParamUses(tb *TermBuilder, f *ssa.Function, k int, allowed string) []string {
	var out []string
	p := f.Params[k]
	for _, r := range *p.Referrers() {
		switch x := r.(type) {
		case *ssa.DebugRef:
		case ssa.CallInstruction:
			if calleeName(x) == allowed {
				continue
			}
			out = append(out, calleeName(x))
		case *ssa.Store:
			// value receiver / by-value parameter spilled to a local: follow loads of that local
			if a, ok := x.Addr.(*ssa.Alloc); ok && x.Val == ssa.Value(p) {
				for _, rr := range *a.Referrers() {
					if rr != ssa.Instruction(x) {
						if _, isDbg := rr.(*ssa.DebugRef); !isDbg {
							out = append(out, fmt.Sprintf("%T via local", rr))
						}
					}
				}
				continue
			}
			out = append(out, "store")
		default:
			out = append(out, fmt.Sprintf("%T", r))
		}
	}
	sort.Strings(out)
	return out
}
