package main

// C13 FASTA records survive write/read, re-wrapping and streaming unchanged.

import (
	"fmt"
	"strings"

	"golang.org/x/tools/go/ssa"
)

func init() { register("C13", ruleC13) }

func ruleC13(c *Ctx) {
	c.Decided = []string{
		"CHANLIFE: ParseConcurrent closes its output exactly once on every path after the last send, sends are blocking; Parse collects with range until close, appending in arrival order; the concurrent readers start the parser as a goroutine on the caller's channel",
		"SCANCAP: the bufio.Scanner that feeds records has Buffer(_, >=2^30) before the first Scan",
		"PREFIX: every line[0:k] test is dominated by len(line) >= k",
		"TERM: Build emits \">\"+Name+\"\\n\"+Sequence+\"\\n\" per record in order; parser: name = header minus its first byte, sequence = Join(lines, \"\") of the raw lines, blank and ';' lines contribute nothing",
		"NOSHARED: the parser and what it calls use no package-level variable",
		"WRAPPERS: Read/ReadGz/ReadConcurrent/ReadGzConcurrent/Write plumbing; Write truncates",
	}
	c.Undec = []string{"consumer-speed independence beyond 'sends block, close is last'", "gzip integrity", "CR handling (bufio.ScanLines strips a trailing \\r: std contract)"}
	c.Trusted = []string{"bufio.Scanner/ScanLines", "compress/gzip", "ioutil.WriteFile truncates"}
	c.floor("CHANLIFE", 4)
	c.floor("SCANCAP", 1)
	c.floor("PREFIX", 4)
	c.floor("TERM", 4)
	c.floor("WRAPPERS", 5)
	c.floor("NOSHARED", 1)
	w := c.W
	pc := w.fn("io/fasta", "ParseConcurrent")
	parse := w.fn("io/fasta", "Parse")
	if pc == nil || parse == nil {
		c.missing("CHANLIFE", "fasta.ParseConcurrent/Parse", "exported functions fasta.ParseConcurrent and fasta.Parse")
		return
	}
	c.useFn(pc)
	c.useFn(parse)
	if len(pc.Params) != 2 || !isChanType(pc.Params[1].Type()) {
		c.bad("CHANLIFE", "ParseConcurrent:signature", pc.Pos(), "ParseConcurrent(r, sequences) signature changed (unrecognised shape)")
		return
	}
	out := pc.Params[1]
	checkCloseOnce(c, "CHANLIFE", pc, out, "sequences")
	esc := chanEscapes(pc, out, nil)
	c.check(len(esc) == 0, "CHANLIFE", "no-handoff/sequences", pc.Pos(), "the channel is only sent on and closed inside ParseConcurrent", "channel handed to code this analysis does not follow: "+strings.Join(esc, ", "))

	// Parse: go ParseConcurrent(r, ch); range ch; append in order
	ptb := newTB(parse)
	gs := goSites(parse, pc)
	if len(gs) != 1 {
		c.bad("CHANLIFE", "Parse:go ParseConcurrent", parse.Pos(), fmt.Sprintf("%d go sites, want 1", len(gs)))
	} else {
		ch := unwrap(gs[0].Call.Args[1])
		_, isMake := ch.(*ssa.MakeChan)
		rt, _, ok := singleReturnTerm(parse, 0)
		good := false
		if ok && isMake {
			recv := "extract[0](unop[<-,ok](" + ptb.T(ch).String() + "))"
			apps := topAppendSites(ptb.T(returnsOf(parse)[0].Results[0]))
			good = len(apps) == 1 && apps[0].Elem.String() == recv && unwrap(gs[0].Call.Args[0]) == ssa.Value(parse.Params[0])
			_ = rt
		}
		c.check(good, "CHANLIFE", "Parse:collect until close, in order", gs[0].Pos(), "Parse starts the parser on its reader and appends every received record, in arrival order, until the channel is closed", "Parse does not collect exactly the records received from the parser goroutine in order (unrecognised shape)")
	}
	for _, name := range []string{"ReadConcurrent", "ReadGzConcurrent"} {
		f := w.fn("io/fasta", name)
		if f == nil {
			c.missing("WRAPPERS", name, "fasta."+name)
			continue
		}
		c.useFn(f)
		tb := newTB(f)
		gs := goSites(f, pc)
		good := len(gs) == 1
		if good {
			rd := tb.T(unwrap(gs[0].Call.Args[0])).String()
			want := "extract[0](call[os.Open](param[0]))"
			if name == "ReadGzConcurrent" {
				want = "extract[0](call[compress/gzip.NewReader](extract[0](call[os.Open](param[0]))))"
			}
			good = rd == want && unwrap(gs[0].Call.Args[1]) == ssa.Value(f.Params[1])
		}
		c.check(good, "WRAPPERS", name, f.Pos(), "starts ParseConcurrent as a goroutine on the opened file and the caller's channel", name+" does not start `go ParseConcurrent(<opened file>, sequences)` exactly once")
	}
	checkReturnIs(c, "WRAPPERS", "Read", w.fn("io/fasta", "Read"), 0, "call[poly/io/fasta.Parse](extract[0](call[os.Open](param[0])))", "Read(path) = Parse(os.Open(path))")
	checkReturnIs(c, "WRAPPERS", "ReadGz", w.fn("io/fasta", "ReadGz"), 0, "call[poly/io/fasta.Parse](extract[0](call[compress/gzip.NewReader](extract[0](call[os.Open](param[0])))))", "ReadGz(path) = Parse(gzip.NewReader(os.Open(path)))")
	checkFileWrite(c, "WRAPPERS", "Write", w.fn("io/fasta", "Write"), 1, "call[poly/io/fasta.Build](param[0])")

	// SCANCAP, PREFIX, NOSHARED over everything reachable from the parser
	reach := funcsSorted(reachable(pc, parse))
	var modReach []*ssa.Function
	for _, f := range reach {
		if inModule(f) && f.Blocks != nil {
			modReach = append(modReach, f)
		}
	}
	if checkScanCap(c, "SCANCAP", modReach) == 0 {
		// a bufio.Reader line loop has no token cap; nothing to check then
		c.Notes = append(c.Notes, "no bufio.Scanner in the parser")
		c.Floors["SCANCAP"] = 0
	}
	checkPrefix(c, "PREFIX", pc)
	checkNoShared(c, "NOSHARED", "fasta parser", modReach, nil)

	// TERM: Build
	build := w.fn("io/fasta", "Build")
	if build == nil {
		c.missing("TERM", "Build", "fasta.Build")
	} else {
		c.useFn(build)
		tb := newTB(build)
		rt, _, ok := singleReturnTerm(build, 0)
		var seq []string
		good := ok && rt.isCall("(*bytes.Buffer).Bytes")
		if good {
			buf := rt.Args[0].String()
			var blk *ssa.BasicBlock
			eachInstr(build, func(i ssa.Instruction) {
				if ci, ok := i.(ssa.CallInstruction); ok && strings.HasPrefix(calleeName(ci), "(*bytes.Buffer).Write") && tb.T(ci.Common().Args[0]).String() == buf {
					seq = append(seq, tb.T(ci.Common().Args[1]).String())
					if blk == nil {
						blk = ci.Block()
					} else if blk != ci.Block() {
						good = false
					}
				}
			})
			want := []string{`const[">"]`, "field[Name](each(param[0]))", `const["\n"]`, "field[Sequence](each(param[0]))", `const["\n"]`}
			if strings.Join(seq, " ") != strings.Join(want, " ") {
				good = false
			}
		}
		c.check(good, "TERM", "Build=>Name\\nSequence\\n per record", build.Pos(), "per record, in order: \">\", Name, \"\\n\", Sequence, \"\\n\" into the returned buffer", "Build writes "+short(strings.Join(seq, " "))+"; want >,Name,\\n,Sequence,\\n per record into the returned buffer")
	}
	// TERM: parser record contents
	tb := newTB(pc)
	sends := sendsOn(pc, out)
	text := "call[(*bufio.Scanner).Text](call[bufio.NewScanner](param[0]))"
	nameOK, seqOK, appOK := len(sends) > 0, len(sends) > 0, false
	var whyN, whyS string
	for _, s := range sends {
		v := tb.T(s.X)
		var nm, sq *Term
		for _, a := range v.Args {
			if a.Op == "partial" && a.Name == ".Name" {
				nm = a.Args[0]
			}
			if a.Op == "partial" && a.Name == ".Sequence" {
				sq = a.Args[0]
			}
		}
		if nm == nil || sq == nil {
			nameOK, seqOK = false, false
			whyN, whyS = "record is not built field by field", "record is not built field by field"
			continue
		}
		// name: phi web over {"" , slice(Text,1,nil)}
		leaves := phiLeaves(nm)
		for _, l := range leaves {
			ls := l.String()
			if ls != `const[""]` && ls != "slice("+text+", const[1], nil)" {
				nameOK = false
				whyN = "name may be " + short(ls)
			}
		}
		if !sq.isCall("strings.Join") || !sq.Args[1].isConst(`""`) {
			seqOK = false
			whyS = "sequence is " + short(sq.String())
			continue
		}
		sites := topAppendSites(sq.Args[0])
		if len(sites) != 1 {
			seqOK = false
			whyS = fmt.Sprintf("%d places add sequence lines, want 1", len(sites))
		}
		for _, st := range sites {
			if st.Elem.String() != text {
				seqOK = false
				whyS = "a line is transformed before being collected: " + short(st.Elem.String())
				continue
			}
			pcs := pathCond(tb, pc.Blocks[0], st.At.Block())
			lenz := "binop[==](call[builtin:len](" + text + "), const[0])"
			semi := `binop[==](const[";"], slice(` + text + `, const[0], const[1]))`
			gt := `binop[!=](const[">"], slice(` + text + `, const[0], const[1]))`
			if pcs.implies(lenz, true) && pcs.implies(semi, true) && pcs.implies(gt, false) {
				appOK = true
			} else {
				whyS = "lines are collected under " + short(pcs.String())
			}
		}
		for _, l := range phiLeaves(sq.Args[0]) {
			ls := l.String()
			if !(l.Op == "collect" || l.isCall("builtin:append") || strings.HasPrefix(ls, "const[nil:") || strings.HasPrefix(ls, "slice(zero[")) {
				seqOK = false
				whyS = "sequence lines may come from " + short(ls)
			}
		}
	}
	c.check(nameOK, "TERM", "parser:name=header[1:]", pc.Pos(), "record name is the header line minus its first byte", whyN)
	c.check(seqOK && appOK, "TERM", "parser:sequence=Join(raw lines,\"\")", pc.Pos(), "sequence = strings.Join of the unmodified non-blank, non-';', non-'>' lines, separator \"\"", whyS)
	// a record is sent per header (not first) and once after the loop
	c.check(len(sends) == 2, "TERM", "parser:one send per header + final", pc.Pos(), "one send in the loop (on a later header) and one after the loop", fmt.Sprintf("%d send sites, want 2", len(sends)))
}

// phiLeaves flattens phi/anyof nodes, dropping rec markers.
func phiLeaves(t *Term) []*Term {
	var out []*Term
	seen := map[string]bool{}
	var walk func(x *Term)
	walk = func(x *Term) {
		if x == nil {
			return
		}
		switch x.Op {
		case "phi", "anyof":
			for _, a := range x.Args {
				walk(a)
			}
		case "rec":
		default:
			if !seen[x.String()] {
				seen[x.String()] = true
				out = append(out, x)
			}
		}
	}
	walk(t)
	return out
}
