package main

// C13 FASTA records survive write/read, re-wrapping and streaming unchanged.

import (
	"fmt"
	"strings"

	"golang.org/x/tools/go/ssa"
)

func init() { register("C13", ruleC13) }

func ruleC13(c *Ctx) {
	c.Decided = []string{
		"CHANLIFE: ParseConcurrent closes its output exactly once on every path after the last send, sends are blocking; Parse collects with range until close, appending in arrival order; the concurrent readers start the parser as a goroutine on the caller's channel",
		"SCANCAP: the bufio.Scanner that feeds records has Buffer(_, >=2^30) before the first Scan",
		"PREFIX: every line[0:k] test is dominated by len(line) >= k",
		"TERM: Build emits \">\"+Name+\"\\n\"+Sequence+\"\\n\" per record in order; parser: name = header minus its first byte, sequence = Join(lines, \"\") of the raw lines, blank and ';' lines contribute nothing",
		"NOSHARED: the parser and what it calls use no package-level variable",
		"WRAPPERS: Read/ReadGz/ReadConcurrent/ReadGzConcurrent/Write plumbing; Write truncates",
	}
	c.Undec = []string{"consumer-speed independence beyond 'sends block, close is last'", "gzip integrity", "CR handling (bufio.ScanLines strips a trailing \\r: std contract)"}
	c.Trusted = []string{"bufio.Scanner/ScanLines", "compress/gzip", "ioutil.WriteFile truncates"}
	c.floor("CHANLIFE", 4)
	c.floor("SCANCAP", 1)
	c.floor("PREFIX", 4)
	c.floor("TERM", 4)
	c.floor("WRAPPERS", 5)
	c.floor("NOSHARED", 1)
	w := c.W
	pc := w.fn("io/fasta", "ParseConcurrent")
	parse := w.fn("io/fasta", "Parse")
	if pc == nil || parse == nil {
		c.missing("CHANLIFE", "fasta.ParseConcurrent/Parse", "exported functions fasta.ParseConcurrent and fasta.Parse")
		return
	}
	c.useFn(pc)
	c.useFn(parse)
	if len(pc.Params) != 2 || !isChanType(pc.Params[1].Type()) {
		c.undecided("CHANLIFE", "ParseConcurrent:signature", pc.Pos(), "ParseConcurrent(r, sequences) signature changed (unrecognised shape)")
		return
	}
	out := pc.Params[1]
	checkCloseOnce(c, "CHANLIFE", pc, out, "sequences")
	esc := chanEscapes(pc, out, nil)
	c.checkShape(len(esc) == 0, "CHANLIFE", "no-handoff/sequences", pc.Pos(), "the channel is only sent on and closed inside ParseConcurrent", "channel handed to code this analysis does not follow: "+strings.Join(esc, ", "))

	// Parse: go ParseConcurrent(r, ch); range ch; append in order
	ptb := newTB(parse)
	gs := goSites(parse, pc)
	if len(gs) != 1 {
		c.undecided("CHANLIFE", "Parse:go ParseConcurrent", parse.Pos(), fmt.Sprintf("%d go sites, the model needs 1", len(gs)))
	} else {
		ch := unwrap(gs[0].Call.Args[1])
		_, isMake := ch.(*ssa.MakeChan)
		st, why := unknown, "Parse does not visibly collect the records received from the parser goroutine"
		if alts := resultAlts(ptb, parse, 0); len(alts) == 1 && isMake {
			recv := "extract[0](unop[<-,ok](" + ptb.T(ch).String() + "))"
			apps := topAppendSites(alts[0].T)
			switch {
			case len(apps) == 1 && apps[0].Elem.String() == recv && unwrap(gs[0].Call.Args[0]) == ssa.Value(parse.Params[0]):
				st = holds
				if entry := loopBodyEntry(apps[0].At.Block()); entry != nil {
					if pcd := pathCond(ptb, entry, apps[0].At.Block()); pcd.Op != "true" && len(opaqueCond(pcd)) == 0 {
						st, why = broken, "a received record is kept only under "+short(pcd.String())
					}
				}
			case len(apps) == 1 && apps[0].Elem.String() == recv:
				why = "the parser goroutine does not read Parse's own reader"
			}
		}
		c.judge(st, "CHANLIFE", "Parse:collect until close, in order", gs[0].Pos(), "Parse starts the parser on its reader and appends every received record, in arrival order, until the channel is closed", why)
	}
	for _, name := range []string{"ReadConcurrent", "ReadGzConcurrent"} {
		f := w.fn("io/fasta", name)
		if f == nil {
			c.missing("WRAPPERS", name, "fasta."+name)
			continue
		}
		c.useFn(f)
		tb := newDeepTB(f, fname(pc))
		gs := goSites(f, pc)
		st, why := unknown, fmt.Sprintf("%d go sites of the parser", len(gs))
		if len(gs) == 1 {
			rd := tb.T(unwrap(gs[0].Call.Args[0]))
			want := "extract[0](call[os.Open](param[0]))"
			if name == "ReadGzConcurrent" {
				want = "extract[0](call[compress/gzip.NewReader](extract[0](call[os.Open](param[0]))))"
			}
			switch {
			case rd.String() == want && unwrap(gs[0].Call.Args[1]) == ssa.Value(f.Params[1]):
				st = holds
			case rd.String() != want && len(opaqueParts(rd, vocabOf(want))) == 0 && localDiff(rd, want):
				st, why = broken, "the parser reads "+short(rd.String())+"; want "+want
			default:
				why = "the parser is started on " + short(rd.String())
			}
		}
		c.judge(st, "WRAPPERS", name, f.Pos(), "starts ParseConcurrent as a goroutine on the opened file and the caller's channel", why)
	}
	checkReturnIs(c, "WRAPPERS", "Read", w.fn("io/fasta", "Read"), 0, "call[poly/io/fasta.Parse](extract[0](call[os.Open](param[0])))", "Read(path) = Parse(os.Open(path))")
	checkReturnIs(c, "WRAPPERS", "ReadGz", w.fn("io/fasta", "ReadGz"), 0, "call[poly/io/fasta.Parse](extract[0](call[compress/gzip.NewReader](extract[0](call[os.Open](param[0])))))", "ReadGz(path) = Parse(gzip.NewReader(os.Open(path)))")
	checkFileWrite(c, "WRAPPERS", "Write", w.fn("io/fasta", "Write"), 1, "call[poly/io/fasta.Build](param[0])")

	// SCANCAP, PREFIX, NOSHARED over everything reachable from the parser
	reach := funcsSorted(reachable(pc, parse))
	var modReach []*ssa.Function
	for _, f := range reach {
		if inModule(f) && f.Blocks != nil {
			modReach = append(modReach, f)
		}
	}
	if checkScanCap(c, "SCANCAP", modReach) == 0 {
		// a bufio.Reader line loop has no token cap; nothing to check then
		c.Notes = append(c.Notes, "no bufio.Scanner in the parser")
		c.Floors["SCANCAP"] = 0
	}
	checkPrefix(c, "PREFIX", pc)
	checkNoShared(c, "NOSHARED", "fasta parser", modReach, nil)
	scannerBytesRetained(c, "SCANCAP", modReach)

	// TERM: Build
	build := w.fn("io/fasta", "Build")
	if build == nil {
		c.missing("TERM", "Build", "fasta.Build")
	} else {
		c.useFn(build)
		checkRecordWriter(c, "TERM", "Build=>Name\\nSequence\\n per record", build, []string{`const[">"]`, "field[Name](each(param[0]))", `const["\n"]`, "field[Sequence](each(param[0]))", `const["\n"]`})
	}
	checkFastaRecords(c, pc, out)
}

// checkRecordWriter: f writes, per element of its first parameter and in order, exactly the wanted pieces.
func checkRecordWriter(c *Ctx, rule, construct string, f *ssa.Function, want []string) {
	tb := newDeepTB(f)
	var rt *Term
	n := 0
	for _, a := range resultAlts(tb, f, 0) {
		if a.T.Op == "const" && strings.HasPrefix(a.T.Name, "nil") {
			continue // an early "nothing to write" return
		}
		rt = a.T
		n++
	}
	if n != 1 {
		c.undecided(rule, construct, f.Pos(), fmt.Sprintf("%d result alternatives", n))
		return
	}
	ems, why := sinkEmissions(tb, f, rt)
	if why != "" {
		c.undecided(rule, construct, f.Pos(), why)
		return
	}
	got, blk, why := perIterationPieces(ems)
	if why != "" {
		c.undecided(rule, construct, f.Pos(), why)
		return
	}
	st, why := comparePieces(got, normWant(want))
	if st == holds {
		// once per record: the block runs unconditionally in a loop over the records
		if entry := loopBodyEntry(blk); entry == nil || pathCond(tb, entry, blk).Op != "true" {
			st, why = unknown, "records are written conditionally"
			if entry != nil {
				if pcd := pathCond(tb, entry, blk); len(opaqueCond(pcd)) == 0 {
					st, why = broken, "a record is written only under "+short(pcd.String())
				}
			}
		}
	}
	c.judge(st, rule, construct, ems[0].At.Pos(), "per record, in order: "+strings.Join(want, ", "), why)
}

func normWant(want []string) []string {
	var ts []*Term
	for _, w := range want {
		ts = append(ts, parseTerm(w))
	}
	return normPieces(ts)
}

// checkFastaRecords: what the streaming parser sends, decided per class of input line.
func checkFastaRecords(c *Ctx, pc *ssa.Function, out *ssa.Parameter) {
	view := newFamView(pc)
	tb := view.tb[pc]
	// the line under inspection
	text := ""
	view.each(func(g *ssa.Function, i ssa.Instruction) {
		if cl, ok := i.(*ssa.Call); ok && calleeName(cl) == "(*bufio.Scanner).Text" && g == pc {
			text = view.T(g, cl).String()
		}
	})
	sends := sendsOn(pc, out)
	if text == "" {
		// lines read with bufio.Reader.ReadString: the terminator has to be removed by hand, CR included
		view.each(func(g *ssa.Function, i ssa.Instruction) {
			cl, ok := i.(*ssa.Call)
			if !ok || !(strings.HasPrefix(calleeName(cl), "strings.Trim")) || len(cl.Call.Args) != 2 {
				return
			}
			t := view.T(g, cl)
			if !t.contains(func(x *Term) bool {
				return x.isCall("(*bufio.Reader).ReadString") || x.isCall("(*bufio.Reader).ReadLine") || x.isCall("(*bufio.Reader).ReadBytes")
			}) {
				return
			}
			if cs, ok := t.Args[1].constStr(); ok && strings.Contains(cs, "\n") && !strings.Contains(cs, "\r") {
				c.bad("TERM", "line ends: CR LF and LF read alike", cl.Pos(), fmt.Sprintf("lines are read with ReadString and only %q is removed from their end: with CRLF input every name and sequence line keeps a trailing \"\\r\" and a blank \"\\r\" line is taken for sequence data (bufio.Scanner's ScanLines would strip it)", cs))
			}
		})
	}
	if text == "" || len(sends) == 0 {
		c.undecided("TERM", "parser:records", pc.Pos(), "no bufio.Scanner line / no send found in ParseConcurrent")
		return
	}
	classes := []lineClass{{"blank", ""}, {"comment(;)", "; a comment"}, {"header(>)", ">name of record"}, {"data", "ACGTACGT"}, {"data", "A"}}
	stN, whyN := holds, ""
	stS, whyS := holds, ""
	wantName := "slice(" + text + ", const[1], nil)"
	type accum struct {
		elems  []appSite
		resets int
		key    string
	}
	var acc *accum
	for _, s := range sends {
		v := tb.T(s.X)
		nm, sq := partialOf(v, "Name"), partialOf(v, "Sequence")
		if nm == nil || sq == nil {
			stN, whyN = unknown, "the record sent is not a visible Fasta literal: "+short(v.String())
			stS, whyS = stN, whyN
			continue
		}
		// name: "" before the first header, else the header minus its first byte
		for _, l := range phiLeaves(nm) {
			ls := l.String()
			if ls == `const[""]` || ls == wantName {
				continue
			}
			st := unknown
			if len(opaqueParts(l, vocabOf(wantName, "const[0]"))) == 0 && localDiff(l, wantName) {
				st = broken
			}
			// the text after the marker taken as the second piece of the header split at EVERY marker: a name that
			// contains the marker again is cut there
			if nl := normText(l); nl.Op == "index" && len(nl.Args) == 2 && nl.Args[0].isCall("strings.Split") && len(nl.Args[0].Args) == 2 {
				if sep, isK := nl.Args[0].Args[1].constStr(); isK && sep == ">" {
					if k, isI := nl.Args[1].constInt(); isI && k == 1 {
						st = broken
						ls = ls + " (the header split at every '>': a name that contains '>' is cut short there)"
					}
				}
			}
			if stN == holds || st == broken {
				stN, whyN = st, "a record's name may be "+short(ls)+"; want the header line minus its first byte, unchanged"
			}
		}
		// sequence accumulator
		a := &accum{}
		switch {
		case sq.isCall("strings.Join"):
			sep, isC := sq.Args[1].constStr()
			if isC && sep != "" {
				stS, whyS = broken, fmt.Sprintf("sequence lines are joined with %q; wrapped sequences come back with that separator inside", sep)
				continue
			}
			if !isC {
				stS, whyS = unknown, "join separator "+short(sq.Args[1].String())
				continue
			}
			a.elems = topAppendSites(sq.Args[0])
			a.key = "list"
		case sq.isCall("(*strings.Builder).String") || sq.isCall("(*bytes.Buffer).String"):
			recv := sq.Args[0].String()
			for _, wr := range bufWrites(pc, tb, recv) {
				a.elems = append(a.elems, appSite{Elem: wr.arg, At: wr.call})
			}
			a.key = recv
		default:
			if stS == holds {
				stS, whyS = unknown, "sequence is "+short(sq.String())
			}
			continue
		}
		if len(a.elems) == 0 {
			if stS == holds {
				stS, whyS = unknown, "no place adds sequence lines"
			}
			continue
		}
		acc = a
		for _, e := range a.elems {
			if e.Elem.String() != text {
				st := unknown
				if len(opaqueParts(e.Elem, vocabOf(text))) == 0 && localDiff(e.Elem, text) {
					st = broken
				}
				if stS == holds || st == broken {
					stS, whyS = st, "a line is transformed before being collected: "+short(e.Elem.String())+"; the sequence must be the raw lines"
				}
				continue
			}
			pcs := view.cond(pc, e.At.Block())
			for _, cl := range classes {
				v, known := classEval(pcs, text, cl)
				switch {
				case cl.Name == "data" && known && !v:
					stS, whyS = broken, "ordinary sequence lines are never collected ("+classTable(pcs, text, classes)+")"
				case cl.Name != "data" && known && v:
					stS, whyS = broken, "a "+cl.Name+" line is collected as sequence ("+classTable(pcs, text, classes)+")"
				case cl.Name != "data" && !known && stS == holds:
					stS, whyS = unknown, "whether a "+cl.Name+" line is collected depends on "+short(pcs.String())
				}
			}
		}
	}
	c.judge(stN, "TERM", "parser:name=header[1:]", pc.Pos(), "record name is the header line minus its first byte", whyN)
	c.judge(stS, "TERM", "parser:sequence=Join(raw lines,\"\")", pc.Pos(), "sequence = concatenation of the unmodified lines that are not blank, not ';' comments and not headers", whyS)
	// sends: one in the loop on a header, one after the loop, unconditional with respect to what was collected
	stE, whyE := holds, ""
	nLoop, nFinal := 0, 0
	for _, s := range sends {
		pcs := view.cond(pc, s.Block())
		if inLoop(s.Block()) {
			nLoop++
			for _, cl := range classes {
				v, known := classEval(pcs, text, cl)
				if cl.Name != "header(>)" && known && v {
					stE, whyE = broken, "a record is sent on a "+cl.Name+" line ("+classTable(pcs, text, classes)+")"
				}
				if cl.Name == "header(>)" && known && !v {
					stE, whyE = broken, "no record is sent when a new header arrives ("+classTable(pcs, text, classes)+")"
				}
			}
			continue
		}
		nFinal++
		for _, at := range pcs.atoms() {
			as := at.Atom.String()
			if acc != nil && (strings.Contains(as, "call[builtin:len](") && at.Atom.contains(func(x *Term) bool { return x.Op == "collect" || x.isCall("builtin:append") }) || strings.Contains(as, ").Len]("+acc.key)) {
				stE, whyE = broken, "the last record is sent only under "+short(pcs.String())+": a final record whose sequence is empty is dropped"
			}
		}
	}
	if stE == holds && (nLoop != 1 || nFinal != 1) {
		stE, whyE = unknown, fmt.Sprintf("%d send sites in the loop, %d after it", nLoop, nFinal)
	}
	c.judge(stE, "TERM", "parser:one send per header + final", pc.Pos(), "one send in the loop (on a later header) and one after the loop", whyE)
}

// phiLeaves flattens phi/anyof nodes, dropping rec markers.
func phiLeaves(t *Term) []*Term {
	var out []*Term
	seen := map[string]bool{}
	var walk func(x *Term)
	walk = func(x *Term) {
		if x == nil {
			return
		}
		switch x.Op {
		case "phi", "anyof":
			for _, a := range x.Args {
				walk(a)
			}
		case "rec":
		default:
			if !seen[x.String()] {
				seen[x.String()] = true
				out = append(out, x)
			}
		}
	}
	walk(t)
	return out
}
