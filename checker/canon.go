package main

// canon.go: canonical-form algebra for seqhash (C04/C05/C12).
// A digest input is normalised into a tree over { X, RC(.), Rot(.), Min{.,.} }.  X is the
// normalised input string.  Anything else becomes an "?" node: the form is then unrecognised and the
// obligation undecided.  Recognised idioms:
//   Rot(y): RotateSequence(y)  |  (y+y)[k:k+len(y)]  |  Repeat(y,2)[k:k+len(y)]  |  y[k:]+y[:k]   with k = boothLeastRotation(y)
//   Min{a,b}: []string{a,b}; sort.Strings; [0]  |  phi selected by a<b / a<=b / b<a  |  a same-package helper whose body is such a selection
//   RC(y): transform.ReverseComplement(y)

import (
	"strconv"
	"go/token"
	"sort"
	"strings"

	"golang.org/x/tools/go/ssa"
)

type canon struct {
	Op   string // "X" "RC" "Rot" "Min" "?"
	Args []*canon
	Why  string
}

func (c *canon) String() string {
	switch c.Op {
	case "X":
		return "x"
	case "?":
		return "?(" + c.Why + ")"
	case "Min":
		a, b := c.Args[0].String(), c.Args[1].String()
		if a > b {
			a, b = b, a
		}
		return "Min{" + a + ", " + b + "}"
	}
	return c.Op + "(" + c.Args[0].String() + ")"
}

func (c *canon) known() bool {
	if c.Op == "?" {
		return false
	}
	for _, a := range c.Args {
		if !a.known() {
			return false
		}
	}
	return true
}

type canonizer struct {
	tb    *TermBuilder
	env   *modeEnv
	x     string // rendered term of the normalised input
	depth int
}

func (cz *canonizer) resolve(v ssa.Value) ssa.Value {
	for i := 0; i < 8; i++ {
		p, ok := v.(*ssa.Phi)
		if !ok || cz.env == nil {
			return v
		}
		r := cz.env.choose(p)
		if r == nil || r == v {
			return v
		}
		v = r
	}
	return v
}

func (cz *canonizer) of(v ssa.Value) *canon {
	cz.depth++
	defer func() { cz.depth-- }()
	if cz.depth > 12 {
		return &canon{Op: "?", Why: "too deep"}
	}
	v = cz.resolve(v)
	t := cz.tb.T(v)
	if t.String() == cz.x {
		return &canon{Op: "X"}
	}
	// Min via sorted pair
	if a, b, ok := minOfSortedPairV(cz.tb, v); ok {
		return &canon{Op: "Min", Args: []*canon{cz.of(a), cz.of(b)}}
	}
	switch x := v.(type) {
	case *ssa.Call:
		n := calleeName(x)
		switch n {
		case "poly/transform.ReverseComplement":
			return &canon{Op: "RC", Args: []*canon{cz.of(x.Call.Args[0])}}
		case "poly/seqhash.RotateSequence":
			return &canon{Op: "Rot", Args: []*canon{cz.of(x.Call.Args[0])}}
		}
		if g := x.Call.StaticCallee(); g != nil && pkgOf(g) == pkgOf(cz.tb.F) && g.Blocks != nil {
			// a same-package helper: min-of-two or rotate
			if len(x.Call.Args) == 2 && isMinHelper(g) {
				return &canon{Op: "Min", Args: []*canon{cz.of(x.Call.Args[0]), cz.of(x.Call.Args[1])}}
			}
			if len(x.Call.Args) == 1 && isRotateBody(g) == holds {
				return &canon{Op: "Rot", Args: []*canon{cz.of(x.Call.Args[0])}}
			}
			return &canon{Op: "?", Why: "helper " + fname(g)}
		}
		return &canon{Op: "?", Why: "call " + n}
	case *ssa.Phi:
		// Min via comparison-selected phi: two edges a, b chosen by a<b
		if len(x.Edges) == 2 {
			if m := cz.minPhi(x); m != nil {
				return m
			}
		}
		return &canon{Op: "?", Why: "merge of several values"}
	case *ssa.Slice, *ssa.BinOp:
		if y, ok := rotationOf(cz.tb, t); ok {
			return &canon{Op: "Rot", Args: []*canon{cz.ofTerm(y)}}
		}
	}
	return &canon{Op: "?", Why: short(t.String())}
}

func (cz *canonizer) ofTerm(t *Term) *canon {
	if t.String() == cz.x {
		return &canon{Op: "X"}
	}
	if t.V != nil {
		return cz.of(t.V)
	}
	return &canon{Op: "?", Why: short(t.String())}
}

// minPhi: phi(a, b) where the edge carrying a is taken exactly when a < b (or a <= b), or symmetric.
func (cz *canonizer) minPhi(p *ssa.Phi) *canon {
	a, b := p.Edges[0], p.Edges[1]
	ta, tbm := cz.tb.T(a).String(), cz.tb.T(b).String()
	for i := 0; i < 2; i++ {
		pc := pathCond(cz.tb, cz.tb.F.Blocks[0], p.Block().Preds[i])
		for _, at := range pc.atoms() {
			if at.Disj || at.Atom.Op != "binop" || !(at.Atom.Name == "<" || at.Atom.Name == "<=") {
				continue
			}
			l, r := at.Atom.Args[0].String(), at.Atom.Args[1].String()
			mine, other := ta, tbm
			if i == 1 {
				mine, other = tbm, ta
			}
			// this edge carries `mine`; it must be the lesser under the condition as taken
			lesserIsMine := (l == mine && r == other && !at.Neg) || (l == other && r == mine && at.Neg)
			greaterIsMine := (l == other && r == mine && !at.Neg) || (l == mine && r == other && at.Neg)
			if lesserIsMine {
				return &canon{Op: "Min", Args: []*canon{cz.of(a), cz.of(b)}}
			}
			if greaterIsMine {
				return &canon{Op: "?", Why: "the greater of two candidates is selected"}
			}
		}
	}
	return nil
}

// isMinHelper: func(a, b string) string returning a when a < b (or <=) and b otherwise.
func isMinHelper(g *ssa.Function) bool {
	if len(g.Params) != 2 || g.Signature.Results().Len() != 1 || !isStringType(g.Params[0].Type()) || !isStringType(g.Signature.Results().At(0).Type()) {
		return false
	}
	tb := newTB(g)
	alts := resultAlts(tb, g, 0)
	if len(alts) == 1 {
		if p, ok := alts[0].Ret.Results[0].(*ssa.Phi); ok && len(p.Edges) == 2 {
			cz := &canonizer{tb: tb, x: "-"}
			m := cz.minPhi(p)
			return m != nil && m.Op == "Min" && ((p.Edges[0] == ssa.Value(g.Params[0]) && p.Edges[1] == ssa.Value(g.Params[1])) || (p.Edges[1] == ssa.Value(g.Params[0]) && p.Edges[0] == ssa.Value(g.Params[1])))
		}
		return false
	}
	if len(alts) != 2 {
		return false
	}
	okA, okB := false, false
	for _, a := range alts {
		for _, at := range a.Cond.atoms() {
			if at.Disj || at.Atom.Op != "binop" || !(at.Atom.Name == "<" || at.Atom.Name == "<=") {
				continue
			}
			l, r := at.Atom.Args[0], at.Atom.Args[1]
			// condition "p0 < p1" taken => returns p0 ; not taken => returns p1 (and symmetric)
			if l.isParam(0) && r.isParam(1) {
				if !at.Neg && a.T.isParam(0) {
					okA = true
				}
				if at.Neg && a.T.isParam(1) {
					okB = true
				}
			}
			if l.isParam(1) && r.isParam(0) {
				if !at.Neg && a.T.isParam(1) {
					okB = true
				}
				if at.Neg && a.T.isParam(0) {
					okA = true
				}
			}
		}
	}
	return okA && okB
}

// rotationOf recognises a rotation of y at k = boothLeastRotation(y) written with slices.
func rotationOf(tb *TermBuilder, t *Term) (*Term, bool) {
	isK := func(k, y *Term) bool {
		return k.Op == "call" && strings.HasSuffix(k.Name, "boothLeastRotation") && len(k.Args) == 1 && k.Args[0].String() == y.String()
	}
	// y[k:] + y[:k]
	if t.isBin("+") && t.Args[0].Op == "slice" && t.Args[1].Op == "slice" {
		a, b := t.Args[0], t.Args[1]
		if a.Args[0].String() == b.Args[0].String() {
			y := a.Args[0]
			if isK(a.Args[1], y) && a.Args[2].Op == "nil" && (b.Args[1].Op == "nil" || b.Args[1].isConst("0")) && isK(b.Args[2], y) {
				return y, true
			}
		}
	}
	// doubled[k : k+len(y)]
	if t.Op == "slice" {
		d := t.Args[0]
		var y *Term
		switch {
		case d.isBin("+") && d.Args[0].String() == d.Args[1].String():
			y = d.Args[0]
		case d.isCall("strings.Repeat") && d.Args[1].isConst("2"):
			y = d.Args[0]
		case d.isCall("(*strings.Builder).String") || d.isCall("(*bytes.Buffer).String"):
			ws := bufWrites(tb.F, tb, d.Args[0].String())
			if len(ws) == 2 && ws[0].arg.String() == ws[1].arg.String() {
				y = ws[0].arg
			}
		}
		if y != nil && isK(t.Args[1], y) {
			hb, _ := t.Args[2].linear()
			hi := t.Args[2]
			_ = hb
			want1 := "binop[+](call[builtin:len](" + y.String() + "), " + t.Args[1].String() + ")"
			want2 := "binop[+](" + t.Args[1].String() + ", call[builtin:len](" + y.String() + "))"
			if hi.String() == want1 || hi.String() == want2 {
				return y, true
			}
		}
	}
	return nil, false
}

// isRotateBody: does g(s) return the rotation of s at boothLeastRotation(s)?  broken = a recognised
// window with a wrong bound, or arithmetic that fails for the empty string.
func isRotateBody(g *ssa.Function) int {
	tb := newDeepTB(g, "poly/seqhash.boothLeastRotation")
	alts := resultAlts(tb, g, 0)
	if len(alts) == 0 {
		return unknown
	}
	st := holds
	for _, a := range alts {
		if a.T.isParam(0) || a.T.isConst(`""`) {
			continue // fast path returning the input itself: fine only if it is the rotation; judged undecided below
		}
		if y, ok := rotationOf(tb, a.T); ok && y.isParam(0) {
			continue
		}
		st = unknown
		// positive evidence: a window of the doubled string with the wrong length
		if a.T.Op == "slice" {
			hb, hk := a.T.Args[2].linear()
			if hb != nil && strings.Contains(hb.String(), "call[builtin:len](param[0])") && hk != 0 {
				return broken
			}
		}
	}
	if st == holds {
		for _, a := range alts {
			if a.T.isParam(0) && len(alts) > 1 {
				st = unknown // a fast path: cannot tell statically that the input is already least
			}
		}
	}
	// a fast path that hands the input back for every string of some length >= 2, whatever its letters:
	// "TA" is not its own least rotation
	for _, a := range alts {
		if !a.T.isParam(0) || len(alts) < 2 {
			continue
		}
		for n := 2; n <= 3; n++ {
			if v, ok := condOnLen(a.Cond, n); ok && v {
				return broken
			}
		}
	}
	// modulo by the length: panics on the empty string
	bad := false
	eachInstr(g, func(i ssa.Instruction) {
		if bo, ok := i.(*ssa.BinOp); ok && (bo.Op == token.REM || bo.Op == token.QUO) {
			if ln, ok := bo.Y.(*ssa.Call); ok && calleeName(ln) == "builtin:len" {
				// guarded by a length test?
				pc := pathCond(tb, g.Blocks[0], bo.Block())
				guarded := false
				for _, at := range pc.atoms() {
					if strings.Contains(at.Atom.String(), "call[builtin:len](param[0])") {
						guarded = true
					}
				}
				if !guarded {
					bad = true
				}
			}
		}
	})
	if bad {
		return broken
	}
	return st
}

// minOfSortedPairV recognises `p := []string{a, b}; sort.Strings(p); p[0]` and returns the SSA values a, b.
func minOfSortedPairV(tb *TermBuilder, v ssa.Value) (a, b ssa.Value, ok bool) {
	ld, isLoad := v.(*ssa.UnOp)
	if !isLoad || ld.Op != token.MUL {
		return
	}
	ia, isIA := ld.X.(*ssa.IndexAddr)
	if !isIA {
		return
	}
	if k, isC := ia.Index.(*ssa.Const); !isC || k.Value == nil || k.Value.ExactString() != "0" {
		return
	}
	sl, isSl := ia.X.(*ssa.Slice)
	if !isSl {
		return
	}
	arr, isAl := sl.X.(*ssa.Alloc)
	if !isAl {
		return
	}
	sorted := false
	for _, r := range *sl.Referrers() {
		if ci, isCall := r.(ssa.CallInstruction); isCall && (calleeName(ci) == "sort.Strings" || calleeName(ci) == "slices.Sort") && domInstr(ci, ld) {
			sorted = true
		}
	}
	if !sorted {
		return
	}
	tb.buildStores()
	var es [2]ssa.Value
	n := 0
	for _, st := range tb.stores[arr] {
		_, p, _ := rootAlloc(st.Addr)
		if len(p) == 1 && (p[0] == "[0]" || p[0] == "[1]") {
			es[int(p[0][1]-'0')] = st.Val
			n++
		}
	}
	if n != 2 || es[0] == nil || es[1] == nil {
		return
	}
	return es[0], es[1], true
}

func sortedStrings(xs ...string) []string {
	sort.Strings(xs)
	return xs
}


// condOnLen evaluates a path condition that only compares len(param[0]) with constants, for len = n.
// ok is false when the condition looks at anything else.
func condOnLen(c *Cond, n int) (val, ok bool) {
	if c == nil {
		return false, false
	}
	switch c.Op {
	case "true":
		return true, true
	case "false":
		return false, true
	case "not":
		if len(c.Args) != 1 {
			return false, false
		}
		v, ok := condOnLen(c.Args[0], n)
		return !v, ok
	case "and", "or":
		res := c.Op == "and"
		for _, a := range c.Args {
			v, ok := condOnLen(a, n)
			if !ok {
				return false, false
			}
			if c.Op == "and" {
				res = res && v
			} else {
				res = res || v
			}
		}
		return res, true
	case "atom":
		t := c.Atom
		if t == nil || t.Op != "binop" || len(t.Args) != 2 {
			return false, false
		}
		const ln = "call[builtin:len](param[0])"
		l, r := t.Args[0], t.Args[1]
		op := t.Name
		if r.String() == ln {
			l, r = r, l
			switch op {
			case "<":
				op = ">"
			case "<=":
				op = ">="
			case ">":
				op = "<"
			case ">=":
				op = "<="
			}
		}
		if l.String() != ln || r.Op != "const" {
			return false, false
		}
		k, err := strconv.Atoi(r.Name)
		if err != nil {
			return false, false
		}
		switch op {
		case "<":
			return n < k, true
		case "<=":
			return n <= k, true
		case ">":
			return n > k, true
		case ">=":
			return n >= k, true
		case "==":
			return n == k, true
		case "!=":
			return n != k, true
		}
	}
	return false, false
}
