package main

// accum.go: additive decomposition of an accumulated numeric value (K7 for float formulas).
// A value built by "x += a; if c { x += b }; for … { x += d }" is the sum of its contributions,
// each with the condition under which it is added. This is def-use value numbering over the phi web.

import (
	"go/token"
	"sort"

	"golang.org/x/tools/go/ssa"
)

type contrib struct {
	T      *Term
	Neg    bool
	Cond   *Cond
	InLoop bool
	At     ssa.Instruction
}

func additive(tb *TermBuilder, v ssa.Value) []contrib {
	var out []contrib
	seen := map[ssa.Value]bool{}
	entry := tb.F.Blocks[0]
	var walk func(v ssa.Value, neg bool, at ssa.Instruction)
	walk = func(v ssa.Value, neg bool, at ssa.Instruction) {
		switch x := v.(type) {
		case *ssa.Phi:
			if seen[x] {
				return
			}
			seen[x] = true
			for _, e := range x.Edges {
				walk(e, neg, at)
			}
			return
		case *ssa.BinOp:
			if (x.Op == token.ADD || x.Op == token.SUB) && !isStringType(x.Type()) {
				if seen[x] {
					return
				}
				seen[x] = true
				walk(x.X, neg, x)
				walk(x.Y, neg != (x.Op == token.SUB), x)
				return
			}
		case *ssa.Const:
			if t := tb.T(x); t.isConst("0") {
				return
			}
		}
		c := contrib{T: tb.T(v), Neg: neg, At: at}
		if at != nil {
			c.Cond = pathCond(tb, entry, at.Block())
			c.InLoop = inLoop(at.Block())
		} else {
			c.Cond = &Cond{Op: "true"}
		}
		out = append(out, c)
	}
	walk(v, false, nil)
	sort.SliceStable(out, func(i, j int) bool { return out[i].T.String() < out[j].T.String() })
	return out
}

// linearForm flattens an arithmetic term into sum(coef * leaf) + k over float64.
func linearForm(t *Term) (map[string]float64, float64, bool) {
	coefs := map[string]float64{}
	k := 0.0
	ok := true
	var walk func(t *Term, m float64)
	walk = func(t *Term, m float64) {
		if f, isC := t.constFloat(); isC && t.Op == "const" {
			k += m * f
			return
		}
		switch {
		case t.Op == "binop" && t.Name == "+":
			walk(t.Args[0], m)
			walk(t.Args[1], m)
		case t.Op == "binop" && t.Name == "-":
			walk(t.Args[0], m)
			walk(t.Args[1], -m)
		case t.Op == "binop" && t.Name == "*":
			if f, isC := t.Args[0].constFloat(); isC {
				walk(t.Args[1], m*f)
			} else if f, isC := t.Args[1].constFloat(); isC {
				walk(t.Args[0], m*f)
			} else {
				coefs[t.String()] += m
			}
		case t.Op == "conv" && (t.Name == "float64" || t.Name == "int"):
			walk(t.Args[0], m)
		default:
			coefs[t.String()] += m
		}
	}
	walk(t, 1)
	return coefs, k, ok
}
