package main

// ssax.go: helpers over go/ssa – callee resolution, def-use terms (K7), memory
// resolution for non-lifted locals, path conditions, post-dominators.

import (
	"fmt"
	"go/constant"
	"go/token"
	"go/types"
	"sort"
	"strconv"
	"strings"

	"golang.org/x/tools/go/ssa"
)

// fname gives a stable printable name for a function: std as "strings.ToUpper",
// methods as "(*bytes.Buffer).WriteString", module functions with the module prefix cut to "poly".
func fname(f *ssa.Function) string {
	if f == nil {
		return "<nil>"
	}
	s := f.String()
	switch s {
	case "io/ioutil.ReadFile":
		return "os.ReadFile"
	case "io/ioutil.WriteFile":
		return "os.WriteFile"
	case "io/ioutil.ReadAll":
		return "io.ReadAll"
	}
	s = strings.ReplaceAll(s, modPath+"/", "poly/")
	s = strings.ReplaceAll(s, modPath+".", "poly.")
	s = strings.ReplaceAll(s, modPath, "poly")
	return s
}

func tname(t types.Type) string {
	t = types.Unalias(t) // a name given with "type X = …" is the type it stands for
	s := types.TypeString(t, func(p *types.Package) string {
		if strings.HasPrefix(p.Path(), modPath) {
			return "poly" + strings.TrimPrefix(p.Path(), modPath)
		}
		return p.Path()
	})
	return s
}

// callee returns the statically resolved callee of a call instruction, or nil.
func callee(c ssa.CallInstruction) *ssa.Function {
	if c == nil {
		return nil
	}
	return c.Common().StaticCallee()
}

// calleeName returns the resolved callee's name, "invoke:T.M" for interface calls,
// "builtin:x" for builtins and "" for dynamic calls through function values.
func calleeName(c ssa.CallInstruction) string {
	cc := c.Common()
	if f := cc.StaticCallee(); f != nil {
		return fname(f)
	}
	if cc.IsInvoke() {
		return "invoke:" + tname(cc.Value.Type()) + "." + cc.Method.Name()
	}
	if b, ok := cc.Value.(*ssa.Builtin); ok {
		return "builtin:" + b.Name()
	}
	return ""
}

// callArgs returns receiver (if any) followed by arguments.
func callArgs(c ssa.CallInstruction) []ssa.Value {
	cc := c.Common()
	if cc.IsInvoke() {
		return append([]ssa.Value{cc.Value}, cc.Args...)
	}
	return cc.Args
}

func eachInstr(f *ssa.Function, fn func(ssa.Instruction)) {
	if f == nil {
		return
	}
	for _, b := range f.Blocks {
		for _, i := range b.Instrs {
			fn(i)
		}
	}
}

// callsIn lists call instructions (Call, Go, Defer) of f whose callee name matches.
func callsIn(f *ssa.Function, name string) []ssa.CallInstruction {
	var out []ssa.CallInstruction
	eachInstr(f, func(i ssa.Instruction) {
		if c, ok := i.(ssa.CallInstruction); ok && calleeName(c) == name {
			out = append(out, c)
		}
	})
	return out
}

// reachable computes the set of module functions reachable from roots through static
// calls, go/defer, and function values (MakeClosure / function constants used as operands).
func reachable(roots ...*ssa.Function) map[*ssa.Function]bool {
	seen := map[*ssa.Function]bool{}
	var visit func(f *ssa.Function)
	visit = func(f *ssa.Function) {
		if f == nil || seen[f] {
			return
		}
		seen[f] = true
		if f.Blocks == nil {
			return
		}
		eachInstr(f, func(i ssa.Instruction) {
			if c, ok := i.(ssa.CallInstruction); ok {
				if g := callee(c); g != nil {
					visit(g)
				}
			}
			for _, op := range i.Operands(nil) {
				if op == nil || *op == nil {
					continue
				}
				switch v := (*op).(type) {
				case *ssa.Function:
					visit(v)
				case *ssa.MakeClosure:
					if g, ok := v.Fn.(*ssa.Function); ok {
						visit(g)
					}
				}
			}
		})
		for _, a := range f.AnonFuncs {
			visit(a)
		}
	}
	for _, r := range roots {
		visit(r)
	}
	return seen
}

func inModule(f *ssa.Function) bool {
	if f == nil {
		return false
	}
	if f.Pkg != nil {
		return strings.HasPrefix(f.Pkg.Pkg.Path(), modPath)
	}
	if f.Parent() != nil {
		return inModule(f.Parent())
	}
	if o := f.Object(); o != nil && o.Pkg() != nil {
		return strings.HasPrefix(o.Pkg().Path(), modPath)
	}
	return false
}

// ---------------------------------------------------------------------------
// Terms

type Term struct {
	Op   string // const param global func binop unop call callv phi field index lookup slice conv extract alloc make anyof next range typeassert closure rec zero
	Name string
	Args []*Term
	V    ssa.Value
	Cyc  bool // phi that (transitively) depends on itself
	str  string
}

func (t *Term) String() string {
	if t == nil {
		return "nil"
	}
	if t.str != "" {
		return t.str
	}
	// loop-carried values print atomically, so a term reads the same whether it is built from inside
	// or outside the cycle (structure stays available in Args of the outermost occurrence)
	if t.Op == "rec" || (t.Op == "phi" && t.Cyc) {
		t.str = "phi[" + t.Name + "]"
		return t.str
	}
	var sb strings.Builder
	sb.WriteString(t.Op)
	if t.Name != "" {
		sb.WriteString("[" + t.Name + "]")
	}
	if len(t.Args) > 0 {
		sb.WriteString("(")
		for i, a := range t.Args {
			if i > 0 {
				sb.WriteString(", ")
			}
			sb.WriteString(a.String())
		}
		sb.WriteString(")")
	}
	t.str = sb.String()
	return t.str
}

type TermBuilder struct {
	F             *ssa.Function
	memo          map[ssa.Value]*Term
	visiting      map[ssa.Value]bool
	stores        map[ssa.Value][]*ssa.Store // by root alloc
	built         bool
	closureStores map[*ssa.Store]bool
	pdom          map[*ssa.BasicBlock]map[*ssa.BasicBlock]bool
	MaxDepth      int
	NoInline      bool
	inlineDepth   int
	Choose        func(*ssa.Phi) ssa.Value   // optional: resolve a phi under a mode valuation
	Feasible      func(*ssa.BasicBlock) bool // optional: blocks that can run under the current mode valuation (stores elsewhere are ignored)
	Deep          bool                       // inline the return terms of module helpers (any shape) unless named in Keep
	Keep          map[string]bool
	stack         []*ssa.Function
	// Inline: module functions whose single-return body may be substituted (none by default).
}

func newTB(f *ssa.Function) *TermBuilder {
	return &TermBuilder{F: f, memo: map[ssa.Value]*Term{}, visiting: map[ssa.Value]bool{}, MaxDepth: 60}
}

func constString(c *ssa.Const) string {
	if c.Value == nil {
		return "nil:" + tname(c.Type())
	}
	switch c.Value.Kind() {
	case constant.String:
		return strconv.Quote(constant.StringVal(c.Value))
	case constant.Int:
		return c.Value.ExactString()
	case constant.Float:
		f, _ := constant.Float64Val(c.Value)
		return strconv.FormatFloat(f, 'g', -1, 64)
	case constant.Bool:
		return c.Value.String()
	}
	return c.Value.ExactString()
}

func isStringType(t types.Type) bool {
	b, ok := t.Underlying().(*types.Basic)
	return ok && b.Info()&types.IsString != 0
}

func isFloatType(t types.Type) bool {
	b, ok := t.Underlying().(*types.Basic)
	return ok && b.Info()&types.IsFloat != 0
}

func commutative(op token.Token, t types.Type) bool {
	switch op {
	case token.ADD:
		return !isStringType(t)
	case token.MUL, token.EQL, token.NEQ, token.AND, token.OR, token.XOR:
		return true
	}
	return false
}

// rootAlloc follows FieldAddr/IndexAddr(on pointer-to-array) chains to an Alloc.
func rootAlloc(addr ssa.Value) (*ssa.Alloc, []string, bool) {
	var path []string
	for {
		switch a := addr.(type) {
		case *ssa.Alloc:
			// reverse path
			for i, j := 0, len(path)-1; i < j; i, j = i+1, j-1 {
				path[i], path[j] = path[j], path[i]
			}
			return a, path, true
		case *ssa.FieldAddr:
			st := a.X.Type().Underlying().(*types.Pointer).Elem().Underlying().(*types.Struct)
			path = append(path, "."+st.Field(a.Field).Name())
			addr = a.X
		case *ssa.IndexAddr:
			if _, isPtr := a.X.Type().Underlying().(*types.Pointer); isPtr {
				if c, ok := a.Index.(*ssa.Const); ok && c.Value != nil {
					path = append(path, "["+c.Value.ExactString()+"]")
				} else {
					path = append(path, "[]")
				}
				addr = a.X
			} else {
				return nil, nil, false
			}
		default:
			return nil, nil, false
		}
	}
}

func (tb *TermBuilder) buildStores() {
	if tb.built {
		return
	}
	tb.built = true
	tb.stores = map[ssa.Value][]*ssa.Store{}
	fs := []*ssa.Function{tb.F}
	// closures of F may store into F's allocs (captured by reference)
	var addAnon func(f *ssa.Function)
	addAnon = func(f *ssa.Function) {
		for _, a := range f.AnonFuncs {
			fs = append(fs, a)
			addAnon(a)
		}
	}
	addAnon(tb.F)
	for _, f := range fs {
		eachInstr(f, func(i ssa.Instruction) {
			if s, ok := i.(*ssa.Store); ok {
				if a, _, ok := rootAlloc(s.Addr); ok {
					tb.stores[a] = append(tb.stores[a], s)
				} else if f != tb.F {
					// store through a captured variable: attribute it to the captured alloc (whole-object, path unknown)
					if a := capturedAlloc(s.Addr); a != nil {
						tb.stores[a] = append(tb.stores[a], s)
						if tb.closureStores == nil {
							tb.closureStores = map[*ssa.Store]bool{}
						}
						tb.closureStores[s] = true
					}
				}
			}
		})
	}
}

// capturedAlloc resolves an address rooted at a closure's free variable to the Alloc it was bound to.
func capturedAlloc(addr ssa.Value) *ssa.Alloc {
	for {
		switch a := addr.(type) {
		case *ssa.FieldAddr:
			addr = a.X
		case *ssa.IndexAddr:
			addr = a.X
		case *ssa.FreeVar:
			fn := a.Parent()
			idx := -1
			for i, fv := range fn.FreeVars {
				if fv == a {
					idx = i
				}
			}
			if idx < 0 || fn.Parent() == nil {
				return nil
			}
			var out *ssa.Alloc
			eachInstr(fn.Parent(), func(i ssa.Instruction) {
				if mc, ok := i.(*ssa.MakeClosure); ok && mc.Fn == ssa.Value(fn) && idx < len(mc.Bindings) {
					if al, ok := mc.Bindings[idx].(*ssa.Alloc); ok {
						out = al
					}
				}
			})
			return out
		default:
			return nil
		}
	}
}

func pathEq(a, b []string) bool {
	if len(a) != len(b) {
		return false
	}
	for i := range a {
		if a[i] != b[i] {
			return false
		}
	}
	return true
}

func hasPrefix(p, pre []string) bool {
	if len(pre) > len(p) {
		return false
	}
	return pathEq(p[:len(pre)], pre)
}

// load resolves the value read from address addr as a term.
func (tb *TermBuilder) load(addr ssa.Value, depth int, at ...ssa.Instruction) *Term {
	var L ssa.Instruction
	if len(at) > 0 {
		L = at[0]
	}
	if g, ok := addr.(*ssa.Global); ok {
		return &Term{Op: "global", Name: gname(g), V: g}
	}
	if a, path, ok := rootAlloc(addr); ok {
		return tb.resolve(a, path, depth, L)
	}
	return tb.loadOther(addr, depth)
}

// at evaluates the content of location alloc+path as seen just before instruction L.
func (tb *TermBuilder) at(a *ssa.Alloc, path []string, L ssa.Instruction) *Term {
	return tb.resolve(a, path, 0, L)
}

func (tb *TermBuilder) resolve(a *ssa.Alloc, path []string, depth int, L ssa.Instruction) *Term {
	{
		tb.buildStores()
		var cands []*Term
		live := tb.stores[a]
		if L != nil && L.Parent() == tb.F {
			live = tb.liveStores(a, path, L)
		}
		needZero := L != nil && L.Parent() == tb.F
		for _, s := range live {
			if tb.closureStores[s] {
				cands = append(cands, projectPath(&Term{Op: "closurewrite", Name: fname(s.Parent()), V: a}, path))
				continue
			}
			_, sp, _ := rootAlloc(s.Addr)
			if needZero && s.Parent() == tb.F && (pathEq(sp, path) || hasPrefix(path, sp)) && domInstr(s, L) {
				needZero = false
			}
			switch {
			case pathEq(sp, path):
				cands = append(cands, tb.term(s.Val, depth+1))
			case hasPrefix(path, sp):
				// store of an enclosing aggregate: project the remaining path
				t := tb.term(s.Val, depth+1)
				for _, p := range path[len(sp):] {
					if strings.HasPrefix(p, "[") {
						t = &Term{Op: "index", Args: []*Term{t, {Op: "any", Name: p}}}
					} else {
						t = projectField(t, strings.TrimPrefix(p, "."))
					}
				}
				cands = append(cands, t)
			case hasPrefix(sp, path):
				// partial store into a sub-component of what we load: the loaded aggregate is composite
				cands = append(cands, &Term{Op: "partial", Name: strings.Join(sp[len(path):], ""), Args: []*Term{tb.term(s.Val, depth+1)}})
			}
		}
		// does the alloc escape by being passed to a call (e.g. json.Unmarshal(&x), decoder.DecodeElement(&e))?
		for _, r := range *a.Referrers() {
			ci, ok := r.(ssa.CallInstruction)
			if !ok {
				if mi, isMI := r.(*ssa.MakeInterface); isMI {
					for _, rr := range *mi.Referrers() {
						if c2, ok := rr.(ssa.CallInstruction); ok && (L == nil || tb.writerLive(a, c2, L)) {
							cands = append(cands, projectPath(&Term{Op: "outparam", Name: calleeName(c2), V: a}, path))
						}
					}
				}
				continue
			}
			if L != nil && L.Parent() == tb.F && !tb.writerLive(a, ci, L) {
				continue
			}
			if !calleeMayWrite(ci, a, path) {
				continue
			}
			cands = append(cands, projectPath(&Term{Op: "outparam", Name: calleeName(ci), V: a}, path))
		}
		if len(cands) == 0 {
			return &Term{Op: "zero", Name: tname(deref(a.Type())) + pathString(path)}
		}
		hasPartial := false
		for _, cd := range cands {
			if cd.Op == "partial" {
				hasPartial = true
			}
		}
		if needZero && !a.Heap && !hasPartial {
			// zero value may still be visible (fields of a literal built field by field are read through partials)
			cands = append(cands, &Term{Op: "zero", Name: tname(deref(a.Type())) + pathString(path)})
		}
		if len(cands) == 1 {
			return cands[0]
		}
		sort.Slice(cands, func(i, j int) bool { return cands[i].String() < cands[j].String() })
		// dedupe
		out := cands[:0]
		for i, c := range cands {
			if i == 0 || c.String() != cands[i-1].String() {
				out = append(out, c)
			}
		}
		if len(out) == 1 {
			return out[0]
		}
		return &Term{Op: "anyof", Args: out}
	}
}

func (tb *TermBuilder) loadOther(addr ssa.Value, depth int) *Term {
	switch a := addr.(type) {
	case *ssa.FieldAddr:
		st := a.X.Type().Underlying().(*types.Pointer).Elem().Underlying().(*types.Struct)
		return projectField(tb.loadPtr(a.X, depth+1), st.Field(a.Field).Name())
	case *ssa.IndexAddr:
		var x *Term
		if _, isPtr := a.X.Type().Underlying().(*types.Pointer); isPtr {
			x = tb.loadPtr(a.X, depth+1)
		} else {
			x = tb.term(a.X, depth+1)
		}
		if isRangeIndex(a.Index) {
			t := tb.eachOrZip(x, a.Index)
			t.V = a
			return t
		}
		return &Term{Op: "index", Args: []*Term{x, tb.term(a.Index, depth+1)}, V: a}
	}
	return &Term{Op: "deref", Args: []*Term{tb.term(addr, depth+1)}}
}

func (tb *TermBuilder) loadPtr(p ssa.Value, depth int) *Term { return tb.load(p, depth) }

func pathString(p []string) string { return strings.Join(p, "") }

func deref(t types.Type) types.Type {
	if p, ok := t.Underlying().(*types.Pointer); ok {
		return p.Elem()
	}
	return t
}

func projectField(t *Term, name string) *Term {
	// field of a struct literal built by stores: look through "anyof"/"partial"
	if t.Op == "anyof" {
		var hits, nested []*Term
		whole := false
		for _, a := range t.Args {
			if a.Op == "partial" {
				if a.Name == "."+name {
					hits = append(hits, a.Args[0])
				} else if strings.HasPrefix(a.Name, "."+name+".") || strings.HasPrefix(a.Name, "."+name+"[") {
					// a store deeper into the field: keep it as a partial of the projected record
					nested = append(nested, &Term{Op: "partial", Name: a.Name[len(name)+1:], Args: a.Args, V: a.V})
				}
				continue
			}
			whole = true
			hits = append(hits, projectField(a, name))
		}
		_ = whole
		if len(hits) == 0 && len(nested) > 0 {
			if len(nested) == 1 {
				return nested[0]
			}
			return &Term{Op: "anyof", Args: nested}
		}
		if len(hits) == 1 && len(nested) == 0 {
			return hits[0]
		}
		hits = append(hits, nested...)
		if len(hits) == 1 {
			return hits[0]
		}
		if len(hits) > 1 {
			return &Term{Op: "anyof", Args: hits}
		}
	}
	if t.Op == "partial" {
		if t.Name == "."+name {
			return t.Args[0]
		}
		if strings.HasPrefix(t.Name, "."+name+".") || strings.HasPrefix(t.Name, "."+name+"[") {
			return &Term{Op: "partial", Name: t.Name[len(name)+1:], Args: t.Args, V: t.V}
		}
		return &Term{Op: "zero", Name: "." + name}
	}
	if t.Op == "struct" {
		for _, a := range t.Args {
			if a.Op == "kv" && a.Name == name {
				return a.Args[0]
			}
		}
	}
	return &Term{Op: "field", Name: name, Args: []*Term{t}}
}

func gname(g *ssa.Global) string {
	if g.Pkg == nil {
		return g.Name()
	}
	p := g.Pkg.Pkg.Path()
	p = strings.Replace(p, modPath, "poly", 1)
	return p + "." + g.Name()
}

func (tb *TermBuilder) T(v ssa.Value) *Term { return tb.term(v, 0) }

func (tb *TermBuilder) term(v ssa.Value, depth int) *Term {
	if v == nil {
		return &Term{Op: "nil"}
	}
	if t, ok := tb.memo[v]; ok {
		return t
	}
	if tb.visiting[v] || depth > tb.MaxDepth {
		return &Term{Op: "rec", Name: v.Name(), V: v}
	}
	tb.visiting[v] = true
	t := tb.term1(v, depth)
	delete(tb.visiting, v)
	if t.V == nil {
		t.V = v
	}
	// do not memoise terms containing rec markers of values still being visited
	if len(tb.visiting) == 0 || !t.contains(func(x *Term) bool { return x.Op == "rec" }) {
		tb.memo[v] = t
	}
	return t
}

func (tb *TermBuilder) term1(v ssa.Value, depth int) *Term {
	d := depth + 1
	switch v := v.(type) {
	case *ssa.Const:
		return &Term{Op: "const", Name: constString(v)}
	case *ssa.Parameter:
		for i, p := range v.Parent().Params {
			if p == v {
				return &Term{Op: "param", Name: strconv.Itoa(i)}
			}
		}
		return &Term{Op: "param", Name: v.Name()}
	case *ssa.FreeVar:
		return &Term{Op: "freevar", Name: v.Name()}
	case *ssa.Global:
		return &Term{Op: "globaladdr", Name: gname(v)}
	case *ssa.Function:
		return &Term{Op: "func", Name: fname(v)}
	case *ssa.Builtin:
		return &Term{Op: "builtin", Name: v.Name()}
	case *ssa.BinOp:
		if isRangeIndex(v) {
			// the index variable of a range loop: 0, 1, 2, … one step per iteration
			return &Term{Op: "rangeidx", Name: rangePhi(v).Name()}
		}
		x, y := tb.term(v.X, d), tb.term(v.Y, d)
		if commutative(v.Op, v.X.Type()) && x.String() > y.String() {
			x, y = y, x
		}
		op := v.Op
		// normalise > and >= to < and <=
		if op == token.GTR {
			op, x, y = token.LSS, y, x
		} else if op == token.GEQ {
			op, x, y = token.LEQ, y, x
		}
		return &Term{Op: "binop", Name: op.String(), Args: []*Term{x, y}}
	case *ssa.UnOp:
		if v.Op == token.MUL {
			return tb.load(v.X, d, v)
		}
		name := v.Op.String()
		if v.CommaOk {
			name += ",ok"
		}
		return &Term{Op: "unop", Name: name, Args: []*Term{tb.term(v.X, d)}}
	case *ssa.Call:
		name := calleeName(v)
		args := callArgs(v)
		if g := v.Call.StaticCallee(); g != nil && tb.Deep && !tb.NoInline && tb.inlineDepth < 3 && !tb.Keep[name] && pkgOf(g) == pkgOf(tb.F) && deepInlinable(g) && !tb.inStack(g) {
			sub := newTB(g)
			sub.inlineDepth = tb.inlineDepth + 1
			sub.Deep, sub.Keep = true, tb.Keep
			sub.stack = append(append([]*ssa.Function{}, tb.stack...), tb.F)
			ats := make([]*Term, len(args))
			for i, a := range args {
				ats[i] = tb.term(a, d)
			}
			nres := g.Signature.Results().Len()
			var comps []*Term
			for k := 0; k < nres; k++ {
				var alts []*Term
				seenA := map[string]bool{}
				for _, r := range returnsOf(g) {
					t := substParams(sub.T(r.Results[k]), ats)
					if !seenA[t.String()] {
						seenA[t.String()] = true
						alts = append(alts, t)
					}
				}
				if len(alts) == 1 {
					comps = append(comps, alts[0])
				} else {
					sort.Slice(alts, func(i, j int) bool { return alts[i].String() < alts[j].String() })
					comps = append(comps, &Term{Op: "phi", Name: "ret:" + g.Name(), Args: alts})
				}
			}
			if nres == 1 {
				return comps[0]
			}
			return &Term{Op: "tuple", Name: fname(g), Args: comps}
		}
		if g := v.Call.StaticCallee(); g != nil && !tb.NoInline && tb.inlineDepth < 4 && inlinable(g) && pkgOf(g) == pkgOf(tb.F) {
			sub := newTB(g)
			sub.inlineDepth = tb.inlineDepth + 1
			rt := sub.T(returnsOf(g)[0].Results[0])
			ats := make([]*Term, len(args))
			for i, a := range args {
				ats[i] = tb.term(a, d)
			}
			return substParams(rt, ats)
		}
		ts := make([]*Term, 0, len(args)+1)
		if name == "" {
			ts = append(ts, tb.term(v.Call.Value, d))
			name = "?"
		}
		for _, a := range args {
			ts = append(ts, tb.term(a, d))
		}
		return &Term{Op: "call", Name: name, Args: ts}
	case *ssa.Phi:
		if tb.Choose != nil {
			if r := tb.Choose(v); r != nil {
				return tb.term(r, d)
			}
		}
		if ct := tb.collectTerm(v, d); ct != nil {
			return ct
		}
		if rangePhi(v) == v {
			// the index variable of a counted loop: 0, 1, 2, … one step per iteration
			return &Term{Op: "rangeidx", Name: v.Name()}
		}
		var ts []*Term
		seen := map[string]bool{}
		for _, e := range v.Edges {
			t := tb.term(e, d)
			if !seen[t.String()] {
				seen[t.String()] = true
				ts = append(ts, t)
			}
		}
		sort.Slice(ts, func(i, j int) bool { return ts[i].String() < ts[j].String() })
		return &Term{Op: "phi", Name: v.Name(), Args: ts, Cyc: isCyclicPhi(v)}
	case *ssa.FieldAddr:
		st := v.X.Type().Underlying().(*types.Pointer).Elem().Underlying().(*types.Struct)
		return &Term{Op: "fieldaddr", Name: st.Field(v.Field).Name(), Args: []*Term{tb.term(v.X, d)}}
	case *ssa.Field:
		st := v.X.Type().Underlying().(*types.Struct)
		return projectField(tb.term(v.X, d), st.Field(v.Field).Name())
	case *ssa.IndexAddr:
		return &Term{Op: "indexaddr", Args: []*Term{tb.term(v.X, d), tb.term(v.Index, d)}}
	case *ssa.Index:
		if isRangeIndex(v.Index) {
			return tb.eachOrZip(tb.term(v.X, d), v.Index)
		}
		return &Term{Op: "index", Args: []*Term{tb.term(v.X, d), tb.term(v.Index, d)}}
	case *ssa.Lookup:
		n := ""
		if v.CommaOk {
			n = ",ok"
		}
		return &Term{Op: "lookup", Name: n, Args: []*Term{tb.term(v.X, d), tb.term(v.Index, d)}}
	case *ssa.Slice:
		x := tb.term(v.X, d)
		if _, isPtr := v.X.Type().Underlying().(*types.Pointer); isPtr {
			x = tb.load(v.X, d)
		}
		return &Term{Op: "slice", Args: []*Term{x, tb.term(v.Low, d), tb.term(v.High, d)}}
	case *ssa.Convert:
		return &Term{Op: "conv", Name: tname(v.Type()), Args: []*Term{tb.term(v.X, d)}}
	case *ssa.ChangeType:
		return tb.term(v.X, d)
	case *ssa.MakeInterface:
		return tb.term(v.X, d)
	case *ssa.ChangeInterface:
		return tb.term(v.X, d)
	case *ssa.SliceToArrayPointer:
		return tb.term(v.X, d)
	case *ssa.Extract:
		tt := tb.term(v.Tuple, d)
		if tt.Op == "tuple" && v.Index < len(tt.Args) {
			return tt.Args[v.Index]
		}
		return &Term{Op: "extract", Name: strconv.Itoa(v.Index), Args: []*Term{tt}}
	case *ssa.Alloc:
		return &Term{Op: "alloc", Name: tname(deref(v.Type())) + "@" + v.Name()}
	case *ssa.MakeSlice:
		return &Term{Op: "makeslice", Name: tname(v.Type()), Args: []*Term{tb.term(v.Len, d), tb.term(v.Cap, d)}}
	case *ssa.MakeMap:
		return &Term{Op: "makemap", Name: tname(v.Type())}
	case *ssa.MakeChan:
		return &Term{Op: "makechan", Name: tname(v.Type()), Args: []*Term{tb.term(v.Size, d)}}
	case *ssa.MakeClosure:
		return &Term{Op: "closure", Name: fname(v.Fn.(*ssa.Function))}
	case *ssa.TypeAssert:
		n := tname(v.AssertedType)
		if v.CommaOk {
			n += ",ok"
		}
		return &Term{Op: "typeassert", Name: n, Args: []*Term{tb.term(v.X, d)}}
	case *ssa.Range:
		return &Term{Op: "range", Args: []*Term{tb.term(v.X, d)}}
	case *ssa.Next:
		return &Term{Op: "next", Args: []*Term{tb.term(v.Iter, d)}}
	case *ssa.Select:
		return &Term{Op: "select"}
	}
	return &Term{Op: "unknown", Name: fmt.Sprintf("%T", v)}
}

// ---------------------------------------------------------------------------
// Term queries

// walk visits t and all sub-terms.
func (t *Term) walk(fn func(*Term)) {
	if t == nil {
		return
	}
	fn(t)
	for _, a := range t.Args {
		a.walk(fn)
	}
}

func (t *Term) contains(pred func(*Term) bool) bool {
	found := false
	t.walk(func(x *Term) {
		if pred(x) {
			found = true
		}
	})
	return found
}

func (t *Term) isCall(name string) bool { return t != nil && t.Op == "call" && t.Name == name }
func (t *Term) isConst(lit string) bool { return t != nil && t.Op == "const" && t.Name == lit }
func (t *Term) isParam(i int) bool      { return t != nil && t.Op == "param" && t.Name == strconv.Itoa(i) }
func (t *Term) isBin(op string) bool    { return t != nil && t.Op == "binop" && t.Name == op }
func (t *Term) isField(name string) bool {
	return t != nil && t.Op == "field" && t.Name == name
}

// constInt returns the integer value of a const term.
func (t *Term) constInt() (int64, bool) {
	if t == nil || t.Op != "const" {
		return 0, false
	}
	n, err := strconv.ParseInt(t.Name, 10, 64)
	return n, err == nil
}

func (t *Term) constStr() (string, bool) {
	if t == nil || t.Op != "const" || !strings.HasPrefix(t.Name, "\"") {
		return "", false
	}
	s, err := strconv.Unquote(t.Name)
	return s, err == nil
}

func (t *Term) constFloat() (float64, bool) {
	if t == nil || t.Op != "const" {
		return 0, false
	}
	f, err := strconv.ParseFloat(t.Name, 64)
	return f, err == nil
}

// linear decomposes an integer term into base + k, folding x+1, x-1, 1+x.
func (t *Term) linear() (*Term, int64) {
	if t == nil {
		return nil, 0
	}
	if t.Op == "binop" && (t.Name == "+" || t.Name == "-") {
		if k, ok := t.Args[1].constInt(); ok {
			b, k0 := t.Args[0].linear()
			if t.Name == "+" {
				return b, k0 + k
			}
			return b, k0 - k
		}
		if k, ok := t.Args[0].constInt(); ok && t.Name == "+" {
			b, k0 := t.Args[1].linear()
			return b, k0 + k
		}
	}
	if k, ok := t.constInt(); ok {
		return nil, k
	}
	return t, 0
}

// sumTerms flattens nested + into its addends (for numbers) or concatenation operands (for strings, in order).
func (t *Term) sumTerms() []*Term {
	if t != nil && t.Op == "binop" && t.Name == "+" {
		return append(t.Args[0].sumTerms(), t.Args[1].sumTerms()...)
	}
	return []*Term{t}
}

// ---------------------------------------------------------------------------
// Dominance helpers

func instrIndex(i ssa.Instruction) int {
	for k, x := range i.Block().Instrs {
		if x == i {
			return k
		}
	}
	return -1
}

// domInstr reports whether instruction a dominates instruction b (a executes before b on every path to b).
func domInstr(a, b ssa.Instruction) bool {
	if a.Block() == b.Block() {
		return instrIndex(a) < instrIndex(b)
	}
	return a.Block().Dominates(b.Block())
}

// postDominators computes immediate post-dominator sets for f (exit = virtual node joining all
// Return/Panic blocks). pdom[b] is the set of blocks that post-dominate b (including b).
func postDominators(f *ssa.Function) map[*ssa.BasicBlock]map[*ssa.BasicBlock]bool {
	n := len(f.Blocks)
	all := map[*ssa.BasicBlock]bool{}
	for _, b := range f.Blocks {
		all[b] = true
	}
	pdom := map[*ssa.BasicBlock]map[*ssa.BasicBlock]bool{}
	for _, b := range f.Blocks {
		if len(b.Succs) == 0 {
			pdom[b] = map[*ssa.BasicBlock]bool{b: true}
		} else {
			s := map[*ssa.BasicBlock]bool{}
			for k := range all {
				s[k] = true
			}
			pdom[b] = s
		}
	}
	changed := true
	for iter := 0; changed && iter < n*n+10; iter++ {
		changed = false
		for i := n - 1; i >= 0; i-- {
			b := f.Blocks[i]
			if len(b.Succs) == 0 {
				continue
			}
			var inter map[*ssa.BasicBlock]bool
			for _, s := range b.Succs {
				if inter == nil {
					inter = map[*ssa.BasicBlock]bool{}
					for k := range pdom[s] {
						inter[k] = true
					}
				} else {
					for k := range inter {
						if !pdom[s][k] {
							delete(inter, k)
						}
					}
				}
			}
			inter[b] = true
			if len(inter) != len(pdom[b]) {
				pdom[b] = inter
				changed = true
			}
		}
	}
	return pdom
}

// inLoop reports whether block b lies on a CFG cycle.
func inLoop(b *ssa.BasicBlock) bool {
	seen := map[*ssa.BasicBlock]bool{}
	var stack []*ssa.BasicBlock
	stack = append(stack, b.Succs...)
	for len(stack) > 0 {
		x := stack[len(stack)-1]
		stack = stack[:len(stack)-1]
		if x == b {
			return true
		}
		if seen[x] {
			continue
		}
		seen[x] = true
		stack = append(stack, x.Succs...)
	}
	return false
}

// reaches reports whether there is a CFG path from a to b (a != b required for trivial reach; a==b means via a cycle).
func reaches(a, b *ssa.BasicBlock) bool {
	seen := map[*ssa.BasicBlock]bool{}
	stack := append([]*ssa.BasicBlock{}, a.Succs...)
	for len(stack) > 0 {
		x := stack[len(stack)-1]
		stack = stack[:len(stack)-1]
		if x == b {
			return true
		}
		if seen[x] {
			continue
		}
		seen[x] = true
		stack = append(stack, x.Succs...)
	}
	return false
}

// reachesAvoiding: path from a to b that does not pass through any block in avoid.
func reachesAvoiding(a, b *ssa.BasicBlock, avoid map[*ssa.BasicBlock]bool) bool {
	seen := map[*ssa.BasicBlock]bool{}
	stack := append([]*ssa.BasicBlock{}, a.Succs...)
	for len(stack) > 0 {
		x := stack[len(stack)-1]
		stack = stack[:len(stack)-1]
		if x == b {
			return true
		}
		if seen[x] || avoid[x] {
			continue
		}
		seen[x] = true
		stack = append(stack, x.Succs...)
	}
	return false
}

// ---------------------------------------------------------------------------
// Path conditions (boolean formula of If conditions under which a block executes,
// relative to a dominating head block; back edges ignored).

type Cond struct {
	Op   string // "true" "false" "atom" "not" "and" "or"
	Atom *Term
	Args []*Cond
}

func (c *Cond) String() string {
	switch c.Op {
	case "true", "false":
		return c.Op
	case "atom":
		return c.Atom.String()
	case "not":
		return "!(" + c.Args[0].String() + ")"
	}
	parts := make([]string, len(c.Args))
	for i, a := range c.Args {
		parts[i] = a.String()
	}
	sort.Strings(parts)
	sep := " && "
	if c.Op == "or" {
		sep = " || "
	}
	return "(" + strings.Join(parts, sep) + ")"
}

func cAnd(a, b *Cond) *Cond {
	if a.Op == "true" {
		return b
	}
	if b.Op == "true" {
		return a
	}
	if a.Op == "false" || b.Op == "false" {
		return &Cond{Op: "false"}
	}
	return &Cond{Op: "and", Args: []*Cond{a, b}}
}

func cOr(a, b *Cond) *Cond {
	if a.Op == "false" {
		return b
	}
	if b.Op == "false" {
		return a
	}
	if a.Op == "true" || b.Op == "true" {
		return &Cond{Op: "true"}
	}
	if a.String() == b.String() {
		return a
	}
	// X || (!X && Y)  =>  X || Y   (short-circuit "||" lowering)
	for k := 0; k < 2; k++ {
		x, y := a, b
		if k == 1 {
			x, y = b, a
		}
		if y.Op == "and" && len(y.Args) == 2 {
			nx := cNot(x).String()
			if y.Args[0].String() == nx {
				return cOr(x, y.Args[1])
			}
			if y.Args[1].String() == nx {
				return cOr(x, y.Args[0])
			}
		}
	}
	return &Cond{Op: "or", Args: []*Cond{a, b}}
}

func cNot(a *Cond) *Cond {
	switch a.Op {
	case "true":
		return &Cond{Op: "false"}
	case "false":
		return &Cond{Op: "true"}
	case "not":
		return a.Args[0]
	}
	return &Cond{Op: "not", Args: []*Cond{a}}
}

// pathCond computes the condition for reaching block b from head (head must dominate b).
func pathCond(tb *TermBuilder, head, b *ssa.BasicBlock) *Cond {
	memo := map[*ssa.BasicBlock]*Cond{}
	onstack := map[*ssa.BasicBlock]bool{}
	if tb.pdom == nil {
		tb.pdom = postDominators(b.Parent())
	}
	pdom := tb.pdom
	var pc func(x *ssa.BasicBlock) *Cond
	pc = func(x *ssa.BasicBlock) *Cond {
		if x == head {
			return &Cond{Op: "true"}
		}
		if c, ok := memo[x]; ok {
			return c
		}
		if onstack[x] {
			return &Cond{Op: "false"} // back edge
		}
		// a join that post-dominates its immediate dominator executes under the same condition
		if d := x.Idom(); d != nil && head.Dominates(d) && pdom[d][x] && enclosingLoopHeader(d) == enclosingLoopHeader(x) {
			r := pc(d)
			memo[x] = r
			return r
		}
		onstack[x] = true
		res := &Cond{Op: "false"}
		for _, p := range x.Preds {
			if !head.Dominates(p) {
				continue
			}
			// ignore back edges: p dominated by x means edge p->x is a back edge
			if x.Dominates(p) {
				continue
			}
			e := pc(p)
			if ifi, ok := p.Instrs[len(p.Instrs)-1].(*ssa.If); ok && len(p.Succs) == 2 && p.Succs[0] != p.Succs[1] {
				atom := condOfBool(tb, ifi.Cond, 0)
				if p.Succs[0] == x {
					e = cAnd(e, atom)
				} else {
					e = cAnd(e, cNot(atom))
				}
			}
			res = cOr(res, e)
		}
		delete(onstack, x)
		memo[x] = res
		return res
	}
	return pc(b)
}

// condOfBool renders a boolean SSA value as a condition: a non-cyclic bool phi (the value of a
// short-circuit a||b / a&&b kept in a variable) becomes the disjunction over its edges of "edge taken
// and edge value"; a same-package predicate helper (deep builders only) is opened the same way with
// its parameters substituted; !x is negation. Anything else is an atom.
func condOfBool(tb *TermBuilder, v ssa.Value, depth int) *Cond {
	atom := func() *Cond { return &Cond{Op: "atom", Atom: tb.T(v)} }
	if depth > 3 {
		return atom()
	}
	switch x := v.(type) {
	case *ssa.UnOp:
		if x.Op == token.NOT {
			return cNot(condOfBool(tb, x.X, depth+1))
		}
	case *ssa.Phi:
		if x.Parent() != tb.F || isCyclicPhi(x) || tb.Choose != nil {
			return atom()
		}
		dom := x.Block().Idom()
		if dom == nil {
			return atom()
		}
		res := &Cond{Op: "false"}
		for k, e := range x.Edges {
			pred := x.Block().Preds[k]
			if !dom.Dominates(pred) {
				return atom()
			}
			ec := pathCond(tb, dom, pred)
			if ifi, ok := pred.Instrs[len(pred.Instrs)-1].(*ssa.If); ok && len(pred.Succs) == 2 && pred.Succs[0] != pred.Succs[1] {
				a := condOfBool(tb, ifi.Cond, depth+1)
				if pred.Succs[0] == x.Block() {
					ec = cAnd(ec, a)
				} else {
					ec = cAnd(ec, cNot(a))
				}
			}
			var vc *Cond
			if c, ok := e.(*ssa.Const); ok && c.Value != nil {
				vc = &Cond{Op: c.Value.ExactString()}
				if vc.Op != "true" && vc.Op != "false" {
					return atom()
				}
			} else {
				vc = condOfBool(tb, e, depth+1)
			}
			res = cOr(res, cAnd(ec, vc))
		}
		return res
	case *ssa.Call:
		g := x.Call.StaticCallee()
		if g == nil || !tb.Deep || tb.NoInline || tb.Keep[fname(g)] || pkgOf(g) != pkgOf(tb.F) || g.Blocks == nil || tb.inStack(g) || len(g.FreeVars) > 0 {
			return atom()
		}
		if bt, ok := x.Type().Underlying().(*types.Basic); !ok || bt.Kind() != types.Bool || len(g.Blocks) > 12 {
			return atom()
		}
		for _, b := range g.Blocks {
			if enclosingLoopHeader(b) != nil {
				return atom() // predicates with loops stay opaque calls
			}
		}
		sub := newDeepTB(g)
		sub.Keep = tb.Keep
		sub.stack = append(append([]*ssa.Function{}, tb.stack...), tb.F)
		var ats []*Term
		for _, a := range callArgs(x) {
			ats = append(ats, tb.T(a))
		}
		res := &Cond{Op: "false"}
		for _, r := range returnsOf(g) {
			rc := cAnd(pathCond(sub, g.Blocks[0], r.Block()), condOfBool(sub, r.Results[0], depth+1))
			res = cOr(res, substCond(rc, ats))
		}
		return res
	}
	return atom()
}

// ---------------------------------------------------------------------------
// Misc

func enclosingLoopHeader(b *ssa.BasicBlock) *ssa.BasicBlock {
	// nearest dominator d of b such that some pred p of d is dominated by d (back edge) and d reaches b and b reaches d
	for d := b; d != nil; d = d.Idom() {
		for _, p := range d.Preds {
			// back edge p -> d; b belongs to the natural loop of d iff it reaches p without leaving through d
			if d.Dominates(p) && (p == b || b == d || reachesAvoiding(b, p, map[*ssa.BasicBlock]bool{d: true})) {
				return d
			}
		}
	}
	return nil
}

func funcsSorted(m map[*ssa.Function]bool) []*ssa.Function {
	var out []*ssa.Function
	for f := range m {
		out = append(out, f)
	}
	sort.Slice(out, func(i, j int) bool { return out[i].String() < out[j].String() })
	return out
}

// isRangeIndex recognises the index variable of a "for i := range xs" / "for _, x := range xs"
// loop as go/ssa emits it: i' = phi(-1, i'+1) used as i'+1, or the plain counted loop phi(0, i+1).
// Either way the value ranges over 0..len-1 in increasing order, one step per iteration.
func isRangeIndex(v ssa.Value) bool { return rangePhi(v) != nil }

// rangePhi returns the loop phi behind an index variable in either form, or nil.
func rangePhi(v ssa.Value) *ssa.Phi {
	isOne := func(x ssa.Value) bool {
		c, ok := x.(*ssa.Const)
		return ok && c.Value != nil && c.Value.ExactString() == "1"
	}
	if b, ok := v.(*ssa.BinOp); ok && b.Op == token.ADD && isOne(b.Y) {
		if p, ok := b.X.(*ssa.Phi); ok && len(p.Edges) >= 2 {
			inits, steps := 0, 0
			for _, e := range p.Edges {
				if c0, ok := e.(*ssa.Const); ok && c0.Value != nil && c0.Value.ExactString() == "-1" {
					inits++
				} else if e == ssa.Value(b) {
					steps++ // back edges, incl. those of `continue`
				} else {
					return nil
				}
			}
			if inits == 1 && steps >= 1 {
				return p
			}
		}
		return nil
	}
	// for i := 0; i < n; i++ : phi(0, i+1) with every other edge the same increment
	if p, ok := v.(*ssa.Phi); ok && len(p.Edges) >= 2 {
		if bt, ok := p.Type().Underlying().(*types.Basic); !ok || bt.Info()&types.IsInteger == 0 {
			return nil
		}
		inits, steps := 0, 0
		for _, e := range p.Edges {
			if c0, ok := e.(*ssa.Const); ok && c0.Value != nil && c0.Value.ExactString() == "0" {
				inits++
			} else if b, ok := e.(*ssa.BinOp); ok && b.Op == token.ADD && b.X == ssa.Value(p) && isOne(b.Y) {
				steps++
			} else {
				return nil
			}
		}
		// the loop guard must be i < something, tested in the phi's own block
		if inits == 1 && steps >= 1 {
			if ifi, ok := p.Block().Instrs[len(p.Block().Instrs)-1].(*ssa.If); ok {
				if cmp, ok := ifi.Cond.(*ssa.BinOp); ok && cmp.Op == token.LSS && cmp.X == ssa.Value(p) {
					return p
				}
			}
		}
	}
	return nil
}

// returnsOf lists the Return instructions of f.
func returnsOf(f *ssa.Function) []*ssa.Return {
	var out []*ssa.Return
	eachInstr(f, func(i ssa.Instruction) {
		if r, ok := i.(*ssa.Return); ok {
			out = append(out, r)
		}
	})
	return out
}

// findAll collects sub-terms satisfying pred (each distinct ssa.Value once).
func (t *Term) findAll(pred func(*Term) bool) []*Term {
	var out []*Term
	seen := map[*Term]bool{}
	t.walk(func(x *Term) {
		if !seen[x] && pred(x) {
			seen[x] = true
			out = append(out, x)
		}
	})
	return out
}

func short(s string) string {
	if len(s) > 160 {
		return s[:160] + "…"
	}
	return s
}

// unwrap strips representation-only conversions (interface boxing, chan direction, named/unnamed).
func unwrap(v ssa.Value) ssa.Value {
	for {
		switch x := v.(type) {
		case *ssa.ChangeType:
			v = x.X
		case *ssa.MakeInterface:
			v = x.X
		case *ssa.ChangeInterface:
			v = x.X
		case *ssa.UnOp:
			// a parameter that a function literal captures lives in a heap cell; a load of that cell,
			// written once at entry with the parameter, is the parameter
			if p := spilledParam(x); p != nil {
				return p
			}
			return v
		default:
			return v
		}
	}
}

// spilledParam: for a load *A where A is a cell stored exactly once, with a parameter, and never
// written through a capturing function literal: that parameter.
func spilledParam(ld *ssa.UnOp) *ssa.Parameter {
	if ld.Op.String() != "*" {
		return nil
	}
	a, ok := ld.X.(*ssa.Alloc)
	if !ok || a.Referrers() == nil {
		return nil
	}
	var par *ssa.Parameter
	n := 0
	for _, r := range *a.Referrers() {
		switch x := r.(type) {
		case *ssa.Store:
			if x.Addr == ssa.Value(a) {
				n++
				par, _ = x.Val.(*ssa.Parameter)
			}
		case *ssa.MakeClosure:
			fn, _ := x.Fn.(*ssa.Function)
			for bi, b := range x.Bindings {
				if b == ssa.Value(a) && fn != nil && bi < len(fn.FreeVars) && fn.FreeVars[bi].Referrers() != nil {
					for _, fr := range *fn.FreeVars[bi].Referrers() {
						if st, isSt := fr.(*ssa.Store); isSt && st.Addr == ssa.Value(fn.FreeVars[bi]) {
							n += 2
						}
					}
				}
			}
		}
	}
	if n == 1 && par != nil {
		return par
	}
	return nil
}

// liveStores filters the stores into alloc a that may be visible to a load of `path` at L.
// A writer W is visible at L iff some CFG path W -> L avoids every *barrier*: the allocation
// instruction itself (a fresh object) and every other store that overwrites at least W's location.
func (tb *TermBuilder) liveStores(a *ssa.Alloc, path []string, L ssa.Instruction) []*ssa.Store {
	all := tb.stores[a]
	var out []*ssa.Store
	for _, s := range all {
		// under a mode valuation, a store in a block that cannot run contributes nothing
		if tb.Feasible != nil && !tb.Feasible(s.Block()) {
			continue
		}
		if tb.closureStores[s] {
			out = append(out, s)
			continue
		}
		_, p, _ := rootAlloc(s.Addr)
		if !(pathEq(p, path) || hasPrefix(path, p) || hasPrefix(p, path)) {
			continue
		}
		if s.Parent() != tb.F {
			out = append(out, s) // store from a closure: keep
			continue
		}
		if tb.writerLivePath(a, s, p, L) {
			out = append(out, s)
		}
	}
	return out
}

func (tb *TermBuilder) writerLive(a *ssa.Alloc, W, L ssa.Instruction) bool {
	return tb.writerLivePath(a, W, nil, L)
}

// writerLivePath: wpath is the location W writes (nil = whole object).
func (tb *TermBuilder) writerLivePath(a *ssa.Alloc, W ssa.Instruction, wpath []string, L ssa.Instruction) bool {
	if W.Parent() != L.Parent() || W.Parent() != a.Parent() {
		return true
	}
	tb.buildStores()
	barriers := map[ssa.Instruction]bool{ssa.Instruction(a): true}
	for _, s := range tb.stores[a] {
		if ssa.Instruction(s) == W || s.Parent() != tb.F || tb.closureStores[s] {
			continue
		}
		_, sp, _ := rootAlloc(s.Addr)
		if hasPrefix(wpath, sp) { // s overwrites at least what W wrote
			barriers[s] = true
		}
	}
	return reachInstrAvoiding(W, L, barriers)
}

// reachInstrAvoiding: is there a CFG path from just after W to L that executes no barrier instruction?
func reachInstrAvoiding(W, L ssa.Instruction, barriers map[ssa.Instruction]bool) bool {
	scan := func(b *ssa.BasicBlock, from int) (hit bool, through bool) {
		for k := from; k < len(b.Instrs); k++ {
			if b.Instrs[k] == L {
				return true, false
			}
			if barriers[b.Instrs[k]] {
				return false, false
			}
		}
		return false, true
	}
	hit, through := scan(W.Block(), instrIndex(W)+1)
	if hit {
		return true
	}
	if !through {
		return false
	}
	seen := map[*ssa.BasicBlock]bool{}
	stack := append([]*ssa.BasicBlock{}, W.Block().Succs...)
	for len(stack) > 0 {
		b := stack[len(stack)-1]
		stack = stack[:len(stack)-1]
		if seen[b] {
			continue
		}
		seen[b] = true
		hit, through := scan(b, 0)
		if hit {
			return true
		}
		if through {
			stack = append(stack, b.Succs...)
		}
	}
	return false
}

// calleeMayWrite: may the call write the location `path` of alloc a that it receives by pointer?
// Module callees are summarised by the field paths they store through that parameter; anything
// else (std, dynamic, pointer passed on) is assumed to write everything.
func calleeMayWrite(ci ssa.CallInstruction, a *ssa.Alloc, path []string) bool {
	g := ci.Common().StaticCallee()
	if g == nil || !inModule(g) || g.Blocks == nil {
		return true
	}
	args := ci.Common().Args
	for k, arg := range args {
		if unwrap(arg) != ssa.Value(a) {
			continue
		}
		if k >= len(g.Params) {
			return true
		}
		paths, all := storedPathsThrough(g.Params[k])
		if all {
			return true
		}
		for _, p := range paths {
			if hasPrefix(p, path) || hasPrefix(path, p) {
				return true
			}
		}
	}
	return false
}

// storedPathsThrough lists field paths stored through pointer parameter p in its function; all=true if p
// is used in any way other than FieldAddr-then-store/load or a plain load.
func storedPathsThrough(p *ssa.Parameter) (paths [][]string, all bool) {
	var visit func(v ssa.Value, pre []string)
	visit = func(v ssa.Value, pre []string) {
		refs := v.Referrers()
		if refs == nil {
			return
		}
		for _, r := range *refs {
			switch x := r.(type) {
			case *ssa.FieldAddr:
				st := x.X.Type().Underlying().(*types.Pointer).Elem().Underlying().(*types.Struct)
				visit(x, append(append([]string{}, pre...), "."+st.Field(x.Field).Name()))
			case *ssa.Store:
				if x.Addr == v {
					paths = append(paths, pre)
				}
				// the pointer itself being stored (e.g. a back link) is an escape, not a write by this callee:
				// later writes through the escaped alias are separate instructions of their own functions
			case *ssa.UnOp, *ssa.DebugRef:
			default:
				all = true
			}
		}
	}
	visit(p, nil)
	return
}

func projectPath(t *Term, path []string) *Term {
	for _, p := range path {
		if strings.HasPrefix(p, "[") {
			t = &Term{Op: "index", Args: []*Term{t, {Op: "any", Name: p}}}
		} else {
			t = &Term{Op: "field", Name: strings.TrimPrefix(p, "."), Args: []*Term{t}}
		}
	}
	return t
}

// condAtom is an If-condition occurring in a path condition with its polarity; Disj marks atoms
// that sit under an "or" (their truth is not implied by the path condition).
type condAtom struct {
	Atom *Term
	Neg  bool
	Disj bool
}

func (c *Cond) atoms() []condAtom {
	var out []condAtom
	var walk func(x *Cond, neg, disj bool)
	walk = func(x *Cond, neg, disj bool) {
		switch x.Op {
		case "atom":
			at := x.Atom
			if at.isBin("!=") { // a != b is carried as !(a == b): one canonical polarity
				at = &Term{Op: "binop", Name: "==", Args: at.Args, V: at.V}
				neg = !neg
			}
			out = append(out, condAtom{at, neg, disj})
		case "not":
			walk(x.Args[0], !neg, disj)
		case "and":
			for _, a := range x.Args {
				walk(a, neg, disj || neg)
			}
		case "or":
			for _, a := range x.Args {
				walk(a, neg, disj || !neg)
			}
		}
	}
	walk(c, false, false)
	return out
}

// implies reports whether the path condition has the conjunct atom (by term string) with the given polarity.
func (c *Cond) implies(atom string, neg bool) bool {
	if strings.HasPrefix(atom, "binop[!=](") {
		atom, neg = "binop[==]("+atom[len("binop[!=]("):], !neg
	}
	for _, a := range c.atoms() {
		if !a.Disj && a.Neg == neg && a.Atom.String() == atom {
			return true
		}
	}
	return false
}

// inlinable: a module function that is a pure single-expression wrapper (one block, one result,
// no stores, no go/defer/send/map updates). Its body term is substituted at call sites so that rules
// see through small helpers and a change inside a helper shows up in its callers' terms.
func inlinable(g *ssa.Function) bool {
	if !inModule(g) || len(g.Blocks) != 1 || g.Signature.Results().Len() != 1 || len(g.FreeVars) > 0 || g.Signature.Variadic() {
		return false
	}
	for _, i := range g.Blocks[0].Instrs {
		switch i.(type) {
		case *ssa.Store, *ssa.MapUpdate, *ssa.Send, *ssa.Go, *ssa.Defer, *ssa.Panic, *ssa.Alloc, *ssa.MakeClosure, *ssa.RunDefers:
			return false
		}
	}
	return len(returnsOf(g)) == 1
}

func substParams(t *Term, args []*Term) *Term {
	if t == nil {
		return nil
	}
	if t.Op == "param" {
		if i, err := strconv.Atoi(t.Name); err == nil && i < len(args) {
			return args[i]
		}
	}
	if len(t.Args) == 0 {
		return t
	}
	n := &Term{Op: t.Op, Name: t.Name, V: t.V, Args: make([]*Term, len(t.Args))}
	for i, a := range t.Args {
		n.Args[i] = substParams(a, args)
	}
	// a field of a substituted record literal reduces to the literal's component
	if n.Op == "field" && len(n.Args) == 1 && (n.Args[0].Op == "anyof" || n.Args[0].Op == "partial" || n.Args[0].Op == "struct") {
		if p := projectField(n.Args[0], n.Name); p != nil {
			return p
		}
	}
	// keep commutative operands canonically ordered after substitution
	if n.Op == "binop" && len(n.Args) == 2 {
		switch n.Name {
		case "*", "==", "!=", "&", "|", "^":
			if n.Args[0].String() > n.Args[1].String() {
				n.Args[0], n.Args[1] = n.Args[1], n.Args[0]
			}
		}
	}
	return n
}

// eachOrZip: X[i] with i a range index. If the loop ranges over X itself this is each(X); if it
// ranges over another slice Y it is zip(X, Y): "the element of X at the position of the current element of Y".
func (tb *TermBuilder) eachOrZip(x *Term, idx ssa.Value) *Term {
	ph := rangePhi(idx)
	// loop guard: idx < len(Y) in the phi's block
	if ifi, ok := ph.Block().Instrs[len(ph.Block().Instrs)-1].(*ssa.If); ok {
		if cmp, ok := ifi.Cond.(*ssa.BinOp); ok && cmp.Op == token.LSS && cmp.X == idx {
			if ln, ok := cmp.Y.(*ssa.Call); ok && calleeName(ln) == "builtin:len" {
				y := tb.term(ln.Call.Args[0], 1)
				if y.String() == x.String() {
					return &Term{Op: "each", Args: []*Term{x}}
				}
				return &Term{Op: "zip", Args: []*Term{x, y}}
			}
		}
	}
	return &Term{Op: "index", Args: []*Term{x, {Op: "rangeidx", Name: ph.Name()}}}
}

// collectTerm recognises a slice accumulated from empty by ONE append site (possibly inside nested
// loops and conditions): the phi web's only members are phis, that append call, and nil/empty
// initialisers. Result: collect(e) = "the list of e, one per execution of the append site, in order".
func (tb *TermBuilder) collectTerm(p *ssa.Phi, depth int) *Term {
	if _, ok := p.Type().Underlying().(*types.Slice); !ok {
		return nil
	}
	web := map[ssa.Value]bool{}
	var appends []*ssa.Call
	okWeb := true
	var visit func(v ssa.Value)
	visit = func(v ssa.Value) {
		if web[v] || !okWeb {
			return
		}
		switch x := v.(type) {
		case *ssa.Phi:
			web[v] = true
			for _, e := range x.Edges {
				visit(e)
			}
		case *ssa.Call:
			if calleeName(x) != "builtin:append" {
				okWeb = false
				return
			}
			web[v] = true
			appends = append(appends, x)
			visit(x.Call.Args[0])
		case *ssa.Const:
			if x.Value != nil {
				okWeb = false
			}
		case *ssa.Slice:
			// empty literal []T{}: slice of a zero-length array alloc
			if a, ok := x.X.(*ssa.Alloc); ok {
				if arr, ok := deref(a.Type()).Underlying().(*types.Array); ok && arr.Len() == 0 {
					return
				}
			}
			okWeb = false
		case *ssa.MakeSlice:
			if c, ok := x.Len.(*ssa.Const); ok && c.Value != nil && c.Value.ExactString() == "0" {
				return
			}
			okWeb = false
		default:
			okWeb = false
		}
	}
	visit(p)
	if !okWeb || len(appends) != 1 {
		return nil
	}
	ap := appends[0]
	// single element: append(web, []T{e}...)
	sl, ok := ap.Call.Args[1].(*ssa.Slice)
	if !ok {
		return nil
	}
	arr, ok := sl.X.(*ssa.Alloc)
	if !ok {
		return nil
	}
	at, ok := deref(arr.Type()).Underlying().(*types.Array)
	if !ok || at.Len() != 1 {
		return nil
	}
	tb.buildStores()
	var elem *Term
	for _, st := range tb.stores[arr] {
		if _, pth, _ := rootAlloc(st.Addr); len(pth) == 1 && pth[0] == "[0]" {
			elem = tb.term(st.Val, depth+1)
		}
	}
	if elem == nil {
		return nil
	}
	return &Term{Op: "collect", Args: []*Term{elem}, V: ap}
}

// appSite is one place where an element is appended to a list term (a collect node or a raw append call).
type appSite struct {
	Elem *Term
	At   ssa.Instruction
}

func appendSites(t *Term) []appSite {
	var out []appSite
	seen := map[ssa.Value]bool{}
	t.walk(func(x *Term) {
		switch {
		case x.Op == "collect":
			if x.V != nil && !seen[x.V] {
				seen[x.V] = true
				out = append(out, appSite{x.Args[0], x.V.(ssa.Instruction)})
			}
		case x.isCall("builtin:append"):
			if x.V != nil && !seen[x.V] {
				seen[x.V] = true
				el := x.Args[1]
				if el.Op == "slice" && el.Args[0].Op == "partial" {
					el = el.Args[0].Args[0]
				}
				out = append(out, appSite{el, x.V.(ssa.Instruction)})
			}
		}
	})
	return out
}

// topAppendSites: like appendSites but does not descend into the appended elements themselves.
func topAppendSites(t *Term) []appSite {
	var out []appSite
	seen := map[ssa.Value]bool{}
	var walk func(x *Term)
	walk = func(x *Term) {
		if x == nil {
			return
		}
		switch {
		case x.Op == "collect":
			if x.V != nil && !seen[x.V] {
				seen[x.V] = true
				out = append(out, appSite{x.Args[0], x.V.(ssa.Instruction)})
			}
			return
		case x.isCall("builtin:append"):
			if x.V != nil && !seen[x.V] {
				seen[x.V] = true
				el := x.Args[1]
				if el.Op == "slice" && el.Args[0].Op == "partial" {
					el = el.Args[0].Args[0]
				}
				out = append(out, appSite{el, x.V.(ssa.Instruction)})
			}
			walk(x.Args[0])
			return
		case x.Op == "phi" || x.Op == "anyof":
			for _, a := range x.Args {
				walk(a)
			}
		}
	}
	walk(t)
	return out
}

func (tb *TermBuilder) inStack(g *ssa.Function) bool {
	if g == tb.F {
		return true
	}
	for _, f := range tb.stack {
		if f == g {
			return true
		}
	}
	return false
}

// deepInlinable: a module function with a body and at least one result; its return term is
// substituted at call sites. Effects through pointer parameters are not modelled, so functions
// that store through a parameter are not inlined.
func deepInlinable(g *ssa.Function) bool {
	if !inModule(g) || g.Blocks == nil || g.Signature.Results().Len() == 0 || len(g.FreeVars) > 0 || g.Signature.Variadic() {
		return false
	}
	for _, p := range g.Params {
		if _, isPtr := p.Type().Underlying().(*types.Pointer); isPtr {
			if _, all := storedPathsThrough(p); all {
				return false
			}
			if ps, _ := storedPathsThrough(p); len(ps) > 0 {
				return false
			}
		}
	}
	return true
}

// newDeepTB: term builder that looks through module helpers, except those a rule wants to see as calls.
func newDeepTB(f *ssa.Function, keep ...string) *TermBuilder {
	tb := newTB(f)
	tb.Deep = true
	tb.Keep = map[string]bool{}
	for _, k := range keep {
		tb.Keep[k] = true
	}
	return tb
}

// currentWorld is the tree being analysed (set by newCtx); used to resolve package-level initialisers.
var currentWorld *World

// globalInitTerm: for a term global[pkg.name] whose variable is assigned exactly once, in its
// package initialiser, and never written at run time, the term of that initial value.
func globalInitTerm(t *Term) *Term {
	if t == nil || t.Op != "global" || currentWorld == nil {
		return nil
	}
	g, ok := t.V.(*ssa.Global)
	if !ok || g.Pkg == nil {
		return nil
	}
	init := g.Pkg.Func("init")
	if init == nil {
		return nil
	}
	var st *ssa.Store
	n := 0
	fs := []*ssa.Function{init}
	fs = append(fs, init.AnonFuncs...)
	for _, f := range fs {
		eachInstr(f, func(i ssa.Instruction) {
			if s, ok := i.(*ssa.Store); ok && s.Addr == ssa.Value(g) {
				st = s
				n++
			}
		})
	}
	if n != 1 {
		return nil
	}
	for _, f := range currentWorld.moduleFuncs() {
		if f == init || f.Parent() == init {
			continue
		}
		writes := false
		eachInstr(f, func(i ssa.Instruction) {
			if s, ok := i.(*ssa.Store); ok && s.Addr == ssa.Value(g) {
				writes = true
			}
		})
		if writes {
			return nil
		}
	}
	return newTB(st.Parent()).T(st.Val)
}

var cyclicPhiCache = map[*ssa.Phi]bool{}

// isCyclicPhi: does the phi (transitively, through operands) depend on itself?
func isCyclicPhi(p *ssa.Phi) bool {
	if r, ok := cyclicPhiCache[p]; ok {
		return r
	}
	seen := map[ssa.Value]bool{}
	found := false
	var walk func(v ssa.Value, d int)
	walk = func(v ssa.Value, d int) {
		if found || v == nil || seen[v] || d > 200 {
			return
		}
		seen[v] = true
		ins, ok := v.(ssa.Instruction)
		if !ok {
			return
		}
		for _, op := range ins.Operands(nil) {
			if op == nil || *op == nil {
				continue
			}
			if *op == ssa.Value(p) {
				found = true
				return
			}
			walk(*op, d+1)
		}
	}
	walk(p, 0)
	cyclicPhiCache[p] = found
	return found
}

// isIterCond: the condition of a range loop (slice index below len, or the ok bit of a map/string iterator).
func isIterCond(t *Term) bool {
	if t == nil {
		return false
	}
	if t.isBin("<") && t.Args[0].Op == "rangeidx" && t.Args[1].isCall("builtin:len") {
		return true
	}
	return t.Op == "extract" && t.Name == "0" && len(t.Args) == 1 && t.Args[0].Op == "next"
}

// reachesFlagAware: can control get from the edge pred->start to target? Like reaches, except that a
// block whose branch condition is a phi of that block (a loop flag: `for running { ... running = false }`)
// is left only through the successor selected by the constant that arrives over the edge taken.
func reachesFlagAware(pred, start, target *ssa.BasicBlock) bool {
	// the walk carries what is known about boolean merges on the way: a flag set to a constant in one block may
	// reach the test that reads it through a chain of merges (flag := false in a switch case, merged after the
	// switch, merged again at the loop's head)
	type item struct {
		from, to *ssa.BasicBlock
		known    map[*ssa.Phi]bool
	}
	fp := func(it item) string {
		var ks []string
		for ph, v := range it.known {
			ks = append(ks, fmt.Sprintf("%s=%v", ph.Name(), v))
		}
		sort.Strings(ks)
		return fmt.Sprintf("%d>%d|%s", it.from.Index, it.to.Index, strings.Join(ks, ","))
	}
	seen := map[string]bool{}
	work := []item{{pred, start, map[*ssa.Phi]bool{}}}
	for steps := 0; len(work) > 0 && steps < 20000; steps++ {
		it := work[len(work)-1]
		work = work[:len(work)-1]
		if k := fp(it); seen[k] {
			continue
		} else {
			seen[k] = true
		}
		b := it.to
		if b == target {
			return true
		}
		// the merges of b, as seen when coming in from it.from
		known := map[*ssa.Phi]bool{}
		for ph, v := range it.known {
			known[ph] = v
		}
		edgeIdx := -1
		for k, p := range b.Preds {
			if p == it.from {
				edgeIdx = k
			}
		}
		var fresh []struct {
			ph *ssa.Phi
			v  bool
			ok bool
		}
		for _, in := range b.Instrs {
			ph, isPhi := in.(*ssa.Phi)
			if !isPhi {
				break
			}
			val, have := false, false
			if edgeIdx >= 0 && edgeIdx < len(ph.Edges) {
				switch e := ph.Edges[edgeIdx].(type) {
				case *ssa.Const:
					if e.Value != nil && e.Value.Kind() == constant.Bool {
						val, have = constant.BoolVal(e.Value), true
					}
				case *ssa.Phi:
					val, have = it.known[e]
				}
			}
			fresh = append(fresh, struct {
				ph *ssa.Phi
				v  bool
				ok bool
			}{ph, val, have})
		}
		for _, f := range fresh {
			if f.ok {
				known[f.ph] = f.v
			} else {
				delete(known, f.ph)
			}
		}
		succs := b.Succs
		if len(b.Instrs) > 0 {
			if ifi, ok := b.Instrs[len(b.Instrs)-1].(*ssa.If); ok {
				cond := ifi.Cond
				neg := false
				if u, isU := cond.(*ssa.UnOp); isU && u.Op.String() == "!" {
					cond, neg = u.X, true
				}
				if ph, isPhi := cond.(*ssa.Phi); isPhi {
					if val, have := known[ph]; have {
						if neg {
							val = !val
						}
						if val {
							succs = b.Succs[:1]
						} else {
							succs = b.Succs[1:2]
						}
					}
				}
			}
		}
		for _, s := range succs {
			work = append(work, item{b, s, known})
		}
	}
	return false
}
