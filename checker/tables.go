package main

// tables.go (K1): evaluate constant tables from the type-checked AST.
// Values come from types.Info constant evaluation, so "GG"+"TCTC", a named constant,
// 'A' vs 65, or a table split over several lines all read the same.

import (
	"fmt"
	"go/ast"
	"go/constant"
	"go/token"
	"go/types"

	"golang.org/x/tools/go/packages"
)

// AV is an abstract value read from source.
type AV struct {
	Kind  string // "int" "float" "string" "bool" "comp" "call" "unknown"
	Int   int64
	Float float64
	Str   string
	Bool  bool
	Type  types.Type
	Elts  []AKV  // composite literal elements (Key nil when positional)
	Fun   string // callee full name for "call"
	Args  []*AV
	Pos   token.Pos
	Why   string // for unknown
}

type AKV struct {
	Key *AV
	Val *AV
	Pos token.Pos
}

func (v *AV) String() string {
	switch v.Kind {
	case "int":
		return fmt.Sprint(v.Int)
	case "float":
		return fmt.Sprint(v.Float)
	case "string":
		return fmt.Sprintf("%q", v.Str)
	case "bool":
		return fmt.Sprint(v.Bool)
	case "comp":
		return fmt.Sprintf("comp(%d)", len(v.Elts))
	case "call":
		return "call " + v.Fun
	}
	return "unknown(" + v.Why + ")"
}

func evalAST(p *packages.Package, e ast.Expr) *AV {
	e = ast.Unparen(e)
	if tv, ok := p.TypesInfo.Types[e]; ok && tv.Value != nil {
		return constAV(tv.Value, tv.Type, e.Pos())
	}
	switch e := e.(type) {
	case *ast.CompositeLit:
		av := &AV{Kind: "comp", Type: p.TypesInfo.TypeOf(e), Pos: e.Pos()}
		for _, el := range e.Elts {
			if kv, ok := el.(*ast.KeyValueExpr); ok {
				var k *AV
				// struct field keys are identifiers, not expressions with values
				if id, ok := kv.Key.(*ast.Ident); ok {
					if _, isField := p.TypesInfo.Uses[id].(*types.Var); isField && p.TypesInfo.Uses[id].(*types.Var).IsField() {
						k = &AV{Kind: "string", Str: id.Name, Pos: id.Pos()}
					}
				}
				if k == nil {
					k = evalAST(p, kv.Key)
				}
				av.Elts = append(av.Elts, AKV{Key: k, Val: evalAST(p, kv.Value), Pos: kv.Pos()})
			} else {
				av.Elts = append(av.Elts, AKV{Val: evalAST(p, el), Pos: el.Pos()})
			}
		}
		return av
	case *ast.CallExpr:
		// conversion T(x)
		if tv, ok := p.TypesInfo.Types[e.Fun]; ok && tv.IsType() && len(e.Args) == 1 {
			in := evalAST(p, e.Args[0])
			in.Type = tv.Type
			return in
		}
		av := &AV{Kind: "call", Pos: e.Pos(), Type: p.TypesInfo.TypeOf(e)}
		switch f := ast.Unparen(e.Fun).(type) {
		case *ast.Ident:
			if o := p.TypesInfo.Uses[f]; o != nil {
				av.Fun = objName(o)
			}
		case *ast.SelectorExpr:
			if o := p.TypesInfo.Uses[f.Sel]; o != nil {
				av.Fun = objName(o)
			}
		}
		for _, a := range e.Args {
			av.Args = append(av.Args, evalAST(p, a))
		}
		return av
	case *ast.UnaryExpr:
		if e.Op == token.AND {
			return evalAST(p, e.X)
		}
	case *ast.Ident:
		// a package-level or local variable initialised once with a literal
		if o, ok := p.TypesInfo.Uses[e].(*types.Var); ok {
			if init := varInit(p, o); init != nil {
				return evalAST(p, init)
			}
		}
	}
	return &AV{Kind: "unknown", Why: fmt.Sprintf("%T", e), Pos: e.Pos()}
}

func objName(o types.Object) string {
	if o.Pkg() == nil {
		return o.Name()
	}
	p := o.Pkg().Path()
	if len(p) >= len(modPath) && p[:len(modPath)] == modPath {
		p = "poly" + p[len(modPath):]
	}
	if f, ok := o.(*types.Func); ok {
		if sig, ok := f.Type().(*types.Signature); ok && sig.Recv() != nil {
			return "(" + tname(sig.Recv().Type()) + ")." + o.Name()
		}
	}
	return p + "." + o.Name()
}

func constAV(v constant.Value, t types.Type, pos token.Pos) *AV {
	switch v.Kind() {
	case constant.String:
		return &AV{Kind: "string", Str: constant.StringVal(v), Type: t, Pos: pos}
	case constant.Int:
		n, _ := constant.Int64Val(v)
		return &AV{Kind: "int", Int: n, Float: float64(n), Type: t, Pos: pos}
	case constant.Float:
		f, _ := constant.Float64Val(v)
		return &AV{Kind: "float", Float: f, Type: t, Pos: pos}
	case constant.Bool:
		return &AV{Kind: "bool", Bool: constant.BoolVal(v), Type: t, Pos: pos}
	}
	return &AV{Kind: "unknown", Why: "constant kind", Pos: pos}
}

// varInit finds the single initialiser expression of a variable (package-level ValueSpec,
// or a local := / var with exactly one assignment in the whole package).
func varInit(p *packages.Package, v *types.Var) ast.Expr {
	var init ast.Expr
	n := 0
	for _, f := range p.Syntax {
		ast.Inspect(f, func(nd ast.Node) bool {
			switch s := nd.(type) {
			case *ast.ValueSpec:
				for i, id := range s.Names {
					if p.TypesInfo.Defs[id] == v {
						n++
						if len(s.Values) == len(s.Names) {
							init = s.Values[i]
						}
					}
				}
			case *ast.AssignStmt:
				for i, l := range s.Lhs {
					id, ok := l.(*ast.Ident)
					if !ok {
						continue
					}
					if p.TypesInfo.Defs[id] == v || p.TypesInfo.Uses[id] == v {
						n++
						if len(s.Rhs) == len(s.Lhs) {
							init = s.Rhs[i]
						} else {
							init = nil
						}
					}
				}
			case *ast.IncDecStmt:
				if id, ok := s.X.(*ast.Ident); ok && p.TypesInfo.Uses[id] == v {
					n += 2
				}
			case *ast.UnaryExpr:
				if s.Op == token.AND {
					if id, ok := s.X.(*ast.Ident); ok && p.TypesInfo.Uses[id] == v {
						n += 2 // address taken: not a constant table
					}
				}
			}
			return true
		})
	}
	if n == 1 {
		return init
	}
	return nil
}

// pkgVar finds a package-level variable object by name.
func pkgVar(p *packages.Package, name string) *types.Var {
	if p == nil {
		return nil
	}
	o := p.Types.Scope().Lookup(name)
	v, _ := o.(*types.Var)
	return v
}

// pkgVarsOfType lists package-level variables whose type satisfies pred.
func pkgVarsOfType(p *packages.Package, pred func(types.Type) bool) []*types.Var {
	var out []*types.Var
	if p == nil {
		return out
	}
	sc := p.Types.Scope()
	for _, n := range sc.Names() {
		if v, ok := sc.Lookup(n).(*types.Var); ok && pred(v.Type()) {
			out = append(out, v)
		}
	}
	return out
}

// intKeyedRunes reads a map[rune]rune-like composite into a Go map.
func (v *AV) runeMap() (map[rune]rune, bool) {
	if v == nil || v.Kind != "comp" {
		return nil, false
	}
	m := map[rune]rune{}
	for _, e := range v.Elts {
		if e.Key == nil || e.Key.Kind != "int" || e.Val.Kind != "int" {
			return nil, false
		}
		if _, dup := m[rune(e.Key.Int)]; dup {
			return nil, false
		}
		m[rune(e.Key.Int)] = rune(e.Val.Int)
	}
	return m, true
}
