package main

// mirror.go: palindrome tests written as a loop over mirrored positions. The loop's index variables,
// their steps and its guard are read from the SSA; for lengths 1..9 the checker evaluates which pairs
// of positions the loop compares (its own integer arithmetic over the index expressions, no poly code
// runs). Every position must be compared with its mirror image – in particular the centre of an
// odd-length string with itself, which is what makes odd-length sequences non-palindromic.

import (
	"fmt"
	"go/token"
	"go/types"
	"strings"

	"golang.org/x/tools/go/ssa"
)

// evalEnv evaluates an integer term under an environment keyed by rendered sub-terms; len(...) of
// anything evaluates to env["len"].
func evalEnv(t *Term, env map[string]int64) (int64, bool) {
	if t == nil {
		return 0, false
	}
	if v, ok := env[t.String()]; ok {
		return v, true
	}
	if k, ok := t.constInt(); ok {
		return k, true
	}
	if t.isCall("builtin:len") {
		v, ok := env["len"]
		return v, ok
	}
	if t.Op == "conv" && len(t.Args) == 1 {
		return evalEnv(t.Args[0], env)
	}
	if t.Op == "binop" && len(t.Args) == 2 {
		a, ok1 := evalEnv(t.Args[0], env)
		b, ok2 := evalEnv(t.Args[1], env)
		if !ok1 || !ok2 {
			return 0, false
		}
		switch t.Name {
		case "+":
			return a + b, true
		case "-":
			return a - b, true
		case "*":
			return a * b, true
		case "/":
			if b != 0 {
				return a / b, true
			}
		case "%":
			if b != 0 {
				return a % b, true
			}
		case ">>":
			return a >> uint(b), true
		}
	}
	return 0, false
}

func mirrorLoopState(f *ssa.Function) (int, string) {
	tb := newTB(f)
	tb.NoInline = true
	// the element comparison: x[A] against Complement(x[B])
	var A, B *Term
	var at *ssa.If
	isElem := func(t *Term) *Term {
		t = stripConv(t)
		if t != nil && t.Op == "index" && len(t.Args) == 2 {
			return t.Args[1]
		}
		return nil
	}
	eachInstr(f, func(i ssa.Instruction) {
		ifi, ok := i.(*ssa.If)
		if !ok || A != nil {
			return
		}
		t := tb.T(ifi.Cond)
		if !(t.isBin("==") || t.isBin("!=") || t.isBin("<") || t.isBin("<=")) {
			return
		}
		for k := 0; k < 2; k++ {
			x, y := t.Args[k], stripConv(t.Args[1-k])
			if y.Op == "call" && strings.Contains(y.Name, "omplement") && len(y.Args) == 1 {
				if a, b := isElem(x), isElem(y.Args[0]); a != nil && b != nil {
					A, B, at = a, b, ifi
				}
			}
		}
	})
	if A == nil {
		return unknown, "no comparison of an element with the complement of another found"
	}
	hdr := enclosingLoopHeader(at.Block())
	if hdr == nil {
		return unknown, "the element comparison is not in a loop"
	}
	guardIf, ok := hdr.Instrs[len(hdr.Instrs)-1].(*ssa.If)
	if !ok {
		return unknown, "loop guard not found"
	}
	guard := tb.T(guardIf.Cond)
	if guard.Op != "binop" || len(guard.Args) != 2 {
		return unknown, "loop guard " + short(guard.String()) + " not modelled"
	}
	bodyOnTrue := hdr.Succs[0] != nil && (hdr.Succs[0] == at.Block() || hdr.Succs[0].Dominates(at.Block()))
	type ivar struct {
		key  string
		init *Term
		step int64
	}
	var ivs []ivar
	for _, ins := range hdr.Instrs {
		ph, ok := ins.(*ssa.Phi)
		if !ok {
			continue
		}
		iv := ivar{key: tb.T(ph).String()}
		good := true
		for k, e := range ph.Edges {
			pred := hdr.Preds[k]
			if hdr.Dominates(pred) && reaches(pred, hdr) {
				b, ok := e.(*ssa.BinOp)
				c, isC := (ssa.Value)(nil), false
				if ok {
					if cc, ok2 := b.Y.(*ssa.Const); ok2 && b.X == ssa.Value(ph) && cc.Value != nil {
						c, isC = cc, true
					}
				}
				if !ok || !isC || !(b.Op == token.ADD || b.Op == token.SUB) {
					good = false
					continue
				}
				n := c.(*ssa.Const).Int64()
				if b.Op == token.SUB {
					n = -n
				}
				iv.step = n
			} else {
				iv.init = tb.T(e)
			}
		}
		if good && iv.init != nil {
			ivs = append(ivs, iv)
		}
	}
	if len(ivs) == 0 {
		return unknown, "no induction variable recognised"
	}
	for n := int64(1); n <= 9; n++ {
		env := map[string]int64{"len": n}
		okEval := true
		for _, iv := range ivs {
			v, ok := evalEnv(iv.init, map[string]int64{"len": n})
			if !ok {
				okEval = false
			}
			env[iv.key] = v
		}
		if !okEval {
			return unknown, "initial value of an index variable not evaluable"
		}
		covered := map[[2]int64]bool{}
		for it := int64(0); it < n+3; it++ {
			l, ok1 := evalEnv(guard.Args[0], env)
			r, ok2 := evalEnv(guard.Args[1], env)
			g, ok3 := relHolds(guard.Name, l, r)
			if !ok1 || !ok2 || !ok3 {
				return unknown, "loop guard " + short(guard.String()) + " not evaluable"
			}
			if g != bodyOnTrue {
				break
			}
			a, okA := evalEnv(A, env)
			b, okB := evalEnv(B, env)
			if !okA || !okB {
				return unknown, "compared positions not evaluable"
			}
			if a < 0 || b < 0 || a >= n || b >= n {
				return broken, fmt.Sprintf("for a sequence of length %d the loop compares positions %d and %d, outside the sequence", n, a, b)
			}
			covered[[2]int64{a, b}], covered[[2]int64{b, a}] = true, true
			for _, iv := range ivs {
				env[iv.key] += iv.step
			}
		}
		for p := int64(0); p < n; p++ {
			if !covered[[2]int64{p, n - 1 - p}] {
				what := fmt.Sprintf("position %d is never compared with the complement of its mirror position %d", p, n-1-p)
				if p == n-1-p {
					// the centre may be looked at by a test of its own, outside the mirror loop
					// (a list of the codes that are their own complement): what is asked there is not read
					inLoop := naturalLoopOf(hdr)
					outside := false
					eachInstr(f, func(i ssa.Instruction) {
						if inLoop[i.Block()] {
							return
						}
						for lb := range inLoop {
							if lb != hdr && lb.Dominates(i.Block()) {
								return // a way out of the loop body (the verdict for the pair just compared)
							}
						}
						switch x := i.(type) {
						case *ssa.Index:
							outside = outside || isTextType(x.X.Type())
						case *ssa.Lookup:
							outside = outside || isTextType(x.X.Type())
						case *ssa.IndexAddr:
							outside = outside || isTextType(x.X.Type())
						}
					})
					if outside {
						return unknown, fmt.Sprintf("for a sequence of length %d the centre base is not compared inside the mirror loop; a letter of the sequence is read outside the loop, and what is asked of it there is not read", n)
					}
					what = fmt.Sprintf("the centre base (position %d) is never compared with its own complement, so an odd-length sequence with matching flanks counts as palindromic", p)
				}
				return broken, fmt.Sprintf("for a sequence of length %d %s", n, what)
			}
		}
	}
	return holds, ""
}

// ---------------------------------------------------------------------------
// A small evaluator for index arithmetic inside one loop: induction variables (init, constant step),
// the loop guard, and integer terms over them (including conditional values such as
// "end := i+w; if end > len { end = len }"). Used to decide, for a finite range of lengths, which
// positions of a sequence a loop touches.

type indVar struct {
	key  string
	init *Term
	step int64
}

type loopSim struct {
	tb         *TermBuilder
	hdr        *ssa.BasicBlock
	ivs        []indVar
	guard      *Term
	bodyOnTrue bool
}

func newLoopSim(tb *TermBuilder, hdr *ssa.BasicBlock) (*loopSim, string) {
	guardIf, ok := hdr.Instrs[len(hdr.Instrs)-1].(*ssa.If)
	if !ok {
		return nil, "loop guard not found"
	}
	ls := &loopSim{tb: tb, hdr: hdr, guard: tb.T(guardIf.Cond)}
	inLoop := func(b *ssa.BasicBlock) bool { return b == hdr || (hdr.Dominates(b) && reaches(b, hdr)) }
	ls.bodyOnTrue = inLoop(hdr.Succs[0]) && hdr.Succs[0] != hdr
	for _, ins := range hdr.Instrs {
		ph, ok := ins.(*ssa.Phi)
		if !ok {
			continue
		}
		if bt, ok := ph.Type().Underlying().(*types.Basic); !ok || bt.Info()&types.IsInteger == 0 {
			continue
		}
		iv := indVar{key: tb.T(ph).String()}
		good := true
		for k, e := range ph.Edges {
			pred := hdr.Preds[k]
			if hdr.Dominates(pred) && reaches(pred, hdr) {
				b, ok := e.(*ssa.BinOp)
				if !ok || b.X != ssa.Value(ph) || !(b.Op == token.ADD || b.Op == token.SUB) {
					good = false
					continue
				}
				cc, ok := b.Y.(*ssa.Const)
				if !ok || cc.Value == nil {
					good = false
					continue
				}
				n := cc.Int64()
				if b.Op == token.SUB {
					n = -n
				}
				iv.step = n
			} else {
				iv.init = tb.T(e)
			}
		}
		if !good || iv.init == nil {
			return nil, "an integer loop variable is not a plain counter: " + short(tb.T(ph).String())
		}
		// the range-loop form counts from -1 and is used as i+1
		if rangePhi(ph) == nil {
			ls.ivs = append(ls.ivs, iv)
		} else {
			ls.ivs = append(ls.ivs, iv)
		}
	}
	if len(ls.ivs) == 0 {
		return nil, "no induction variable recognised"
	}
	return ls, ""
}

// evalInt evaluates an integer term; conditional values (non-cyclic phis) are resolved by evaluating
// the conditions of their incoming edges.
func (ls *loopSim) evalInt(t *Term, env map[string]int64, depth int) (int64, bool) {
	if t == nil || depth > 8 {
		return 0, false
	}
	if v, ok := env[t.String()]; ok {
		return v, true
	}
	if k, ok := t.constInt(); ok {
		return k, true
	}
	switch {
	case t.isCall("builtin:len"):
		v, ok := env["len"]
		return v, ok
	case t.isCall("builtin:min") || t.isCall("builtin:max"):
		best, have := int64(0), false
		for _, a := range t.Args {
			v, ok := ls.evalInt(a, env, depth+1)
			if !ok {
				return 0, false
			}
			if !have || (t.Name == "builtin:min" && v < best) || (t.Name == "builtin:max" && v > best) {
				best, have = v, true
			}
		}
		return best, have
	case t.Op == "conv" && len(t.Args) == 1:
		return ls.evalInt(t.Args[0], env, depth+1)
	case t.Op == "rangeidx":
		// i of "for i := range": the phi counts from -1, the index is phi+1
		for _, iv := range ls.ivs {
			if iv.key == t.String() {
				return env[iv.key], true
			}
		}
	case t.Op == "binop" && len(t.Args) == 2:
		a, ok1 := ls.evalInt(t.Args[0], env, depth+1)
		b, ok2 := ls.evalInt(t.Args[1], env, depth+1)
		if !ok1 || !ok2 {
			return 0, false
		}
		switch t.Name {
		case "+":
			return a + b, true
		case "-":
			return a - b, true
		case "*":
			return a * b, true
		case "/":
			if b != 0 {
				return a / b, true
			}
		case "%":
			if b != 0 {
				return a % b, true
			}
		}
	case t.Op == "phi" && !t.Cyc:
		ph, ok := t.V.(*ssa.Phi)
		if !ok || ph.Parent() != ls.tb.F {
			return 0, false
		}
		dom := ph.Block().Idom()
		if dom == nil {
			return 0, false
		}
		for k, e := range ph.Edges {
			pred := ph.Block().Preds[k]
			if !dom.Dominates(pred) {
				return 0, false
			}
			ec := pathCond(ls.tb, dom, pred)
			if ifi, ok := pred.Instrs[len(pred.Instrs)-1].(*ssa.If); ok && len(pred.Succs) == 2 && pred.Succs[0] != pred.Succs[1] {
				a := condOfBool(ls.tb, ifi.Cond, 0)
				if pred.Succs[0] == ph.Block() {
					ec = cAnd(ec, a)
				} else {
					ec = cAnd(ec, cNot(a))
				}
			}
			v, known := ls.evalCond(ec, env)
			if !known {
				return 0, false
			}
			if v {
				return ls.evalInt(ls.tb.T(e), env, depth+1)
			}
		}
	}
	return 0, false
}

func (ls *loopSim) evalCond(c *Cond, env map[string]int64) (bool, bool) {
	return evalCond3(c, func(t *Term) (bool, bool) {
		if t.Op != "binop" || len(t.Args) != 2 {
			return false, false
		}
		a, ok1 := ls.evalInt(t.Args[0], env, 0)
		b, ok2 := ls.evalInt(t.Args[1], env, 0)
		if !ok1 || !ok2 {
			return false, false
		}
		return relHolds(t.Name, a, b)
	})
}

// run iterates the loop for a sequence of length n, calling visit with the environment of each
// iteration; extra holds values for named quantities other than len (e.g. a field compared against).
func (ls *loopSim) run(n int64, extra map[string]int64, maxIter int64, visit func(env map[string]int64) (bool, string)) (bool, string) {
	env := map[string]int64{"len": n}
	for k, v := range extra {
		env[k] = v
	}
	for _, iv := range ls.ivs {
		v, ok := ls.evalInt(iv.init, map[string]int64{"len": n}, 0)
		if !ok {
			return false, "initial value of " + short(iv.key) + " not evaluable"
		}
		env[iv.key] = v
	}
	for it := int64(0); it < maxIter; it++ {
		// the guard of a range loop is on i+1 (rangeidx): the term is rendered on the phi itself
		g, known := ls.evalCond(&Cond{Op: "atom", Atom: ls.guard}, ls.guardEnv(env))
		if !known {
			return false, "loop guard " + short(ls.guard.String()) + " not evaluable"
		}
		if g != ls.bodyOnTrue {
			return true, ""
		}
		benv := ls.bodyEnv(env)
		if ok, why := visit(benv); !ok {
			return false, why
		}
		for _, iv := range ls.ivs {
			env[iv.key] += iv.step
		}
	}
	return false, "the loop does not finish within the iteration bound"
}

// range loops: the phi starts at -1 and the body (and guard) see phi+1, rendered as rangeidx[phi].
func (ls *loopSim) guardEnv(env map[string]int64) map[string]int64 { return ls.bodyEnv(env) }

func (ls *loopSim) bodyEnv(env map[string]int64) map[string]int64 {
	out := map[string]int64{}
	for k, v := range env {
		out[k] = v
	}
	for _, iv := range ls.ivs {
		if strings.HasPrefix(iv.key, "rangeidx[") {
			if c, ok := iv.init.constInt(); ok && c == -1 {
				out[iv.key] = env[iv.key] + 1
			}
		}
	}
	return out
}

// chunkCoverage: a loop writes consecutive slices src[lo:hi]; for every length 0..maxN the slices must
// tile [0,len) in order, without gap or overlap.
func chunkCoverage(tb *TermBuilder, hdr *ssa.BasicBlock, lo, hi *Term, maxN int64) (int, string) {
	ls, why := newLoopSim(tb, hdr)
	if ls == nil {
		return unknown, why
	}
	for n := int64(0); n <= maxN; n++ {
		next := int64(0)
		ok, why := ls.run(n, nil, n+5, func(env map[string]int64) (bool, string) {
			l := int64(0)
			if lo != nil && lo.Op != "nil" {
				v, ok := ls.evalInt(lo, env, 0)
				if !ok {
					return false, "?lower bound " + short(lo.String()) + " not evaluable"
				}
				l = v
			}
			h := n
			if hi != nil && hi.Op != "nil" {
				v, ok := ls.evalInt(hi, env, 0)
				if !ok {
					return false, "?upper bound " + short(hi.String()) + " not evaluable"
				}
				h = v
			}
			switch {
			case l != next:
				return false, fmt.Sprintf("for a sequence of %d letters a chunk starts at %d where the previous one ended at %d", n, l, next)
			case h < l || h > n:
				return false, fmt.Sprintf("for a sequence of %d letters a chunk is [%d:%d], outside the sequence", n, l, h)
			}
			next = h
			return true, ""
		})
		if !ok {
			if strings.HasPrefix(why, "?") || strings.Contains(why, "not evaluable") || strings.Contains(why, "iteration bound") {
				return unknown, strings.TrimPrefix(why, "?")
			}
			return broken, why
		}
		if next != n {
			return broken, fmt.Sprintf("for a sequence of %d letters only the first %d are written: the loop stops before the last chunk", n, next)
		}
	}
	return holds, ""
}

// perLetterOnce: inside the loop over src, every path through the body writes the current letter to
// recv exactly once.
func perLetterOnce(tb *TermBuilder, f *ssa.Function, src, recv string) (int, string, ssa.Instruction) {
	letter := "extract[2](next(range(" + src + ")))"
	isWrite := map[ssa.Instruction]bool{}
	var first ssa.Instruction
	eachInstr(f, func(i ssa.Instruction) {
		ci, ok := i.(ssa.CallInstruction)
		if !ok {
			return
		}
		n := calleeName(ci)
		if (strings.HasPrefix(n, "(*bytes.Buffer).Write") || strings.HasPrefix(n, "(*strings.Builder).Write")) && len(ci.Common().Args) == 2 && tb.T(ci.Common().Args[0]).String() == recv {
			if a := stripConv(tb.T(ci.Common().Args[1])); a != nil && a.String() == letter {
				isWrite[i] = true
				if first == nil {
					first = i
				}
			}
		}
	})
	if first == nil {
		return unknown, "no per-letter write found", nil
	}
	hdr := enclosingLoopHeader(first.Block())
	if hdr == nil {
		return unknown, "the letter write is not in a loop", first
	}
	entry := loopBodyEntry(first.Block())
	if entry == nil {
		return unknown, "loop body entry not found", first
	}
	// min / max number of letter writes over all paths entry -> back edge
	type mm struct{ min, max int }
	memo := map[*ssa.BasicBlock]*mm{}
	onPath := map[*ssa.BasicBlock]bool{}
	var walk func(b *ssa.BasicBlock) *mm
	walk = func(b *ssa.BasicBlock) *mm {
		if r, ok := memo[b]; ok {
			return r
		}
		if onPath[b] {
			return nil // an inner loop: going round it again is not a way to finish the iteration
		}
		onPath[b] = true
		here := 0
		for _, i := range b.Instrs {
			if isWrite[i] {
				here++
			}
		}
		r := &mm{-1, -1}
		for _, s := range b.Succs {
			var sub *mm
			switch {
			case s == hdr:
				sub = &mm{0, 0}
			case !(hdr.Dominates(s) && reaches(s, hdr)):
				continue // leaves the loop (break / return): not a completed iteration
			case onPath[s]:
				continue // the back edge of a loop nested in the body: going round it again does not end the iteration
			default:
				sub = walk(s)
			}
			if sub == nil {
				continue // no path from there completes the iteration (it only goes round an inner loop)
			}
			if r.min == -1 || sub.min < r.min {
				r.min = sub.min
			}
			if sub.max > r.max {
				r.max = sub.max
			}
		}
		delete(onPath, b)
		if r.min == -1 {
			return nil // not memoised: the answer depends on what is on the path
		}
		r = &mm{r.min + here, r.max + here}
		memo[b] = r
		return r
	}
	r := walk(entry)
	switch {
	case r == nil:
		return unknown, "no path through the loop body back to its head was found", first
	case r.min == 1 && r.max == 1:
		return holds, "", first
	case r.min == 0:
		return broken, "on some path through the loop body the current letter is not written: letters are dropped from the output", first
	default:
		return broken, fmt.Sprintf("on some path the current letter is written %d times", r.max), first
	}
}
