package main

// chanlife.go (K5): channel / WaitGroup typestate over the SSA CFG.
// Everything here is a forward may-analysis over blocks: no path is enumerated.

import (
	"fmt"
	"go/token"
	"go/types"
	"strings"

	"golang.org/x/tools/go/ssa"
)

const (
	cnt0 = 1 << iota // event happened 0 times on some path
	cnt1             // exactly once on some path
	cntN             // twice or more on some path
)

func bump(m int, n int) int {
	for ; n > 0; n-- {
		r := 0
		if m&cnt0 != 0 {
			r |= cnt1
		}
		if m&(cnt1|cntN) != 0 {
			r |= cntN
		}
		m = r
	}
	return m
}

// countAlongPaths computes, for every instruction position, the set {0,1,many} of how often an
// "event" instruction may have executed on paths from the entry. Returns the mask before each
// instruction of interest via the callback at(instr, maskBefore).
func countAlongPaths(f *ssa.Function, isEvent func(ssa.Instruction) bool, at func(i ssa.Instruction, before int)) {
	in := map[*ssa.BasicBlock]int{}
	out := map[*ssa.BasicBlock]int{}
	nev := map[*ssa.BasicBlock]int{}
	for _, b := range f.Blocks {
		for _, i := range b.Instrs {
			if isEvent(i) {
				nev[b]++
			}
		}
	}
	in[f.Blocks[0]] = cnt0
	changed := true
	for changed {
		changed = false
		for _, b := range f.Blocks {
			m := in[b]
			for _, p := range b.Preds {
				m |= out[p]
			}
			if b == f.Blocks[0] {
				m |= cnt0
			}
			o := bump(m, nev[b])
			if m != in[b] || o != out[b] {
				in[b], out[b] = m, o
				changed = true
			}
		}
	}
	for _, b := range f.Blocks {
		m := in[b]
		for _, i := range b.Instrs {
			at(i, m)
			if isEvent(i) {
				m = bump(m, 1)
			}
		}
	}
}

func maskString(m int) string {
	s := ""
	if m&cnt0 != 0 {
		s += "0,"
	}
	if m&cnt1 != 0 {
		s += "1,"
	}
	if m&cntN != 0 {
		s += "2+,"
	}
	if s == "" {
		return "unreachable"
	}
	return "{" + s[:len(s)-1] + "}"
}

func isCloseOf(i ssa.Instruction, ch ssa.Value) bool {
	c, ok := i.(ssa.CallInstruction)
	if !ok {
		return false
	}
	if _, isDefer := i.(*ssa.Defer); isDefer {
		return false
	}
	return calleeName(c) == "builtin:close" && sameChan(c.Common().Args[0], ch)
}

// sameChan: v is ch, or a load of a local that only ever holds ch (a parameter captured by a closure
// is spilled to such a local).
func sameChan(v, ch ssa.Value) bool {
	v = unwrap(v)
	if v == ch {
		return true
	}
	ld, ok := v.(*ssa.UnOp)
	if !ok || ld.Op != token.MUL {
		return false
	}
	a, ok := ld.X.(*ssa.Alloc)
	if !ok || a.Referrers() == nil {
		return false
	}
	stores := 0
	for _, r := range *a.Referrers() {
		if st, ok := r.(*ssa.Store); ok && st.Addr == ssa.Value(a) {
			stores++
			if unwrap(st.Val) != ch {
				return false
			}
		}
	}
	return stores >= 1
}

func isChanType(t types.Type) bool {
	_, ok := t.Underlying().(*types.Chan)
	return ok
}

// checkCloseOnce: every path from f's entry to a return closes ch exactly once, and no send on ch
// (in f) can execute after a close; sends are blocking (no select/default).
func checkCloseOnce(c *Ctx, rule string, f *ssa.Function, ch ssa.Value, chName string) {
	key := fname(f) + ":" + chName
	// deferred close at entry counts as exactly-once-at-exit
	var deferred []*ssa.Defer
	nClose := 0
	eachInstr(f, func(i ssa.Instruction) {
		if d, ok := i.(*ssa.Defer); ok && calleeName(d) == "builtin:close" && sameChan(d.Common().Args[0], ch) {
			deferred = append(deferred, d)
		}
		if isCloseOf(i, ch) {
			nClose++
		}
	})
	if len(deferred) > 0 {
		good := len(deferred) == 1 && nClose == 0 && !inLoop(deferred[0].Block()) && deferred[0].Block().Dominates(f.Blocks[0]) == (deferred[0].Block() == f.Blocks[0])
		// the defer must be registered on every path: its block dominates every return
		for _, r := range returnsOf(f) {
			if f.Recover != nil && r.Block() == f.Recover {
				continue // the synthetic recover exit: deferred calls have run by then
			}
			if !deferred[0].Block().Dominates(r.Block()) {
				good = false
			}
		}
		c.check(good, rule, "close-once/"+key, deferred[0].Pos(), "closed by a single defer that dominates every return", "deferred close is not registered exactly once on every path")
		return
	}
	bad := []string{}
	var firstPos = f.Pos()
	countAlongPaths(f, func(i ssa.Instruction) bool { return isCloseOf(i, ch) }, func(i ssa.Instruction, before int) {
		switch x := i.(type) {
		case *ssa.Return:
			if f.Recover != nil && x.Block() == f.Recover {
				return // the synthetic exit after a recovered panic (a function with a defer): not a path of the code
			}
			if before != cnt1 {
				bad = append(bad, fmt.Sprintf("return at %s is reached with close count %s", c.W.pos(x.Pos()), maskString(before)))
			}
		case *ssa.Send:
			if sameChan(x.Chan, ch) && before&(cnt1|cntN) != 0 {
				bad = append(bad, fmt.Sprintf("send at %s may execute after close", c.W.pos(x.Pos())))
			}
		}
		if isCloseOf(i, ch) {
			firstPos = i.Pos()
		}
	})
	if nClose == 0 {
		// nothing recognised as a close of this channel here: if the channel is handed on, the close may be elsewhere
		if esc := chanEscapes(f, ch, nil); len(esc) > 0 {
			c.undecided(rule, "close-once/"+key, firstPos, "no close of "+chName+" in "+fname(f)+" and the channel is "+strings.Join(esc, ", "))
			return
		}
	}
	c.check(len(bad) == 0 && nClose > 0, rule, "close-once/"+key, firstPos,
		"every path to a return closes "+chName+" exactly once; no send after close",
		fmt.Sprintf("%d close site(s); %v", nClose, bad))
	// blocking sends
	nb := 0
	nSend := 0
	eachInstr(f, func(i ssa.Instruction) {
		if s, ok := i.(*ssa.Select); ok {
			for _, st := range s.States {
				if sameChan(st.Chan, ch) && st.Dir == types.SendOnly {
					nb++
				}
			}
		}
		if s, ok := i.(*ssa.Send); ok && sameChan(s.Chan, ch) {
			nSend++
		}
	})
	// closures of f that captured the channel: a select-send there drops or reorders just the same
	elemOf := func(t types.Type) types.Type {
		if c, ok := t.Underlying().(*types.Chan); ok {
			return c.Elem()
		}
		return nil
	}
	for _, af := range f.AnonFuncs {
		eachInstr(af, func(i ssa.Instruction) {
			if s, ok := i.(*ssa.Select); ok {
				for _, st := range s.States {
					if st.Dir == types.SendOnly && elemOf(st.Chan.Type()) != nil && elemOf(ch.Type()) != nil && types.Identical(elemOf(st.Chan.Type()), elemOf(ch.Type())) {
						if _, fromFree := capturedFrom(st.Chan); fromFree {
							nb++
						}
					}
				}
			}
		})
	}
	c.check(nb == 0, rule, "blocking-sends/"+key, firstPos, fmt.Sprintf("%d plain blocking sends, none inside select", nSend), fmt.Sprintf("%d send(s) on %s are select cases (may drop or reorder)", nb, chName))
}

// sendsOn lists Send instructions of f on channel ch.
func sendsOn(f *ssa.Function, ch ssa.Value) []*ssa.Send {
	var out []*ssa.Send
	eachInstr(f, func(i ssa.Instruction) {
		if s, ok := i.(*ssa.Send); ok && s.Chan == ch {
			out = append(out, s)
		}
	})
	return out
}

// goSites lists `go g(...)` instructions in f with the given callee.
func goSites(f *ssa.Function, g *ssa.Function) []*ssa.Go {
	var out []*ssa.Go
	eachInstr(f, func(i ssa.Instruction) {
		if gi, ok := i.(*ssa.Go); ok && callee(gi) == g {
			out = append(out, gi)
		}
	})
	return out
}

// otherChanUses: any use of ch in f other than send/close/pass-to-call – e.g. re-assignment to a
// struct or a second goroutine – which this analysis does not follow.
func chanEscapes(f *ssa.Function, ch ssa.Value, allowCalls map[string]bool) []string {
	var out []string
	refs := ch.Referrers()
	if refs == nil {
		return nil
	}
	for _, r := range *refs {
		switch x := r.(type) {
		case *ssa.Send:
		case *ssa.UnOp: // receive
		case *ssa.Select:
		case *ssa.DebugRef:
		case *ssa.Return:
		case ssa.CallInstruction:
			n := calleeName(x)
			if n == "builtin:close" || n == "builtin:len" || n == "builtin:cap" || allowCalls[n] {
				continue
			}
			out = append(out, "passed to "+n)
		case *ssa.ChangeType, *ssa.MakeInterface:
			out = append(out, "converted")
		case *ssa.Phi:
			out = append(out, "merged with another channel")
		default:
			out = append(out, fmt.Sprintf("used by %T", r))
		}
	}
	return out
}

// capturedFrom: v is (a load of) a free variable of its closure.
func capturedFrom(v ssa.Value) (*ssa.FreeVar, bool) {
	v = unwrap(v)
	if fv, ok := v.(*ssa.FreeVar); ok {
		return fv, true
	}
	if ld, ok := v.(*ssa.UnOp); ok && ld.Op == token.MUL {
		if fv, ok := ld.X.(*ssa.FreeVar); ok {
			return fv, true
		}
	}
	return nil, false
}
