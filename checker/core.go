package main

// core.go: loading /repo, obligations, evidence, known findings, replay files.
// Every run re-loads and type-checks the repository's *current* working tree.

import (
	"encoding/json"
	"fmt"
	"go/ast"
	"go/token"
	"go/types"
	"os"
	"path/filepath"
	"sort"
	"strings"
	"time"

	"golang.org/x/tools/go/packages"
	"golang.org/x/tools/go/ssa"
	"golang.org/x/tools/go/ssa/ssautil"
)

const modPath = "github.com/TimothyStiles/poly"

// World is one loaded, type-checked, SSA-built view of the repository.
type World struct {
	Repo   string
	Fset   *token.FileSet
	Pkgs   map[string]*packages.Package // by import path (module packages only, non-test variant)
	All    []*packages.Package          // everything loaded for the module (incl. test variants when requested)
	Prog   *ssa.Program
	SSA    map[string]*ssa.Package
	Tests  bool
	GOOS   string
	GOARCH string
	nfuncs int
}

func loadWorld(repo string, tests bool, goos, goarch string) (*World, error) {
	env := os.Environ()
	clean := env[:0]
	for _, e := range env {
		if strings.HasPrefix(e, "GOWORK=") || strings.HasPrefix(e, "GOFLAGS=") || strings.HasPrefix(e, "GOOS=") || strings.HasPrefix(e, "GOARCH=") {
			continue
		}
		clean = append(clean, e)
	}
	clean = append(clean, "GOWORK=off", "GOFLAGS=-mod=mod", "GOPROXY=off", "GOSUMDB=off", "GOTOOLCHAIN=local", "CGO_ENABLED=0")
	if goos != "" {
		clean = append(clean, "GOOS="+goos)
	}
	if goarch != "" {
		clean = append(clean, "GOARCH="+goarch)
	}
	fset := token.NewFileSet()
	cfg := &packages.Config{
		Mode:  packages.LoadSyntax,
		Dir:   repo,
		Env:   clean,
		Fset:  fset,
		Tests: tests,
	}
	pkgs, err := packages.Load(cfg, "./...")
	if err != nil {
		return nil, fmt.Errorf("load: %v", err)
	}
	if len(pkgs) == 0 {
		return nil, fmt.Errorf("load: zero packages")
	}
	w := &World{Repo: repo, Fset: fset, Pkgs: map[string]*packages.Package{}, SSA: map[string]*ssa.Package{}, Tests: tests, GOOS: goos, GOARCH: goarch}
	var errs []string
	for _, p := range pkgs {
		for _, e := range p.Errors {
			errs = append(errs, e.Error())
		}
		if p.IllTyped {
			errs = append(errs, p.ID+": ill-typed")
		}
	}
	if len(errs) > 0 {
		sort.Strings(errs)
		if len(errs) > 8 {
			errs = errs[:8]
		}
		return nil, fmt.Errorf("type-check failed: %s", strings.Join(errs, "; "))
	}
	prog, spkgs := ssautil.Packages(pkgs, ssa.InstantiateGenerics)
	prog.Build()
	w.Prog = prog
	w.All = pkgs
	for i, p := range pkgs {
		if !strings.HasPrefix(p.PkgPath, modPath) {
			continue
		}
		// Non-test variant: ID == PkgPath. Test variants have IDs like "path [path.test]".
		if p.ID == p.PkgPath {
			w.Pkgs[p.PkgPath] = p
			w.SSA[p.PkgPath] = spkgs[i]
		}
	}
	if tests {
		// With Tests:true the plain variant may be absent for packages that have
		// in-package tests; fall back to the "[p.test]" variant, which is a superset.
		for i, p := range pkgs {
			if !strings.HasPrefix(p.PkgPath, modPath) || strings.HasSuffix(p.PkgPath, ".test") || strings.HasSuffix(p.PkgPath, "_test") {
				continue
			}
			if _, ok := w.Pkgs[p.PkgPath]; !ok {
				w.Pkgs[p.PkgPath] = p
				w.SSA[p.PkgPath] = spkgs[i]
			}
		}
	}
	if len(w.Pkgs) == 0 {
		return nil, fmt.Errorf("load: no packages of module %s", modPath)
	}
	return w, nil
}

// pkg returns the module package with the given path relative to the module root ("" = root).
func (w *World) pkg(rel string) *packages.Package {
	p := modPath
	if rel != "" {
		p += "/" + rel
	}
	return w.Pkgs[p]
}

func (w *World) spkg(rel string) *ssa.Package {
	p := modPath
	if rel != "" {
		p += "/" + rel
	}
	return w.SSA[p]
}

// fn resolves a package-level function by package-relative path and name.
func (w *World) fn(rel, name string) *ssa.Function {
	sp := w.spkg(rel)
	if sp == nil {
		return nil
	}
	return sp.Func(name)
}

// method resolves a method (value or pointer receiver) of a named type.
func (w *World) method(rel, typ, name string) *ssa.Function {
	sp := w.spkg(rel)
	if sp == nil {
		return nil
	}
	t := sp.Type(typ)
	if t == nil {
		return nil
	}
	for _, recv := range []types.Type{t.Type(), types.NewPointer(t.Type())} {
		ms := w.Prog.MethodSets.MethodSet(recv)
		for i := 0; i < ms.Len(); i++ {
			if ms.At(i).Obj().Name() == name {
				if f := w.Prog.MethodValue(ms.At(i)); f != nil && f.Synthetic == "" {
					return f
				}
			}
		}
	}
	return nil
}

func (w *World) pos(p token.Pos) string {
	if !p.IsValid() {
		return "-"
	}
	pp := w.Fset.Position(p)
	rel, err := filepath.Rel(w.Repo, pp.Filename)
	if err != nil || strings.HasPrefix(rel, "..") {
		rel = pp.Filename
	}
	return fmt.Sprintf("%s:%d:%d", rel, pp.Line, pp.Column)
}

// moduleFuncs lists every source function (incl. anonymous) of the module's packages, sorted.
func (w *World) moduleFuncs() []*ssa.Function {
	var out []*ssa.Function
	seen := map[*ssa.Function]bool{}
	var add func(f *ssa.Function)
	add = func(f *ssa.Function) {
		if f == nil || seen[f] || f.Blocks == nil {
			return
		}
		seen[f] = true
		out = append(out, f)
		for _, a := range f.AnonFuncs {
			add(a)
		}
	}
	for _, sp := range w.SSA {
		for _, m := range sp.Members {
			switch m := m.(type) {
			case *ssa.Function:
				add(m)
			case *ssa.Type:
				for _, recv := range []types.Type{m.Type(), types.NewPointer(m.Type())} {
					ms := w.Prog.MethodSets.MethodSet(recv)
					for i := 0; i < ms.Len(); i++ {
						f := w.Prog.MethodValue(ms.At(i))
						if f != nil && f.Synthetic == "" {
							add(f)
						}
					}
				}
			}
		}
	}
	sort.Slice(out, func(i, j int) bool { return out[i].String() < out[j].String() })
	return out
}

// ---------------------------------------------------------------------------
// Obligations

type Verdict string

const (
	OK        Verdict = "OK"
	VIOLATION Verdict = "VIOLATION"
	KNOWN     Verdict = "KNOWN-FINDING"
	// UNDECIDED: the rule could not map the code onto the shapes it understands. It is reported and
	// counted (obligations > discharged) but it is not an alarm: an alarm needs positive evidence.
	UNDECIDED Verdict = "UNDECIDED"
)

type Obligation struct {
	Rule    string  `json:"rule"`
	Key     string  `json:"key"` // rule/construct – never a line number
	Verdict Verdict `json:"verdict"`
	Pos     string  `json:"pos,omitempty"`
	Why     string  `json:"why"`
	Detail  string  `json:"detail,omitempty"`
}

type Ctx struct {
	W        *World
	Prop     string
	Tier     string
	Obs      []*Obligation
	seenKeys map[string]bool
	Floors   map[string]int // rule -> minimum number of instances
	Counts   map[string]int
	Decided  []string
	Undec    []string
	Trusted  []string
	Assume   []string
	Notes    []string
	Funcs    map[string]bool // functions analysed
	Sites    int             // call sites / instructions inspected
	Extra    map[string]interface{}
}

func newCtx(w *World, prop, tier string) *Ctx {
	currentWorld = w
	return &Ctx{W: w, Prop: prop, Tier: tier, seenKeys: map[string]bool{}, Floors: map[string]int{}, Counts: map[string]int{}, Funcs: map[string]bool{}, Extra: map[string]interface{}{}}
}

func (c *Ctx) add(rule, construct string, v Verdict, pos token.Pos, why string) *Obligation {
	key := rule + "/" + construct
	// Keys must be unique; disambiguate repeated constructs deterministically.
	base := key
	for n := 2; c.seenKeys[key]; n++ {
		key = fmt.Sprintf("%s#%d", base, n)
	}
	c.seenKeys[key] = true
	p := ""
	if c.W != nil {
		p = c.W.pos(pos)
	}
	o := &Obligation{Rule: rule, Key: key, Verdict: v, Pos: p, Why: why}
	c.Obs = append(c.Obs, o)
	c.Counts[rule]++
	return o
}

func (c *Ctx) ok(rule, construct string, pos token.Pos, why string) {
	c.add(rule, construct, OK, pos, why)
}

func (c *Ctx) bad(rule, construct string, pos token.Pos, why string) {
	c.add(rule, construct, VIOLATION, pos, why)
}

// undecided records an obligation whose construct exists but whose shape the rule does not recognise.
func (c *Ctx) undecided(rule, construct string, pos token.Pos, why string) {
	c.add(rule, construct, UNDECIDED, pos, "not decided (unrecognised shape): "+why)
}

// tri-state for judge
const (
	holds = iota
	broken
	unknown
)

// judge records OK / VIOLATION / UNDECIDED.
func (c *Ctx) judge(state int, rule, construct string, pos token.Pos, okWhy, badWhy string) {
	switch state {
	case holds:
		c.ok(rule, construct, pos, okWhy)
	case broken:
		c.bad(rule, construct, pos, badWhy)
	default:
		c.undecided(rule, construct, pos, badWhy)
	}
}

// check records OK when cond holds, else VIOLATION with the given explanation.
func (c *Ctx) check(cond bool, rule, construct string, pos token.Pos, okWhy, badWhy string) bool {
	if cond {
		c.ok(rule, construct, pos, okWhy)
	} else {
		c.bad(rule, construct, pos, badWhy)
	}
	return cond
}

// checkShape records OK when the expected structure was recognised, else UNDECIDED: failing to
// recognise a structure is not evidence that the property is broken.
func (c *Ctx) checkShape(cond bool, rule, construct string, pos token.Pos, okWhy, badWhy string) bool {
	if cond {
		c.ok(rule, construct, pos, okWhy)
	} else {
		c.undecided(rule, construct, pos, badWhy)
	}
	return cond
}

// missing records an anchor that could not be resolved: undecided is never reported as held.
func (c *Ctx) missing(rule, construct, what string) {
	c.add(rule, construct, VIOLATION, token.NoPos, "anchor not found: "+what+" (an unresolved obligation is not reported as held)")
}

// missingHelper: an unexported mechanism the rule looks into is gone or renamed. That is a change of
// shape, not evidence against the property: undecided.
func (c *Ctx) missingHelper(rule, construct, what string) {
	c.add(rule, construct, UNDECIDED, token.NoPos, "not decided: helper not found: "+what)
}

func (c *Ctx) floor(rule string, n int) { c.Floors[rule] = n }

func (c *Ctx) useFn(f *ssa.Function) {
	if f != nil {
		c.Funcs[f.String()] = true
	}
}

// ---------------------------------------------------------------------------
// Known findings

type knownFinding struct {
	Prop, Key, Text string
}

func loadKnown(path string) ([]knownFinding, []string, error) {
	b, err := os.ReadFile(path)
	if err != nil {
		if os.IsNotExist(err) {
			return nil, nil, nil
		}
		return nil, nil, err
	}
	var out []knownFinding
	var fixed []string
	for _, ln := range strings.Split(string(b), "\n") {
		ln = strings.TrimSpace(ln)
		if ln == "" || strings.HasPrefix(ln, "#") {
			continue
		}
		if strings.HasPrefix(ln, "fixed:") {
			fixed = append(fixed, ln)
			continue
		}
		if !strings.HasPrefix(ln, "finding:") {
			continue
		}
		body := strings.TrimSpace(strings.TrimPrefix(ln, "finding:"))
		var k knownFinding
		// key="..." may contain spaces
		if i := strings.Index(body, `key="`); i >= 0 {
			if j := strings.Index(body[i+5:], `"`); j >= 0 {
				k.Key = body[i+5 : i+5+j]
				body = body[:i] + body[i+5+j+1:]
			}
		}
		f := strings.Fields(body)
		rest := []string{}
		for _, t := range f {
			switch {
			case strings.HasPrefix(t, "property=") && k.Prop == "":
				k.Prop = strings.TrimPrefix(t, "property=")
			case strings.HasPrefix(t, "key=") && k.Key == "":
				k.Key = strings.TrimPrefix(t, "key=")
			default:
				rest = append(rest, t)
			}
		}
		k.Text = strings.Join(rest, " ")
		if k.Prop != "" && k.Key != "" {
			out = append(out, k)
		}
	}
	return out, fixed, nil
}

// ---------------------------------------------------------------------------
// Finishing a run: floors, known findings, evidence, replay, exit status.

type runResult struct {
	violations int
	known      int
}

func verifDir() string {
	if d := os.Getenv("VERIF_DIR"); d != "" {
		return d
	}
	exe, err := os.Executable()
	if err == nil {
		d := filepath.Dir(filepath.Dir(exe))
		if _, err := os.Stat(filepath.Join(d, "MANIFEST.json")); err == nil {
			return d
		}
	}
	return "/verif"
}

func (c *Ctx) finish(start time.Time, quiet bool, writeEvidence bool, seed int64) runResult {
	// floors: a rule matching fewer sites than confirmed by hand must not pass vacuously.
	rules := make([]string, 0, len(c.Floors))
	for r := range c.Floors {
		rules = append(rules, r)
	}
	sort.Strings(rules)
	for _, r := range rules {
		if c.Counts[r] < c.Floors[r] {
			c.add("FLOOR", r, UNDECIDED, token.NoPos, fmt.Sprintf("mechanism not found: rule %s matched %d instance(s), confirmed floor is %d: the code no longer has the shape this rule understands, nothing is claimed for it", r, c.Counts[r], c.Floors[r]))
		}
	}
	known, _, err := loadKnown(filepath.Join(verifDir(), "KNOWN_FINDINGS.txt"))
	if err != nil {
		c.add("KNOWN", "file", VIOLATION, token.NoPos, "cannot read KNOWN_FINDINGS.txt: "+err.Error())
	}
	kn := map[string]string{}
	for _, k := range known {
		if k.Prop == c.Prop {
			kn[k.Key] = k.Text
		}
	}
	res := runResult{}
	for _, o := range c.Obs {
		if o.Verdict == VIOLATION {
			if t, ok := kn[o.Key]; ok {
				o.Verdict = KNOWN
				o.Detail = t
			}
		}
	}
	sort.SliceStable(c.Obs, func(i, j int) bool { return c.Obs[i].Key < c.Obs[j].Key })
	vd := verifDir()
	replayDir := filepath.Join(vd, "replay", c.Prop)
	if writeEvidence {
		os.RemoveAll(replayDir)
	}
	nOK := 0
	nUndec := 0
	for _, o := range c.Obs {
		switch o.Verdict {
		case UNDECIDED:
			nUndec++
			fmt.Printf("UNDECIDED %s  %s  %s\n", o.Key, o.Pos, o.Why)
		case OK:
			nOK++
			if !quiet {
				fmt.Printf("OK  %s  %s  %s\n", o.Key, o.Pos, o.Why)
			}
		case KNOWN:
			res.known++
			fmt.Printf("KNOWN-FINDING: property=%s %s at %s: %s [%s]\n", c.Prop, o.Key, o.Pos, o.Why, o.Detail)
		case VIOLATION:
			res.violations++
			path := filepath.Join(replayDir, fmt.Sprintf("%d.json", res.violations))
			if writeEvidence {
				os.MkdirAll(replayDir, 0o755)
				b, _ := json.MarshalIndent(map[string]interface{}{"property": c.Prop, "rule": o.Rule, "key": o.Key, "pos": o.Pos, "why": o.Why, "tier": c.Tier, "repo": c.W.Repo}, "", " ")
				os.WriteFile(path, b, 0o644)
			}
			fmt.Printf("FAIL %s  %s  %s\n", o.Key, o.Pos, o.Why)
			fmt.Printf("VIOLATION property=%s replay=%s\n", c.Prop, path)
		}
	}
	if writeEvidence {
		c.writeEvidence(start, res, nOK, seed)
	}
	fmt.Printf("SUMMARY property=%s tier=%s obligations=%d ok=%d known=%d undecided=%d violations=%d functions=%d wall=%.2fs\n", c.Prop, c.Tier, len(c.Obs), nOK, res.known, nUndec, res.violations, len(c.Funcs), time.Since(start).Seconds())
	return res
}

func (c *Ctx) writeEvidence(start time.Time, res runResult, nOK int, seed int64) {
	samples := []interface{}{}
	for _, o := range c.Obs {
		samples = append(samples, o)
	}
	funcs := make([]string, 0, len(c.Funcs))
	for f := range c.Funcs {
		funcs = append(funcs, f)
	}
	sort.Strings(funcs)
	expl := "decided clauses: " + strings.Join(c.Decided, " | ") + " ;; NOT decided: " + strings.Join(c.Undec, " | ")
	cov := map[string]interface{}{
		"explanation":    expl,
		"obligations":    len(c.Obs),
		"discharged":     nOK,
		"known_findings": res.known,
		"undecided":      len(c.Obs) - nOK - res.known - res.violations,
		"rule_instances": c.Counts,
		"floors":         c.Floors,
		"packages":       len(c.W.Pkgs),
		"functions":      len(funcs),
		"functions_list": funcs,
		"sites":          c.Sites,
		"samples":        samples,
		"checker_cmd":    fmt.Sprintf("bin/polycheck -p %s -tier %s", c.Prop, c.Tier),
		"trusted_base":   append([]string{"go/types", "go/ssa (x/tools v0.29.0)", "go/packages"}, c.Trusted...),
		"exhaustive":     false,
		"repo":           c.W.Repo,
	}
	for k, v := range c.Extra {
		cov[k] = v
	}
	if len(c.Notes) > 0 {
		cov["notes"] = c.Notes
	}
	ev := map[string]interface{}{
		"property_id": c.Prop,
		"tier":        c.Tier,
		"seed":        seed,
		"level":       "other",
		"coverage":    cov,
		"assumptions": assumptions(c),
		"wall_s":      time.Since(start).Seconds(),
		"violations":  res.violations,
	}
	b, _ := json.MarshalIndent(ev, "", " ")
	dir := filepath.Join(verifDir(), "evidence")
	os.MkdirAll(dir, 0o755)
	os.WriteFile(filepath.Join(dir, c.Prop+".json"), b, 0o644)
}

// ---------------------------------------------------------------------------
// small AST helpers

// funcDecl finds the *ast.FuncDecl of a package-level function or method by name (recv "" for functions).
func (w *World) funcDecl(rel, recv, name string) (*ast.FuncDecl, *packages.Package) {
	p := w.pkg(rel)
	if p == nil {
		return nil, nil
	}
	for _, f := range p.Syntax {
		for _, d := range f.Decls {
			fd, ok := d.(*ast.FuncDecl)
			if !ok || fd.Name.Name != name {
				continue
			}
			if recv == "" && fd.Recv == nil {
				return fd, p
			}
			if recv != "" && fd.Recv != nil && len(fd.Recv.List) == 1 {
				t := fd.Recv.List[0].Type
				if s, ok := t.(*ast.StarExpr); ok {
					t = s.X
				}
				if id, ok := t.(*ast.Ident); ok && id.Name == recv {
					return fd, p
				}
			}
		}
	}
	return nil, p
}

func assumptions(c *Ctx) []string {
	out := []string{"go/types, go/packages and go/ssa (x/tools v0.29.0) represent the program faithfully", "the oracle tables embedded in the checker (oracle.go) are correct"}
	for _, t := range c.Trusted {
		out = append(out, "trusted: "+t)
	}
	out = append(out, c.Assume...)
	for _, u := range c.Undec {
		out = append(out, "not decided by this check: "+u)
	}
	return out
}
