package main

// modes.go: valuation lattice for a few mode inputs (K7). Given fixed values for some parameters
// (two bools, one string compared against constants) compute which blocks/edges are feasible and
// resolve phis to the value carried by their unique feasible edge. Conditions that do not depend
// on the mode inputs stay unknown (both edges feasible). Fixpoint over the CFG; no path enumeration.

import (
	"go/constant"
	"go/token"

	"golang.org/x/tools/go/ssa"
)

type modeEnv struct {
	f     *ssa.Function
	bools map[*ssa.Parameter]bool
	strs  map[*ssa.Parameter]string
	reach map[*ssa.BasicBlock]bool
	edge  map[[2]*ssa.BasicBlock]bool
}

func newModeEnv(f *ssa.Function, bools map[*ssa.Parameter]bool, strs map[*ssa.Parameter]string) *modeEnv {
	m := &modeEnv{f: f, bools: bools, strs: strs, reach: map[*ssa.BasicBlock]bool{}, edge: map[[2]*ssa.BasicBlock]bool{}}
	m.reach[f.Blocks[0]] = true
	for changed := true; changed; {
		changed = false
		for _, b := range f.Blocks {
			if !m.reach[b] {
				continue
			}
			mark := func(s *ssa.BasicBlock) {
				k := [2]*ssa.BasicBlock{b, s}
				if !m.edge[k] {
					m.edge[k] = true
					changed = true
				}
				if !m.reach[s] {
					m.reach[s] = true
					changed = true
				}
			}
			last := b.Instrs[len(b.Instrs)-1]
			if ifi, ok := last.(*ssa.If); ok && len(b.Succs) == 2 {
				t, f := m.boolVals(ifi.Cond, 0)
				if t {
					mark(b.Succs[0])
				}
				if f {
					mark(b.Succs[1])
				}
			} else {
				for _, s := range b.Succs {
					mark(s)
				}
			}
		}
	}
	return m
}

// boolVals: can v be true / false under the valuation (given current feasibility knowledge)?
func (m *modeEnv) boolVals(v ssa.Value, depth int) (bool, bool) {
	if depth > 20 {
		return true, true
	}
	// a mode parameter that a function literal captures lives in a cell; a load of that cell is the parameter
	if ld, isLoad := v.(*ssa.UnOp); isLoad {
		if p := spilledParam(ld); p != nil {
			v = p
		}
	}
	switch x := v.(type) {
	case *ssa.Const:
		if x.Value != nil && x.Value.Kind() == constant.Bool {
			b := constant.BoolVal(x.Value)
			return b, !b
		}
	case *ssa.Parameter:
		if b, ok := m.bools[x]; ok {
			return b, !b
		}
	case *ssa.UnOp:
		if x.Op == token.NOT {
			t, f := m.boolVals(x.X, depth+1)
			return f, t
		}
	case *ssa.BinOp:
		if x.Op == token.EQL || x.Op == token.NEQ {
			for k := 0; k < 2; k++ {
				a, b := x.X, x.Y
				if k == 1 {
					a, b = b, a
				}
				if ld, isLoad := a.(*ssa.UnOp); isLoad {
					if sp := spilledParam(ld); sp != nil {
						a = sp
					}
				}
				if p, ok := a.(*ssa.Parameter); ok {
					if s, ok := m.strs[p]; ok {
						if c, ok := b.(*ssa.Const); ok && c.Value != nil && c.Value.Kind() == constant.String {
							eq := constant.StringVal(c.Value) == s
							if x.Op == token.NEQ {
								eq = !eq
							}
							return eq, !eq
						}
					}
				}
			}
		}
	case *ssa.Phi:
		var t, f bool
		any := false
		for i, e := range x.Edges {
			if !m.edge[[2]*ssa.BasicBlock{x.Block().Preds[i], x.Block()}] {
				continue
			}
			any = true
			et, ef := m.boolVals(e, depth+1)
			t, f = t || et, f || ef
		}
		if any {
			return t, f
		}
		return false, false
	}
	return true, true
}

// choose resolves a phi to the single value carried by its feasible edges (nil if several differ).
func (m *modeEnv) choose(p *ssa.Phi) ssa.Value {
	var out ssa.Value
	for i, e := range p.Edges {
		if !m.edge[[2]*ssa.BasicBlock{p.Block().Preds[i], p.Block()}] {
			continue
		}
		v := e
		if q, ok := e.(*ssa.Phi); ok {
			if r := m.choose(q); r != nil {
				v = r
			}
		}
		if out == nil {
			out = v
		} else if out != v {
			return nil
		}
	}
	return out
}
