package main

// C02 Feature sequences follow INSDC location semantics for every location.
// Rules are stated over the "family" of a function (itself plus the same-package helpers it calls)
// and over def-use terms that look through helpers, so extracting or inlining a helper does not
// change what is found. An obligation is a VIOLATION only on positive evidence (a recognised
// construct with a wrong detail); an unrecognised shape is UNDECIDED.

import (
	"go/types"
	"fmt"
	"go/constant"
	"go/token"
	"regexp"
	"sort"
	"strings"

	"golang.org/x/tools/go/ssa"
)

func init() { register("C02", ruleC02) }

// family: f and the same-package functions reachable from it (with bodies), sorted.
func family(f *ssa.Function) []*ssa.Function {
	var out []*ssa.Function
	for _, g := range funcsSorted(reachable(f)) {
		if g.Blocks != nil && inModule(g) && pkgOf(g) == pkgOf(f) {
			out = append(out, g)
		}
	}
	return out
}

func pkgOf(f *ssa.Function) *ssa.Package {
	for f != nil && f.Pkg == nil {
		f = f.Parent()
	}
	if f == nil {
		return nil
	}
	return f.Pkg
}

// stripTable: which characters does the marker-stripping operation inside t delete? Understands a
// regexp replacement by "" with a constant pattern and a strings.Replacer built from constants.
func stripTable(t *Term) (deleted string, found bool) {
	// every stripping step on the way counts: ReplaceAll(ReplaceAll(x, "<", ""), ">", "") removes both
	t.walk(func(x *Term) {
		if x.isCall("(*regexp.Regexp).ReplaceAllString") && len(x.Args) == 3 && x.Args[2].isConst(`""`) {
			if pat, ok := regexpPattern(x.Args[0]); ok {
				if re, err := regexp.Compile(pat); err == nil {
					for ch := byte(0x20); ch < 0x7f; ch++ {
						if re.MatchString(string(ch)) {
							deleted += string(ch)
						}
					}
					found = true
				}
			}
		}
		if x.isCall("(*strings.Replacer).Replace") && len(x.Args) == 2 {
			r := x.Args[0]
			if r.Op == "global" {
				if it := globalInitTerm(r); it != nil {
					r = it
				}
			}
			if r.isCall("strings.NewReplacer") && len(r.Args) == 1 && r.Args[0].Op == "slice" {
				pairs := map[int]string{}
				okAll := true
				inner := r.Args[0].Args[0]
				ps := []*Term{inner}
				if inner.Op == "anyof" {
					ps = inner.Args
				}
				for _, p := range ps {
					var i int
					if p.Op != "partial" {
						okAll = false
						continue
					}
					if _, err := sscanIndex(p.Name, &i); err != nil {
						okAll = false
						continue
					}
					s, ok := p.Args[0].constStr()
					if !ok {
						okAll = false
					}
					pairs[i] = s
				}
				if okAll {
					for i := 0; i+1 < len(pairs); i += 2 {
						if pairs[i+1] == "" {
							deleted += pairs[i]
						} else {
							deleted += "?" // rewrites rather than deletes
						}
					}
					b := []byte(deleted)
					sort.Slice(b, func(i, j int) bool { return b[i] < b[j] })
					deleted = string(b)
					found = true
				}
			}
		}
		if x.isCall("strings.ReplaceAll") && len(x.Args) == 3 && x.Args[2].isConst(`""`) {
			if s, ok := x.Args[1].constStr(); ok {
				deleted += s
				found = true
			}
		}
		if (x.isCall("strings.Trim") || x.isCall("strings.TrimLeft") || x.isCall("strings.TrimRight")) && len(x.Args) == 2 {
			if s, ok := x.Args[1].constStr(); ok {
				deleted += s
				found = true
			}
		}
	})
	if found {
		b := []byte(deleted)
		sort.Slice(b, func(i, j int) bool { return b[i] < b[j] })
		// dedupe
		var u []byte
		for i, ch := range b {
			if i == 0 || ch != b[i-1] {
				u = append(u, ch)
			}
		}
		deleted = string(u)
	}
	return
}

func ruleC02(c *Ctx) {
	c.Decided = []string{
		"COORD: every Location literal the parser builds from text has Start = atoi(first number) - 1 and End = atoi(second number) (span) or Start = n-1, End = n (single base); every coordinate the printer passes to Itoa is Start+1 or End; every slice the evaluator takes of the parent is [Start:End] of one location",
		"TABLE: the partial markers removed before Atoi are exactly '<' and '>'; FivePrimePartial / ThreePrimePartial are set under a test for '<' / '>' (not crossed)",
		"NESTING: join operands are cut where a depth counter (+1 at '(', -1 at ')') is 0; markers are removed per coordinate, not trimmed off the whole span; a strand flag pushed down the recursion is toggled by every complement; every printed form is chosen after Complement and the partial flags were examined; the printer does not write into the location it is given",
		"TERM-EVAL: recursive evaluation ranges over all SubLocations in order with the same feature; ReverseComplement is applied to the whole concatenation exactly on the Complement branch; GetSequence starts at feature.SequenceLocation; C11's ReverseComplement shape",
		"TERM-PRINT: complement form = complement( + print(location with only Complement cleared) + ); join form lists every sub-location in order separated by ','; keyword tokens equal the parser's; '<' immediately before the start coordinate; '>' immediately before the end coordinate",
		"ARITY: in the parser's join case operands are appended in a loop over the operand list",
	}
	c.Undec = []string{"that the recursive-descent parser accepts every expression of the grammar beyond the arity condition", "Atoi failures on malformed numbers", "evaluators that push complement down to the leaves (a different but possibly correct design) are reported as undecided"}
	c.Trusted = []string{"INSDC feature table §3.4 (1-based inclusive coordinates; <n..m, n..>m)", "strconv.Atoi/Itoa, regexp"}
	c.floor("COORD", 4)
	c.floor("TABLE", 2)
	c.floor("TERM-EVAL", 3)
	c.floor("TERM-PRINT", 4)
	c.floor("ARITY", 1)
	w := c.W
	pl := w.fn("io/genbank", "parseLocation")
	bl := w.fn("io/genbank", "BuildLocationString")
	ev := w.fn("", "getFeatureSequence")
	gsq := w.method("", "Feature", "GetSequence")
	if bl == nil || gsq == nil {
		c.missing("COORD", "BuildLocationString/GetSequence", "exported genbank.BuildLocationString and Feature.GetSequence")
		return
	}
	// ---------------- parser
	if pl == nil {
		c.missingHelper("COORD", "parser", "genbank.parseLocation")
	} else {
		checkLocationParser(c, pl)
	}
	// ---------------- evaluator: the family reachable from GetSequence in package poly
	if ev == nil {
		// find by role: what GetSequence calls
		for _, g := range family(gsq) {
			if g != gsq {
				ev = g
				break
			}
		}
	}
	if ev == nil {
		c.missingHelper("TERM-EVAL", "evaluator", "the recursive evaluator behind Feature.GetSequence")
	} else {
		checkLocationEvaluator(c, gsq, ev)
	}
	checkRCShape(c, "TERM-EVAL")
	checkComplementOracle(c, "TERM-EVAL")
	// ---------------- printer
	checkLocationPrinter(c, bl, pl)
}

func checkLocationParser(c *Ctx, pl *ssa.Function) {
	fam := family(pl)
	type lit struct {
		role string // "span-start" "span-end" "single"
		k    int64
		pos  ssa.Instruction
		arg  *Term
		fld  string
	}
	var lits []lit
	var stripArgs []*Term
	for _, f := range fam {
		c.useFn(f)
		tb := newDeepTB(f)
		eachInstr(f, func(i ssa.Instruction) {
			st, ok := i.(*ssa.Store)
			if !ok {
				return
			}
			a, p, isLocal := rootAlloc(st.Addr)
			if !isLocal || len(p) != 1 || tname(deref(a.Type())) != "poly.Location" || (p[0] != ".Start" && p[0] != ".End") {
				return
			}
			v := tb.T(st.Val)
			b, k := v.linear()
			if b == nil || !(b.Op == "extract" && b.Name == "0" && b.Args[0].isCall("strconv.Atoi")) {
				return // not a literal built from text (copies, zero values)
			}
			arg := b.Args[0].Args[0]
			role := ""
			switch {
			case arg.contains(func(x *Term) bool {
				return x.Op == "index" && x.Args[0].isCall("strings.Split") && x.Args[0].Args[1].isConst(`".."`) && x.Args[1].isConst("0")
			}):
				role = "span-start"
				stripArgs = append(stripArgs, arg)
			case arg.contains(func(x *Term) bool {
				return x.Op == "index" && x.Args[0].isCall("strings.Split") && x.Args[0].Args[1].isConst(`".."`) && x.Args[1].isConst("1")
			}):
				role = "span-end"
				stripArgs = append(stripArgs, arg)
			case arg.contains(func(x *Term) bool { return x.isParam(0) }) && !arg.contains(func(x *Term) bool { return x.isCall("strings.Split") }):
				role = "single"
			}
			if role != "" {
				lits = append(lits, lit{role, k, st, arg, strings.TrimPrefix(p[0], ".")})
			}
		})
	}
	seen := map[string]bool{}
	for _, l := range lits {
		var wantK int64
		var key, good, bad string
		switch {
		case l.role == "span-start" && l.fld == "Start":
			wantK, key, good = -1, "parser:span n..m -> Start=n-1", "Start = atoi(first number) - 1"
		case l.role == "span-end" && l.fld == "End":
			wantK, key, good = 0, "parser:span n..m -> End=m", "End = atoi(second number)"
		case l.role == "single" && l.fld == "Start":
			wantK, key, good = -1, "parser:single base n -> Start=n-1", "Start = n - 1"
		case l.role == "single" && l.fld == "End":
			wantK, key, good = 0, "parser:single base n -> End=n", "End = n"
		default:
			c.bad("COORD", "parser:"+l.role+" stored into "+l.fld, l.pos.Pos(), "the "+l.role+" number of the location text is stored into "+l.fld)
			continue
		}
		bad = fmt.Sprintf("%s is atoi(text)%+d; want atoi(text)%+d (0-based half-open from 1-based inclusive)", l.fld, l.k, wantK)
		if l.role == "single" && l.fld == "Start" && l.k == 0 {
			bad += ": with Start = End = n the feature sequence parent[n:n] is empty"
		}
		seen[key] = true
		c.check(l.k == wantK, "COORD", key, l.pos.Pos(), good, bad)
	}
	for _, k := range []string{"parser:span n..m -> Start=n-1", "parser:span n..m -> End=m", "parser:single base n -> Start=n-1", "parser:single base n -> End=n"} {
		if !seen[k] {
			c.undecided("COORD", k, pl.Pos(), "no Location literal built from that part of the text was recognised")
		}
	}
	// TABLE: markers stripped before Atoi
	if len(stripArgs) == 0 {
		c.undecided("TABLE", "markers stripped before Atoi are exactly < and >", pl.Pos(), "no span literal recognised")
	} else {
		del, found := "", false
		for _, a := range stripArgs {
			if d, ok := stripTable(a); ok {
				del, found = d, true
			}
		}
		// markers trimmed off the ends of the WHOLE span before it is split: the INSDC form n..>m keeps its '>'
		trimmedWhole := ""
		for _, a := range stripArgs {
			a.walk(func(x *Term) {
				if x.isCall("strings.Split") && len(x.Args) == 2 {
					if in := x.Args[0]; in.Op == "call" && strings.HasPrefix(in.Name, "strings.Trim") && len(in.Args) == 2 {
						if cs, ok := in.Args[1].constStr(); ok && strings.ContainsAny(cs, "<>") {
							trimmedWhole = in.Name + "(span, " + strconvQuote(cs) + ")"
						}
					}
				}
			})
		}
		if trimmedWhole != "" {
			c.bad("TABLE", "markers stripped before Atoi are exactly < and >", pl.Pos(), "the partial markers are removed with "+trimmedWhole+" BEFORE the span is split at \"..\": only a leading '<' and a trailing '>' go away, so the INSDC 3'-partial form n..>m keeps '>' in front of m, Atoi fails silently and End becomes 0")
		} else if !found {
			c.undecided("TABLE", "markers stripped before Atoi are exactly < and >", pl.Pos(), "the operation that removes the partial markers was not recognised")
		} else {
			c.check(del == "<>", "TABLE", "markers stripped before Atoi are exactly < and >", pl.Pos(), "exactly '<' and '>' are removed", fmt.Sprintf("the characters removed before Atoi are %q; want exactly \"<>\"", del))
		}
	}
	// flags
	tb := newDeepTB(pl)
	for _, fl := range []struct{ field, mark, other string }{{"FivePrimePartial", "<", ">"}, {"ThreePrimePartial", ">", "<"}} {
		stt := unknown
		why := "no store of " + fl.field + " = true under a recognised test found"
		var pos = pl.Pos()
		for _, f := range fam {
			ftb := tb
			if f != pl {
				ftb = newDeepTB(f)
			}
			eachInstr(f, func(i ssa.Instruction) {
				st, ok := i.(*ssa.Store)
				if !ok {
					return
				}
				_, p, isLocal := rootAlloc(st.Addr)
				if !isLocal || len(p) != 1 || p[0] != "."+fl.field {
					return
				}
				v := ftb.T(st.Val)
				var tests []*Term
				if v.isConst("true") {
					for _, a := range pathCond(ftb, f.Blocks[0], st.Block()).atoms() {
						if !a.Neg && !a.Disj {
							tests = append(tests, a.Atom)
						}
					}
				} else {
					tests = append(tests, v)
				}
				for _, t := range tests {
					if t.Op == "call" && (t.Name == "strings.Contains" || t.Name == "strings.ContainsAny" || t.Name == "strings.ContainsRune" || t.Name == "strings.HasPrefix" || t.Name == "strings.HasSuffix") && len(t.Args) == 2 {
						m, isS := t.Args[1].constStr()
						if !isS {
							if k, isI := t.Args[1].constInt(); isI {
								m, isS = string(rune(k)), true
							}
						}
						if isS && m == fl.mark {
							stt, pos = holds, st.Pos()
						} else if isS && m == fl.other && stt != holds {
							stt, pos = broken, st.Pos()
							why = fl.field + " is set when the text contains " + fmt.Sprintf("%q", m) + "; the marker for it is " + fmt.Sprintf("%q", fl.mark)
						}
					}
				}
			})
		}
		c.judge(stt, "TABLE", fl.field+" iff the text contains "+fl.mark, pos, "set under a test for "+fmt.Sprintf("%q", fl.mark), why)
	}
	// ARITY
	var joinStores, joinInLoop int
	var joinOutside []*ssa.Store
	for _, f := range fam {
		ftb := newDeepTB(f)
		eachInstr(f, func(i ssa.Instruction) {
			st, ok := i.(*ssa.Store)
			if !ok {
				return
			}
			a, p, isLocal := rootAlloc(st.Addr)
			if !isLocal || len(p) != 1 || p[0] != ".SubLocations" || tname(deref(a.Type())) != "poly.Location" {
				return
			}
			pc := pathCond(ftb, f.Blocks[0], st.Block())
			isJoin := false
			for _, at := range pc.atoms() {
				if at.Neg || at.Disj {
					continue
				}
				if at.Atom.isBin("==") && (at.Atom.Args[0].isConst(`"join"`) || at.Atom.Args[1].isConst(`"join"`)) {
					isJoin = true
				}
				if at.Atom.Op == "call" && at.Atom.Name == "strings.HasPrefix" && at.Atom.Args[1].isConst(`"join("`) {
					isJoin = true
				}
			}
			if !isJoin {
				return
			}
			joinStores++
			v := ftb.T(st.Val)
			// how many operands does this site append at once, and is it in a loop?
			n := 0
			v.walk(func(x *Term) {
				if x.Op == "partial" && strings.HasPrefix(x.Name, "[") {
					n++
				}
			})
			stt := holds
			if !inLoop(st.Block()) {
				stt = broken
				joinOutside = append(joinOutside, st)
				// a recursive descent that parses one operand and recurses on the remainder is also unbounded
				if v.contains(func(x *Term) bool { return x.Op == "call" && strings.HasSuffix(x.Name, "."+pl.Name()) }) && n <= 1 {
					stt = unknown
				}
			}
			// NESTING: operands are cut at commas outside ALL parentheses: the nesting state is a counter
			if inLoop(st.Block()) {
				if entry := loopBodyEntry(st.Block()); entry != nil {
					lpc := pathCond(ftb, entry, st.Block())
					nst, nwhy := unknown, "no test of a nesting-depth variable guards the cut at ','"
					sawComma := false
					for _, at := range lpc.atoms() {
						t := at.Atom
						if t.isBin("==") {
							for k := 0; k < 2; k++ {
								if n, ok := t.Args[k].constInt(); ok && n == ',' && stripConv(t.Args[1-k]).Op == "index" {
									sawComma = true
								}
							}
						}
					}
					for _, at := range lpc.atoms() {
						t := at.Atom
						var v *Term
						switch {
						case t.Op == "phi" && t.Cyc:
							v = t
						case t.isBin("==") && t.Args[0].isConst("0") && t.Args[1].Op == "phi" && t.Args[1].Cyc:
							v = t.Args[1]
						case t.isBin("==") && t.Args[1].isConst("0") && t.Args[0].Op == "phi" && t.Args[0].Cyc:
							v = t.Args[0]
						}
						if v == nil || !sawComma {
							continue
						}
						ph, ok := v.V.(*ssa.Phi)
						if !ok {
							continue
						}
						if tname(ph.Type()) == "bool" {
							nst, nwhy = broken, "the state that tells whether a ',' lies inside parentheses is a boolean flag: it is cleared by the first ')', so in an operand nested two levels deep (join(join(complement(a),b),c)) a later ',' is taken for a top-level separator and the operand is cut into unbalanced pieces"
							continue
						}
						up, down := false, false
						for _, cb := range additive(ftb, ph) {
							if cb.T.isConst("1") && !cb.Neg {
								up = true
							}
							if cb.T.isConst("1") && cb.Neg {
								down = true
							}
						}
						switch {
						case up && down:
							nst = holds
						case up || down:
							nst, nwhy = broken, "the nesting depth is only ever "+map[bool]string{true: "increased", false: "decreased"}[up]+": after the first parenthesised operand every ',' is (or none is) taken as inside parentheses"
						}
					}
					if sawComma {
						c.judge(nst, "ARITY", "join operands cut at commas outside all parentheses", st.Pos(), "a depth counter (+1 at '(', -1 at ')') must be 0 where an operand is cut", nwhy)
					}
				}
			}
			if inLoop(st.Block()) {
				joinInLoop++
			}
			if stt == broken {
				return // judged after all sites are known: a flush of the last operand after the loop is fine
			}
			c.judge(stt, "ARITY", fmt.Sprintf("join operands appended in a loop (%s)", c.W.pos(st.Pos())[strings.LastIndex(c.W.pos(st.Pos()), "/")+1:]), st.Pos(), "operands are appended in a loop over the operand list", fmt.Sprintf("this branch appends a fixed number of operands (%d) outside any loop: joins with more operands, or with a parenthesised operand that is not first, are mis-parsed or panic", n))
		})
	}
	// operands may also be placed by index into a list made for them (SubLocations[k] = parseLocation(...) in a loop)
	placedInLoop := false
	for _, f := range family(pl) {
		eachInstr(f, func(i ssa.Instruction) {
			if stx, ok := i.(*ssa.Store); ok && inLoop(stx.Block()) {
				if ia, ok := stx.Addr.(*ssa.IndexAddr); ok && strings.HasSuffix(tname(deref(ia.Type())), "poly.Location") {
					placedInLoop = true
				}
			}
		})
	}
	for _, st := range joinOutside {
		stt := broken
		if joinInLoop > 0 {
			stt = holds // operands are appended in a loop; this site flushes the last one after it
		} else if placedInLoop {
			stt = unknown // operands are stored by index in a loop somewhere in the parser; which list that is, is not followed
		}
		c.judge(stt, "ARITY", fmt.Sprintf("join operands appended in a loop (%s)", c.W.pos(st.Pos())[strings.LastIndex(c.W.pos(st.Pos()), "/")+1:]), st.Pos(), "operands are appended in a loop over the operand list (a final flush after the loop included)", "this branch appends a fixed number of operands outside any loop and no other site appends them in a loop: joins with more operands, or with a parenthesised operand that is not first, are mis-parsed or panic")
	}
	if joinStores == 0 {
		c.undecided("ARITY", "join case", pl.Pos(), "no SubLocations built under a test for the join keyword found")
	}
}

func checkLocationEvaluator(c *Ctx, gsq, ev *ssa.Function) {
	fam := family(ev)
	// a strand flag pushed down the recursion must be TOGGLED by every complement (XOR), not accumulated (OR)
	for _, f := range fam {
		for k, p := range f.Params {
			if tname(p.Type()) != "bool" {
				continue
			}
			ftb := newTB(f)
			eachInstr(f, func(i ssa.Instruction) {
				call, ok := i.(*ssa.Call)
				if !ok || call.Call.StaticCallee() != f || k >= len(call.Call.Args) {
					return
				}
				arg := call.Call.Args[k]
				t := ftb.T(arg)
				mentionsC := t.contains(func(x *Term) bool { return x.isField("Complement") })
				st, why := unknown, "the strand flag passed down is "+short(t.String())
				switch {
				case t.isBin("!=") && mentionsC && t.contains(func(x *Term) bool { return x.isParam(k) }):
					st = holds
				case t.Op == "phi" && mentionsC:
					// a || b is lowered to phi(true, b)
					hasTrue := false
					for _, l := range phiLeaves(t) {
						if l.isConst("true") {
							hasTrue = true
						}
					}
					if hasTrue {
						st, why = broken, "the strand flag handed down the recursion is (flag || location.Complement): a complement nested inside a complemented location does not flip the strand back, so complement(join(a,complement(b))) reads b on the wrong strand"
					}
				case !mentionsC && t.isParam(k):
					return // passed on unchanged at this site
				}
				c.judge(st, "TERM-EVAL", "strand flag toggles at every complement", call.Pos(), "flag != location.Complement (exclusive or)", why)
			})
		}
	}
	// COORD: slices of the parent sequence
	nSlice := 0
	for _, f := range fam {
		c.useFn(f)
		tb := newDeepTB(f)
		eachInstr(f, func(i ssa.Instruction) {
			sl, ok := i.(*ssa.Slice)
			if !ok || !isStringType(sl.X.Type()) {
				return
			}
			x := tb.T(sl.X)
			if !x.contains(func(y *Term) bool { return y.isField("ParentSequence") }) || !x.contains(func(y *Term) bool { return y.isField("Sequence") }) {
				return
			}
			nSlice++
			lo, hi := tb.T(sl.Low), tb.T(sl.High)
			lb, lk := lo.linear()
			hb, hk := hi.linear()
			stt := unknown
			why := fmt.Sprintf("parent sliced as [%s : %s]", short(lo.String()), short(hi.String()))
			if lb != nil && hb != nil && lb.isField("Start") && hb.isField("End") && lb.Args[0].String() == hb.Args[0].String() {
				if lk == 0 && hk == 0 {
					stt = holds
				} else {
					stt = broken
					why = fmt.Sprintf("parent sliced as [Start%+d : End%+d]; the in-memory convention is 0-based half-open [Start:End]", lk, hk)
				}
			} else if lb != nil && hb != nil && lb.isField("End") && hb.isField("Start") {
				stt, why = broken, "parent sliced as [End:Start]"
			}
			c.judge(stt, "COORD", "evaluator: leaf = parent[Start:End]", sl.Pos(), "no offset on either bound", why)
		})
	}
	if nSlice == 0 {
		c.undecided("COORD", "evaluator: leaf = parent[Start:End]", ev.Pos(), "no slice of feature.ParentSequence.Sequence found in the evaluator")
	}
	// recursion over SubLocations
	nRec := 0
	famSet := map[*ssa.Function]bool{}
	for _, f := range fam {
		famSet[f] = true
	}
	for _, f := range fam {
		tb := newTB(f)
		eachInstr(f, func(i ssa.Instruction) {
			cl, ok := i.(*ssa.Call)
			if !ok {
				return
			}
			g := cl.Call.StaticCallee()
			if g == nil || !famSet[g] || len(cl.Call.Args) < 2 {
				return
			}
			// a call that passes a Location derived from SubLocations
			var locArg *Term
			for _, a := range cl.Call.Args {
				if strings.HasSuffix(tname(a.Type()), "poly.Location") {
					locArg = tb.T(a)
				}
			}
			if locArg == nil || !locArg.contains(func(x *Term) bool { return x.isField("SubLocations") }) {
				return
			}
			nRec++
			stt := unknown
			why := "recursive call evaluates " + short(locArg.String())
			switch {
			case (locArg.Op == "each") && locArg.Args[0].isField("SubLocations") && inLoop(cl.Block()):
				stt = holds
			case locArg.Op == "index" && locArg.Args[0].isField("SubLocations"):
				if _, isC := locArg.Args[1].constInt(); isC {
					stt, why = broken, "the evaluator visits sub-locations at fixed indices: joins with more operands lose bases"
					// a fixed index under a test of the number of operands (the one-operand case handled apart) is fine
					for _, a := range pathCond(tb, f.Blocks[0], cl.Block()).atoms() {
						if a.Atom.contains(func(x *Term) bool {
							return x.isCall("builtin:len") && len(x.Args) == 1 && x.Args[0].contains(func(y *Term) bool { return y.isField("SubLocations") })
						}) {
							stt, why = unknown, "a sub-location is visited at a fixed index under a test of the operand count ("+short(a.Atom.String())+")"
						}
					}
				}
			}
			c.judge(stt, "TERM-EVAL", "inner node = every sub-location in order", cl.Pos(), "range over SubLocations, one recursive evaluation per operand", why)
		})
	}
	if nRec == 0 {
		c.undecided("TERM-EVAL", "inner node = every sub-location in order", ev.Pos(), "no recursive evaluation of sub-locations found")
	}
	// complement: result alternatives of the evaluator
	tb := newDeepTB(ev)
	type alt struct {
		t    *Term
		cond *Cond
	}
	var alts []alt
	var expand func(v ssa.Value, pc *Cond, depth int)
	expand = func(v ssa.Value, pc *Cond, depth int) {
		if p, ok := v.(*ssa.Phi); ok && depth < 3 && !isCyclicPhi(p) {
			for i, e := range p.Edges {
				expand(e, pathCond(tb, ev.Blocks[0], p.Block().Preds[i]), depth+1)
			}
			return
		}
		alts = append(alts, alt{tb.T(v), pc})
	}
	for _, r := range returnsOf(ev) {
		if len(r.Results) == 0 {
			// an evaluator that writes into a builder it is given instead of returning text
			c.undecided("TERM-EVAL", "evaluator result", ev.Pos(), "the evaluator returns nothing (it writes into a sink it is handed); its result terms are not read")
			return
		}
		expand(r.Results[0], pathCond(tb, ev.Blocks[0], r.Block()), 0)
	}
	compAtom := func(pc *Cond) (pos, neg bool) {
		for _, a := range pc.atoms() {
			if a.Disj {
				continue
			}
			if a.Atom.isField("Complement") {
				if a.Neg {
					neg = true
				} else {
					pos = true
				}
			}
		}
		return
	}
	stt := unknown
	why := "the result is not selected between a concatenation and its reverse complement by location.Complement"
	var plain, rcd []alt
	for _, a := range alts {
		if a.t.isCall("poly/transform.ReverseComplement") {
			rcd = append(rcd, a)
		} else {
			plain = append(plain, a)
		}
	}
	if len(rcd) >= 1 && len(plain) >= 1 {
		stt = holds
		for _, a := range rcd {
			pos, neg := compAtom(a.cond)
			if neg && !pos {
				stt, why = broken, "ReverseComplement is applied on the branch where location.Complement is false"
			} else if !pos {
				stt, why = unknown, "the branch applying ReverseComplement is not visibly the Complement branch"
			}
			// it must wrap the same concatenation the plain branch returns
			same := false
			for _, p := range plain {
				if a.t.Args[0].String() == p.t.String() {
					same = true
				}
			}
			if !same && stt == holds {
				stt, why = unknown, "ReverseComplement wraps "+short(a.t.Args[0].String())+", which is not the value returned on the other branch"
			}
		}
		for _, p := range plain {
			pos, neg := compAtom(p.cond)
			if pos && !neg && stt == holds {
				// a return of the un-complemented value on the Complement branch (e.g. a special case)
				if p.t.Op == "const" {
					continue
				}
				if p.t.contains(func(x *Term) bool { return x.Op == "anyof" || x.Op == "partial" }) {
					// the evaluator called again on a location it has rewritten (two complements in a row cancel
					// each other): sound when the rewritten operand is all there is. An operand picked by a fixed
					// position while nothing pins the number of operands drops the others.
					picked := p.t.contains(func(x *Term) bool {
						return x.Op == "index" && len(x.Args) == 2 && x.Args[1].Op == "const" && strings.Contains(x.Args[0].String(), "field[SubLocations]")
					})
					pinned := false
					for _, a := range p.cond.atoms() {
						if !strings.Contains(a.Atom.String(), "call[builtin:len](field[SubLocations]") {
							continue
						}
						// "there is at least one" (len > 0, len >= 1, len != 0) says nothing about the others;
						// any other question about the number of operands may pin it
						lower := false
						if len(a.Atom.Args) == 2 && !a.Disj {
							lenFirst := strings.HasPrefix(a.Atom.Args[0].String(), "call[builtin:len]")
							switch {
							case !a.Neg && lenFirst && (a.Atom.isBin(">") || a.Atom.isBin(">=") || a.Atom.isBin("!=")):
								lower = true
							case !a.Neg && !lenFirst && (a.Atom.isBin("<") || a.Atom.isBin("<=") || a.Atom.isBin("!=")):
								lower = true
							case a.Neg && a.Atom.isBin("=="):
								lower = true
							case a.Neg && lenFirst && (a.Atom.isBin("<") || a.Atom.isBin("<=")):
								lower = true
							case a.Neg && !lenFirst && (a.Atom.isBin(">") || a.Atom.isBin(">=")):
								lower = true
							}
						}
						if !lower {
							pinned = true
						}
					}
					if picked && !pinned {
						stt, why = broken, "on the Complement branch one operand, picked by its position, is evaluated again on a rewritten location and returned, and nothing on the way says how many operands there are: the other operands of the join are dropped ("+short(p.t.String())+")"
					} else {
						stt, why = unknown, "on the Complement branch the evaluator is called again on a rewritten location; whether that equals the reverse complement is not decided: "+short(p.t.String())
					}
					continue
				}
				if p.t.contains(func(x *Term) bool {
				return (x.Op == "call" && (x.Name == "?" || (strings.HasPrefix(x.Name, "poly") && !strings.Contains(x.Name, "getFeatureSequence")))) || x.Op == "global" || x.Op == "closure"
			}) {
				// worked out by a helper of the module, or read from package-level memory: the other strand may come from there
				stt, why = unknown, "on the Complement branch the value returned is made by a helper or from package-level memory, not visibly by ReverseComplement: "+short(p.t.String())
				continue
			}
			stt, why = broken, "on the Complement branch a value is returned without ReverseComplement: "+short(p.t.String())
			}
			// a data value handed back on a path that never looks at the strand flag (a fast path in front of it)
			if !pos && !neg && stt == holds && p.t.Op != "const" && p.cond != nil && p.cond.Op != "true" && (len(opaqueParts(p.t, nil)) == 0 || p.t.isCall(fname(ev)) && !p.t.contains(func(x *Term) bool { return x.isField("Complement") })) {
				flagFree := true
				for _, at := range p.cond.atoms() {
					if at.Atom.contains(func(x *Term) bool { return x.isField("Complement") }) {
						flagFree = false
					}
				}
				if flagFree {
					stt, why = broken, "under "+short(p.cond.String())+" the value "+short(p.t.String())+" is returned without location.Complement having been examined: a complemented location of that kind comes back on the forward strand"
				}
			}
		}
	}
	// the evaluator leaves the location it reads alone: a by-value Location still shares its SubLocations with the
	// feature it was taken from, so re-ordering or re-flagging operands in place changes the stored feature
	if ws := sublocationWrites(c, ev); true {
		c.check(len(ws) == 0, "TERM-EVAL", "the evaluator does not modify the location it is given", ev.Pos(), "no store goes through the SubLocations list of the location that is read", "reading a feature's sequence changes the feature: "+strings.Join(ws, "; ")+": the first GetSequence is right, the next one (and every later write) sees the altered operands")
	}
	c.judge(stt, "TERM-EVAL", "complement => ReverseComplement of the whole concatenation", ev.Pos(), "result = RC(concatenation) exactly on the location.Complement branch", why)
	// GetSequence
	gtb := newTB(gsq)
	gtb.NoInline = true
	ra := resultAlts(gtb, gsq, 0)
	if len(ra) == 1 && ra[0].T.Op == "call" && len(ra[0].T.Args) >= 2 {
		t := ra[0].T
		st2 := unknown
		for _, a := range t.Args {
			if a.String() == "field[SequenceLocation](param[0])" {
				st2 = holds
			}
		}
		if st2 != holds {
			// a location of the feature other than its own SequenceLocation (e.g. its first sub-location)
			for _, a := range t.Args {
				if a.V != nil && tname(a.V.Type()) == "poly.Location" && a.contains(func(x *Term) bool { return x.isParam(0) }) {
					st2 = broken
				}
			}
		}
		c.judge(st2, "TERM-EVAL", "GetSequence starts at feature.SequenceLocation", gsq.Pos(), "GetSequence() evaluates feature.SequenceLocation of the same feature", "GetSequence evaluates "+short(t.String()))
	} else {
		c.undecided("TERM-EVAL", "GetSequence starts at feature.SequenceLocation", gsq.Pos(), "GetSequence is not a single call of the evaluator")
	}
}

func checkLocationPrinter(c *Ctx, bl, pl *ssa.Function) {
	fam := family(bl)
	// COORD: every Itoa argument in the printer family
	nItoa := 0
	for _, f := range fam {
		c.useFn(f)
		tb := newDeepTB(f)
		eachInstr(f, func(i ssa.Instruction) {
			cl, ok := i.(*ssa.Call)
			if !ok {
				return
			}
			n := calleeName(cl)
			var arg *Term
			switch n {
			case "strconv.Itoa":
				arg = tb.T(cl.Call.Args[0])
			case "strconv.FormatInt":
				arg = tb.T(cl.Call.Args[0])
				if arg.Op == "conv" {
					arg = arg.Args[0]
				}
			default:
				return
			}
			b, k := arg.linear()
			if b == nil || !(b.isField("Start") || b.isField("End")) {
				return
			}
			nItoa++
			want := int64(0)
			if b.isField("Start") {
				want = 1
			}
			c.check(k == want, "COORD", "printer: Itoa("+b.Name+fmt.Sprintf("%+d", want)+")", cl.Pos(), "1-based inclusive on output", fmt.Sprintf("the printer writes %s%+d; INSDC coordinates are Start+1 .. End", b.Name, k))
		})
	}
	if nItoa == 0 {
		c.undecided("COORD", "printer coordinates", bl.Pos(), "no Itoa of Start/End found in the printer")
	}
	// the printer leaves the location it prints alone (a by-value argument still shares its SubLocations
	// backing array with the caller)
	if ws := apiArgWrites(bl); true {
		c.check(len(ws) == 0, "TERM-PRINT", "the printer does not modify the location it is given", bl.Pos(), "no store reaches memory the caller still holds", "printing a location changes it: "+strings.Join(ws, "; ")+": after one write the structure no longer denotes the same bases (e.g. Complement cleared on join operands)")
	}
	// forms
	tb := newDeepTB(bl)
	type alt struct {
		t      *Term
		cond   *Cond
		v      ssa.Value
		direct bool // the value of a return statement itself (its condition is the whole path)
	}
	var alts []alt
	var expand func(v ssa.Value, pc *Cond, depth int)
	expand = func(v ssa.Value, pc *Cond, depth int) {
		if p, ok := v.(*ssa.Phi); ok && depth < 4 && !isCyclicPhi(p) {
			for i, e := range p.Edges {
				expand(e, pathCond(tb, bl.Blocks[0], p.Block().Preds[i]), depth+1)
			}
			return
		}
		alts = append(alts, alt{tb.T(v), pc, v, depth == 0})
	}
	for _, r := range returnsOf(bl) {
		expand(r.Results[0], pathCond(tb, bl.Blocks[0], r.Block()), 0)
	}
	has := func(pc *Cond, field string, neg bool) bool {
		for _, a := range pc.atoms() {
			if !a.Disj && a.Atom.isField(field) && a.Neg == neg {
				return true
			}
		}
		return false
	}
	var printerKW []string
	compSt, joinSt := unknown, unknown
	compWhy, joinWhy := "no complement form recognised", "no join form recognised"
	var leafAlts []alt
	for _, a := range alts {
		ps, _ := tb.pieces(a.t)
		switch {
		case has(a.cond, "Complement", false):
			if len(ps) == 3 && ps[0].Op == "const" && ps[2].isConst(`")"`) && ps[1].Op == "call" && strings.HasSuffix(ps[1].Name, "."+bl.Name()) {
				if s, ok := ps[0].constStr(); ok {
					printerKW = append(printerKW, s)
				}
				arg := ps[1].Args[0]
				// the operand: the same location with only Complement cleared
				changed := map[string]bool{}
				arg.walk(func(x *Term) {
					if x.Op == "partial" {
						changed[x.Name] = true
					}
				})
				switch {
				case arg.contains(func(x *Term) bool { return x.isParam(0) }) && len(changed) == 1 && changed[".Complement"]:
					compSt = holds
				case arg.contains(func(x *Term) bool { return x.isParam(0) }) && len(changed) > 1:
					compSt = broken
					var fl []string
					for k := range changed {
						fl = append(fl, k)
					}
					sort.Strings(fl)
					compWhy = "the operand of complement( ) is printed from a location in which more than the Complement flag was changed (" + strings.Join(fl, ",") + "): partial markers or operands of the inner location are lost"
				case !arg.contains(func(x *Term) bool { return x.isParam(0) }) && len(changed) >= 1:
					// rebuilt from scratch: every field not copied is lost
					compSt = broken
					compWhy = "the operand of complement( ) is rebuilt from selected fields only; flags and operands not copied are lost"
					if changed[".SubLocations"] && changed[".FivePrimePartial"] && changed[".ThreePrimePartial"] && changed[".Join"] && changed[".Start"] && changed[".End"] {
						compSt = holds
					}
				default:
					compWhy = "complement operand is " + short(arg.String())
				}
			} else if compSt != holds {
				compWhy = "complement form is " + short(piecesString(ps))
			}
		case has(a.cond, "Join", false):
			ok, kw, why := joinForm(tb, bl, a.t, ps)
			if kw != "" {
				printerKW = append(printerKW, kw)
			}
			if ok == holds || joinSt != holds {
				joinSt, joinWhy = ok, why
			}
		default:
			leafAlts = append(leafAlts, a)
		}
	}
	// no form may be reached with the Complement flag (or a partial flag) still unexamined: an early
	// return of a bare coordinate before the flags are looked at prints complement(7..7) as 7
	if compSt == holds {
		mentions := func(a alt, field string) bool {
			for _, at := range a.cond.atoms() {
				if at.Atom.contains(func(x *Term) bool { return x.isField(field) }) {
					return true
				}
			}
			return a.t.contains(func(x *Term) bool { return x.isField(field) })
		}
		for _, a := range leafAlts {
			if !a.direct || a.t.contains(func(x *Term) bool { return x.Op == "phi" || x.Op == "rec" }) || !a.t.contains(func(x *Term) bool { return x.isCall("strconv.Itoa") }) {
				continue
			}
			var skipped []string
			for _, fl := range []string{"Complement", "FivePrimePartial", "ThreePrimePartial"} {
				if !mentions(a, fl) {
					skipped = append(skipped, fl)
				}
			}
			if len(skipped) > 0 {
				pos := bl.Pos()
				if ins, ok := a.v.(ssa.Instruction); ok && ins.Pos() != token.NoPos {
					pos = ins.Pos()
				}
				c.bad("TERM-PRINT", "every form is chosen after the flags were examined", pos, "the form "+short(piecesString(func() []*Term { ps, _ := tb.pieces(a.t); return ps }()))+" is returned under "+short(a.cond.String())+" without "+strings.Join(skipped, ", ")+" having been looked at: a location that has those flags set is written without complement( ) / without its < > markers, and they are lost on re-reading")
			}
		}
	}
	c.judge(compSt, "TERM-PRINT", "complement => complement(+rec+) with only Complement cleared", bl.Pos(), "the operand is printed from the same location (all other flags and coordinates kept)", compWhy)
	c.judge(joinSt, "TERM-PRINT", "join => join(+rec,...+) over all SubLocations", bl.Pos(), "every sub-location printed in order, separated by ','", joinWhy)
	// keyword tokens vs parser
	if pl != nil && len(printerKW) > 0 {
		ptb := newDeepTB(pl)
		parserKW := map[string]bool{}
		_ = ptb
		// every string constant the package mentions outside the printer's own functions, however it is
		// used (==, switch, HasPrefix, a dispatch table filled by an initialiser)
		inPrinter := map[*ssa.Function]bool{}
		for _, f := range family(bl) {
			inPrinter[f] = true
		}
		for _, f := range c.W.moduleFuncs() {
			if pkgOf(f) != pkgOf(pl) || inPrinter[f] || f.Blocks == nil {
				continue
			}
			eachInstr(f, func(i ssa.Instruction) {
				for _, op := range i.Operands(nil) {
					if op == nil || *op == nil {
						continue
					}
					if cst, ok := (*op).(*ssa.Const); ok && cst.Value != nil && cst.Value.Kind() == constant.String {
						if sv := constant.StringVal(cst.Value); sv != "" {
							parserKW[sv] = true
						}
					}
				}
			})
		}
		st := holds
		var bad []string
		for _, k := range printerKW {
			base := strings.TrimSuffix(k, "(")
			found := false
			for pk := range parserKW {
				if strings.Contains(pk, base) {
					found = true
				}
			}
			if !found {
				if len(parserKW) > 0 {
					st = broken
				} else {
					st = unknown
				}
				bad = append(bad, k)
			}
		}
		c.judge(st, "TERM-PRINT", "keyword tokens agree with the parser", bl.Pos(), fmt.Sprintf("printer writes %v, parser dispatches on the same words", printerKW), fmt.Sprintf("printer keywords %v are not among the words the parser dispatches on", bad))
	} else {
		c.undecided("TERM-PRINT", "keyword tokens agree with the parser", bl.Pos(), "printer keywords not recognised")
	}
	// leaf: marker placement
	fiveSt, threeSt := unknown, unknown
	threeWhy, fiveWhy := "no leaf form with a '>' marker recognised", "no leaf form with a '<' marker recognised"
	for _, a := range leafAlts {
		flat := flattenLeaf(tb, a.t)
		if flat == nil {
			continue
		}
		joined := strings.Join(flat, " ")
		st := "S"
		en := "E"
		if strings.Contains(joined, `"<"`) {
			if strings.Contains(joined, `"<" `+st) {
				fiveSt = holds
			} else {
				fiveSt, fiveWhy = broken, "a 5'-partial leaf is printed as "+joined+" (S = start, E = end coordinate)"
			}
		}
		if strings.Contains(joined, `">"`) {
			if strings.Contains(joined, `">" `+en) {
				if threeSt != broken {
					threeSt = holds
				}
			} else {
				threeSt, threeWhy = broken, "a 3'-partial leaf is printed as "+joined+" (S = start, E = end coordinate)"
			}
		}
	}
	// the two partial flags are independent: some printed form has to carry both markers
	{
		has5, has3, hasBoth, allFlat := false, false, false, true
		for _, a := range leafAlts {
			flat := flattenLeaf(tb, a.t)
			if flat == nil {
				allFlat = false
				continue
			}
			joined := strings.Join(flat, " ")
			f5, f3 := strings.Contains(joined, `"<"`), strings.Contains(joined, `">"`)
			has5, has3 = has5 || f5, has3 || f3
			if f5 && f3 {
				hasBoth = true
			}
		}
		switch {
		case has5 && has3 && hasBoth:
			c.ok("TERM-PRINT", "a span partial at both ends is written with both markers", bl.Pos(), "one printed form carries '<' and '>' together")
		case has5 && has3 && allFlat:
			c.bad("TERM-PRINT", "a span partial at both ends is written with both markers", bl.Pos(), "the span is printed with '<' in one form and with '>' in another, but in no form with both: the two flags are tested as alternatives, so a location partial at both ends loses one of its markers when it is written")
		case has5 && has3:
			c.undecided("TERM-PRINT", "a span partial at both ends is written with both markers", bl.Pos(), "not every printed form of a span was read")
		}
	}
	c.judge(fiveSt, "TERM-PRINT", "'<' immediately before the start coordinate", bl.Pos(), "<n..m", fiveWhy)
	c.judge(threeSt, "TERM-PRINT", "'>' immediately before the end coordinate", bl.Pos(), "n..>m", threeWhy+"; INSDC writes n..>m (the marker precedes the end coordinate), other readers reject n..m>")
}

// joinForm recognises the two usual ways of writing the join form.
func joinForm(tb *TermBuilder, bl *ssa.Function, t *Term, ps []*Term) (int, string, string) {
	rec := func(x *Term) bool {
		return x.Op == "call" && strings.HasSuffix(x.Name, "."+bl.Name()) && len(x.Args) == 1 && x.Args[0].Op == "each" && x.Args[0].Args[0].String() == "field[SubLocations](param[0])"
	}
	kw := ""
	// (a) "join(" + strings.Join(collect(rec), ",") + ")"
	if len(ps) == 3 && ps[2].isConst(`")"`) && ps[1].isCall("strings.Join") {
		kw, _ = ps[0].constStr()
		j := ps[1]
		if j.Args[1].isConst(`","`) && j.Args[0].Op == "collect" && rec(j.Args[0].Args[0]) {
			return holds, kw, ""
		}
		if j.Args[0].Op == "collect" && rec(j.Args[0].Args[0]) {
			return broken, kw, "operands are separated by " + j.Args[1].String() + ", the parser splits on \",\""
		}
		return unknown, kw, "join operands are " + short(j.String())
	}
	// (b) accumulate rec + "," then trim the last "," and add ")"
	if len(ps) == 2 && ps[1].isConst(`")"`) && ps[0].isCall("strings.TrimSuffix") && ps[0].Args[1].isConst(`","`) {
		acc := ps[0].Args[0]
		var initOK, stepOK bool
		for _, l := range phiLeaves(acc) {
			if s, ok := l.constStr(); ok {
				kw = s
				initOK = true
			} else {
				sp := l.sumTerms()
				n := len(sp)
				stepOK = n >= 2 && sp[n-1].isConst(`","`) && rec(sp[n-2])
			}
		}
		if initOK && stepOK {
			return holds, kw, ""
		}
		return unknown, kw, "join accumulation not recognised"
	}
	return unknown, kw, "join form is " + short(piecesString(ps))
}

// flattenLeaf renders a leaf form as a sequence of tokens: "<" ">" ".." S E, choosing for optional
// parts (phis) the alternative that includes the markers. Returns nil if other pieces occur.
func flattenLeaf(tb *TermBuilder, t *Term) []string {
	var out []string
	okAll := true
	var walk func(x *Term)
	walk = func(x *Term) {
		ps, _ := tb.pieces(x)
		if len(ps) == 1 && ps[0] == x {
			switch {
			case x.Op == "const":
				s, _ := x.constStr()
				if s != "" {
					out = append(out, fmt.Sprintf("%q", s))
				}
			case x.isCall("strconv.Itoa"):
				b, _ := x.Args[0].linear()
				if b != nil && b.isField("Start") {
					out = append(out, "S")
				} else if b != nil && b.isField("End") {
					out = append(out, "E")
				} else {
					okAll = false
				}
			case x.Op == "phi" && !x.Cyc:
				// choose the longest alternative (the one carrying the optional marker)
				var best *Term
				bl := -1
				for _, a := range x.Args {
					if n := termSize(a); n > bl {
						best, bl = a, n
					}
				}
				if best != nil {
					walk(best)
				}
			default:
				okAll = false
			}
			return
		}
		for _, p := range ps {
			walk(p)
		}
	}
	walk(t)
	if !okAll {
		return nil
	}
	return out
}


// sublocationWrites: stores, in the evaluator and the same-package functions it reaches, into an ELEMENT of a
// SubLocations list (operands[i] = …, operands[i].Complement = …): a Location handed over by value is a copy,
// its SubLocations list is not – the elements belong to the feature the location was taken from.
func sublocationWrites(c *Ctx, ev *ssa.Function) []string {
	var out []string
	fromSubLocations := func(v ssa.Value) bool {
		for d := 0; d < 10; d++ {
			switch x := v.(type) {
			case *ssa.Slice:
				v = x.X
			case *ssa.Phi:
				if len(x.Edges) == 0 {
					return false
				}
				v = x.Edges[0]
			case *ssa.Field:
				if st, ok := x.X.Type().Underlying().(*types.Struct); ok && st.Field(x.Field).Name() == "SubLocations" {
					return true
				}
				return false
			case *ssa.UnOp:
				if fa, ok := x.X.(*ssa.FieldAddr); ok && x.Op.String() == "*" {
					return storeFieldName(fa) == "SubLocations"
				}
				return false
			default:
				return false
			}
		}
		return false
	}
	for _, f := range family(ev) {
		eachInstr(f, func(i ssa.Instruction) {
			st, ok := i.(*ssa.Store)
			if !ok {
				return
			}
			addr := st.Addr
			for d := 0; d < 6; d++ {
				switch x := addr.(type) {
				case *ssa.FieldAddr:
					addr = x.X
					continue
				case *ssa.IndexAddr:
					if fromSubLocations(x.X) {
						out = append(out, fname(f)+" stores into an element of a SubLocations list at "+c.W.pos(st.Pos()))
					}
				}
				break
			}
		})
	}
	sort.Strings(out)
	return dedupe(out)
}
