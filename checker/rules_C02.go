package main

// C02 Feature sequences follow INSDC location semantics for every location.

import (
	"fmt"
	"regexp"
	"strings"

	"golang.org/x/tools/go/ssa"
)

func init() { register("C02", ruleC02) }

func ruleC02(c *Ctx) {
	c.Decided = []string{
		"COORD: parser span literal Start=atoi-1, End=atoi; single-base literal Start=atoi-1, End=atoi; printer Itoa(Start+1), Itoa(End); evaluator slices parent[Start:End] with no offset",
		"TABLE: partial markers are removed before Atoi by a pattern matching exactly '<' and '>'; the two flags are set from Contains on those same constants (markers change flags, never bases)",
		"TERM-EVAL: leaf => parent slice; inner => concatenation of recursive results in range order over SubLocations; Complement => ReverseComplement applied to the concatenation (after, not per operand); recursion passes the sub-location and the same feature; GetSequence starts at feature.SequenceLocation",
		"TERM-PRINT: Complement => complement(+rec+) with only the Complement flag cleared for the recursive call; Join => join(+rec,...+) over all sub-locations; leaf => a..b; keyword tokens equal the parser's; '<' immediately before the start coordinate, '>' immediately before the end coordinate",
		"ARITY: in the parser's join case every operand is appended inside a loop over the operand list (operand count not bounded by a constant)",
		"prerequisite C11 (ReverseComplement = reversal∘complement) re-run",
	}
	c.Undec = []string{"that the recursive-descent parser accepts every expression of the grammar beyond the arity condition", "Atoi failures on malformed numbers"}
	c.Trusted = []string{"INSDC feature table §3.4 (1-based inclusive coordinates; <n..m, n..>m)", "strconv.Atoi/Itoa, regexp"}
	c.floor("COORD", 4)
	c.floor("TABLE", 2)
	c.floor("TERM-EVAL", 4)
	c.floor("TERM-PRINT", 5)
	c.floor("ARITY", 1)
	w := c.W
	pl := w.fn("io/genbank", "parseLocation")
	bl := w.fn("io/genbank", "BuildLocationString")
	ev := w.fn("", "getFeatureSequence")
	if pl == nil || bl == nil || ev == nil {
		c.missing("COORD", "parseLocation/BuildLocationString/getFeatureSequence", "location parser, printer and evaluator")
		return
	}
	for _, f := range []*ssa.Function{pl, bl, ev} {
		c.useFn(f)
	}
	// ---------------- parser
	tb := newTB(pl)
	tb.buildStores()
	var loc *ssa.Alloc
	for _, r := range returnsOf(pl) {
		if ld, ok := r.Results[0].(*ssa.UnOp); ok {
			loc, _ = ld.X.(*ssa.Alloc)
		}
	}
	if loc == nil {
		c.bad("COORD", "parser result", pl.Pos(), "parseLocation does not build its result in one local Location (unrecognised shape)")
		return
	}
	hasParen := `call[strings.ContainsAny](param[0], const["("])`
	hasDot := `call[strings.ContainsAny](param[0], const["."])`
	type lit struct{ start, end *Term }
	var span, single *lit
	var stripPat string
	for _, st := range tb.stores[loc] {
		_, p, _ := rootAlloc(st.Addr)
		if len(p) != 1 || (p[0] != ".Start" && p[0] != ".End") {
			continue
		}
		pc := pathCond(tb, pl.Blocks[0], st.Block())
		if !pc.implies(hasParen, true) {
			continue
		}
		var l **lit
		switch {
		case pc.implies(hasDot, true):
			l = &single
		case pc.implies(hasDot, false):
			l = &span
		default:
			continue
		}
		if *l == nil {
			*l = &lit{}
		}
		if p[0] == ".Start" {
			(*l).start = tb.T(st.Val)
		} else {
			(*l).end = tb.T(st.Val)
		}
	}
	atoiOf := func(t *Term) (*Term, int64, bool) {
		b, k := t.linear()
		if b != nil && b.Op == "extract" && b.Name == "0" && b.Args[0].isCall("strconv.Atoi") {
			return b.Args[0].Args[0], k, true
		}
		return nil, 0, false
	}
	if span == nil || span.start == nil || span.end == nil {
		c.bad("COORD", "parser:span n..m", pl.Pos(), "no Start/End stores in the 'n..m' case (unrecognised shape)")
	} else {
		sa, sk, ok1 := atoiOf(span.start)
		ea, ek, ok2 := atoiOf(span.end)
		good := ok1 && ok2 && sk == -1 && ek == 0
		strip := func(t *Term, k string) bool {
			if t.isCall("(*regexp.Regexp).ReplaceAllString") && t.Args[2].isConst(`""`) {
				if p, ok := regexpPattern(t.Args[0]); ok {
					stripPat = p
				}
				return t.Args[1].String() == `index(call[strings.Split](param[0], const[".."]), const[`+k+`])`
			}
			return false
		}
		good = good && strip(sa, "0") && strip(ea, "1")
		c.check(good, "COORD", "parser:span n..m -> Start=n-1, End=m", pl.Pos(), "0-based half-open from 1-based inclusive, markers stripped before Atoi", fmt.Sprintf("span literal is {Start: %s, End: %s}; want {atoi(first)-1, atoi(second)} of the '..' split", short(span.start.String()), short(span.end.String())))
	}
	if single == nil || single.start == nil || single.end == nil {
		c.bad("COORD", "parser:single base n", pl.Pos(), "no Start/End stores in the single-base case (unrecognised shape)")
	} else {
		sa, sk, ok1 := atoiOf(single.start)
		ea, ek, ok2 := atoiOf(single.end)
		good := ok1 && ok2 && sk == -1 && ek == 0 && sa.String() == ea.String()
		c.check(good, "COORD", "parser:single base n -> Start=n-1, End=n", pl.Pos(), "a bare n denotes exactly base n", fmt.Sprintf("single-base literal is {Start: %s, End: %s}: with Start = End = n the feature sequence parent[n:n] is empty; want {n-1, n}", short(single.start.String()), short(single.end.String())))
	}
	// TABLE: partial markers
	if stripPat != "" {
		re, err := regexp.Compile(stripPat)
		var hit []byte
		if err == nil {
			for ch := byte(0x20); ch < 0x7f; ch++ {
				if re.MatchString(string(ch)) {
					hit = append(hit, ch)
				}
			}
		}
		c.check(err == nil && string(hit) == "<>", "TABLE", "marker pattern matches exactly < and >", pl.Pos(), "pattern "+stripPat, fmt.Sprintf("the pattern %q removed before Atoi matches %q; want exactly \"<>\"", stripPat, string(hit)))
	} else {
		c.bad("TABLE", "marker pattern matches exactly < and >", pl.Pos(), "no constant pattern strips the partial markers before Atoi")
	}
	flagOK := map[string]bool{}
	for _, st := range tb.stores[loc] {
		_, p, _ := rootAlloc(st.Addr)
		if len(p) != 1 {
			continue
		}
		mark := map[string]string{".FivePrimePartial": "<", ".ThreePrimePartial": ">"}[p[0]]
		if mark == "" {
			continue
		}
		pc := pathCond(tb, pl.Blocks[0], st.Block())
		flagOK[p[0]] = tb.T(st.Val).isConst("true") && pc.implies(`call[strings.Contains](param[0], const["`+mark+`"])`, false)
	}
	c.check(flagOK[".FivePrimePartial"] && flagOK[".ThreePrimePartial"], "TABLE", "flags from Contains(<) / Contains(>)", pl.Pos(), "FivePrimePartial iff the text contains '<', ThreePrimePartial iff it contains '>'", fmt.Sprintf("flag stores guarded correctly: %v", flagOK))
	// ARITY + keyword tokens
	var cmdTerm string
	parserKW := map[string]bool{}
	eachInstr(pl, func(i ssa.Instruction) {
		if ifi, ok := i.(*ssa.If); ok {
			t := tb.T(ifi.Cond)
			if t.isBin("==") {
				for k := 0; k < 2; k++ {
					if s, ok := t.Args[k].constStr(); ok && (s == "join" || s == "complement") {
						parserKW[s] = true
						cmdTerm = t.Args[1-k].String()
					}
				}
			}
		}
	})
	joinAtom := `binop[==](const["join"], ` + cmdTerm + `)`
	nSites := 0
	for _, st := range tb.stores[loc] {
		_, p, _ := rootAlloc(st.Addr)
		if len(p) != 1 || p[0] != ".SubLocations" {
			continue
		}
		pc := pathCond(tb, pl.Blocks[0], st.Block())
		if !pc.implies(joinAtom, false) {
			continue
		}
		nSites++
		kind := "flat operand list"
		if pc.implies(`call[strings.ContainsAny](slice(param[0], binop[+](call[strings.Index](param[0], const["("]), const[1]), call[strings.LastIndex](param[0], const[")"])), const["("])`, false) {
			kind = "parenthesised operands"
		}
		c.check(inLoop(st.Block()), "ARITY", "join("+kind+")", st.Pos(), "operands are appended in a loop over the operand list", "operands are appended outside any loop: this branch builds a fixed number of operands (two), found by the first '(' only; join(1..5,complement(7..10)) and any three-operand parenthesised join are mis-parsed or panic")
	}
	if nSites == 0 {
		c.bad("ARITY", "join case", pl.Pos(), "no SubLocations built in the join case (unrecognised shape)")
	}
	// ---------------- evaluator
	etb := newTB(ev)
	parent := "field[Sequence](deref(field[ParentSequence](param[0])))"
	rt, _, okR := singleReturnTerm(ev, 0)
	if !okR {
		c.bad("TERM-EVAL", "single return", ev.Pos(), "getFeatureSequence has several returns: special cases are not analysed (every location must go through slice/concatenate/complement)")
	} else {
		leaves := phiLeaves(rt)
		var bufS string
		okPhi := len(leaves) == 2
		for _, l := range leaves {
			if l.isCall("(*bytes.Buffer).String") {
				bufS = l.String()
			}
		}
		okPhi = okPhi && bufS != ""
		if okPhi {
			for _, l := range leaves {
				if l.String() != bufS && l.String() != "call[poly/transform.ReverseComplement]("+bufS+")" {
					okPhi = false
				}
			}
		}
		// RC edge exactly under location.Complement
		if ph, isPhi := returnsOf(ev)[0].Results[0].(*ssa.Phi); okPhi && isPhi {
			for i, e := range ph.Edges {
				pc := pathCond(etb, ev.Blocks[0], ph.Block().Preds[i])
				isRC := strings.HasPrefix(etb.T(e).String(), "call[poly/transform.ReverseComplement](")
				if isRC != pc.implies("field[Complement](param[1])", false) {
					okPhi = false
				}
			}
		} else if okPhi {
			okPhi = false
		}
		c.check(okPhi, "TERM-EVAL", "complement => ReverseComplement of the whole concatenation", ev.Pos(), "result = RC(buffer) iff location.Complement else buffer", "the result is not {ReverseComplement(concatenation) iff location.Complement, else the concatenation}: "+short(rt.String()))
		if bufS != "" {
			buf := strings.TrimSuffix(strings.TrimPrefix(bufS, "call[(*bytes.Buffer).String]("), ")")
			ws := bufWrites(ev, etb, buf)
			var leafOK, innerOK bool
			nw := 0
			for _, wr := range ws {
				nw++
				pc := pathCond(etb, ev.Blocks[0], wr.call.Block())
				noSubs := "binop[==](call[builtin:len](field[SubLocations](param[1])), const[0])"
				a := wr.arg.String()
				if pc.implies(noSubs, false) {
					leafOK = a == "slice("+parent+", field[Start](param[1]), field[End](param[1]))"
				} else if pc.implies(noSubs, true) {
					innerOK = a == "call[poly.getFeatureSequence](param[0], each(field[SubLocations](param[1])))" && inLoop(wr.call.Block())
				}
			}
			c.check(leafOK && nw == 2, "COORD", "evaluator: leaf = parent[Start:End]", ev.Pos(), "no offset on either bound", "the leaf case does not write exactly parent[location.Start:location.End]")
			c.check(innerOK && nw == 2, "TERM-EVAL", "inner node = concatenation over all SubLocations in order", ev.Pos(), "range over SubLocations, recursive result appended per operand, same feature", "the inner case does not append getFeatureSequence(feature, sub) for every sub-location in order")
		}
	}
	checkReturnIs(c, "TERM-EVAL", "GetSequence starts at feature.SequenceLocation", w.method("", "Feature", "GetSequence"), 0, "call[poly.getFeatureSequence](param[0], field[SequenceLocation](param[0]))", "GetSequence() = getFeatureSequence(feature, feature.SequenceLocation)")
	checkRCShape(c, "TERM-EVAL")
	// ---------------- printer
	ptb := newTB(bl)
	prt, _, okP := singleReturnTerm(bl, 0)
	if !okP {
		c.bad("TERM-PRINT", "single return", bl.Pos(), "BuildLocationString has several returns (unrecognised shape)")
		return
	}
	ph, isPhi := returnsOf(bl)[0].Results[0].(*ssa.Phi)
	if !isPhi {
		c.bad("TERM-PRINT", "three node kinds", bl.Pos(), "the result is not selected among complement/join/leaf forms: "+short(prt.String()))
		return
	}
	var compOK, joinOK, leafSeen bool
	var leafForms []*Term
	var printerKW []string
	var collectLeaves func(v ssa.Value, pc *Cond)
	compAtom, joinA := "field[Complement](param[0])", "field[Join](param[0])"
	collectLeaves = func(v ssa.Value, pc *Cond) {
		if p, ok := v.(*ssa.Phi); ok {
			for i, e := range p.Edges {
				collectLeaves(e, pathCond(ptb, bl.Blocks[0], p.Block().Preds[i]))
			}
			return
		}
		t := ptb.T(v)
		parts := t.sumTerms()
		switch {
		case pc.implies(compAtom, false):
			if s, ok := parts[0].constStr(); ok {
				printerKW = append(printerKW, s)
			}
			compOK = len(parts) == 3 && parts[0].isConst(`"complement("`) && parts[2].isConst(`")"`) &&
				parts[1].String() == "call[poly/io/genbank.BuildLocationString](anyof(param[0], partial[.Complement](const[false])))"
		case pc.implies(joinA, false):
			// TrimSuffix(acc, ",") + ")"
			if len(parts) == 2 && parts[1].isConst(`")"`) && parts[0].isCall("strings.TrimSuffix") && parts[0].Args[1].isConst(`","`) {
				acc := parts[0].Args[0]
				var initOK, stepOK bool
				for _, l := range phiLeaves(acc) {
					if s, ok := l.constStr(); ok {
						printerKW = append(printerKW, s)
						initOK = s == "join("
					} else {
						sp := l.sumTerms()
						// rec + (BLS(each) + ",")
						n := len(sp)
						stepOK = n >= 2 && sp[n-1].isConst(`","`) && sp[n-2].String() == "call[poly/io/genbank.BuildLocationString](each(field[SubLocations](param[0])))"
					}
				}
				joinOK = initOK && stepOK
			}
		default:
			leafSeen = true
			leafForms = append(leafForms, t)
		}
	}
	collectLeaves(ph, &Cond{Op: "true"})
	c.check(compOK, "TERM-PRINT", "complement => complement(+rec+) with only Complement cleared", bl.Pos(), "the operand is printed from the same location (all other flags and coordinates kept)", "the complement form is not \"complement(\" + BuildLocationString(location with only Complement cleared) + \")\": partial markers or operands of the inner location are lost")
	c.check(joinOK, "TERM-PRINT", "join => join(+rec,...+) over all SubLocations", bl.Pos(), "every sub-location printed in order, separated by ','", "the join form is not \"join(\" + operands joined by \",\" + \")\" over all sub-locations")
	okKW := parserKW["join"] && parserKW["complement"]
	for _, k := range printerKW {
		if !(k == "join(" || k == "complement(") {
			okKW = false
		}
	}
	c.check(okKW && len(printerKW) == 2, "TERM-PRINT", "keyword tokens agree with the parser", bl.Pos(), "printer writes join( / complement(, parser dispatches on join / complement", fmt.Sprintf("printer keywords %v vs parser keywords %v", printerKW, parserKW))
	// leaf forms: Itoa(Start+1) .. Itoa(End) with markers
	st := "call[strconv.Itoa](binop[+](const[1], field[Start](param[0])))"
	en := "call[strconv.Itoa](field[End](param[0]))"
	coordOK, fiveOK, threeOK := leafSeen, true, true
	var threeWhy string
	for _, lf := range leafForms {
		var flat []string
		for _, p := range flattenConcat(lf) {
			flat = append(flat, p)
		}
		joined := strings.Join(flat, " ")
		core := st + ` const[".."] ` + en
		if !strings.Contains(strings.ReplaceAll(strings.ReplaceAll(joined, ` const[">"]`, ""), `const["<"] `, ""), core) {
			coordOK = false
		}
		if strings.Contains(joined, `const["<"]`) && !strings.Contains(joined, `const["<"] `+st) {
			fiveOK = false
		}
		if strings.Contains(joined, `const[">"]`) && !strings.Contains(joined, `const[">"] `+en) {
			threeOK = false
			threeWhy = "a 3'-partial leaf is printed as " + strings.ReplaceAll(strings.ReplaceAll(strings.ReplaceAll(joined, st, "start"), en, "end"), "const", "")
		}
	}
	c.check(coordOK, "COORD", "printer: Itoa(Start+1)..Itoa(End)", bl.Pos(), "1-based inclusive on output", "the leaf form is not Itoa(Start+1) + \"..\" + Itoa(End)")
	c.check(fiveOK, "TERM-PRINT", "'<' immediately before the start coordinate", bl.Pos(), "<n..m", "the 5' marker is not placed directly before the start coordinate")
	c.check(threeOK, "TERM-PRINT", "'>' immediately before the end coordinate", bl.Pos(), "n..>m", threeWhy+"; INSDC writes n..>m (the marker precedes the end coordinate), other readers reject n..m>")
}

// flattenConcat lists the concatenation operands of a string term through phis (each phi alternative
// expanded in place is not possible in general; this returns the operands of the outermost sum with
// nested sums flattened, and expands a phi operand into its non-recursive alternatives joined by '|').
func flattenConcat(t *Term) []string {
	var out []string
	for _, p := range t.sumTerms() {
		if p.Op == "phi" {
			// alternatives: choose the longest (the one that includes optional markers)
			best := []string{}
			for _, a := range p.Args {
				f := flattenConcat(a)
				if len(f) > len(best) {
					best = f
				}
			}
			out = append(out, best...)
			continue
		}
		out = append(out, p.String())
	}
	return out
}
