package main

// C04 / C05 / C12: seqhash canonical form, format, validation; least rotation window.

import (
	"fmt"
	"go/token"
	"os"
	"sort"
	"strings"

	"golang.org/x/tools/go/ssa"
)

func init() {
	register("C04", func(c *Ctx) { ruleSeqhash(c, "C04") })
	register("C05", func(c *Ctx) { ruleSeqhash(c, "C05") })
	register("C12", ruleC12)
}

// minOfSortedPair recognises `p := []string{a, b}; sort.Strings(p); p[0]` and returns a, b.
func minOfSortedPair(tb *TermBuilder, v ssa.Value) (a, b *Term, ok bool) {
	ld, isLoad := v.(*ssa.UnOp)
	if !isLoad || ld.Op != token.MUL {
		return
	}
	ia, isIA := ld.X.(*ssa.IndexAddr)
	if !isIA {
		return
	}
	if k, isC := ia.Index.(*ssa.Const); !isC || k.Value == nil || k.Value.ExactString() != "0" {
		return
	}
	sl, isSl := ia.X.(*ssa.Slice)
	if !isSl {
		return
	}
	arr, isAl := sl.X.(*ssa.Alloc)
	if !isAl {
		return
	}
	// sort.Strings(sl) dominates the load; nothing else touches the array between
	sorted := false
	for _, r := range *sl.Referrers() {
		if ci, isCall := r.(ssa.CallInstruction); isCall && calleeName(ci) == "sort.Strings" && domInstr(ci, ld) {
			sorted = true
		}
	}
	if !sorted {
		return
	}
	tb.buildStores()
	var es [2]*Term
	n := 0
	for _, st := range tb.stores[arr] {
		_, p, _ := rootAlloc(st.Addr)
		if len(p) == 1 && (p[0] == "[0]" || p[0] == "[1]") {
			es[int(p[0][1]-'0')] = tb.T(st.Val)
			n++
		}
	}
	if n != 2 || es[0] == nil || es[1] == nil {
		return
	}
	return es[0], es[1], true
}

func ruleSeqhash(c *Ctx, prop string) {
	if prop == "C04" {
		c.Decided = []string{
			"TERM-CANON: with x = U2T?(ToUpper(sequence)) (U->T exactly when type is RNA, applied after upper-casing) the digest input is, in the algebra {x, RC, Rot, Min}, Min{Rot(x),Rot(RC(x))} / Rot(x) / Min{x,RC(x)} / x for (circular,doubleStranded) = (1,1)/(1,0)/(0,1)/(0,0), for each accepted type; nothing else is hashed",
			"DEPEND: the raw sequence is used only as the operand of strings.ToUpper (case clause)",
			"prerequisites re-run: C11 complement table = oracle and involutive (strand clause), ReverseComplement = reversal of the complement, C12 rotation window (rotation clause)",
		}
		c.Undec = []string{"minimality of the rotation index (C12's undecided lemma): rotation invariance = TERM-CANON + 'Rot is canonical'", "collision behaviour of BLAKE3 (trusted)", "canonical forms written outside the recognised idioms (reported as undecided)"}
	} else {
		c.Decided = []string{
			"TERM-CANON as in C04 (the canonical representative per flag combination, over the 4 valuations and 3 types)",
			"TERM-FORMAT: result = \"v1_\" + T C S + \"_\" + hex(blake3.Sum256(canonical)[:]) with T in {DNA->D,RNA->R,PROTEIN->P}, C: circular->C else L, S: doubleStranded->D else S",
			"GUARD: Sum256 is unreachable for an unknown type and for PROTEIN && doubleStranded; a per-letter membership test against the type's alphabet runs over the very string that is hashed; every error return is (\"\", non-nil)",
			"TABLE: nucleotide alphabet contains the 15 IUPAC codes + U; protein alphabet = 20 residues + UO*BXZ; ALPHABET-COMPLEMENT: after normalisation every accepted nucleotide letter is in the complement table's domain and the table is injective on the accepted set",
		}
		c.Undec = []string{"collision resistance of BLAKE3 (trusted)", "minimality of Rot (C12)"}
	}
	c.Trusted = []string{"lukechampine.com/blake3.Sum256, encoding/hex", "strings.ToUpper/ReplaceAll/Contains, sort.Strings"}
	c.floor("TERM-CANON", 11)
	// the canonical rotation is only canonical if the least-rotation scan is right: re-run C12's shape rules
	checkBoothScan(c)
	w := c.W
	h := w.fn("seqhash", "Hash")
	if h != nil && prop == "C05" && len(h.Params) == 4 {
		// the tag and the canonical form describe the DECLARED molecule: a flag parameter that is replaced
		// by a constant on some path (circular = false for short input, ...) makes them describe another one
		tbh := newTB(h)
		eachInstr(h, func(i ssa.Instruction) {
			ph, ok := i.(*ssa.Phi)
			if !ok {
				return
			}
			var par *ssa.Parameter
			var cst *ssa.Const
			for _, e := range ph.Edges {
				switch x := e.(type) {
				case *ssa.Parameter:
					par = x
				case *ssa.Const:
					cst = x
				}
			}
			if par == nil || cst == nil || (par != h.Params[2] && par != h.Params[3]) || len(ph.Edges) != 2 || ph.Comment != par.Name() {
				return // (a phi without the variable's name is the value of a && / || expression, not an assignment)
			}
			for k, e := range ph.Edges {
				if e == ssa.Value(cst) {
					pc := pathCond(tbh, h.Blocks[0], ph.Block().Preds[k])
					c.bad("TERM-FORMAT", "flag "+par.Name()+" is the caller's on every path", ph.Pos(), "the parameter "+par.Name()+" is overwritten with "+cst.Value.ExactString()+" under "+short(pc.String())+": for those inputs the tag letter and the canonical form are those of a molecule the caller did not declare (e.g. a circular molecule hashed and tagged as linear)")
				}
			}
		})
	}
	if h != nil {
		// a strand comparison written as a loop over mirrored positions must cover every position,
		// the centre of an odd-length sequence included (it decides between AGT and ACT)
		for _, g := range family(h) {
			if g != h && loopCompares(g) && g.Name() != "ReverseComplement" {
				c.useFn(g)
				st, why := mirrorLoopState(g)
				c.judge(st, "TERM-CANON", "strand comparison helper "+g.Name()+" compares every position with its mirror", g.Pos(), "for lengths 1..9 every position is compared with the complement of its mirror position", why+": a molecule and its reverse complement can be given different canonical strands")
			}
		}
	}
	if h == nil || len(h.Params) != 4 {
		c.missing("TERM-CANON", "seqhash.Hash", "seqhash.Hash(sequence, sequenceType, circular, doubleStranded)")
		return
	}
	c.useFn(h)
	pType, pCirc, pDS := h.Params[1], h.Params[2], h.Params[3]
	var sum *ssa.Call
	nSum := 0
	eachInstr(h, func(i ssa.Instruction) {
		if cl, ok := i.(*ssa.Call); ok && strings.HasPrefix(calleeName(cl), "lukechampine.com/blake3.Sum") {
			sum = cl
			nSum++
		}
	})
	if nSum != 1 {
		c.undecided("TERM-CANON", "digest", h.Pos(), fmt.Sprintf("%d blake3 digest call sites in Hash, want exactly one", nSum))
		return
	}
	if calleeName(sum) != "lukechampine.com/blake3.Sum256" {
		c.bad("TERM-CANON", "digest", sum.Pos(), "the digest is "+calleeName(sum)+"; seqhash v1 is BLAKE3-256")
		return
	}
	up := "call[strings.ToUpper](param[0])"
	u2t := `call[strings.ReplaceAll](` + up + `, const["U"], const["T"])`
	typeLetter := map[string]string{"DNA": "D", "RNA": "R", "PROTEIN": "P"}
	// are all conditions on the type parameter of a form the valuation can evaluate?
	typeEvaluable := true
	{
		tb0 := newTB(h)
		tb0.NoInline = true
		eachInstr(h, func(i ssa.Instruction) {
			if ifi, ok := i.(*ssa.If); ok {
				t := tb0.T(ifi.Cond)
				// a test on the result of a helper that was given a mode input (type / flags): the valuation cannot
				// follow the helper, so which edge is taken for a given mode is not known
				if t.contains(func(x *Term) bool {
					if x.Op != "call" || strings.HasPrefix(x.Name, "strings.") || strings.HasPrefix(x.Name, "builtin:") {
						return false
					}
					for _, a := range x.Args {
						if a.contains(func(y *Term) bool { return y.isParam(1) || y.isParam(2) || y.isParam(3) }) {
							return true
						}
					}
					return false
				}) {
					typeEvaluable = false
				}
				if t.contains(func(x *Term) bool { return x.isParam(1) }) {
					if !((t.isBin("==") || t.isBin("!=")) && (t.Args[0].Op == "const" || t.Args[1].Op == "const")) {
						typeEvaluable = false
					}
				}
			}
		})
	}
	// a mode input packed into a record, or handed to a function the valuation does not enter (a stage
	// function, a method of a job type): the decisions taken on it are made out of sight
	for k := 1; k <= 3 && k < len(h.Params); k++ {
		par := h.Params[k]
		if par.Referrers() == nil {
			continue
		}
		for _, r := range *par.Referrers() {
			switch x := r.(type) {
			case *ssa.Store:
				if _, isField := x.Addr.(*ssa.FieldAddr); isField && x.Val == ssa.Value(par) {
					typeEvaluable = false
				}
			case ssa.CallInstruction:
				if n := calleeName(x); !strings.HasPrefix(n, "strings.") && !strings.HasPrefix(n, "builtin:") {
					typeEvaluable = false
				}
			case *ssa.Lookup:
				// the mode selects a row of a table (rules per type): what the row says is not evaluated
				if x.Index == ssa.Value(par) {
					typeEvaluable = false
				}
			}
		}
	}
	for _, typ := range []string{"DNA", "RNA", "PROTEIN"} {
		for _, circ := range []bool{true, false} {
			for _, ds := range []bool{true, false} {
				name := fmt.Sprintf("%s circular=%v doubleStranded=%v", typ, circ, ds)
				env := newModeEnv(h, map[*ssa.Parameter]bool{pCirc: circ, pDS: ds}, map[*ssa.Parameter]string{pType: typ})
				tb := newTB(h)
				tb.Choose = env.choose
				tb.Feasible = func(b *ssa.BasicBlock) bool { return env.reach[b] }
				if typ == "PROTEIN" && ds {
					st := holds
					if env.reach[sum.Block()] {
						st = broken
						if !typeEvaluable {
							st = unknown
						}
					}
					c.judge(st, "GUARD", "rejects "+name, sum.Pos(), "the digest is unreachable for double-stranded proteins", "a double-stranded protein reaches the digest instead of being rejected")
					continue
				}
				if !env.reach[sum.Block()] {
					// rejected outright only if every return that can still be reached hands back an error; a
					// reachable return of some other value (a recursive call for the equivalent DNA, a helper)
					// computes the hash elsewhere
					elsewhere := false
					for _, r := range returnsOf(h) {
						if !env.reach[r.Block()] || len(r.Results) != 2 {
							continue
						}
						if k, isC := r.Results[1].(*ssa.Const); isC && k.IsNil() {
							elsewhere = true
						}
					}
					if elsewhere {
						c.undecided("TERM-CANON", name, sum.Pos(), "the digest call is not reached for this combination, but a result without an error is returned: the hash is computed by another call (recursion or a helper), not followed")
						continue
					}
					c.bad("TERM-CANON", name, sum.Pos(), "the digest is unreachable for this accepted combination")
					continue
				}
				x := up
				if typ == "RNA" {
					x = u2t
				}
				want := map[[2]bool]string{{true, true}: "Min{Rot(RC(x)), Rot(x)}", {true, false}: "Rot(x)", {false, true}: "Min{RC(x), x}", {false, false}: "x"}[[2]bool{circ, ds}]
				cv, isConv := sum.Call.Args[0].(*ssa.Convert)
				if !isConv {
					c.undecided("TERM-CANON", name, sum.Pos(), "digest argument is not []byte(<canonical string>)")
				} else {
					cz := &canonizer{tb: tb, env: env, x: x}
					got := cz.of(cv.X)
					st := holds
					if got.String() != want {
						st = unknown
						if got.known() {
							st = broken
						}
						// x itself written differently (e.g. U->T before upper-casing): same vocabulary, different arrangement
						// (only when the valuation really decides every branch on the type: otherwise the merge of the
						// RNA and DNA spellings is an artefact of the analysis, not of the code)
						if !got.known() && typeEvaluable {
							raw := tb.T(cz.resolve(cv.X))
							if os.Getenv("DEBUG_STATE") != "" {
								fmt.Println("DEBUG canon raw:", raw.String())
							}
							if len(opaqueParts(raw, vocabOf(x, "call[poly/transform.ReverseComplement]", "call[poly/seqhash.RotateSequence]", "call[sort.Strings]"))) == 0 && misNormalised(raw, x) {
								st = broken
							}
						}
					}
					c.judge(st, "TERM-CANON", name, sum.Pos(), "digest input = "+want+" with x = "+x, "digest input is "+got.String()+"; want "+want+" with x = "+x+" (rotate each strand first, then take the lesser; upper-case first, then U->T for RNA only)")
				}
				if prop == "C05" {
					checkHashFormat(c, h, tb, env, sum, name, typeLetter[typ], circ, ds)
				}
			}
		}
	}
	// unknown type is rejected
	{
		env := newModeEnv(h, map[*ssa.Parameter]bool{}, map[*ssa.Parameter]string{pType: "<other>"})
		st := holds
		if env.reach[sum.Block()] {
			st = broken
			if !typeEvaluable {
				st = unknown
			}
		}
		whyU := "an unknown sequenceType reaches the digest"
		if st != holds {
			// the type is looked for INSIDE a constant text (strings.Contains(list, type)): every fragment of
			// that text passes, the empty string first of all
			tbU := newTB(h)
			tbU.NoInline = true
			eachInstr(h, func(i ssa.Instruction) {
				cl, ok := i.(*ssa.Call)
				if !ok || len(cl.Call.Args) != 2 {
					return
				}
				switch calleeName(cl) {
				case "strings.Contains", "strings.Index", "strings.LastIndex", "strings.Count":
					hay, needle := tbU.T(cl.Call.Args[0]), tbU.T(cl.Call.Args[1])
					if hs, isC := normText(hay).constStr(); isC && needle.isParam(1) && env.reach[cl.Block()] {
						st, whyU = broken, fmt.Sprintf("the sequenceType is accepted when it occurs somewhere inside %q (%s): the empty string and every fragment of that text (\"NA\", \"or\") pass as a type and are hashed instead of being rejected", hs, calleeName(cl))
					}
				}
			})
		}
		c.judge(st, "GUARD", "rejects unknown sequenceType", sum.Pos(), "the digest is unreachable for a type other than DNA/RNA/PROTEIN", whyU)
	}
	tb := newTB(h)
	// the type text is cut or indexed at a fixed position before anything was asked about it: an empty (or
	// shorter) type is a run-time panic there, where the contract is an error
	if len(h.Params) > 1 {
		eachInstr(h, func(i ssa.Instruction) {
			var x ssa.Value
			var need int64 = -1
			kOf := func(v ssa.Value) int64 {
				if k, isK := v.(*ssa.Const); isK && k.Value != nil {
					return k.Int64()
				}
				return -1
			}
			switch in := i.(type) {
			case *ssa.Slice:
				x = in.X
				if in.High != nil {
					need = kOf(in.High)
				}
				if in.Low != nil && kOf(in.Low) > need {
					need = kOf(in.Low)
				}
			case *ssa.Index:
				x = in.X
				if k := kOf(in.Index); k >= 0 {
					need = k + 1
				}
			case *ssa.Lookup:
				x = in.X
				if k := kOf(in.Index); k >= 0 {
					need = k + 1
				}
			}
			if x != ssa.Value(h.Params[1]) || need < 1 {
				return
			}
			for _, a := range pathCond(tb, h.Blocks[0], i.Block()).atoms() {
				if strings.Contains(a.Atom.String(), "param[1]") {
					return
				}
			}
			c.bad("GUARD", "type text read at a fixed position untested", i.Pos(), fmt.Sprintf("the sequenceType is cut or indexed at a fixed position (it needs at least %d characters) on a path where nothing has been asked about it yet: an empty sequenceType makes Hash panic with an index out of range where an unknown type has to be answered with an error", need))
		})
	}
	// error returns well-formed
	okErr := holds
	for _, r := range returnsOf(h) {
		e := tb.T(r.Results[1])
		if e.Op == "const" {
			continue
		}
		v := tb.T(r.Results[0])
		if !v.isConst(`""`) {
			// the return that follows a recovered panic hands back the named results as they stand: a merge of
			// whatever was assigned, not a value this return computes
			merged := r.Block() == h.Recover || v.Op == "anyof" || v.Op == "phi" || v.Op == "alloc" || v.Op == "rec"
			if !merged && (v.Op == "const" || v.contains(func(x *Term) bool { return x.isCall("encoding/hex.EncodeToString") })) {
				okErr = broken
			} else if okErr == holds {
				okErr = unknown
			}
		}
	}
	c.judge(okErr, "GUARD", "error returns are (\"\", non-nil error)", h.Pos(), "every rejecting return yields an empty hash and an error", "a rejecting return also yields a hash value")
	// alphabet membership tests in Hash's family
	comp, _, haveComp := complementTable(c, "TERM-CANON")
	tests := membershipTests(h)
	for _, typ := range []string{"DNA", "RNA", "PROTEIN"} {
		x := up
		if typ == "RNA" {
			x = u2t
		}
		env := newModeEnv(h, map[*ssa.Parameter]bool{}, map[*ssa.Parameter]string{pType: typ})
		var mine []memberTest
		for _, mt := range tests {
			if env.reach[mt.site.Block()] {
				etb := newTB(h)
				etb.Choose = env.choose
				tb.Feasible = func(b *ssa.BasicBlock) bool { return env.reach[b] }
				m2 := mt
				m2.over = etb.T(mt.overV).String()
				if mt.alphaV != nil {
					if s, ok := etb.T(mt.alphaV).constStr(); ok {
						m2.alpha = s
					}
				}
				mine = append(mine, m2)
			}
		}
		key := "alphabet test for " + typ + " over the hashed string"
		switch {
		case len(mine) == 0:
			// a black list instead of an alphabet: IndexAny / ContainsAny of the WHOLE string against a set of forbidden letters
			var black *ssa.Call
			eachInstr(h, func(i ssa.Instruction) {
				if cl, ok := i.(*ssa.Call); ok && env.reach[cl.Block()] && (calleeName(cl) == "strings.IndexAny" || calleeName(cl) == "strings.ContainsAny") {
					etb := newTB(h)
					etb.Choose = env.choose
					tb.Feasible = func(b *ssa.BasicBlock) bool { return env.reach[b] }
					if _, isC := etb.T(cl.Call.Args[1]).constStr(); isC && isStringType(cl.Call.Args[0].Type()) {
						if _, isRune := cl.Call.Args[0].(*ssa.Convert); !isRune {
							black = cl
						}
					}
				}
			})
			if black != nil {
				set, _ := newTB(h).T(black.Call.Args[1]).constStr()
				c.bad("GUARD", key, black.Pos(), fmt.Sprintf("for %s the sequence is only searched for the forbidden letters %q: every character that is neither allowed nor in that list (digits, '-', '*', blanks, line ends, non-ASCII) passes and is hashed; the property requires rejecting everything outside the type's alphabet", typ, set))
				continue
			}
			c.undecided("GUARD", key, h.Pos(), "no per-letter membership test against a constant alphabet recognised for "+typ)
			continue
		case len(mine) > 1:
			c.undecided("GUARD", key, h.Pos(), fmt.Sprintf("%d membership tests reachable for %s", len(mine), typ))
			continue
		}
		mt := mine[0]
		if mt.coverage != "" && !strings.HasPrefix(mt.coverage, "?") {
			c.bad("GUARD", key, mt.site.Pos(), "the alphabet test for "+typ+" does not reach every letter: "+mt.coverage+", so a foreign character there is hashed instead of rejected")
			continue
		}
		if strings.HasPrefix(mt.coverage, "?") {
			c.undecided("GUARD", key, mt.site.Pos(), "the letters are tested by index and the loop's coverage could not be evaluated ("+strings.TrimPrefix(mt.coverage, "?")+")")
			continue
		}
		if mt.narrowed {
			c.bad("GUARD", key, mt.site.Pos(), "for "+typ+" every letter is converted to a single byte before it is looked up in the alphabet: a non-ASCII letter whose low byte is an allowed letter (U+0141 'Ł' -> 'A', U+012A 'Ī' -> '*') is accepted and hashed instead of rejected")
			continue
		}
		if mt.conditional {
			c.undecided("GUARD", key, mt.site.Pos(), "the membership test sits in a helper that decides by itself when it runs; which alphabet applies to "+typ+" is not read")
			continue
		}
		st := holds
		why := ""
		if hx := parseOrNil(x); mt.over != x && hx != nil && hx.isCall("strings.ReplaceAll") && len(hx.Args) == 3 && hx.Args[0].String() == mt.over &&
			func() bool {
				// the string that is hashed is the string that was checked with one letter respelt as another
				// (U -> T), and the alphabet the check uses holds both letters: the verdict is the same
				from, ok1 := hx.Args[1].constStr()
				to, ok2 := hx.Args[2].constStr()
				al := mt.alpha
				if k, isK := parseOrNil(al).constStr(); isK {
					al = k
				}
				return ok1 && ok2 && from != "" && to != "" && strings.Contains(al, from) && strings.Contains(al, to)
			}() {
			// held: falls through with st == holds
		} else if mt.over != x {
			st = unknown
			if ot := parseOrNil(mt.over); ot != nil && ot.contains(func(y *Term) bool {
				if y.Op != "phi" || len(y.Args) < 2 {
					return false
				}
				// the text merged with its own upper-cased form: normalised only when some test says so
				for _, e := range y.Args {
					if (e.isCall("strings.ToUpper") || e.isCall("strings.ToLower")) && len(e.Args) == 1 {
						for _, e2 := range y.Args {
							if e2 != e && e2.String() == e.Args[0].String() {
								return true
							}
						}
					}
				}
				return false
			}) {
				why = "the letters checked are those of " + short(mt.over) + ": the text is upper-cased only under a condition; which texts skip it is not decided"
			} else if len(opaqueParts(parseOrNil(mt.over), vocabOf(x))) == 0 && typeEvaluable {
				st, why = broken, "the letters checked are those of "+short(mt.over)+"; the string that is hashed is "+x+": a letter can be validated in one spelling and hashed in another"
			} else {
				why = "letters checked are those of " + short(mt.over)
			}
		}
		c.judge(st, "GUARD", key, mt.site.Pos(), "every letter of the normalised sequence is tested against the alphabet; a miss returns an error", why)
		al := mt.alpha
		if al == "" {
			c.undecided("TABLE", "alphabet for "+typ, mt.site.Pos(), "the alphabet is not a constant")
			continue
		}
		if typ == "PROTEIN" {
			wantSet := aa20 + "UO*BXZ"
			c.check(sameSet(al, wantSet), "TABLE", "protein alphabet", mt.site.Pos(), "20 residues + U O * B X Z", fmt.Sprintf("protein alphabet %q differs from %q", al, wantSet))
			continue
		}
		var miss []string
		for _, r := range iupac15 + "U" {
			if !strings.ContainsRune(al, r) {
				miss = append(miss, string(r))
			}
		}
		c.check(len(miss) == 0, "TABLE", "nucleotide alphabet ("+typ+")", mt.site.Pos(), "contains the 15 IUPAC codes and U", "nucleotide alphabet "+al+" lacks "+strings.Join(miss, ","))
		if prop == "C05" && haveComp {
			accepted := map[rune]bool{}
			for _, r := range al {
				if typ == "RNA" && r == 'U' {
					continue
				}
				accepted[r] = true
			}
			img := map[rune][]rune{}
			var letters []rune
			for r := range accepted {
				letters = append(letters, r)
			}
			sort.Slice(letters, func(i, j int) bool { return letters[i] < letters[j] })
			for _, r := range letters {
				cr, in := comp[r]
				if !in {
					c.bad("TABLE", fmt.Sprintf("ALPHABET-COMPLEMENT/%s:%c", typ, r), h.Pos(), fmt.Sprintf("letter %c is accepted for %s but is outside the complement table: the 'other strand' of a sequence containing it is not a sequence (NUL letters), so the hashed representative is not a strand", r, typ))
					continue
				}
				img[cr] = append(img[cr], r)
			}
			var keys []rune
			for k := range img {
				keys = append(keys, k)
			}
			sort.Slice(keys, func(i, j int) bool { return keys[i] < keys[j] })
			for _, k := range keys {
				if len(img[k]) > 1 {
					c.bad("TABLE", fmt.Sprintf("ALPHABET-COMPLEMENT/%s:%s", typ, string(img[k])), h.Pos(), fmt.Sprintf("accepted letters %q all complement to %c: two different double-stranded %s molecules (e.g. %c%c and %c%c) share a reverse complement and therefore a seqhash", string(img[k]), k, typ, img[k][0], img[k][0], img[k][1], img[k][1]))
				}
			}
			c.ok("TABLE", "ALPHABET-COMPLEMENT/"+typ+":checked", h.Pos(), fmt.Sprintf("%d accepted letters examined against the complement table", len(letters)))
		}
	}
	// DEPEND
	stD, whyD := judgeCase(c.W, h, 0)
	c.judge(stD, "DEPEND", "raw sequence only under ToUpper", h.Pos(), "letter case cannot influence the hash", whyD)
	// prerequisites
	if haveComp {
		orc := oracleComplement()
		var diffs []string
		for k, v := range orc {
			if comp[k] != v {
				diffs = append(diffs, fmt.Sprintf("%c->%s (want %c)", k, letterOrNone(comp[k]), v))
			}
		}
		sort.Strings(diffs)
		c.check(len(diffs) == 0, "TERM-CANON", "prerequisite C11: complement table = oracle", h.Pos(), "strand invariance rests on comp being the involutive IUPAC complement", strings.Join(diffs, "; "))
	}
	checkRCShape(c, "TERM-CANON")
	checkRotateWindow(c, "TERM-CANON")
}

// checkComplementOracle: the complement table read by ComplementBase agrees with the IUPAC complement on every
// letter (the bases of a complemented location are exactly what that table says).
func checkComplementOracle(c *Ctx, rule string) { checkComplementOracleOn(c, rule, "") }

// checkComplementOracleOn restricts the comparison to the given letters ("" = every letter of the oracle).
func checkComplementOracleOn(c *Ctx, rule, letters string) {
	comp, pos, ok := complementTable(c, rule)
	if !ok {
		return
	}
	var diffs []string
	for k, v := range oracleComplement() {
		if letters != "" && !strings.ContainsRune(letters, k) {
			continue
		}
		if comp[k] != v {
			diffs = append(diffs, fmt.Sprintf("%c->%s (want %c)", k, letterOrNone(comp[k]), v))
		}
	}
	sort.Strings(diffs)
	c.check(len(diffs) == 0, rule, "prerequisite C11: complement table = oracle", pos, "the complemented strand is read through the involutive IUPAC complement", strings.Join(diffs, "; "))
}

func parseOrNil(s string) *Term {
	if t := parseTerm(s); t != nil {
		return t
	}
	return &Term{Op: "unknown"}
}

// misNormalised: the raw digest-input term mentions the input only through the same std calls as x
// (ToUpper / ReplaceAll) but nested differently (e.g. ReplaceAll before ToUpper, or U->T applied after
// the strand/rotation choice).
func misNormalised(raw *Term, x string) bool {
	uses := 0
	bad := false
	raw.walk(func(t *Term) {
		if t.isCall("strings.ReplaceAll") || t.isCall("strings.ToUpper") {
			uses++
			// the only acceptable occurrences are sub-terms of x itself; an occurrence whose operand is a merge
			// of values (a parameter kept in a cell because a function literal reads it) says nothing
			if !strings.Contains(x, t.String()) && !t.contains(func(y *Term) bool {
				return y.Op == "anyof" || y.Op == "phi" || y.Op == "alloc" || y.Op == "rec" || y.Op == "freevar" || y.Op == "closurewrite" || y.Op == "unknown"
			}) {
				bad = true
			}
		}
	})
	return uses > 0 && bad
}

type memberTest struct {
	site   ssa.Instruction
	alphaV ssa.Value
	overV  ssa.Value
	alpha  string
	over   string
	// the test sits in a helper that holds several tests or reaches it under a condition of its own
	conditional bool
	// the letter is cut down to one byte before it is looked up
	narrowed bool
	// for a test by index: "" if every position 0..n-1 is visited for n = 1..6, "?..." if that could not
	// be evaluated, else the position that is left out
	coverage string
}

// indexCoverage simulates the counted loop around the test at site and reports a position of the
// string that the loop never hands to the test.
func indexCoverage(h *ssa.Function, site ssa.Instruction, idx ssa.Value) string {
	hdr := enclosingLoopHeader(site.Block())
	if hdr == nil {
		return "?the test is not inside a loop"
	}
	tb := newTB(h)
	ls, why := newLoopSim(tb, hdr)
	if ls == nil {
		return "?" + why
	}
	it := tb.T(idx)
	for n := int64(1); n <= 6; n++ {
		seen := map[int64]bool{}
		ok, why := ls.run(n, nil, n+5, func(env map[string]int64) (bool, string) {
			v, known := ls.evalInt(it, env, 0)
			if !known {
				return false, "?index not evaluable"
			}
			seen[v] = true
			return true, ""
		})
		if !ok {
			return "?" + strings.TrimPrefix(why, "?")
		}
		for p := int64(0); p < n; p++ {
			if !seen[p] {
				return fmt.Sprintf("for a sequence of %d letters the letter at position %d is never tested", n, p)
			}
		}
	}
	return ""
}

// membershipTests finds, in Hash and the same-package helpers it calls, loops that test every rune
// of a string S for membership in an alphabet A (strings.Contains(A, string(r)), ContainsRune, IndexRune,
// IndexByte). For a helper, S and A are mapped back to the call site's arguments.
func membershipTests(h *ssa.Function) []memberTest {
	var out []memberTest
	type found struct {
		alpha, over ssa.Value
		site        ssa.Instruction
		rng         *ssa.Range
	}
	scan := func(f *ssa.Function) []found {
		var fs []found
		eachInstr(f, func(i ssa.Instruction) {
			cl, ok := i.(*ssa.Call)
			if !ok {
				return
			}
			n := calleeName(cl)
			var a, r ssa.Value
			switch n {
			case "strings.Contains", "strings.ContainsRune", "strings.IndexRune", "strings.IndexByte", "strings.ContainsAny":
				a, r = cl.Call.Args[0], cl.Call.Args[1]
			default:
				return
			}
			// r must be (a conversion of) the rune yielded by ranging over a string
			x := r
			if cv, ok := x.(*ssa.Convert); ok {
				x = cv.X
			}
			ex, ok := x.(*ssa.Extract)
			if !ok || ex.Index != 2 {
				return
			}
			nx, ok := ex.Tuple.(*ssa.Next)
			if !ok || !nx.IsString {
				return
			}
			rg, ok := nx.Iter.(*ssa.Range)
			if !ok {
				return
			}
			fs = append(fs, found{a, rg.X, cl, rg})
		})
		return fs
	}
	// tests inside same-package helpers called from h. A helper that holds several tests, or reaches
	// its test only under a condition of its own, is a validator for several types at once: which
	// alphabet applies to which type is then decided inside it, and every test is handed on so that the
	// caller sees "more than one test" and does not attribute an alphabet to a type.
	eachInstr(h, func(i ssa.Instruction) {
		cl, ok := i.(*ssa.Call)
		if !ok {
			return
		}
		g := cl.Call.StaticCallee()
		if g == nil || g == h || pkgOf(g) != pkgOf(h) || g.Blocks == nil {
			return
		}
		fs := scan(g)
		for _, fd := range fs {
			mt := memberTest{site: cl}
			if p, ok := fd.alpha.(*ssa.Parameter); ok {
				for k, gp := range g.Params {
					if gp == p && k < len(cl.Call.Args) {
						mt.alphaV = cl.Call.Args[k]
					}
				}
			} else {
				mt.alphaV = fd.alpha
			}
			if p, ok := fd.over.(*ssa.Parameter); ok {
				for k, gp := range g.Params {
					if gp == p && k < len(cl.Call.Args) {
						mt.overV = cl.Call.Args[k]
					}
				}
			}
			if pc := pathCond(newTB(g), g.Blocks[0], fd.rng.Block()); pc.Op != "true" {
				mt.conditional = true
			}
			if mt.overV != nil {
				out = append(out, mt)
			} else if len(fs) > 1 {
				out = append(out, memberTest{site: cl, conditional: true, overV: fd.over})
			}
		}
	})
	// direct tests in h: one per call site
	eachInstr(h, func(i ssa.Instruction) {
		cl, ok := i.(*ssa.Call)
		if !ok {
			return
		}
		switch calleeName(cl) {
		case "strings.Contains", "strings.ContainsRune", "strings.IndexRune", "strings.IndexByte", "strings.ContainsAny":
		default:
			return
		}
		x := cl.Call.Args[1]
		// the letter cut out by index: s[i:i+1] (or string(s[i])) in a counted loop over s. Which positions
		// the loop visits is decided by simulating its index arithmetic for lengths 1..6.
		if sl, isSlice := x.(*ssa.Slice); isSlice && isStringType(sl.X.Type()) && sl.Low != nil && sl.High != nil {
			if hi, isAdd := sl.High.(*ssa.BinOp); isAdd && hi.Op == token.ADD && hi.X == sl.Low {
				if k, isK := hi.Y.(*ssa.Const); isK && k.Value != nil && k.Value.ExactString() == "1" {
					mt := memberTest{site: cl, alphaV: cl.Call.Args[0], overV: sl.X}
					mt.coverage = indexCoverage(h, cl, sl.Low)
					out = append(out, mt)
					return
				}
			}
		}
		narrowed := false
		if cv, ok := x.(*ssa.Convert); ok {
			// byte(r) of a rune keeps only its low eight bits: U+0141 becomes 'A'
			if tname(cv.Type()) == "uint8" || tname(cv.Type()) == "byte" {
				if tn := tname(cv.X.Type()); tn == "int32" || tn == "rune" {
					narrowed = true
				}
			}
			x = cv.X
		}
		ex, ok := x.(*ssa.Extract)
		if !ok || ex.Index != 2 {
			return
		}
		nx, ok := ex.Tuple.(*ssa.Next)
		if !ok || !nx.IsString {
			return
		}
		rg, ok := nx.Iter.(*ssa.Range)
		if !ok {
			return
		}
		out = append(out, memberTest{site: cl, alphaV: cl.Call.Args[0], overV: rg.X, narrowed: narrowed})
	})
	return out
}

// checkHashFormat: TERM-FORMAT under one valuation.
func checkHashFormat(c *Ctx, h *ssa.Function, tb *TermBuilder, env *modeEnv, sum *ssa.Call, name, tl string, circ, ds bool) {
	sr := successReturn(tb, h, 1)
	if sr == nil {
		c.undecided("TERM-FORMAT", name, h.Pos(), "no single success return")
		return
	}
	ps, _ := tb.pieces(tb.T(sr.Results[0]))
	var flat []string
	opaque := false
	for _, p := range ps {
		if s, ok := p.constStr(); ok {
			flat = append(flat, s)
			continue
		}
		if p.isCall("encoding/hex.EncodeToString") && p.Args[0].Op == "slice" && p.Args[0].Args[0].String() == tb.T(sum).String() {
			flat = append(flat, "<hex>")
			continue
		}
		opaque = true
		flat = append(flat, "?")
	}
	got := strings.Join(flat, "")
	cl, sl := "L", "S"
	if circ {
		cl = "C"
	}
	if ds {
		sl = "D"
	}
	want := "v1_" + tl + cl + sl + "_<hex>"
	st := holds
	if got != want {
		st = broken
		if opaque {
			st = unknown
		}
	}
	c.judge(st, "TERM-FORMAT", name, sr.Pos(), want, "result is "+got+"; want "+want+" (v1_ + type/topology/strand letters + _ + 64 hex digits of Sum256 of the canonical string)")
}

func sameSet(a, b string) bool {
	m := map[rune]int{}
	for _, r := range a {
		m[r] |= 1
	}
	for _, r := range b {
		m[r] |= 2
	}
	for _, v := range m {
		if v != 3 {
			return false
		}
	}
	return len(a) == len(b)
}

// rcState: is transform.ReverseComplement exactly reversal∘complement?
//
//	holds   – descending fill of strings.Map(ComplementBase, s), or Reverse(Complement(s)) with Reverse a
//	          recognised reversal and Complement = strings.Map(ComplementBase, s)
//	broken  – a recognised form with a special case that returns the input (or a partial result)
//	          for some non-empty strings
//	unknown – anything else
func rcState(w *World) (int, string) {
	f := w.fn("transform", "ReverseComplement")
	if f == nil {
		return unknown, "transform.ReverseComplement not found"
	}
	compl := "call[strings.Map](func[poly/transform.ComplementBase], param[0])"
	tb := newTB(f)
	alts := resultAlts(tb, f, 0)
	// special cases returning the input unchanged
	for _, a := range alts {
		if a.T.isParam(0) && len(alts) > 1 {
			emptyOnly := false
			for _, at := range a.Cond.atoms() {
				s := at.Atom.String()
				if !at.Neg && (s == "binop[==](call[builtin:len](param[0]), const[0])" || s == `binop[==](const[""], param[0])` || s == `binop[==](param[0], const[""])`) {
					emptyOnly = true
				}
			}
			if !emptyOnly {
				return broken, "a special case returns the input unchanged under " + short(a.Cond.String()) + ": a one-letter sequence is not complemented"
			}
		}
	}
	if src, _ := descendingFill(tb, f); src != nil {
		if src.String() == compl {
			return holds, ""
		}
		if len(opaqueParts(src, vocabOf(compl))) == 0 {
			return broken, "ReverseComplement reverses " + short(src.String()) + ", not the complemented input"
		}
		return unknown, "reverses " + short(src.String())
	}
	// Reverse(Complement(s))
	tb2 := newTB(f)
	tb2.NoInline = true
	if len(alts) == 1 {
		t := tb2.T(alts[0].Ret.Results[0])
		if t.isCall("poly/transform.Reverse") && (t.Args[0].isCall("poly/transform.Complement") && t.Args[0].Args[0].isParam(0) || t.Args[0].String() == compl) {
			rv, cm := w.fn("transform", "Reverse"), w.fn("transform", "Complement")
			okR, okC := false, t.Args[0].String() == compl
			if rv != nil {
				rtb := newTB(rv)
				if src, _ := descendingFill(rtb, rv); src != nil && src.isParam(0) {
					okR = true
				}
			}
			if cm != nil && !okC {
				ct, _, ok := singleReturnTerm(cm, 0)
				okC = ok && ct.String() == compl
			}
			if okR && okC {
				return holds, ""
			}
			return unknown, "Reverse/Complement are not in a recognised form"
		}
		if t.isCall("poly/transform.Complement") && t.Args[0].isCall("poly/transform.Reverse") {
			// complement of the reverse is the same function
			return unknown, "Complement(Reverse(s)) form"
		}
	}
	return unknown, "not a recognised reversal of the complemented input"
}

func checkRCShape(c *Ctx, rule string) {
	if f := c.W.fn("transform", "ReverseComplement"); f != nil {
		c.useFn(f)
		st, why := rcState(c.W)
		c.judge(st, rule, "prerequisite C11: ReverseComplement = reversal∘complement", f.Pos(), "as decided by C11", "ReverseComplement is not exactly reversal∘complement: "+why)
		return
	}
	c.missing(rule, "prerequisite C11: ReverseComplement", "transform.ReverseComplement")
}

// checkRotateWindow: RotateSequence(s) = rotation of s at boothLeastRotation(s).
func checkRotateWindow(c *Ctx, rule string) {
	f := c.W.fn("seqhash", "RotateSequence")
	if f == nil {
		c.missing(rule, "RotateSequence", "seqhash.RotateSequence")
		return
	}
	c.useFn(f)
	st := isRotateBody(f)
	c.judge(st, rule, "RotateSequence = rotation of s at boothLeastRotation(s)", f.Pos(), "a length-len(s) window of the doubled string (or s[k:]+s[:k]): a rotation whenever it returns, also for the empty string", "RotateSequence does not return (s+s)[k:k+len(s)] / s[k:]+s[:k] with k = boothLeastRotation(s), or it does arithmetic that fails for the empty string (modulo by the length), or a fast path hands back every string of some length >= 2 unrotated (\"TA\" is not its own least rotation)")
}

func ruleC12(c *Ctx) {
	c.Decided = []string{
		"TERM: RotateSequence(s) returns the rotation of s at k = boothLeastRotation(s) written as a window of the doubled string or as s[k:]+s[:k]: same letters, same cyclic order; no division by the length (empty string)",
		"ORDER-DIR: every ordering comparison between bytes of the scanned string is 'current character < reference character' (minimising, bytewise); BYTEWISE: the scan visits every byte index",
		"REACHING: every index into the failure table / doubled string is built from the reaching definitions of the loop-carried variables at that access (no stale copy of leastRotationIndex or failure)",
	}
	c.Undec = []string{"MINIMALITY: correctness of the failure-function scan (that k is the start of the least rotation) and k < len(s): algorithmic, needs a loop-invariant proof; C04/C05 name it as their assumed lemma"}
	c.floor("TERM", 1)
	c.floor("ORDER-DIR", 2)
	c.floor("REACHING", 4)
	checkRotateWindow(c, "TERM")
	checkBoothScan(c)
	// the empty string is a legal input (no division by the length, no slice bound below zero)
	for _, name := range []string{"boothLeastRotation", "RotateSequence"} {
		if f := c.W.fn("seqhash", name); f != nil {
			checkPrefix(c, "TERM", f)
		}
	}
}

// checkBoothScan: the shape rules on the least-rotation scan (ORDER-DIR, BYTEWISE, REACHING). C12 owns
// them; C04 and C05 re-run them because their canonical form is only canonical if this scan is right.
func checkBoothScan(c *Ctx) {
	w := c.W
	b := w.fn("seqhash", "boothLeastRotation")
	if b == nil {
		c.missingHelper("ORDER-DIR", "boothLeastRotation", "seqhash.boothLeastRotation")
		return
	}
	c.useFn(b)
	// the main scan counter: a phi stepping by +1 whose loop condition compares it with a length
	isCounter := func(v ssa.Value) bool {
		ph, ok := v.(*ssa.Phi)
		if !ok {
			return false
		}
		step := false
		for _, e := range ph.Edges {
			if be, ok := e.(*ssa.BinOp); ok && be.Op == token.ADD && be.X == ssa.Value(ph) {
				if k, ok := be.Y.(*ssa.Const); ok && k.Value != nil && k.Value.ExactString() == "1" {
					step = true
				}
			}
		}
		return step
	}
	byteIdx := func(v ssa.Value) (ssa.Value, bool) {
		switch lk := v.(type) {
		case *ssa.Lookup:
			return lk.Index, true
		case *ssa.Index:
			return lk.Index, true
		}
		return nil, false
	}
	n := 0
	eachInstr(b, func(i ssa.Instruction) {
		bo, ok := i.(*ssa.BinOp)
		if !ok {
			return
		}
		switch bo.Op {
		case token.LSS, token.GTR, token.LEQ, token.GEQ:
		default:
			return
		}
		if tname(bo.X.Type()) != "uint8" && tname(bo.X.Type()) != "byte" {
			return
		}
		n++
		lx, okL := byteIdx(bo.X)
		rx, okR := byteIdx(bo.Y)
		st := unknown
		if okL && okR {
			lCur, rCur := isCounter(lx), isCounter(rx)
			less := bo.Op == token.LSS || bo.Op == token.LEQ
			switch {
			case lCur && !rCur && less, rCur && !lCur && !less:
				st = holds
			case lCur && !rCur && !less, rCur && !lCur && less:
				st = broken
				// the direction matters where the comparison SELECTS: its true branch takes a new start index
				// computed from the scan position. A '>' that only cuts a walk short selects nothing.
				selects := false
				if bo.Referrers() != nil {
					for _, r := range *bo.Referrers() {
						ifi, isIf := r.(*ssa.If)
						if !isIf || len(ifi.Block().Succs) != 2 {
							continue
						}
						tsucc := ifi.Block().Succs[0]
						for _, blk := range b.Blocks {
							if blk != tsucc && !(tsucc.Dominates(blk) && len(tsucc.Preds) == 1) {
								continue
							}
							// the scan position itself taken as the new start: it arrives in a phi over an edge from this region
							for _, sx := range blk.Succs {
								for k, pr := range sx.Preds {
									if pr != blk {
										continue
									}
									for _, in := range sx.Instrs {
										ph, isPhi := in.(*ssa.Phi)
										if !isPhi {
											break
										}
										if k < len(ph.Edges) && isCounter(ph.Edges[k]) && ph.Edges[k] != ssa.Value(ph) {
											// the counter's own phi carries the counter round the loop: that is not a selection
											if cp, isCP := ph.Edges[k].(*ssa.Phi); !isCP || cp.Block() != sx {
												selects = true
											}
										}
									}
								}
							}
							for _, in := range blk.Instrs {
								ar, isAr := in.(*ssa.BinOp)
								if !isAr || (ar.Op != token.SUB && ar.Op != token.ADD) || !(isCounter(ar.X) || isCounter(ar.Y)) || ar.Referrers() == nil {
									continue
								}
								for _, rr := range *ar.Referrers() {
									switch rr.(type) {
									case *ssa.Phi, *ssa.BinOp, *ssa.Return:
										selects = true
									}
								}
							}
						}
					}
				}
				if !selects {
					st = unknown
				}
			}
		}
		c.judge(st, "ORDER-DIR", "character < reference", bo.Pos(), "the scanned character is compared with '<' against the reference (smallest rotation wins)", "a byte comparison in the rotation scan reads 'current character > reference': the scan selects a greater rotation")
	})
	if n == 0 {
		c.undecided("ORDER-DIR", "comparisons", b.Pos(), "no byte ordering comparison found")
	}
	// BYTEWISE: the main scan leaves only when its counter reaches the end
	for _, blk := range b.Blocks {
		for _, ins := range blk.Instrs {
			ph, ok := ins.(*ssa.Phi)
			if !ok || !isCounter(ph) || enclosingLoopHeader(blk) != blk {
				continue
			}
			// the outermost counted loop that indexes the string
			if outer := blk.Idom(); outer != nil && enclosingLoopHeader(outer) != nil {
				continue
			}
			inL := func(x *ssa.BasicBlock) bool { return x == blk || (blk.Dominates(x) && reaches(x, blk)) }
			scansBytes := false
			for _, lb := range b.Blocks {
				if inL(lb) {
					for _, li := range lb.Instrs {
						if bo, ok := li.(*ssa.BinOp); ok && (tname(bo.X.Type()) == "uint8" || tname(bo.X.Type()) == "byte") {
							scansBytes = true
						}
					}
				}
			}
			if !scansBytes {
				continue
			}
			for _, lb := range b.Blocks {
				if lb == blk || !inL(lb) {
					continue
				}
				for _, sx := range lb.Succs {
					if !inL(sx) {
						// an exit before the last character may be a sound cut-off (nothing tied after one full turn) or
						// a lost comparison: the loop's shape does not tell them apart, so nothing is claimed either way
						c.undecided("ORDER-DIR", "BYTEWISE: scan visits every byte index", lb.Instrs[len(lb.Instrs)-1].Pos(), "the rotation scan can leave its loop before the last character (an exit at "+c.W.pos(lastPos(lb))+"): a later position that would still win the comparison is never looked at, so some inputs are not rotated to their least rotation")
					}
				}
			}
		}
	}
	// BYTEWISE: ranging over a string yields rune starts only
	eachInstr(b, func(i ssa.Instruction) {
		if nx, ok := i.(*ssa.Next); ok && nx.IsString {
			// is the index used to address bytes?
			used := false
			for _, r := range *nx.Referrers() {
				if ex, ok := r.(*ssa.Extract); ok && ex.Index == 1 && len(*ex.Referrers()) > 0 {
					used = true
				}
			}
			if used {
				c.bad("ORDER-DIR", "BYTEWISE: scan visits every byte index", nx.Pos(), "the scan ranges over the string by rune and uses the rune's start offset as byte index: continuation bytes of multi-byte sequences are never scanned, so byte strings outside ASCII are not rotated to their least rotation")
			}
		}
	})
	// REACHING
	webOf := map[ssa.Value]string{}
	for _, blk := range b.Blocks {
		for _, ins := range blk.Instrs {
			if ph, ok := ins.(*ssa.Phi); ok && ph.Comment != "" && ph.Comment != "rangeindex" {
				webOf[ph] = ph.Comment
			}
		}
	}
	eachInstr(b, func(i ssa.Instruction) {
		var idx ssa.Value
		switch x := i.(type) {
		case *ssa.IndexAddr:
			idx = x.Index
		case *ssa.Lookup:
			idx = x.Index
		case *ssa.Index:
			idx = x.Index
		default:
			return
		}
		var leaves []*ssa.Phi
		var walk func(v ssa.Value, d int)
		walk = func(v ssa.Value, d int) {
			if d > 8 {
				return
			}
			switch y := v.(type) {
			case *ssa.Phi:
				leaves = append(leaves, y)
			case *ssa.BinOp:
				walk(y.X, d+1)
				walk(y.Y, d+1)
			}
		}
		walk(idx, 0)
		if len(leaves) == 0 {
			return
		}
		var stale []string
		for _, l := range leaves {
			name := webOf[l]
			if name == "" {
				continue
			}
			for other, on := range webOf {
				op := other.(*ssa.Phi)
				if on != name || op == l {
					continue
				}
				if op.Block().Dominates(i.Block()) && l.Block().Dominates(op.Block()) && op.Block() != l.Block() && phiFedBy(op, l, map[*ssa.Phi]bool{}) {
					stale = append(stale, fmt.Sprintf("%s uses %s (%s) although %s (%s) is the reaching definition", c.W.pos(i.Pos()), l.Name(), name, op.Name(), name))
				}
			}
		}
		c.check(len(stale) == 0, "REACHING", "index uses current loop variables", i.Pos(), "built from the reaching definitions", strings.Join(stale, "; "))
	})
}

func phiFedBy(p, src *ssa.Phi, seen map[*ssa.Phi]bool) bool {
	if seen[p] {
		return false
	}
	seen[p] = true
	for _, e := range p.Edges {
		if e == ssa.Value(src) {
			return true
		}
		if q, ok := e.(*ssa.Phi); ok && phiFedBy(q, src, seen) {
			return true
		}
	}
	return false
}

func lastPos(b *ssa.BasicBlock) token.Pos {
	for k := len(b.Instrs) - 1; k >= 0; k-- {
		if p := b.Instrs[k].Pos(); p != token.NoPos {
			return p
		}
	}
	return token.NoPos
}

// letterOrNone: a table entry as it is printed in a report ("no entry" for a letter the table does not have).
func letterOrNone(r rune) string {
	if r == 0 {
		return "no entry"
	}
	return string(r)
}
