package main

// C04 / C05 / C12: seqhash canonical form, format, validation; least rotation window.

import (
	"fmt"
	"go/token"
	"sort"
	"strings"

	"golang.org/x/tools/go/ssa"
)

func init() {
	register("C04", func(c *Ctx) { ruleSeqhash(c, "C04") })
	register("C05", func(c *Ctx) { ruleSeqhash(c, "C05") })
	register("C12", ruleC12)
}

// minOfSortedPair recognises `p := []string{a, b}; sort.Strings(p); p[0]` and returns a, b.
func minOfSortedPair(tb *TermBuilder, v ssa.Value) (a, b *Term, ok bool) {
	ld, isLoad := v.(*ssa.UnOp)
	if !isLoad || ld.Op != token.MUL {
		return
	}
	ia, isIA := ld.X.(*ssa.IndexAddr)
	if !isIA {
		return
	}
	if k, isC := ia.Index.(*ssa.Const); !isC || k.Value == nil || k.Value.ExactString() != "0" {
		return
	}
	sl, isSl := ia.X.(*ssa.Slice)
	if !isSl {
		return
	}
	arr, isAl := sl.X.(*ssa.Alloc)
	if !isAl {
		return
	}
	// sort.Strings(sl) dominates the load; nothing else touches the array between
	sorted := false
	for _, r := range *sl.Referrers() {
		if ci, isCall := r.(ssa.CallInstruction); isCall && calleeName(ci) == "sort.Strings" && domInstr(ci, ld) {
			sorted = true
		}
	}
	if !sorted {
		return
	}
	tb.buildStores()
	var es [2]*Term
	n := 0
	for _, st := range tb.stores[arr] {
		_, p, _ := rootAlloc(st.Addr)
		if len(p) == 1 && (p[0] == "[0]" || p[0] == "[1]") {
			es[int(p[0][1]-'0')] = tb.T(st.Val)
			n++
		}
	}
	if n != 2 || es[0] == nil || es[1] == nil {
		return
	}
	return es[0], es[1], true
}

func ruleSeqhash(c *Ctx, prop string) {
	if prop == "C04" {
		c.Decided = []string{
			"TERM-CANON: with x = U2T?(ToUpper(sequence)) (U->T exactly when type is RNA, applied after upper-casing) the digest input is Min{Rot(x),Rot(RC(x))} / Rot(x) / Min{x,RC(x)} / x for (circular,doubleStranded) = (1,1)/(1,0)/(0,1)/(0,0), for each accepted type; nothing else is hashed",
			"DEPEND: the raw sequence is used only as the operand of strings.ToUpper (case clause)",
			"TERM-FORMAT: the type letter is the only part that differs between RNA and DNA spellings",
			"prerequisites re-run: C11 complement table = oracle and involutive (strand clause), C12 rotation window (rotation clause)",
		}
		c.Undec = []string{"minimality of the rotation index (C12's undecided lemma): rotation invariance = TERM-CANON + 'Rot is canonical'", "collision behaviour of BLAKE3 (trusted)"}
	} else {
		c.Decided = []string{
			"TERM-CANON as in C04 (the canonical representative per flag combination, exhaustive over the 4 valuations and 3 types)",
			"TERM-FORMAT: result = \"v1_\" + T C S + \"_\" + hex(blake3.Sum256(canonical)[:]) with T in {DNA->D,RNA->R,PROTEIN->P}, C: circular->C else L, S: doubleStranded->D else S",
			"GUARD: Sum256 is reached only for a known type, after the per-letter alphabet loop of that type over the same string that is hashed, and never for PROTEIN && doubleStranded; every error return is (\"\", non-nil)",
			"TABLE: nucleotide alphabet contains the 15 IUPAC codes + U; protein alphabet = 20 residues + UO*BXZ; ALPHABET-COMPLEMENT: after normalisation every accepted nucleotide letter is in the complement table's domain and the table is injective on the accepted set",
		}
		c.Undec = []string{"collision resistance of BLAKE3 (trusted)", "minimality of Rot (C12)"}
	}
	c.Trusted = []string{"lukechampine.com/blake3.Sum256, encoding/hex", "strings.ToUpper/ReplaceAll/Contains, sort.Strings"}
	c.floor("TERM-CANON", 12)
	w := c.W
	h := w.fn("seqhash", "Hash")
	if h == nil || len(h.Params) != 4 {
		c.missing("TERM-CANON", "seqhash.Hash", "seqhash.Hash(sequence, sequenceType, circular, doubleStranded)")
		return
	}
	c.useFn(h)
	pSeq, pType, pCirc, pDS := h.Params[0], h.Params[1], h.Params[2], h.Params[3]
	_ = pSeq
	var sum *ssa.Call
	nSum := 0
	eachInstr(h, func(i ssa.Instruction) {
		if cl, ok := i.(*ssa.Call); ok && strings.HasPrefix(calleeName(cl), "lukechampine.com/blake3.Sum") {
			sum = cl
			nSum++
		}
	})
	if nSum != 1 || calleeName(sum) != "lukechampine.com/blake3.Sum256" {
		c.bad("TERM-CANON", "digest", h.Pos(), fmt.Sprintf("%d blake3 digest call sites, want exactly one blake3.Sum256", nSum))
		return
	}
	up := "call[strings.ToUpper](param[0])"
	u2t := `call[strings.ReplaceAll](` + up + `, const["U"], const["T"])`
	rot := func(x string) string { return "call[poly/seqhash.RotateSequence](" + x + ")" }
	rc := func(x string) string { return "call[poly/transform.ReverseComplement](" + x + ")" }
	typeLetter := map[string]string{"DNA": `const["D"]`, "RNA": `const["R"]`, "PROTEIN": `const["P"]`}
	succ := func(tb *TermBuilder) *ssa.Return { return successReturn(tb, h, 1) }
	for _, typ := range []string{"DNA", "RNA", "PROTEIN"} {
		for _, circ := range []bool{true, false} {
			for _, ds := range []bool{true, false} {
				name := fmt.Sprintf("%s circular=%v doubleStranded=%v", typ, circ, ds)
				env := newModeEnv(h, map[*ssa.Parameter]bool{pCirc: circ, pDS: ds}, map[*ssa.Parameter]string{pType: typ})
				tb := newTB(h)
				tb.Choose = env.choose
				if typ == "PROTEIN" && ds {
					c.check(!env.reach[sum.Block()], "GUARD", "rejects "+name, sum.Pos(), "the digest is unreachable for double-stranded proteins", "a double-stranded protein reaches the digest instead of being rejected")
					continue
				}
				if !env.reach[sum.Block()] {
					c.bad("TERM-CANON", name, sum.Pos(), "the digest is unreachable for this accepted combination")
					continue
				}
				x := up
				if typ == "RNA" {
					x = u2t
				}
				// digest argument: conv[[]byte](CANON)
				arg := sum.Call.Args[0]
				cv, isConv := arg.(*ssa.Convert)
				good := false
				got := "?"
				if isConv {
					canon := cv.X
					if p, isPhi := canon.(*ssa.Phi); isPhi {
						if r := env.choose(p); r != nil {
							canon = r
						}
					}
					var want string
					switch {
					case circ && ds:
						a, b, ok := minOfSortedPair(tb, canon)
						if ok {
							got = "Min{" + a.String() + ", " + b.String() + "}"
							pair := []string{a.String(), b.String()}
							sort.Strings(pair)
							wp := []string{rot(x), rot(rc(x))}
							sort.Strings(wp)
							good = pair[0] == wp[0] && pair[1] == wp[1]
						}
						want = "Min{Rot(x), Rot(RC(x))}"
					case circ && !ds:
						got = tb.T(canon).String()
						good = got == rot(x)
						want = "Rot(x)"
					case !circ && ds:
						a, b, ok := minOfSortedPair(tb, canon)
						if ok {
							got = "Min{" + a.String() + ", " + b.String() + "}"
							pair := []string{a.String(), b.String()}
							sort.Strings(pair)
							wp := []string{x, rc(x)}
							sort.Strings(wp)
							good = pair[0] == wp[0] && pair[1] == wp[1]
						}
						want = "Min{x, RC(x)}"
					default:
						got = tb.T(canon).String()
						good = got == x
						want = "x"
					}
					if got == "?" {
						got = tb.T(canon).String()
					}
					c.check(good, "TERM-CANON", name, sum.Pos(), "digest input = "+want+" with x = "+x, "digest input is "+short(got)+"; want "+want+" with x = "+x+" (rotate each strand first, then take the lesser; upper-case first, then U->T for RNA only)")
				} else {
					c.bad("TERM-CANON", name, sum.Pos(), "digest argument is not []byte(<canonical string>)")
				}
				// TERM-FORMAT under this valuation
				if sr := succ(tb); sr != nil {
					parts := tb.T(sr.Results[0]).sumTerms()
					var flat []string
					for _, p := range parts {
						flat = append(flat, p.String())
					}
					cl, sl := `const["L"]`, `const["S"]`
					if circ {
						cl = `const["C"]`
					}
					if ds {
						sl = `const["D"]`
					}
					hex := "call[encoding/hex.EncodeToString](slice(" + tb.T(sum).String() + ", nil, nil))"
					want1 := []string{`const["v1_"]`, typeLetter[typ], cl, sl, `const["_"]`, hex}
					want2 := []string{`const["v1"]`, `const["_"]`, typeLetter[typ], cl, sl, `const["_"]`, hex}
					okF := strings.Join(flat, " ") == strings.Join(want1, " ") || strings.Join(flat, " ") == strings.Join(want2, " ")
					c.check(okF, "TERM-FORMAT", name, sr.Pos(), "v1_"+typeLetter[typ][7:8]+cl[7:8]+sl[7:8]+"_<64 hex digits of Sum256>", "result is "+short(strings.Join(flat, " + "))+"; want v1_ + type/topology/strand letters + _ + hex(Sum256(canonical)[:])")
				} else {
					c.bad("TERM-FORMAT", name, h.Pos(), "no single success return")
				}
			}
		}
	}
	// unknown type is rejected
	{
		env := newModeEnv(h, map[*ssa.Parameter]bool{}, map[*ssa.Parameter]string{pType: "<other>"})
		c.check(!env.reach[sum.Block()], "GUARD", "rejects unknown sequenceType", sum.Pos(), "the digest is unreachable for a type other than DNA/RNA/PROTEIN", "an unknown sequenceType reaches the digest")
	}
	tb := newTB(h)
	// error returns well-formed
	okErr := true
	for _, r := range returnsOf(h) {
		e := tb.T(r.Results[1])
		if e.Op == "const" {
			continue
		}
		if !(tb.T(r.Results[0]).isConst(`""`) && (e.isCall("errors.New") || strings.HasPrefix(e.Name, "fmt.Errorf"))) {
			okErr = false
		}
	}
	c.check(okErr, "GUARD", "error returns are (\"\", non-nil error)", h.Pos(), "every rejecting return yields an empty hash and an error", "a rejecting return yields a hash or a nil error")
	// alphabet loops
	type alpha struct {
		typ   string
		alpha string
		over  string
	}
	var alphas []alpha
	eachInstr(h, func(i ssa.Instruction) {
		cl, ok := i.(*ssa.Call)
		if !ok || calleeName(cl) != "strings.Contains" {
			return
		}
		a, isStr := tb.T(cl.Call.Args[0]).constStr()
		el := tb.T(cl.Call.Args[1])
		if !isStr || !strings.HasPrefix(el.String(), "conv[string](extract[2](next(range(") {
			return
		}
		// miss branch returns an error
		var ifi *ssa.If
		for _, r := range *cl.Referrers() {
			if x, ok := r.(*ssa.If); ok {
				ifi = x
			}
			if u, ok := r.(*ssa.UnOp); ok && u.Op == token.NOT {
				for _, rr := range *u.Referrers() {
					if x, ok := rr.(*ssa.If); ok {
						ifi = x
					}
				}
			}
		}
		if ifi == nil {
			return
		}
		for _, typ := range []string{"DNA", "RNA", "PROTEIN"} {
			env := newModeEnv(h, map[*ssa.Parameter]bool{}, map[*ssa.Parameter]string{pType: typ})
			if env.reach[cl.Block()] {
				etb := newTB(h)
				etb.Choose = env.choose
				over := etb.T(cl.Call.Args[1]).String()
				alphas = append(alphas, alpha{typ, a, over})
			}
		}
	})
	comp, _, haveComp := complementTable(c, "TERM-CANON")
	for _, typ := range []string{"DNA", "RNA", "PROTEIN"} {
		x := up
		if typ == "RNA" {
			x = u2t
		}
		var mine []alpha
		for _, a := range alphas {
			if a.typ == typ {
				mine = append(mine, a)
			}
		}
		wantOver := "conv[string](extract[2](next(range(" + x + "))))"
		good := len(mine) == 1 && mine[0].over == wantOver
		why := fmt.Sprintf("%d per-letter membership loops run for %s, want exactly one over the string that is hashed", len(mine), typ)
		if len(mine) == 1 && !good {
			why = "letters checked are those of " + short(mine[0].over) + "; the hashed string is " + x
		}
		c.check(good, "GUARD", "alphabet loop for "+typ+" over the hashed string", h.Pos(), "every letter of the normalised sequence is tested with strings.Contains(alphabet, letter); a miss returns an error", why)
		if len(mine) != 1 {
			continue
		}
		al := mine[0].alpha
		if typ == "PROTEIN" {
			wantSet := aa20 + "UO*BXZ"
			c.check(sameSet(al, wantSet), "TABLE", "protein alphabet", h.Pos(), "20 residues + U O * B X Z", fmt.Sprintf("protein alphabet %q differs from %q", al, wantSet))
			continue
		}
		var miss []string
		for _, r := range iupac15 + "U" {
			if !strings.ContainsRune(al, r) {
				miss = append(miss, string(r))
			}
		}
		c.check(len(miss) == 0, "TABLE", "nucleotide alphabet ("+typ+")", h.Pos(), "contains the 15 IUPAC codes and U", "nucleotide alphabet "+al+" lacks "+strings.Join(miss, ","))
		if prop == "C05" && haveComp {
			// ALPHABET-COMPLEMENT: accepted letters after normalisation
			accepted := map[rune]bool{}
			for _, r := range al {
				if typ == "RNA" && r == 'U' {
					continue // rewritten to T before the check
				}
				accepted[r] = true
			}
			img := map[rune][]rune{}
			var letters []rune
			for r := range accepted {
				letters = append(letters, r)
			}
			sort.Slice(letters, func(i, j int) bool { return letters[i] < letters[j] })
			for _, r := range letters {
				cr, in := comp[r]
				if !in {
					c.bad("TABLE", fmt.Sprintf("ALPHABET-COMPLEMENT/%s:%c", typ, r), h.Pos(), fmt.Sprintf("letter %c is accepted for %s but is outside the complement table: the 'other strand' of a sequence containing it is not a sequence (NUL letters), so the hashed representative is not a strand", r, typ))
					continue
				}
				img[cr] = append(img[cr], r)
			}
			var keys []rune
			for k := range img {
				keys = append(keys, k)
			}
			sort.Slice(keys, func(i, j int) bool { return keys[i] < keys[j] })
			for _, k := range keys {
				if len(img[k]) > 1 {
					c.bad("TABLE", fmt.Sprintf("ALPHABET-COMPLEMENT/%s:%s", typ, string(img[k])), h.Pos(), fmt.Sprintf("accepted letters %q all complement to %c: two different double-stranded %s molecules (e.g. %c%c and %c%c) share a reverse complement and therefore a seqhash", string(img[k]), k, typ, img[k][0], img[k][0], img[k][1], img[k][1]))
				}
			}
			if len(c.Obs) > 0 {
				c.ok("TABLE", "ALPHABET-COMPLEMENT/"+typ+":checked", h.Pos(), fmt.Sprintf("%d accepted letters examined against the complement table", len(letters)))
			}
		}
	}
	// DEPEND
	raw := rawParamUses(tb, h, 0, "strings.ToUpper")
	c.check(len(raw) == 0, "DEPEND", "raw sequence only under ToUpper", h.Pos(), "letter case cannot influence the hash", "the raw sequence is used without upper-casing by: "+strings.Join(raw, ", "))
	// prerequisites
	if haveComp {
		orc := oracleComplement()
		var diffs []string
		for k, v := range orc {
			if comp[k] != v {
				diffs = append(diffs, fmt.Sprintf("%c->%c (want %c)", k, comp[k], v))
			}
		}
		sort.Strings(diffs)
		c.check(len(diffs) == 0, "TERM-CANON", "prerequisite C11: complement table = oracle", h.Pos(), "strand invariance rests on comp being the involutive IUPAC complement", strings.Join(diffs, "; "))
	}
	checkRCShape(c, "TERM-CANON")
	checkRotateWindow(c, "TERM-CANON")
}

func sameSet(a, b string) bool {
	m := map[rune]int{}
	for _, r := range a {
		m[r] |= 1
	}
	for _, r := range b {
		m[r] |= 2
	}
	for _, v := range m {
		if v != 3 {
			return false
		}
	}
	return len(a) == len(b)
}

// checkRCShape: ReverseComplement = reversal of Map(ComplementBase) (prerequisite shared with C11).
func checkRCShape(c *Ctx, rule string) {
	f := c.W.fn("transform", "ReverseComplement")
	if f == nil {
		c.missing(rule, "prerequisite C11: ReverseComplement", "transform.ReverseComplement")
		return
	}
	c.useFn(f)
	tb := newTB(f)
	src, why := descendingFill(tb, f)
	good := src != nil && src.String() == "call[strings.Map](func[poly/transform.ComplementBase], param[0])"
	c.check(good, rule, "prerequisite C11: ReverseComplement = reversal∘complement", f.Pos(), "as decided by C11", "ReverseComplement is not exactly reversal∘complement: "+why)
}

// checkRotateWindow: RotateSequence(s) = (s+s)[k : k+len(s)], k = boothLeastRotation(s).
func checkRotateWindow(c *Ctx, rule string) {
	f := c.W.fn("seqhash", "RotateSequence")
	if f == nil {
		c.missing(rule, "RotateSequence", "seqhash.RotateSequence")
		return
	}
	c.useFn(f)
	tb := newTB(f)
	rt, _, ok := singleReturnTerm(f, 0)
	good := false
	why := "several returns"
	if ok {
		why = "result is " + short(rt.String())
		if rt.Op == "slice" {
			k := "call[poly/seqhash.boothLeastRotation](param[0])"
			dbl := rt.Args[0]
			isDouble := dbl.String() == "binop[+](param[0], param[0])"
			if dbl.isCall("(*strings.Builder).String") {
				ws := bufWrites(f, tb, dbl.Args[0].String())
				isDouble = len(ws) == 2 && ws[0].arg.isParam(0) && ws[1].arg.isParam(0)
			}
			hb, _ := rt.Args[2].linear()
			_ = hb
			hiOK := rt.Args[2].String() == "binop[+](call[builtin:len](param[0]), "+k+")" || rt.Args[2].String() == "binop[+]("+k+", call[builtin:len](param[0]))"
			good = isDouble && rt.Args[1].String() == k && hiOK
		}
	}
	c.check(good, rule, "RotateSequence = (s+s)[k:k+len(s)], k=boothLeastRotation(s)", f.Pos(), "a length-len(s) window of the doubled string: a rotation whenever it returns, also for the empty string", why+"; want (s+s)[k:k+len(s)]")
}

func ruleC12(c *Ctx) {
	c.Decided = []string{
		"TERM: RotateSequence(s) returns (s+s)[k:k+len(s)] with k = boothLeastRotation(s): by Go's slice bounds the result is a length-len(s) window of s+s, i.e. a rotation (same letters, same cyclic order), and the empty string is handled without arithmetic on its length",
		"ORDER-DIR: every ordering comparison between sequence bytes in boothLeastRotation is 'new character < reference character' on uint8 (minimising, bytewise)",
		"REACHING: every index into the failure table / doubled string is built from the reaching definitions of the loop-carried variables at that access (no stale copy of leastRotationIndex or failure)",
	}
	c.Undec = []string{"MINIMALITY: correctness of the failure-function scan (that k is the start of the least rotation) and k < len(s): algorithmic, needs a loop-invariant proof; C04/C05 name it as their assumed lemma"}
	c.floor("TERM", 1)
	c.floor("ORDER-DIR", 2)
	c.floor("REACHING", 4)
	checkRotateWindow(c, "TERM")
	w := c.W
	b := w.fn("seqhash", "boothLeastRotation")
	if b == nil {
		c.missing("ORDER-DIR", "boothLeastRotation", "seqhash.boothLeastRotation")
		return
	}
	c.useFn(b)
	// the current character: t8 = doubled[characterIndex]
	n := 0
	eachInstr(b, func(i ssa.Instruction) {
		bo, ok := i.(*ssa.BinOp)
		if !ok {
			return
		}
		switch bo.Op {
		case token.LSS, token.GTR, token.LEQ, token.GEQ:
		default:
			return
		}
		if tname(bo.X.Type()) != "uint8" && tname(bo.X.Type()) != "byte" {
			return
		}
		n++
		// left operand must be the byte at the loop's characterIndex (a phi stepping by +1), op must be <
		var lkIndex ssa.Value
		switch lk := bo.X.(type) {
		case *ssa.Lookup:
			lkIndex = lk.Index
		case *ssa.Index:
			lkIndex = lk.Index
		}
		good := bo.Op == token.LSS && lkIndex != nil
		if good {
			ph, isPhi := lkIndex.(*ssa.Phi)
			good = isPhi
			if isPhi {
				step := false
				for _, e := range ph.Edges {
					if be, ok := e.(*ssa.BinOp); ok && be.Op == token.ADD && be.X == ssa.Value(ph) {
						step = true
					}
				}
				good = step
			}
		}
		c.check(good, "ORDER-DIR", "character < reference", bo.Pos(), "the scanned character is compared with '<' against the reference (smallest rotation wins)", "a byte comparison in the rotation scan is not 'current character < reference': the scan would select a greater rotation")
	})
	if n == 0 {
		c.bad("ORDER-DIR", "comparisons", b.Pos(), "no byte ordering comparison found (unrecognised shape)")
	}
	// REACHING
	webOf := map[ssa.Value]string{}
	for _, blk := range b.Blocks {
		for _, ins := range blk.Instrs {
			if ph, ok := ins.(*ssa.Phi); ok && ph.Comment != "" && ph.Comment != "rangeindex" {
				webOf[ph] = ph.Comment
			}
		}
	}
	eachInstr(b, func(i ssa.Instruction) {
		var idx ssa.Value
		switch x := i.(type) {
		case *ssa.IndexAddr:
			idx = x.Index
		case *ssa.Lookup:
			idx = x.Index
		case *ssa.Index:
			idx = x.Index
		default:
			return
		}
		// expand through arithmetic to phi leaves
		var leaves []*ssa.Phi
		var walk func(v ssa.Value, d int)
		walk = func(v ssa.Value, d int) {
			if d > 8 {
				return
			}
			switch y := v.(type) {
			case *ssa.Phi:
				leaves = append(leaves, y)
			case *ssa.BinOp:
				walk(y.X, d+1)
				walk(y.Y, d+1)
			}
		}
		walk(idx, 0)
		if len(leaves) == 0 {
			return
		}
		var stale []string
		for _, l := range leaves {
			name := webOf[l]
			if name == "" {
				continue
			}
			// a newer phi of the same variable that dominates this access and is fed (transitively) by l
			for other, on := range webOf {
				op := other.(*ssa.Phi)
				if on != name || op == l {
					continue
				}
				if op.Block().Dominates(i.Block()) && l.Block().Dominates(op.Block()) && op.Block() != l.Block() && phiFedBy(op, l, map[*ssa.Phi]bool{}) {
					stale = append(stale, fmt.Sprintf("%s uses %s (%s) although %s (%s) is the reaching definition", c.W.pos(i.Pos()), l.Name(), name, op.Name(), name))
				}
			}
		}
		c.check(len(stale) == 0, "REACHING", "index uses current loop variables", i.Pos(), "built from the reaching definitions", strings.Join(stale, "; "))
	})
}

func phiFedBy(p, src *ssa.Phi, seen map[*ssa.Phi]bool) bool {
	if seen[p] {
		return false
	}
	seen[p] = true
	for _, e := range p.Edges {
		if e == ssa.Value(src) {
			return true
		}
		if q, ok := e.(*ssa.Phi); ok && phiFedBy(q, src, seen) {
			return true
		}
	}
	return false
}
