package main

// C17 De Bruijn barcodes are unique, non-overlapping in n-mers and ban-free.

import (
	"fmt"
	"go/token"
	"strings"

	"golang.org/x/tools/go/ssa"
)

func init() { register("C17", ruleC17) }

// proveParallel shows, coinductively over the phi webs, that values a and b evolve in lock step:
// they are phis of the same block whose incoming values are pairwise parallel, or both "x + k" with
// the same constant k over parallel x's, bottoming out at the pair (baseA, baseB).
// This is an inductive-invariant check over SSA (greatest fixpoint), not path exploration.
func proveParallel(a, b, baseA, baseB ssa.Value, assumed map[[2]ssa.Value]bool) bool {
	if a == baseA && b == baseB {
		return true
	}
	key := [2]ssa.Value{a, b}
	if assumed[key] {
		return true
	}
	pa, okA := a.(*ssa.Phi)
	pb, okB := b.(*ssa.Phi)
	if okA && okB {
		if pa.Block() != pb.Block() || len(pa.Edges) != len(pb.Edges) {
			return false
		}
		assumed[key] = true
		for i := range pa.Edges {
			if !proveParallel(pa.Edges[i], pb.Edges[i], baseA, baseB, assumed) {
				return false
			}
		}
		return true
	}
	ba, okA := a.(*ssa.BinOp)
	bb, okB := b.(*ssa.BinOp)
	if okA && okB && ba.Op == token.ADD && bb.Op == token.ADD && ba.Block() == bb.Block() {
		ca, ok1 := ba.Y.(*ssa.Const)
		cb, ok2 := bb.Y.(*ssa.Const)
		if ok1 && ok2 && ca.Value != nil && cb.Value != nil && ca.Value.ExactString() == cb.Value.ExactString() {
			return proveParallel(ba.X, bb.X, baseA, baseB, assumed)
		}
	}
	return false
}

// webRoots finds the non-phi, non-(+const) values at the bottom of v's phi web.
func webRoots(v ssa.Value) []ssa.Value {
	seen := map[ssa.Value]bool{}
	var roots []ssa.Value
	var walk func(v ssa.Value)
	walk = func(v ssa.Value) {
		if seen[v] {
			return
		}
		seen[v] = true
		switch x := v.(type) {
		case *ssa.Phi:
			for _, e := range x.Edges {
				walk(e)
			}
			return
		case *ssa.BinOp:
			if x.Op == token.ADD {
				if _, ok := x.Y.(*ssa.Const); ok {
					walk(x.X)
					return
				}
			}
		}
		roots = append(roots, v)
	}
	walk(v)
	return roots
}

// shiftBlocks lists blocks that define "x + 1" inside v's phi web.
func shiftSites(v ssa.Value) []*ssa.BinOp {
	seen := map[ssa.Value]bool{}
	var out []*ssa.BinOp
	var walk func(v ssa.Value)
	walk = func(v ssa.Value) {
		if seen[v] {
			return
		}
		seen[v] = true
		switch x := v.(type) {
		case *ssa.Phi:
			for _, e := range x.Edges {
				walk(e)
			}
		case *ssa.BinOp:
			if x.Op == token.ADD {
				if _, ok := x.Y.(*ssa.Const); ok {
					out = append(out, x)
					walk(x.X)
				}
			}
		}
	}
	walk(v)
	return out
}

func ruleC17(c *Ctx) {
	c.Decided = []string{
		"TABLE: alphabet constant has 4 distinct letters, all in ACGT; TERM: sequence = b + b[0:n-1] (cyclic closure) and every letter is alphabet[i]",
		"INVARIANT: every appended barcode is debruijn[start:end] with end-start = length at the append (lock-step invariant over the loop's phis)",
		"STRIDE: window start = barcodeNum*(length-(n-1)); every +1 shift of the window also advances barcodeNum, so consecutive windows overlap in at most n-1 letters given the De Bruijn property",
		"RETEST: every shift sits in a loop whose condition re-evaluates the same test on the shifted window, bounded by the end of the sequence",
		"FRESHCHECK: the appended window is the one for which ALL ban / reverse-complement / filter tests were last evaluated (a later shift must restart the earlier tests)",
	}
	c.Undec = []string{"that the Lyndon-word construction yields a De Bruijn sequence (length 4^n+n-1, every word once) – algorithmic"}
	c.Trusted = []string{"strings.Contains", "C11 (reverse complement)"}
	c.floor("TABLE", 1)
	c.floor("TERM", 2)
	c.floor("INVARIANT", 1)
	c.floor("STRIDE", 2)
	c.floor("RETEST", 3)
	c.floor("FRESHCHECK", 1)
	w := c.W
	gen := w.fn("primers", "NucleobaseDeBruijnSequence")
	cb := w.fn("primers", "CreateBarcodesWithBannedSequences")
	if gen == nil || cb == nil {
		c.missing("TERM", "primers.NucleobaseDeBruijnSequence/CreateBarcodesWithBannedSequences", "exported barcode functions")
		return
	}
	c.useFn(gen)
	c.useFn(cb)
	// ---- generator
	gtb := newTB(gen)
	rt, _, ok := singleReturnTerm(gen, 0)
	good := false
	var alpha string
	if ok && rt.isBin("+") && rt.Args[0].isCall("(*bytes.Buffer).String") {
		b := rt.Args[0].String()
		sfx := rt.Args[1]
		if sfx.Op == "slice" && sfx.Args[0].String() == b && sfx.Args[1].isConst("0") {
			base, k := sfx.Args[2].linear()
			good = base != nil && base.isParam(0) && k == -1
		}
		ws := bufWrites(gen, gtb, rt.Args[0].Args[0].String())
		okW := len(ws) == 1
		if okW {
			a := ws[0].arg
			if a.Op == "index" || a.Op == "each" {
				if s, isStr := a.Args[0].constStr(); isStr {
					alpha = s
				}
			}
			okW = alpha != ""
		}
		c.check(okW, "TERM", "letters=alphabet[i]", gen.Pos(), "every emitted letter is alphabet[i] for a generated index i", "the generator does not emit exactly alphabet[i] per generated index (unrecognised shape)")
	}
	c.check(good, "TERM", "result=b+b[0:n-1]", gen.Pos(), "cyclic closure: the first n-1 letters are appended", "result is "+short(fmt.Sprint(rt))+"; want b + b[0:n-1]")
	distinct := map[rune]bool{}
	inACGT := true
	for _, r := range alpha {
		distinct[r] = true
		if !strings.ContainsRune("ACGT", r) {
			inACGT = false
		}
	}
	c.check(len(alpha) == 4 && len(distinct) == 4 && inACGT, "TABLE", "alphabet", gen.Pos(), fmt.Sprintf("alphabet %q: 4 distinct letters of ACGT", alpha), fmt.Sprintf("alphabet %q is not a permutation of ACGT", alpha))

	// ---- barcodes
	tb := newTB(cb)
	var app *ssa.Call
	nApp := 0
	eachInstr(cb, func(i ssa.Instruction) {
		if cl, ok := i.(*ssa.Call); ok && calleeName(cl) == "builtin:append" && tname(cl.Type()) == "[]string" {
			app = cl
			nApp++
		}
	})
	if nApp != 1 {
		c.bad("INVARIANT", "append site", cb.Pos(), fmt.Sprintf("%d append sites for barcodes, want 1", nApp))
		return
	}
	// the appended element: slice(debruijn, S, E)
	var win *ssa.Slice
	at := tb.T(app)
	at.Args[1].walk(func(x *Term) {
		if x.Op == "partial" {
			if s, ok := x.Args[0].V.(*ssa.Slice); ok {
				win = s
			}
		}
	})
	deb := "call[poly/primers.NucleobaseDeBruijnSequence](param[1])"
	if win == nil || tb.T(win.X).String() != deb || win.Low == nil || win.High == nil {
		c.bad("INVARIANT", "barcode=debruijn[start:end]", app.Pos(), "the appended barcode is not a window debruijn[start:end] of NucleobaseDeBruijnSequence(maxSubSequence)")
		return
	}
	S, E := win.Low, win.High
	// roots
	sr, er := webRoots(S), webRoots(E)
	if len(sr) != 1 || len(er) != 1 {
		c.bad("INVARIANT", "end-start=length", app.Pos(), fmt.Sprintf("window bounds have %d/%d initialisations, want one each (unrecognised shape)", len(sr), len(er)))
		return
	}
	eb, ek := tb.T(er[0]).linear()
	_ = ek
	okInit := false
	if e0, ok := er[0].(*ssa.BinOp); ok && e0.Op == token.ADD {
		okInit = (e0.X == sr[0] && tb.T(e0.Y).isParam(0)) || (e0.Y == sr[0] && tb.T(e0.X).isParam(0))
	}
	_ = eb
	par := proveParallel(E, S, er[0], sr[0], map[[2]ssa.Value]bool{})
	c.check(okInit && par, "INVARIANT", "end-start=length", app.Pos(), "end is initialised to start+length and every update moves both by the same amount", fmt.Sprintf("cannot show end-start == length at the append (end0 = start0+length: %v; updates in lock step: %v)", okInit, par))
	// STRIDE
	st := tb.T(sr[0])
	strideOK := false
	var numRoot ssa.Value
	if b0, ok := sr[0].(*ssa.BinOp); ok && b0.Op == token.MUL {
		for k := 0; k < 2; k++ {
			x, y := b0.X, b0.Y
			if k == 1 {
				x, y = y, x
			}
			if tb.T(y).String() == "binop[-](param[0], binop[-](param[1], const[1]))" {
				if _, isPhi := x.(*ssa.Phi); isPhi {
					strideOK = true
					numRoot = x
				}
			}
		}
	}
	c.check(strideOK, "STRIDE", "start0=barcodeNum*(length-(n-1))", app.Pos(), "stride leaves n-1 letters of overlap", "window start is "+short(st.String())+"; want barcodeNum*(length-(maxSubSequence-1))")
	if strideOK {
		// barcodeNum' feeding the outer phi must be parallel to S from (numRoot+1, start0), and the outer phi = phi(0, that)
		ph := numRoot.(*ssa.Phi)
		okNum := len(ph.Edges) == 2
		var next ssa.Value
		for _, e := range ph.Edges {
			if tb.T(e).isConst("0") {
				continue
			}
			next = e
		}
		coupled := false
		if okNum && next != nil {
			// find N base: numRoot + 1
			for _, r := range webRoots(next) {
				if r == numRoot {
					// base is numRoot itself: the increment is part of the web: find the x+1 whose X is numRoot
				}
			}
			var nbase ssa.Value
			for _, s := range shiftSites(next) {
				if s.X == numRoot {
					nbase = s
				}
			}
			if nbase != nil {
				coupled = proveParallel(next, S, nbase, sr[0], map[[2]ssa.Value]bool{})
			}
		}
		c.check(coupled, "STRIDE", "every window shift also advances barcodeNum", app.Pos(), "barcodeNum starts at num+1 and is incremented in lock step with start/end, so the next window begins at or after end-(n-1)", "a +1 shift of the window is not matched by barcodeNum+1 (or barcodeNum is not advanced once per barcode): the next stride window overlaps the shifted barcode in an n-mer")
	}
	// RETEST + FRESHCHECK
	shifts := shiftSites(S)
	var testLoops []*ssa.BasicBlock // headers of loops iterating over tests (range over bans / functions)
	nShift := 0
	for _, sh := range shifts {
		if sh == sr[0] {
			continue
		}
		nShift++
		blk := sh.Block()
		// the loop containing the shift: header = nearest dominator that is a loop header reaching blk
		hdr := enclosingLoopHeader(blk)
		okRetest := false
		why := "shift is not inside a loop"
		var testDesc string
		if hdr != nil {
			if ifi, ok := hdr.Instrs[len(hdr.Instrs)-1].(*ssa.If); ok {
				cond := tb.T(ifi.Cond)
				// the loop condition must be a call taking debruijn[start':end'] where start' is the header phi merged with this shift
				usesWindow := false
				cond.walk(func(x *Term) {
					if sl, ok := x.V.(*ssa.Slice); ok && x.Op == "slice" && tb.T(sl.X).String() == deb {
						if ph, ok := sl.Low.(*ssa.Phi); ok && ph.Block() == hdr {
							for _, e := range ph.Edges {
								if e == ssa.Value(sh) {
									usesWindow = true
								}
							}
						}
					}
				})
				testDesc = cond.Name
				if cond.Op == "unop" && len(cond.Args) == 1 {
					testDesc = cond.Args[0].Name
				}
				if testDesc == "?" || testDesc == "" {
					testDesc = "filter"
				}
				if cond.contains(func(x *Term) bool { return x.isCall("poly/transform.ReverseComplement") }) {
					testDesc += "(rc)"
				}
				okRetest = usesWindow
				why = "the loop around the shift does not re-test the shifted window"
				// bound check: a return guarded by end+1 > len(debruijn) dominates the shift
				bounded := false
				for d := blk; d != nil && d != hdr; d = d.Idom() {
					p := d.Idom()
					if p == nil {
						break
					}
					if ifi, ok := p.Instrs[len(p.Instrs)-1].(*ssa.If); ok {
						g := tb.T(ifi.Cond)
						if g.Op == "binop" && strings.Contains(g.String(), "call[builtin:len]("+deb+")") {
							bounded = true
						}
					}
				}
				if !bounded {
					okRetest = false
					why = "the shift is not bounded by the end of the De Bruijn sequence"
				}
			}
		}
		c.check(okRetest, "RETEST", "shift after "+testDesc, sh.Pos(), "the shifted window is re-tested by the loop condition and bounded by len(debruijn)", why)
		// FRESHCHECK: every path from this shift to the append must re-enter, from outside, every loop that iterates over tests
		if len(testLoops) == 0 {
			for _, b := range cb.Blocks {
				for _, ins := range b.Instrs {
					if ph, ok := ins.(*ssa.Phi); ok && ph.Comment == "rangeindex" {
						testLoops = append(testLoops, b)
					}
				}
			}
		}
		var stale []string
		for _, lh := range testLoops {
			// pre-header edges: preds of lh that lh does not dominate
			avoid := map[*ssa.BasicBlock]bool{}
			for _, p := range lh.Preds {
				if !lh.Dominates(p) {
					avoid[p] = true
				}
			}
			if reachesAvoiding(blk, app.Block(), avoid) {
				stale = append(stale, "loop at "+c.W.pos(lh.Instrs[0].Pos()))
			}
		}
		c.check(len(stale) == 0, "FRESHCHECK", "tests restarted after shift in "+testDesc, sh.Pos(), "after this shift every test loop is restarted before the barcode is accepted", "after this shift the barcode can be appended without re-running the tests of "+strings.Join(stale, ", ")+": an earlier verdict (ban, reverse complement or filter) is stale for the shifted window")
	}
	if nShift == 0 {
		c.bad("RETEST", "shifts", cb.Pos(), "no window shift found (unrecognised shape)")
	}
	// every test guards the append: bans, rc(bans) and filters are each consulted
	var haveBan, haveRC, haveFn bool
	eachInstr(cb, func(i ssa.Instruction) {
		if cl, ok := i.(*ssa.Call); ok {
			t := tb.T(cl)
			if t.isCall("strings.Contains") && strings.HasPrefix(t.Args[0].String(), "slice("+deb) {
				if t.Args[1].String() == "each(param[2])" {
					haveBan = true
				}
				if t.Args[1].String() == "call[poly/transform.ReverseComplement](each(param[2]))" {
					haveRC = true
				}
			}
			if t.Op == "call" && t.Name == "?" && len(t.Args) == 2 && t.Args[0].String() == "each(param[3])" && strings.HasPrefix(t.Args[1].String(), "slice("+deb) {
				haveFn = true
			}
		}
	})
	c.check(haveBan && haveRC && haveFn, "RETEST", "all three test kinds present", cb.Pos(), "window tested against each ban, each reverse-complemented ban and each filter", fmt.Sprintf("tests present: ban=%v rc(ban)=%v filter=%v", haveBan, haveRC, haveFn))
	// CreateBarcodes wrapper
	checkReturnIs(c, "TERM", "CreateBarcodes", w.fn("primers", "CreateBarcodes"), 0, "call[poly/primers.CreateBarcodesWithBannedSequences](param[0], param[1], slice(zero[[0]string], nil, nil), slice(zero[[0]func(string) bool], nil, nil))", "CreateBarcodes = CreateBarcodesWithBannedSequences(length, n, none, none)")
}
