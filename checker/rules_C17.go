package main

// C17 De Bruijn barcodes are unique, non-overlapping in n-mers and ban-free.

import (
	"fmt"
	"go/token"
	"sort"
	"strings"

	"golang.org/x/tools/go/ssa"
)

func init() { register("C17", ruleC17) }

// naturalLoopOf: the blocks of the natural loop with header h (h, and every block that reaches a
// back-edge tail of h without passing h).
func naturalLoopOf(h *ssa.BasicBlock) map[*ssa.BasicBlock]bool {
	in := map[*ssa.BasicBlock]bool{h: true}
	var work []*ssa.BasicBlock
	for _, p := range h.Preds {
		if h.Dominates(p) && !in[p] {
			in[p] = true
			work = append(work, p)
		}
	}
	for len(work) > 0 {
		b := work[len(work)-1]
		work = work[:len(work)-1]
		for _, p := range b.Preds {
			if !in[p] {
				in[p] = true
				work = append(work, p)
			}
		}
	}
	return in
}

// proveParallel shows, coinductively over the phi webs, that values a and b evolve in lock step:
// they are phis of the same block whose incoming values are pairwise parallel, or both "x + k" with
// the same constant k over parallel x's, bottoming out at the pair (baseA, baseB).
// This is an inductive-invariant check over SSA (greatest fixpoint), not path exploration.
func proveParallel(a, b, baseA, baseB ssa.Value, assumed map[[2]ssa.Value]bool) bool {
	if a == baseA && b == baseB {
		return true
	}
	key := [2]ssa.Value{a, b}
	if assumed[key] {
		return true
	}
	pa, okA := a.(*ssa.Phi)
	pb, okB := b.(*ssa.Phi)
	if okA && okB {
		if pa.Block() != pb.Block() || len(pa.Edges) != len(pb.Edges) {
			return false
		}
		assumed[key] = true
		for i := range pa.Edges {
			if !proveParallel(pa.Edges[i], pb.Edges[i], baseA, baseB, assumed) {
				return false
			}
		}
		return true
	}
	ba, okA := a.(*ssa.BinOp)
	bb, okB := b.(*ssa.BinOp)
	if okA && okB && ba.Op == token.ADD && bb.Op == token.ADD && ba.Block() == bb.Block() {
		ca, ok1 := ba.Y.(*ssa.Const)
		cb, ok2 := bb.Y.(*ssa.Const)
		if ok1 && ok2 && ca.Value != nil && cb.Value != nil && ca.Value.ExactString() == cb.Value.ExactString() {
			return proveParallel(ba.X, bb.X, baseA, baseB, assumed)
		}
		if !ok1 && !ok2 && ba.Y == bb.Y {
			return proveParallel(ba.X, bb.X, baseA, baseB, assumed)
		}
	}
	return false
}

// webRoots finds the non-phi, non-(+const) values at the bottom of v's phi web.
func webRoots(v ssa.Value) []ssa.Value {
	seen := map[ssa.Value]bool{}
	var roots []ssa.Value
	var walk func(v ssa.Value)
	walk = func(v ssa.Value) {
		if seen[v] {
			return
		}
		seen[v] = true
		switch x := v.(type) {
		case *ssa.Phi:
			for _, e := range x.Edges {
				walk(e)
			}
			return
		case *ssa.BinOp:
			if x.Op == token.ADD {
				if _, ok := x.Y.(*ssa.Const); ok {
					walk(x.X)
					return
				}
				if _, isPhi := x.X.(*ssa.Phi); isPhi && x.Block() != nil && inLoop(x.Block()) && !isMulOrParam(x.Y) {
					walk(x.X) // x += y with a computed y inside a loop
					return
				}
			}
		}
		roots = append(roots, v)
	}
	walk(v)
	return roots
}

// shiftBlocks lists blocks that define "x + 1" inside v's phi web.
func shiftSites(v ssa.Value) []*ssa.BinOp {
	seen := map[ssa.Value]bool{}
	var out []*ssa.BinOp
	var walk func(v ssa.Value)
	walk = func(v ssa.Value) {
		if seen[v] {
			return
		}
		seen[v] = true
		switch x := v.(type) {
		case *ssa.Phi:
			for _, e := range x.Edges {
				walk(e)
			}
		case *ssa.BinOp:
			if x.Op == token.ADD {
				if _, ok := x.Y.(*ssa.Const); ok {
					out = append(out, x)
					walk(x.X)
				} else if _, isPhi := x.X.(*ssa.Phi); isPhi && inLoop(x.Block()) && !isMulOrParam(x.Y) {
					out = append(out, x)
					walk(x.X)
				}
			}
		}
	}
	walk(v)
	return out
}

// isMulOrParam: y is a parameter or a product - the shape of "start + length" / "num*stride", i.e. an
// initialisation of a bound rather than a shift of it.
func isMulOrParam(y ssa.Value) bool {
	switch x := y.(type) {
	case *ssa.Parameter:
		return true
	case *ssa.BinOp:
		return x.Op == token.MUL
	}
	return false
}

func ruleC17(c *Ctx) {
	c.Decided = []string{
		"TABLE: alphabet constant has 4 distinct letters, all in ACGT; TERM: sequence = b + b[0:n-1] (cyclic closure) and every letter is alphabet[i]",
		"INVARIANT: every appended barcode is debruijn[start:end] with end-start = length at the append (lock-step invariant over the loop's phis)",
		"STRIDE: window start = barcodeNum*(length-(n-1)); every +1 shift of the window also advances barcodeNum, so consecutive windows overlap in at most n-1 letters given the De Bruijn property",
		"RETEST: every shift sits in a loop whose condition re-evaluates the same test on the shifted window, bounded by the end of the sequence",
		"FRESHCHECK: the appended window is the one for which ALL ban / reverse-complement / filter tests were last evaluated (a later shift must restart the earlier tests)",
	}
	c.Undec = []string{"that the Lyndon-word construction yields a De Bruijn sequence (length 4^n+n-1, every word once) – algorithmic"}
	c.Trusted = []string{"strings.Contains", "C11 (reverse complement)"}
	c.floor("TABLE", 1)
	c.floor("TERM", 2)
	c.floor("INVARIANT", 1)
	c.floor("STRIDE", 2)
	c.floor("RETEST", 3)
	c.floor("FRESHCHECK", 1)
	w := c.W
	gen := w.fn("primers", "NucleobaseDeBruijnSequence")
	cb := w.fn("primers", "CreateBarcodesWithBannedSequences")
	if gen == nil || cb == nil {
		c.missing("TERM", "primers.NucleobaseDeBruijnSequence/CreateBarcodesWithBannedSequences", "exported barcode functions")
		return
	}
	c.useFn(gen)
	c.useFn(cb)
	// "the reverse complement of a banned sequence" is C11's; barcodes are made of A, C, G, T only
	checkRCShape(c, "TERM")
	checkComplementOracleOn(c, "TERM", "ACGT")
	// ---- generator
	gtb := newTB(gen)
	// the alphabet: a constant string indexed by a generated digit, in the generator or its closures
	alphaSet := map[string]bool{}
	gfs := append([]*ssa.Function{gen}, gen.AnonFuncs...)
	for _, f := range gfs {
		ftb := newTB(f)
		eachInstr(f, func(i ssa.Instruction) {
			var x ssa.Value
			switch v := i.(type) {
			case *ssa.Index:
				x = v.X
			case *ssa.Lookup:
				x = v.X
			}
			if x != nil && isStringType(x.Type()) {
				if str, ok := ftb.T(x).constStr(); ok {
					alphaSet[str] = true
				}
			}
		})
	}
	if len(alphaSet) != 1 {
		c.undecided("TABLE", "alphabet", gen.Pos(), fmt.Sprintf("%d constant strings are indexed in the generator, the model needs 1", len(alphaSet)))
	} else {
		var alpha string
		for a := range alphaSet {
			alpha = a
		}
		distinct := map[rune]bool{}
		inACGT := true
		for _, r := range alpha {
			distinct[r] = true
			if !strings.ContainsRune("ACGT", r) {
				inACGT = false
			}
		}
		c.check(len(alpha) == 4 && len(distinct) == 4 && inACGT, "TABLE", "alphabet", gen.Pos(), fmt.Sprintf("alphabet %q: 4 distinct letters of ACGT", alpha), fmt.Sprintf("alphabet %q is not a permutation of ACGT: the sequence is not over A, T, G, C or misses words", alpha))
	}
	// cyclic closure: result = b + b[0:n-1]
	stG, whyG := unknown, "the result is not of the form b + b[0:k]"
	var rt *Term
	if alts := resultAlts(gtb, gen, 0); len(alts) == 1 {
		rt = alts[0].T
	}
	if rt != nil && rt.isBin("+") {
		b := rt.Args[0].String()
		sfx := rt.Args[1]
		if sfx.Op == "slice" && sfx.Args[0].String() == b && (sfx.Args[1].isConst("0") || sfx.Args[1].Op == "nil") {
			base, k := sfx.Args[2].linear()
			switch {
			case base != nil && base.isParam(0) && k == -1:
				stG = holds
			case base != nil && base.isParam(0):
				stG, whyG = broken, fmt.Sprintf("the cyclic closure appends the first n%+d letters; a linear De Bruijn sequence of order n needs exactly n-1 (length 4^n+n-1, the wrap-around words once)", k)
			case !sfx.Args[2].contains(func(x *Term) bool { return x.Op == "param" || x.Op == "phi" || x.Op == "freevar" || x.Op == "alloc" }) && len(opaqueParts(sfx.Args[2], nil)) == 0:
				// a bound made of constants only (len of the alphabet, a literal): right for one order at most
				stG, whyG = broken, "the cyclic closure appends b[0:"+short(sfx.Args[2].String())+"], a length that does not depend on the order n: every order but one gets the wrong number of wrap-around letters"
			default:
				whyG = "the closure appends b[0:" + short(sfx.Args[2].String()) + "]"
			}
		}
	}
	c.judge(stG, "TERM", "result=b+b[0:n-1]", gen.Pos(), "cyclic closure: the first n-1 letters are appended", whyG)
	if rt != nil && rt.isBin("+") && rt.Args[0].isCall("(*bytes.Buffer).String") {
		ws := bufWrites(gen, gtb, rt.Args[0].Args[0].String())
		okW := len(ws) == 1 && (ws[0].arg.Op == "index" || ws[0].arg.Op == "each")
		c.checkShape(okW, "TERM", "letters=alphabet[i]", gen.Pos(), "every emitted letter is alphabet[i] for a generated index i", "the generator's letter writes were not recognised")
	} else {
		c.undecided("TERM", "letters=alphabet[i]", gen.Pos(), "the generator does not assemble its result in one buffer")
	}

	// ---- barcodes
	tb := newTB(cb)
	var app *ssa.Call
	nApp := 0
	eachInstr(cb, func(i ssa.Instruction) {
		if cl, ok := i.(*ssa.Call); ok && calleeName(cl) == "builtin:append" && tname(cl.Type()) == "[]string" {
			isWindow := false
			if rtb := tb.T(cl); len(rtb.Args) == 2 {
				rtb.Args[1].walk(func(x *Term) {
					if x.Op == "partial" && len(x.Args) == 1 {
						if sl, ok := x.Args[0].V.(*ssa.Slice); ok && x.Args[0].Op == "slice" && isStringType(sl.X.Type()) {
							isWindow = true
						}
					}
				})
			}
			if isWindow {
				app = cl
				nApp++
			}
		}
	})
	if nApp != 1 {
		c.undecided("INVARIANT", "append site", cb.Pos(), fmt.Sprintf("%d append sites for barcodes, the model needs 1", nApp))
		checkReturnIs(c, "TERM", "CreateBarcodes", w.fn("primers", "CreateBarcodes"), 0, "call[poly/primers.CreateBarcodesWithBannedSequences](param[0], param[1], slice(zero[[0]string], nil, nil), slice(zero[[0]func(string) bool], nil, nil))", "CreateBarcodes = CreateBarcodesWithBannedSequences(length, n, none, none)")
		return
	}
	// the appended element: slice(debruijn, S, E)
	var win *ssa.Slice
	at := tb.T(app)
	at.Args[1].walk(func(x *Term) {
		if x.Op == "partial" {
			if s, ok := x.Args[0].V.(*ssa.Slice); ok {
				win = s
			}
		}
	})
	deb := "call[poly/primers.NucleobaseDeBruijnSequence](param[1])"
	if win == nil || win.Low == nil || win.High == nil {
		c.undecided("INVARIANT", "barcode=debruijn[start:end]", app.Pos(), "the appended barcode is not a window x[start:end]")
		return
	}
	if got := tb.T(win.X); got.String() != deb {
		st := stateOf(false, vocabOf(deb), got)
		if st == broken && !localDiff(got, deb) {
			st = unknown
		}
		c.judge(st, "INVARIANT", "barcode=debruijn[start:end]", app.Pos(), "", "barcodes are cut from "+short(got.String())+"; want the De Bruijn sequence of order maxSubSequence")
		return
	}
	S, E := win.Low, win.High
	// roots
	sr, er := webRoots(S), webRoots(E)
	if len(sr) != 1 || len(er) != 1 {
		c.undecided("INVARIANT", "end-start=length", app.Pos(), fmt.Sprintf("window bounds have %d/%d initialisations, the model needs one each", len(sr), len(er)))
		return
	}
	// shifts of start paired, block by block, with shifts of another counter
	pairing := func(other ssa.Value, what, consequence string) (int, string) {
		os := shiftSites(other)
		for _, sh := range shiftSites(S) {
			if sh == sr[0] {
				continue
			}
			found := false
			for _, o := range os {
				if o.Block() == sh.Block() && (o.Y == sh.Y || (tb.T(o.Y).String() == tb.T(sh.Y).String())) {
					found = true
				}
			}
			if !found {
				return broken, "at " + c.W.pos(sh.Pos()) + " the window start moves by " + short(tb.T(sh.Y).String()) + " but " + what + " does not move with it: " + consequence
			}
		}
		return unknown, ""
	}
	okInit, offInit := false, ""
	if e0, ok := er[0].(*ssa.BinOp); ok && e0.Op == token.ADD {
		okInit = (e0.X == sr[0] && tb.T(e0.Y).isParam(0)) || (e0.Y == sr[0] && tb.T(e0.X).isParam(0))
		if !okInit {
			b, k := tb.T(e0).linear()
			_ = b
			if (e0.X == sr[0] || e0.Y == sr[0]) && k != 0 {
				offInit = fmt.Sprintf("end is initialised to start+length%+d", k)
			}
		}
	}
	par := proveParallel(E, S, er[0], sr[0], map[[2]ssa.Value]bool{})
	stI, whyI := holds, ""
	switch {
	case okInit && par:
	case offInit != "":
		stI, whyI = broken, offInit+": barcodes do not have the requested length"
	case okInit:
		stI, whyI = pairing(E, "end", "the barcode appended is longer or shorter than requested")
		if stI == unknown {
			whyI = "could not show that end and start move in lock step"
		}
	default:
		stI, whyI = unknown, "end is not visibly initialised to start+length"
	}
	c.judge(stI, "INVARIANT", "end-start=length", app.Pos(), "end is initialised to start+length and every update moves both by the same amount", whyI)
	// STRIDE
	st := tb.T(sr[0])
	strideOK := false
	var numRoot ssa.Value
	stST, whyST := unknown, "window start is "+short(st.String())
	if b0, ok := sr[0].(*ssa.BinOp); ok && b0.Op == token.MUL {
		for k := 0; k < 2; k++ {
			x, y := b0.X, b0.Y
			if k == 1 {
				x, y = y, x
			}
			if _, isPhi := x.(*ssa.Phi); !isPhi {
				continue
			}
			want := "binop[-](param[0], binop[-](param[1], const[1]))"
			yt := tb.T(y)
			switch {
			case yt.String() == want:
				strideOK = true
				numRoot = x
				stST = holds
			case len(opaqueParts(yt, nil)) == 0:
				// stride as a linear form in length and n: must be length - n + 1
				lf, k0, _ := linearForm(yt)
				if lf["param[0]"] == 1 && lf["param[1]"] == -1 && k0 == 1 && len(lf) == 2 {
					strideOK, numRoot, stST = true, x, holds
				} else if len(lf) <= 2 && (lf["param[0]"] != 0 || lf["param[1]"] != 0) {
					stST, whyST = broken, "the stride between barcodes is "+short(yt.String())+"; it must be length-(n-1) so that consecutive barcodes share fewer than n letters (no common n-letter word)"
				}
			}
		}
	}
	c.judge(stST, "STRIDE", "start0=barcodeNum*(length-(n-1))", app.Pos(), "stride leaves n-1 letters of overlap", whyST)
	if strideOK {
		// barcodeNum' feeding the outer phi must be parallel to S from (numRoot+1, start0), and the outer phi = phi(0, that)
		ph := numRoot.(*ssa.Phi)
		var next ssa.Value
		for _, e := range ph.Edges {
			if tb.T(e).isConst("0") {
				continue
			}
			next = e
		}
		stC, whyC := unknown, "the counter's update was not recognised"
		if len(ph.Edges) == 2 && next != nil {
			var nbase ssa.Value
			for _, s := range shiftSites(next) {
				if s.X == numRoot {
					nbase = s
				}
			}
			switch {
			case nbase == nil:
				stC, whyC = broken, "barcodeNum is not advanced once per accepted barcode: the next window starts where this one did"
				if len(shiftSites(next)) > 0 {
					stC, whyC = unknown, "barcodeNum is advanced in a form the rule does not know"
				}
			case proveParallel(next, S, nbase, sr[0], map[[2]ssa.Value]bool{}):
				stC = holds
			default:
				stC, whyC = pairing(next, "barcodeNum", "the next stride window starts before the shifted barcode ends minus n-1, so two barcodes share an n-letter word")
				if stC == unknown {
					whyC = "could not show that barcodeNum moves in lock step with the window"
				}
			}
		}
		c.judge(stC, "STRIDE", "every window shift also advances barcodeNum", app.Pos(), "barcodeNum starts at num+1 and is incremented in lock step with start/end, so the next window begins at or after end-(n-1)", whyC)
	}
	// RETEST + FRESHCHECK
	shifts := shiftSites(S)
	var testLoops []*ssa.BasicBlock // headers of loops iterating over tests (range over bans / functions)
	nShift := 0
	seenShiftDesc := map[string]bool{}
	slideBlocks := map[*ssa.BasicBlock]bool{}
	for _, sh := range shifts {
		if sh == sr[0] {
			continue
		}
		// a window SLIDE is a shift taken because a test of the current window said so; other additions in the
		// same web (the per-barcode stride advance) are not slides
		guarded := false
		for _, a := range pathCond(tb, cb.Blocks[0], sh.Block()).atoms() {
			if a.Atom.contains(func(x *Term) bool {
				sl, ok := x.V.(*ssa.Slice)
				return ok && x.Op == "slice" && tb.T(sl.X).String() == deb
			}) {
				guarded = true
			}
		}
		if !guarded {
			continue
		}
		if slideBlocks[sh.Block()] {
			continue // several additions in one block (start++, nextStart += stride) are one slide
		}
		slideBlocks[sh.Block()] = true
		nShift++
		blk := sh.Block()
		hdr := enclosingLoopHeader(blk)
		stR, why := unknown, "shift is not inside a loop"
		var testDesc string
		if hdr != nil {
			if ifi, ok := hdr.Instrs[len(hdr.Instrs)-1].(*ssa.If); ok {
				cond := tb.T(ifi.Cond)
				// the loop condition must be a call taking debruijn[start':end'] where start' is the header phi merged with this shift
				usesWindow := false
				testsWindow := false
				cond.walk(func(x *Term) {
					if sl, ok := x.V.(*ssa.Slice); ok && x.Op == "slice" && tb.T(sl.X).String() == deb {
						testsWindow = true
						if ph, ok := sl.Low.(*ssa.Phi); ok && ph.Block() == hdr {
							for _, e := range ph.Edges {
								if e == ssa.Value(sh) {
									usesWindow = true
								}
							}
						}
					}
				})
				// which test this is, read from the call that is handed the window (not from what the window's
				// bounds were computed from: a slide by "last occurrence + 1" has a search in the bounds too)
				testDesc = windowTestKind(tb, deb, cond)
				if !testsWindow {
					// which test guards this shift, if the loop itself does not test the window
					testDesc = ""
					var at *ssa.BasicBlock
					pcs := pathCond(tb, cb.Blocks[0], blk)
					for _, a := range pcs.atoms() {
						// the innermost of the tests under which the shift is taken
						k, site := windowTest(tb, deb, a.Atom)
						if k == "" || site == nil || !site.Dominates(blk) {
							continue
						}
						if at == nil || at.Dominates(site) {
							testDesc, at = k, site
						}
					}
				}
				// a test of the shifted window elsewhere in the loop (in its body, feeding a flag the loop goes
				// round on) is a re-test all the same; only its absence is evidence
				testedElsewhere := false
				eachInstr(cb, func(i ssa.Instruction) {
					sl, ok := i.(*ssa.Slice)
					if !ok || tb.T(sl.X).String() != deb {
						return
					}
					seenPhi := map[*ssa.Phi]bool{}
					var fed func(v ssa.Value) bool
					fed = func(v ssa.Value) bool {
						if v == ssa.Value(sh) {
							return true
						}
						if ph, ok := v.(*ssa.Phi); ok && !seenPhi[ph] {
							seenPhi[ph] = true
							for _, e := range ph.Edges {
								if fed(e) {
									return true
								}
							}
						}
						return false
					}
					if sl.Low != nil && fed(sl.Low) && sl.Referrers() != nil {
						for _, r := range *sl.Referrers() {
							if _, isCall := r.(ssa.CallInstruction); isCall {
								testedElsewhere = true
							}
							if _, isPhi := r.(*ssa.Phi); isPhi {
								testedElsewhere = true
							}
						}
					}
				})
				switch {
				case usesWindow:
					stR = holds
				case !testsWindow && testedElsewhere:
					why = "the loop around the shift does not test the window in its condition; the shifted window is tested in its body"
					if w := sameTestSkipped(tb, cb, deb, blk, app.Block()); w != "" {
						stR, why = broken, w
					}
				case !testsWindow:
					stR, why = broken, "the window is moved once and accepted without being tested again: the loop around this shift ("+c.W.pos(hdr.Instrs[0].Pos())+") does not test the window, so a second occurrence of the banned sequence (or a filter rejection) in the shifted window goes unnoticed"
				default:
					why = "the loop around the shift tests a window, but not visibly the shifted one"
				}
				// bound check: a return guarded by end+k > len(debruijn) dominates the shift
				bounded := false
				for d := blk; d != nil && d != hdr; d = d.Idom() {
					p := d.Idom()
					if p == nil {
						break
					}
					if ifi, ok := p.Instrs[len(p.Instrs)-1].(*ssa.If); ok {
						g := tb.T(ifi.Cond)
						if g.Op == "binop" && strings.Contains(g.String(), "call[builtin:len]("+deb+")") {
							bounded = true
						}
					}
				}
				if !bounded && stR == holds {
					stR, why = unknown, "no guard comparing the shifted end with len(debruijn) dominates the shift"
				}
			}
		}
		c.judge(stR, "RETEST", "shift after "+testDesc, sh.Pos(), "the shifted window is re-tested by the loop condition and bounded by len(debruijn)", why)
		// FRESHCHECK: every path from this shift to the append must re-enter, from outside, every loop that iterates over tests
		if len(testLoops) == 0 {
			// loops that iterate over tests, whatever their form (range, counted, nested per strand): loops
			// that do not contain the append and do contain an inner loop (the slide loop of one test)
			isHeader := func(b *ssa.BasicBlock) bool {
				for _, p := range b.Preds {
					if b.Dominates(p) {
						return true
					}
				}
				return false
			}
			hasTest := func(loop map[*ssa.BasicBlock]bool) bool {
				for lb := range loop {
					for _, in := range lb.Instrs {
						if cl, ok := in.(*ssa.Call); ok {
							n := calleeName(cl)
							if isTextSearch(n) {
								return true
							}
							if _, isB := cl.Call.Value.(*ssa.Builtin); cl.Call.StaticCallee() == nil && !cl.Call.IsInvoke() && !isB {
								return true
							}
						}
					}
				}
				return false
			}
			for _, b := range cb.Blocks {
				if !isHeader(b) {
					continue
				}
				loop := naturalLoopOf(b)
				if loop[app.Block()] {
					continue
				}
				for inner := range loop {
					if inner != b && isHeader(inner) && hasTest(naturalLoopOf(inner)) {
						testLoops = append(testLoops, b)
						break
					}
				}
			}
			sort.Slice(testLoops, func(i, j int) bool { return testLoops[i].Index < testLoops[j].Index })
		}
		var stale []string
		staleKinds := map[string]bool{}
		for _, lh := range testLoops {
			// pre-header edges: preds of lh that lh does not dominate
			avoid := map[*ssa.BasicBlock]bool{}
			for _, p := range lh.Preds {
				if !lh.Dominates(p) {
					avoid[p] = true
				}
			}
			if reachesAvoiding(blk, app.Block(), avoid) {
				stale = append(stale, "loop at "+c.W.pos(lh.Instrs[0].Pos()))
				// what the loop tests, read from its body: a search of the window for a text (ban) or a call of
				// a function value on it (filter); the spelling of the loop itself does not matter
				kind := ""
				inLoopOf := naturalLoopOf(lh)
				for _, lb := range cb.Blocks {
					if !inLoopOf[lb] {
						continue
					}
					for _, in := range lb.Instrs {
						cl, ok := in.(*ssa.Call)
						if !ok {
							continue
						}
						switch n := calleeName(cl); {
						case isTextSearch(n):
							if !strings.Contains(kind, "bans") {
								kind += "+bans"
							}
						case cl.Call.StaticCallee() == nil && !cl.Call.IsInvoke():
							if _, isB := cl.Call.Value.(*ssa.Builtin); !isB && !strings.Contains(kind, "filters") {
								kind += "+filters"
							}
						}
					}
				}
				kind = strings.TrimPrefix(kind, "+")
				if kind == "" {
					kind = "tests"
				}
				for _, k1 := range strings.Split(kind, "+") {
					staleKinds[k1] = true
				}
			}
		}
		var kinds []string
		for k := range staleKinds {
			kinds = append(kinds, k)
		}
		sort.Strings(kinds)
		// (what goes stale – bans, filters – is printed in the message but is not part of the obligation's
		// name: a refactor that merges the ban and filter lists into one list of rejection functions keeps
		// the defect and must keep its name)
		staleNote := ""
		if len(kinds) > 0 {
			staleNote = " [stale: " + strings.Join(kinds, "+") + "]"
		}
		if testDesc == "" && len(stale) > 0 {
			c.undecided("FRESHCHECK", "tests restarted after a shift whose test was not recognised", sh.Pos(), "the test that guards this shift is neither a search of the window for a text nor a call of a function value on it; which of the recorded findings this is cannot be said")
			continue
		}
		if len(stale) > 0 && seenShiftDesc[testDesc] {
			// two shifts guarded by the same kind of test (both strands worked out from the element, say): the
			// names cannot tell them apart, so this one is not matched against the recorded findings
			c.undecided("FRESHCHECK", "tests restarted after a further shift in "+testDesc, sh.Pos(), "a second shift is guarded by the same kind of test as an earlier one; which of the recorded findings this is cannot be said")
			continue
		}
		seenShiftDesc[testDesc] = true
		c.check(len(stale) == 0, "FRESHCHECK", "tests restarted after shift in "+testDesc, sh.Pos(), "after this shift every test loop is restarted before the barcode is accepted", "after this shift the barcode can be appended without re-running the tests of "+strings.Join(stale, ", ")+staleNote+": an earlier verdict (ban, reverse complement or filter) is stale for the shifted window")
	}
	if nShift == 0 {
		c.undecided("RETEST", "shifts", cb.Pos(), "no window shift found")
	}
	// a loop over the tests is left before the list is exhausted, for a reason that has nothing to do with the
	// window (the element is too long, empty, ...), and the barcode can still be accepted: the elements after
	// it are never tested
	for _, lh := range testLoops {
		L := naturalLoopOf(lh)
		var entry *ssa.BasicBlock
		for _, s := range lh.Succs {
			if L[s] && s != lh {
				entry = s
			}
		}
		if entry == nil {
			continue
		}
		for _, b := range cb.Blocks {
			if !L[b] || b == lh || len(b.Succs) != 2 {
				continue
			}
			if enclosingLoopHeader(b) != lh {
				continue // inside a slide loop: leaving THAT loop is the normal end of a slide
			}
			for _, sx := range b.Succs {
				if L[sx] || !(sx == app.Block() || reaches(sx, app.Block())) {
					continue
				}
				if !entry.Dominates(b) {
					continue
				}
				aboutWindow := false
				pcb := pathCond(tb, entry, b)
				guards := pcb.atoms()
				if ifi, ok := b.Instrs[len(b.Instrs)-1].(*ssa.If); ok {
					guards = append(guards, condOfBool(tb, ifi.Cond, 0).atoms()...)
				}
				for _, a := range guards {
					if a.Atom.contains(func(x *Term) bool {
						sl, ok := x.V.(*ssa.Slice)
						return ok && x.Op == "slice" && tb.T(sl.X).String() == deb
					}) || a.Atom.contains(func(x *Term) bool { return x.Op == "phi" || x.Op == "rec" || x.Op == "anyof" }) {
						aboutWindow = true
					}
				}
				if len(guards) == 0 || aboutWindow {
					continue
				}
				at := lh.Instrs[0].Pos()
				if ifi, ok := b.Instrs[len(b.Instrs)-1].(*ssa.If); ok && ifi.Cond.Pos() != token.NoPos {
					at = ifi.Cond.Pos()
				}
				c.bad("RETEST", "the test loop runs to the end of its list", at, "the loop over the tests at "+c.W.pos(lh.Instrs[0].Pos())+" is left here under a condition on the element alone ("+short(pathCondString(guards))+"), and the barcode can still be accepted: the elements that come after it are never looked for in this window")
			}
		}
	}
	// every test guards the append: bans, rc(bans) and filters are each consulted
	var haveBan, haveRC, haveFn bool
	var filtered, lenFiltered []string
	fam := family(cb)
	for _, f := range fam {
		ftb := newTB(f)
		eachInstr(f, func(i ssa.Instruction) {
			cl, ok := i.(*ssa.Call)
			if !ok {
				return
			}
			t := ftb.T(cl)
			if f == cb && (t.isCall("strings.Contains") || t.isCall("strings.Index")) && strings.HasPrefix(t.Args[0].String(), "slice("+deb) {
				arg := t.Args[1]
				if arg.String() == "each(param[2])" {
					haveBan = true
				}
				if arg.String() == "call[poly/transform.ReverseComplement](each(param[2]))" {
					haveRC = true
				}
				// a derived list of strands: every ban (and its reverse complement) must get into it unconditionally
				if arg.Op == "each" && len(arg.Args) == 1 {
					sites := topAppendSites(arg.Args[0])
					if len(sites) == 0 && arg.Args[0].V != nil {
						for _, ac := range appendWeb(arg.Args[0].V) {
							sites = append(sites, appSite{Elem: ftb.T(ac.Call.Args[1]), At: ac})
						}
					}
					for _, site := range sites {
						es := site.Elem.String()
						isBan := es == "each(param[2])" || strings.Contains(es, "partial[[0]](each(param[2]))")
						isRC := strings.Contains(es, "call[poly/transform.ReverseComplement](each(param[2]))")
						if !isBan && !isRC {
							continue
						}
						haveBan = haveBan || isBan
						haveRC = haveRC || isRC
						if entry := loopBodyEntry(site.At.Block()); entry != nil {
							pcd := pathCond(ftb, entry, site.At.Block())
							nOp := 0
							for _, a := range pcd.atoms() {
								nOp += len(opaqueParts(a.Atom, vocabOf("call[poly/transform.ReverseComplement](x)")))
							}
							if pcd.Op != "true" && nOp == 0 && strings.Contains(pcd.String(), "call[builtin:len](") {
								// a ban longer than a barcode cannot occur in one: leaving it out is the same test.
								// Which lengths a condition leaves out is arithmetic this rule does not do.
								lenFiltered = append(lenFiltered, "a banned sequence gets into the list that is tested only under "+short(pcd.String())+" (at "+c.W.pos(site.At.Pos())+"): whether only bans too long for a barcode are left out is not decided")
							} else if pcd.Op != "true" && nOp == 0 {
								filtered = append(filtered, "a banned sequence gets into the list that is tested only under "+short(pcd.String())+" (at "+c.W.pos(site.At.Pos())+"): the others are never looked for in a barcode")
							}
						}
					}
				}
			}
			if f == cb && t.Op == "call" && t.Name == "?" && len(t.Args) == 2 && t.Args[0].String() == "each(param[3])" && strings.HasPrefix(t.Args[1].String(), "slice("+deb) {
				haveFn = true
			}
		})
		// a predicate helper that folds verdicts: each verdict must be combined with the earlier ones
		if f != cb && f.Signature.Results().Len() == 1 && tname(f.Signature.Results().At(0).Type()) == "bool" {
			if why := overwrittenVerdict(ftb, f); why != "" {
				filtered = append(filtered, fname(f)+": "+why)
			}
			eachInstr(f, func(i ssa.Instruction) {
				if cl, ok := i.(*ssa.Call); ok && cl.Call.StaticCallee() == nil && !cl.Call.IsInvoke() {
					if _, isBuiltin := cl.Call.Value.(*ssa.Builtin); !isBuiltin {
						haveFn = true
					}
				}
			})
		}
	}
	switch {
	case len(filtered) > 0:
		c.bad("RETEST", "all three test kinds present", cb.Pos(), strings.Join(filtered, "; "))
	case len(lenFiltered) > 0:
		c.undecided("RETEST", "all three test kinds present", cb.Pos(), strings.Join(lenFiltered, "; "))
	case haveBan && haveRC && haveFn:
		c.ok("RETEST", "all three test kinds present", cb.Pos(), "window tested against each ban, each reverse-complemented ban and each filter")
	default:
		c.undecided("RETEST", "all three test kinds present", cb.Pos(), fmt.Sprintf("tests recognised: ban=%v rc(ban)=%v filter=%v", haveBan, haveRC, haveFn))
	}
	// CreateBarcodes wrapper
	checkReturnIs(c, "TERM", "CreateBarcodes", w.fn("primers", "CreateBarcodes"), 0, "call[poly/primers.CreateBarcodesWithBannedSequences](param[0], param[1], slice(zero[[0]string], nil, nil), slice(zero[[0]func(string) bool], nil, nil))", "CreateBarcodes = CreateBarcodesWithBannedSequences(length, n, none, none)")
}

// sameTestSkipped: the shift in block blk was taken because a test G of the window (for one ban / one filter of
// a list) said so. Any shift brings new letters into the window, so the same ban has to be looked for again.
// Returns a description when the barcode can be appended on a path from the shift that neither runs G again
// before the list moves on to its next element nor restarts the list from its beginning; "" when that is not
// the case or the shape is not the one the rule reads (G not found, list walked by hand).
func sameTestSkipped(tb *TermBuilder, cb *ssa.Function, deb string, blk, appBlk *ssa.BasicBlock) string {
	// G: the innermost call on the window among the conditions under which blk runs
	var g *ssa.Call
	for _, a := range pathCond(tb, cb.Blocks[0], blk).atoms() {
		a.Atom.walk(func(x *Term) {
			cl, ok := x.V.(*ssa.Call)
			if !ok || x.Op != "call" || cl.Parent() != cb {
				return
			}
			for _, arg := range cl.Call.Args {
				if sl, isSl := arg.(*ssa.Slice); isSl && tb.T(sl.X).String() == deb {
					if cl.Block().Dominates(blk) && (g == nil || g.Block().Dominates(cl.Block())) {
						g = cl
					}
				}
			}
		})
	}
	if g == nil {
		return ""
	}
	// a later test stands between G and the shift that is not a test of the window as the rule knows it (the
	// other strand searched in a mirrored cut, a helper): the shift is that test's, and the rule does not read it
	later := false
	for _, a := range pathCond(tb, cb.Blocks[0], blk).atoms() {
		a.Atom.walk(func(x *Term) {
			cl, ok := x.V.(*ssa.Call)
			if !ok || x.Op != "call" || cl.Parent() != cb || cl == g {
				return
			}
			if _, isB := cl.Call.Value.(*ssa.Builtin); isB {
				return
			}
			if cl.Block().Dominates(blk) && g.Block().Dominates(cl.Block()) && cl.Block() != g.Block() {
				later = true
			}
		})
	}
	if later {
		return ""
	}
	// the loops whose iteration selects what G looks for
	heads := map[*ssa.BasicBlock]bool{}
	seen := map[ssa.Value]bool{}
	plain := true
	var dep func(v ssa.Value, d int)
	dep = func(v ssa.Value, d int) {
		if v == nil || seen[v] || d > 12 {
			return
		}
		seen[v] = true
		switch x := v.(type) {
		case *ssa.Phi:
			b := x.Block()
			isHead := false
			for i, p := range b.Preds {
				if b.Dominates(p) {
					isHead = true
					// the element advances by a fixed step on the way round: phi + const, nothing rewinds it
					bo, ok := x.Edges[i].(*ssa.BinOp)
					if !ok || bo.X != ssa.Value(x) {
						plain = false
					} else if _, isC := bo.Y.(*ssa.Const); !isC {
						plain = false
					}
				}
			}
			if isHead && naturalLoopOf(b)[g.Block()] {
				heads[b] = true
			}
			return
		case *ssa.Next:
			if b := x.Block(); naturalLoopOf(b)[g.Block()] {
				heads[b] = true
			}
			return
		case *ssa.Slice:
			if tb.T(x.X).String() == deb {
				return // the window itself
			}
		}
		if in, ok := v.(ssa.Instruction); ok {
			for _, op := range in.Operands(nil) {
				if *op != nil {
					dep(*op, d+1)
				}
			}
		}
	}
	for _, arg := range g.Call.Args {
		dep(arg, 0)
	}
	if g.Call.StaticCallee() == nil && !g.Call.IsInvoke() {
		dep(g.Call.Value, 0)
	}
	if len(heads) == 0 || !plain {
		return ""
	}
	type st struct {
		b     *ssa.BasicBlock
		moved bool
	}
	visited := map[st]bool{}
	var work []st
	step := func(u, v *ssa.BasicBlock, moved bool) {
		if heads[v] {
			if v.Dominates(u) {
				moved = true // round the list's loop: the next element
			} else {
				return // the list is started again: everything is looked for in the shifted window
			}
		}
		if !moved && v == g.Block() {
			return // the same test, run again
		}
		n := st{v, moved}
		if !visited[n] {
			visited[n] = true
			work = append(work, n)
		}
	}
	for _, v := range blk.Succs {
		step(blk, v, false)
	}
	for len(work) > 0 {
		x := work[len(work)-1]
		work = work[:len(work)-1]
		if x.b == appBlk {
			at := tb.F.Prog.Fset.Position(g.Pos())
			return fmt.Sprintf("the window is moved once because the test at line %d found something, and the barcode can then be accepted without that test being run again for the same element: the shift brings new letters into the window, so a second occurrence in the shifted window goes unnoticed", at.Line)
		}
		for _, v := range x.b.Succs {
			step(x.b, v, x.moved)
		}
	}
	return ""
}

// isTextSearch: library calls that look for one text inside another.
func isTextSearch(n string) bool {
	switch strings.TrimPrefix(strings.TrimPrefix(n, "strings."), "bytes.") {
	case "Contains", "Index", "LastIndex", "Count":
		return strings.HasPrefix(n, "strings.") || strings.HasPrefix(n, "bytes.")
	}
	return false
}

// windowTestKind names the test a condition applies to a window debruijn[a:b]: "strings.Contains" (a text
// search; "(rc)" appended when the text is a reverse complement), "filter" (a function value called on the
// window) or "" when the call that receives the window is neither. Only the call that is handed the window
// counts; the window's own bounds are not searched.
func windowTestKind(tb *TermBuilder, deb string, cond *Term) string {
	k, _ := windowTest(tb, deb, cond)
	return k
}

func windowTest(tb *TermBuilder, deb string, cond *Term) (string, *ssa.BasicBlock) {
	kind := ""
	var site *ssa.BasicBlock
	var visit func(t *Term)
	visit = func(t *Term) {
		if t == nil || t.Op == "slice" || t.Op == "phi" || t.Op == "rec" || t.Op == "anyof" {
			return
		}
		if t.Op == "call" {
			win := -1
			for i, a := range t.Args {
				if sl, ok := a.V.(*ssa.Slice); ok && a.Op == "slice" && tb.T(sl.X).String() == deb {
					win = i
				}
			}
			if win >= 0 {
				switch {
				case isTextSearch(t.Name):
					// what is looked for: the ban as given, or something computed from it (its reverse
					// complement, by transform.ReverseComplement or by a helper of the module's own)
					k := "strings.Contains"
					for i, a := range t.Args {
						if i == win {
							continue
						}
						// (the element of a list as it stands - whatever produced the list - is the ban itself; anything
						// worked out from it, by a call of any kind, is the other strand's slot)
						var isComputed func(x *Term, d int) bool
						isComputed = func(x *Term, d int) bool {
							if x == nil || d > 6 {
								return false
							}
							switch x.Op {
							case "each", "index", "param", "const", "field", "deref":
								return false
							case "phi", "anyof", "conv":
								for _, xa := range x.Args {
									if isComputed(xa, d+1) {
										return true
									}
								}
								return false
							case "call":
								return !strings.HasPrefix(x.Name, "builtin:")
							}
							return x.contains(func(y *Term) bool { return y.Op == "call" && !strings.HasPrefix(y.Name, "builtin:") })
						}
						computed := isComputed(a, 0)
						if computed && !strings.HasSuffix(k, "(rc)") {
							k += "(rc)"
						}
					}
					if kind == "" || kind == "filter" {
						kind = k
						if in, ok := t.V.(ssa.Instruction); ok {
							site = in.Block()
						}
					}
				case t.Name == "?":
					if kind == "" {
						kind = "filter"
						if in, ok := t.V.(ssa.Instruction); ok {
							site = in.Block()
						}
					}
				}
			}
		}
		for _, a := range t.Args {
			visit(a)
		}
	}
	visit(cond)
	return kind, site
}

// overwrittenVerdict: f returns a bool variable that a loop assigns a fresh verdict on every iteration
// without combining it with the previous value (no &&, no early return on false): only the last
// element's verdict survives. Returns a description, or "" when that is not the case.
func overwrittenVerdict(tb *TermBuilder, f *ssa.Function) string {
	for _, r := range returnsOf(f) {
		if len(r.Results) != 1 {
			continue
		}
		ph, ok := r.Results[0].(*ssa.Phi)
		if !ok {
			continue
		}
		hdr := ph.Block()
		if !inLoop(hdr) {
			continue
		}
		for k, e := range ph.Edges {
			pred := hdr.Preds[k]
			if !(hdr.Dominates(pred) && reaches(pred, hdr)) {
				continue
			}
			// the back-edge value: a call result that does not depend on the phi, assigned unconditionally
			if cl, ok := e.(*ssa.Call); ok {
				dependsOnPhi := false
				for _, a := range cl.Call.Args {
					if a == ssa.Value(ph) {
						dependsOnPhi = true
					}
				}
				entry := loopBodyEntry(cl.Block())
				uncond := entry != nil && pathCond(tb, entry, cl.Block()).Op == "true"
				earlyExit := false
				for _, b := range f.Blocks {
					if b != hdr && hdr.Dominates(b) && reaches(b, hdr) {
						for _, s := range b.Succs {
							if !(s == hdr || (hdr.Dominates(s) && reaches(s, hdr))) {
								earlyExit = true
							}
						}
					}
				}
				if !dependsOnPhi && uncond && !earlyExit {
					return "the verdict variable is overwritten by every element's call (at " + currentWorld.pos(cl.Pos()) + ") and the loop never leaves early: only the last predicate's answer is returned, earlier rejections are forgotten"
				}
			}
		}
	}
	return ""
}

// appendWeb lists the append calls in the web of phis and appends behind a slice value.
func appendWeb(v ssa.Value) []*ssa.Call {
	seen := map[ssa.Value]bool{}
	var out []*ssa.Call
	var walk func(v ssa.Value)
	walk = func(v ssa.Value) {
		if seen[v] {
			return
		}
		seen[v] = true
		switch x := v.(type) {
		case *ssa.Phi:
			for _, e := range x.Edges {
				walk(e)
			}
		case *ssa.Call:
			if calleeName(x) == "builtin:append" {
				out = append(out, x)
				walk(x.Call.Args[0])
			}
		}
	}
	walk(v)
	return out
}


func pathCondString(as []condAtom) string {
	var out []string
	for _, a := range as {
		t := a.Atom.String()
		if a.Neg {
			t = "!" + t
		}
		out = append(out, t)
	}
	return strings.Join(out, " && ")
}
