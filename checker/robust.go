package main

// robust.go: deciding only within a recognised vocabulary.
// A rule compares the term it finds with the term it expects. If they differ, that is a VIOLATION
// only when the found term is built entirely from constructs the rule understands (arithmetic,
// constants, parameters, fields, std string functions, the callees the rule names): then the
// difference is a semantic difference. If the found term contains anything opaque (a call into a
// helper the rule does not know, a value written by a closure or an out-parameter, an unresolved
// recursion) the shape is unrecognised and the obligation is UNDECIDED – reported, not alarmed.

import (
	"fmt"
	"go/token"
	"go/types"
	"regexp"
	"sort"
	"strconv"
	"strings"

	"golang.org/x/tools/go/ssa"
)

var callNameRe = regexp.MustCompile(`call\[([^\]]+)\]`)
var outparamRe = regexp.MustCompile(`outparam\[([^\]]+)\]`)

func vocabOf(wants ...string) map[string]bool {
	m := map[string]bool{}
	for _, w := range wants {
		for _, mm := range callNameRe.FindAllStringSubmatch(w, -1) {
			m[mm[1]] = true
		}
		for _, mm := range outparamRe.FindAllStringSubmatch(w, -1) {
			m["outparam["+mm[1]+"]"] = true
		}
	}
	return m
}

// stdPure: std callees every rule understands as pure value functions.
func stdPure(n string) bool {
	switch {
	case strings.HasPrefix(n, "builtin:"):
		return true
	case strings.HasPrefix(n, "strings.") || strings.HasPrefix(n, "strconv.") || strings.HasPrefix(n, "math.") || strings.HasPrefix(n, "unicode.") || strings.HasPrefix(n, "bytes."):
		return true
	case strings.HasPrefix(n, "(*strings.Builder).") || strings.HasPrefix(n, "(*bytes.Buffer).") || strings.HasPrefix(n, "(*regexp.Regexp).") || strings.HasPrefix(n, "regexp."):
		return true
	case n == "errors.New" || strings.HasPrefix(n, "fmt."):
		return true
	}
	return false
}

// opaqueParts lists the sub-terms of t that lie outside the vocabulary.
func opaqueParts(t *Term, allow map[string]bool) []string {
	var out []string
	seen := map[string]bool{}
	t.walk(func(x *Term) {
		var why string
		switch x.Op {
		case "closure", "func":
			why = "function value " + x.Name
		case "zero":
			// a local array: whatever is read from it was put there by stores or a copy the term does not show
			if strings.HasPrefix(x.Name, "[") && len(x.Name) > 1 && x.Name[1] >= '0' && x.Name[1] <= '9' {
				why = "local array " + x.Name + " filled by stores"
			}
		case "unknown", "outparam", "closurewrite", "rec", "any", "freevar", "select", "rewritten":
			if !(x.Op == "outparam" && allow["outparam["+x.Name+"]"]) {
				why = x.Op + "[" + x.Name + "]"
			}
		case "call":
			if x.Name == "?" {
				why = "dynamic call"
			} else if !(stdPure(x.Name) || allow[x.Name] || strings.HasPrefix(x.Name, "invoke:")) {
				why = "call " + x.Name
			}
		case "makemap", "makeslice", "alloc":
			// a container filled by stores the term does not show; opaque only where the caller asks for it
			if allow["containers-opaque"] {
				why = "container " + x.Op + " built by stores"
			}
		case "typeassert":
		}
		if why != "" && !seen[why] {
			seen[why] = true
			out = append(out, why)
		}
	})
	sort.Strings(out)
	return out
}

// cmpTerm: OK if got == want; VIOLATION if got is fully within vocabulary; else UNDECIDED.
func (c *Ctx) cmpTerm(rule, construct string, pos token.Pos, got *Term, want, okWhy, badWhy string, extraVocab ...string) bool {
	gs := "<nil>"
	if got != nil {
		gs = got.String()
	}
	if got != nil && gs == want {
		c.ok(rule, construct, pos, okWhy)
		return true
	}
	msg := badWhy + ": found " + short(gs) + "; want " + short(want)
	if got == nil {
		c.undecided(rule, construct, pos, msg)
		return false
	}
	if got.Op == "const" && !strings.HasPrefix(want, "const[") && strings.ContainsAny(want, "(") {
		// a value that has to carry data of the input is a constant
		c.bad(rule, construct, pos, msg+" (a constant where a value derived from the input is required)")
		return false
	}
	if op := opaqueParts(got, vocabOf(append(extraVocab, want)...)); len(op) > 0 {
		c.undecided(rule, construct, pos, msg+" (outside the rule's vocabulary: "+strings.Join(op, ", ")+")")
		return false
	}
	if !localDiff(got, want) {
		c.undecided(rule, construct, pos, msg+" (the shapes differ grossly; only a same-shape difference is taken as evidence)")
		return false
	}
	c.bad(rule, construct, pos, msg)
	return false
}

// stateOf: tri-state helper for structural matchers: matched -> holds; otherwise broken iff every
// witness term is inside the vocabulary, else unknown.
func stateOf(matched bool, allow map[string]bool, witnesses ...*Term) int {
	if matched {
		return holds
	}
	for _, w := range witnesses {
		if w == nil {
			return unknown
		}
		if len(opaqueParts(w, allow)) > 0 {
			return unknown
		}
	}
	return broken
}

// ---------------------------------------------------------------------------
// Result alternatives: a function with several returns yields one alternative per return.

type resultAlt struct {
	T    *Term
	Cond *Cond
	Ret  *ssa.Return
}

func resultAlts(tb *TermBuilder, f *ssa.Function, k int) []resultAlt {
	var out []resultAlt
	for _, r := range returnsOf(f) {
		if len(r.Results) <= k {
			continue
		}
		out = append(out, resultAlt{tb.T(r.Results[k]), pathCond(tb, f.Blocks[0], r.Block()), r})
	}
	return out
}

// ---------------------------------------------------------------------------
// String assembly normal form: the ordered list of pieces a string value is concatenated from.
// Understands: s1 + s2, fmt.Sprintf with only %s/%d/%v verbs and literal text, strings.Join of a
// literal list, strings.Repeat(const, n) (kept as one piece), and a Builder/Buffer's String()/Bytes()
// when all writes are in one block (straight-line assembly).

func (tb *TermBuilder) pieces(t *Term) ([]*Term, bool) {
	if t == nil {
		return nil, false
	}
	switch {
	case t.Op == "binop" && t.Name == "+" && t.V != nil && isStringType(t.V.Type()):
		a, ok1 := tb.pieces(t.Args[0])
		b, ok2 := tb.pieces(t.Args[1])
		return append(a, b...), ok1 && ok2
	case t.Op == "binop" && t.Name == "+":
		a, ok1 := tb.pieces(t.Args[0])
		b, ok2 := tb.pieces(t.Args[1])
		return append(a, b...), ok1 && ok2
	case t.isCall("fmt.Sprintf"):
		f, ok := t.Args[0].constStr()
		if !ok || len(t.Args) != 2 || t.Args[1].Op != "slice" {
			return []*Term{t}, true
		}
		// varargs: slice(anyof(partial[[i]](arg))...)
		args := map[int]*Term{}
		inner := t.Args[1].Args[0]
		parts := []*Term{inner}
		if inner.Op == "anyof" {
			parts = inner.Args
		}
		for _, p := range parts {
			if p.Op != "partial" {
				return []*Term{t}, true
			}
			var i int
			if _, err := sscanIndex(p.Name, &i); err != nil {
				return []*Term{t}, true
			}
			args[i] = p.Args[0]
		}
		var out []*Term
		ai := 0
		lit := ""
		flush := func() {
			if lit != "" {
				out = append(out, &Term{Op: "const", Name: quote(lit)})
				lit = ""
			}
		}
		for i := 0; i < len(f); i++ {
			if f[i] != '%' {
				lit += string(f[i])
				continue
			}
			if i+1 >= len(f) {
				return []*Term{t}, true
			}
			i++
			switch f[i] {
			case '%':
				lit += "%"
			case 's', 'd', 'v':
				flush()
				a := args[ai]
				ai++
				if a == nil {
					return []*Term{t}, true
				}
				if f[i] == 'd' {
					a = &Term{Op: "call", Name: "strconv.Itoa", Args: []*Term{a}}
				}
				sub, _ := tb.pieces(a)
				out = append(out, sub...)
			default:
				return []*Term{t}, true
			}
		}
		flush()
		return out, true
	case t.isCall("strings.Join") && len(t.Args) == 2 && t.Args[0].Op == "slice" && len(t.Args[0].Args) > 0:
		// Join of a literal list: elements interleaved with the separator
		inner := t.Args[0].Args[0]
		parts := []*Term{inner}
		if inner.Op == "anyof" {
			parts = inner.Args
		}
		elems := map[int]*Term{}
		for _, p := range parts {
			var i int
			if p.Op != "partial" {
				return []*Term{t}, true
			}
			if _, err := sscanIndex(p.Name, &i); err != nil || elems[i] != nil {
				return []*Term{t}, true
			}
			elems[i] = p.Args[0]
		}
		var out []*Term
		for i := 0; i < len(elems); i++ {
			e := elems[i]
			if e == nil {
				return []*Term{t}, true
			}
			if i > 0 {
				out = append(out, t.Args[1])
			}
			sub, _ := tb.pieces(e)
			out = append(out, sub...)
		}
		return out, true
	case t.isCall("(*strings.Builder).String") || t.isCall("(*bytes.Buffer).String") || t.isCall("(*bytes.Buffer).Bytes"):
		if a, ok := t.Args[0].V.(*ssa.Alloc); ok && a.Parent() == tb.F {
			ws := bufWrites(tb.F, tb, t.Args[0].String())
			if len(ws) == 0 {
				return nil, true
			}
			blk := ws[0].call.Block()
			for _, w := range ws {
				if w.call.Block() != blk {
					return []*Term{t}, true // writes under control flow: not straight-line
				}
			}
			var out []*Term
			for _, w := range ws {
				sub, _ := tb.pieces(w.arg)
				out = append(out, sub...)
			}
			return out, true
		}
	}
	return []*Term{t}, true
}

func quote(s string) string { return strconvQuote(s) }

func piecesString(ps []*Term) string {
	var ss []string
	for _, p := range ps {
		ss = append(ss, p.String())
	}
	return strings.Join(ss, " ⧺ ")
}

func strconvQuote(s string) string { return strconv.Quote(s) }

func sscanIndex(name string, i *int) (int, error) { return fmt.Sscanf(name, "[%d]", i) }

// ---------------------------------------------------------------------------
// Parsing rendered terms back into trees (expected terms are written as strings in the rules) and a
// shape-preserving diff: a found term that has the expected skeleton but differs in a detail
// (a constant, an operator, a field, a callee, one wrapped/unwrapped node) is a *local* difference –
// positive evidence of a semantic change; a grossly different skeleton is an unrecognised shape.

func parseTerm(s string) *Term {
	p := &termParser{s: s}
	t := p.term()
	if t == nil || p.i != len(p.s) {
		return nil
	}
	return t
}

type termParser struct {
	s string
	i int
}

func (p *termParser) term() *Term {
	// op
	st := p.i
	for p.i < len(p.s) && (p.s[p.i] == '_' || p.s[p.i] >= 'a' && p.s[p.i] <= 'z' || p.s[p.i] >= 'A' && p.s[p.i] <= 'Z') {
		p.i++
	}
	if p.i == st {
		return nil
	}
	t := &Term{Op: p.s[st:p.i]}
	if p.i < len(p.s) && p.s[p.i] == '[' {
		// name: up to the matching ']' honouring quotes and nested brackets
		p.i++
		ns := p.i
		depth := 1
		inq := false
		for p.i < len(p.s) && depth > 0 {
			ch := p.s[p.i]
			switch {
			case inq:
				if ch == '\\' {
					p.i++
				} else if ch == '"' {
					inq = false
				}
			case ch == '"':
				inq = true
			case ch == '[':
				depth++
			case ch == ']':
				depth--
			}
			p.i++
		}
		if depth != 0 {
			return nil
		}
		t.Name = p.s[ns : p.i-1]
	}
	if p.i < len(p.s) && p.s[p.i] == '(' {
		p.i++
		for {
			a := p.term()
			if a == nil {
				return nil
			}
			t.Args = append(t.Args, a)
			if p.i+1 < len(p.s) && p.s[p.i] == ',' && p.s[p.i+1] == ' ' {
				p.i += 2
				continue
			}
			break
		}
		if p.i >= len(p.s) || p.s[p.i] != ')' {
			return nil
		}
		p.i++
	}
	if t.Op == "phi" && len(t.Args) == 0 {
		t.Cyc = true
	}
	return t
}

func termSize(t *Term) int {
	if t == nil {
		return 0
	}
	n := 1
	for _, a := range t.Args {
		n += termSize(a)
	}
	return n
}

// termDist: number of local edits separating a from b, or a large number when the skeletons differ.
func termDist(a, b *Term) int {
	const gross = 1000
	if a == nil || b == nil {
		return gross
	}
	if a.String() == b.String() {
		return 0
	}
	best := gross
	if a.Op == b.Op && len(a.Args) == len(b.Args) {
		d := 0
		if a.Name != b.Name {
			d = 1
		}
		for i := range a.Args {
			d += termDist(a.Args[i], b.Args[i])
			if d >= gross {
				break
			}
		}
		if d < best {
			best = d
		}
	}
	// the same two operands in the other order (canonical ordering of a commutative operator hides "a-b" vs "b+a")
	if a.Op == "binop" && b.Op == "binop" && len(a.Args) == 2 && len(b.Args) == 2 && a.Name != b.Name {
		if d := 1 + termDist(a.Args[0], b.Args[1]) + termDist(a.Args[1], b.Args[0]); d < best {
			best = d
		}
	}
	// one node wrapped or unwrapped (x vs x+1, f(x) vs x). A projection (field, deref, element) around a
	// value is a change of data layout, not of the computation: that is not a local difference.
	// A phi or anyof around a value is a join of control flow (a default merged in on another path), not an operation either.
	structural := func(t *Term) bool {
		return t.Op == "field" || t.Op == "deref" || t.Op == "each" || t.Op == "index" || t.Op == "extract" || t.Op == "phi" || t.Op == "anyof"
	}
	if !structural(a) {
		for _, ch := range a.Args {
			if d := 1 + termSize(a) - termSize(ch) - 1 + termDist(ch, b); d < best && termSize(a)-termSize(ch) <= 3 {
				best = d
			}
		}
	}
	if !structural(b) {
		for _, ch := range b.Args {
			if d := 1 + termSize(b) - termSize(ch) - 1 + termDist(a, ch); d < best && termSize(b)-termSize(ch) <= 3 {
				best = d
			}
		}
	}
	if best > gross {
		best = gross
	}
	return best
}

// localDiff: got has want's skeleton up to a few detail edits.
func localDiff(got *Term, want string) bool {
	w := parseTerm(want)
	if w == nil || got == nil {
		return false
	}
	d := termDist(got, w)
	return d > 0 && d <= 3 && d*3 <= termSize(w)+2
}

// occurs: does a node satisfying pred occur in t (direct), and does one occur only beneath a
// projection (a field, element or pointer read of a composite that merely CONTAINS it)? Reading one
// part of a composite does not make the value read depend on its other parts, so an occurrence under
// a projection is no evidence of a dependency.
func occurs(t *Term, pred func(*Term) bool) (direct, underProjection bool) {
	var walk func(x *Term, under bool)
	walk = func(x *Term, under bool) {
		if x == nil {
			return
		}
		if pred(x) {
			if under {
				underProjection = true
			} else {
				direct = true
			}
			return
		}
		u := under
		switch x.Op {
		case "field", "deref", "each", "index", "extract", "partial", "lookup", "zip", "load", "closure", "call":
			u = true
		}
		for _, a := range x.Args {
			walk(a, u)
		}
	}
	walk(t, false)
	return
}

// normText: a text is the same text as a string and as a []byte. The representation is folded away
// so that a parser working on bytes is read like one working on strings: conversions between string
// and []byte disappear, a function of package bytes is named like its twin in package strings, and a
// package-level variable that is only ever its initialiser (a separator kept as []byte("\t")) is
// replaced by that constant. A conversion of a rune or an integer to a string is kept.
var textTwins = map[string]bool{"Split": true, "SplitN": true, "SplitAfter": true, "SplitAfterN": true, "Fields": true, "HasPrefix": true, "HasSuffix": true,
	"Contains": true, "ContainsAny": true, "ContainsRune": true, "Index": true, "IndexByte": true, "IndexAny": true, "IndexRune": true, "LastIndex": true, "LastIndexByte": true,
	"TrimSpace": true, "Trim": true, "TrimLeft": true, "TrimRight": true, "TrimPrefix": true, "TrimSuffix": true, "ToUpper": true, "ToLower": true, "Count": true,
	"Join": true, "Repeat": true, "Replace": true, "ReplaceAll": true, "EqualFold": true, "Cut": true}

func normText(t *Term) *Term {
	if t == nil {
		return nil
	}
	args := make([]*Term, len(t.Args))
	changed := false
	for i, a := range t.Args {
		args[i] = normText(a)
		if args[i] != a {
			changed = true
		}
	}
	switch {
	case t.Op == "conv" && len(args) == 1 && (t.Name == "string" || t.Name == "[]byte" || t.Name == "[]uint8"):
		textual := false
		if v := t.Args[0].V; v != nil {
			vt := v.Type().Underlying()
			if p, isPtr := vt.(*types.Pointer); isPtr { // the term of a load may carry the address it loads from
				vt = p.Elem().Underlying()
			}
			switch u := vt.(type) {
			case *types.Basic:
				textual = u.Info()&types.IsString != 0
			case *types.Slice:
				if b, ok := u.Elem().Underlying().(*types.Basic); ok && b.Kind() == types.Byte {
					textual = true
				}
			}
		} else {
			switch args[0].Op {
			case "param", "call", "index", "each", "slice", "field", "global":
				textual = true
			case "const":
				textual = strings.HasPrefix(args[0].Name, `"`)
			}
		}
		if textual {
			if cv, isConv := t.V.(*ssa.Convert); isConv && sliceWrittenThrough(cv, 0) {
				// []byte(text) whose letters are then stored into is no longer that text
				return &Term{Op: "rewritten", Args: args, V: t.V}
			}
			return args[0]
		}
	case t.Op == "call" && t.Name == "builtin:append" && len(args) == 2 && args[0].Op == "const" && strings.HasPrefix(args[0].Name, "nil"):
		// append([]byte(nil), text...): a private copy of the same text
		return args[1]
	case t.Op == "call" && (t.Name == "strings.Clone" || t.Name == "bytes.Clone") && len(args) == 1:
		return args[0]
	case t.Op == "call" && strings.HasPrefix(t.Name, "bytes.") && textTwins[t.Name[len("bytes."):]]:
		return &Term{Op: "call", Name: "strings." + t.Name[len("bytes."):], Args: args, V: t.V}
	case t.Op == "call" && t.Name == "bytes.Equal" && len(args) == 2:
		return &Term{Op: "binop", Name: "==", Args: args, V: t.V}
	case t.Op == "global":
		if it := globalInitTerm(t); it != nil {
			if n := normText(it); n.Op == "const" {
				return n
			}
		}
	}
	if !changed {
		return t
	}
	return &Term{Op: t.Op, Name: t.Name, Args: args, V: t.V, Cyc: t.Cyc}
}

// normStr: normText on the written form of a term.
func normStr(s string) string {
	if t := parseTerm(s); t != nil {
		return normText(t).String()
	}
	return s
}

// sliceWrittenThrough: an element of the list v (or of a cut of it) is stored into, or v is the
// destination of a copy, in the function that made it.
func sliceWrittenThrough(v ssa.Value, depth int) bool {
	if _, isSlice := v.Type().Underlying().(*types.Slice); !isSlice || depth > 4 || v.Referrers() == nil {
		return false
	}
	for _, r := range *v.Referrers() {
		switch r := r.(type) {
		case *ssa.IndexAddr:
			if r.X != v || r.Referrers() == nil {
				continue
			}
			for _, rr := range *r.Referrers() {
				if st, ok := rr.(*ssa.Store); ok && st.Addr == r {
					return true
				}
			}
		case *ssa.Slice:
			if r.X == v && sliceWrittenThrough(r, depth+1) {
				return true
			}
		case *ssa.Phi:
			if sliceWrittenThrough(r, depth+1) {
				return true
			}
		case *ssa.Call:
			if b, ok := r.Call.Value.(*ssa.Builtin); ok && b.Name() == "copy" && len(r.Call.Args) == 2 && r.Call.Args[0] == v {
				return true
			}
		}
	}
	return false
}
