package main

// C16 REBASE parsing recovers every enzyme record and decodes suppliers.

import (
	"fmt"
	"strings"

	"golang.org/x/tools/go/ssa"
)

func init() { register("C16", ruleC16) }

var rebaseTagField = map[string]string{
	"<1>": "Name", "<2>": "Isoschizomers", "<3>": "RecognitionSequence", "<4>": "MethylationSite",
	"<5>": "MicroOrganism", "<6>": "Source", "<7>": "CommercialAvailability", "<8>": "References",
}

func ruleC16(c *Ctx) {
	c.Decided = []string{
		"FIELDMAP: tags <1>..<8> each handled, each stores line[3:] into the field the format assigns; the entry is stored under enzyme.Name in the <8> case and the accumulator reset right after",
		"TERM: <7>: one supplier-map lookup per rune of the payload appended in order to a list that is fresh for each record",
		"INDENT: every trim applied to a supplier line before its code letter is read strips both spaces and tabs; TABLE-START: exactly the header line and the blank line after it are skipped",
		"TAGS: rebase.Enzyme JSON tags (Export output parses back; json sorts map keys)",
		"WRAPPERS: Read propagates the read error and returns Parse's map; Export = json.Marshal(map)",
		"SCANCAP: no default-capped bufio.Scanner feeds the parser",
	}
	c.Undec = []string{"the supplier-table state machine beyond the start offset (header detection by exact line text)", "name offset [9:] of supplier lines"}
	c.Trusted = []string{"REBASE format 31 tags as encoded in rules_C16.go", "encoding/json sorts map keys"}
	c.floor("FIELDMAP", 10)
	c.floor("TERM", 1)
	c.floor("INDENT", 3)
	c.floor("TAGS", 1)
	c.floor("WRAPPERS", 2)
	w := c.W
	parse := w.fn("io/rebase", "Parse")
	if parse == nil {
		c.missing("FIELDMAP", "rebase.Parse", "rebase.Parse")
		return
	}
	c.useFn(parse)
	tb := newTB(parse)
	// the current line = whatever is tested for the "<1>" tag (found by role, not by how lines are produced)
	line := ""
	eachInstr(parse, func(i ssa.Instruction) {
		if cl, ok := i.(*ssa.Call); ok && (calleeName(cl) == "strings.Contains" || calleeName(cl) == "strings.HasPrefix") {
			if tb.T(cl.Call.Args[1]).isConst(`"<1>"`) {
				line = tb.T(cl.Call.Args[0]).String()
			}
		}
	})
	if line == "" {
		c.bad("FIELDMAP", "<1> test", parse.Pos(), "no test of the current line for the \"<1>\" tag found (unrecognised shape)")
		return
	}
	payload := "slice(" + line + ", const[3], nil)"
	// the accumulator: the local Enzyme whose value is stored into the result map
	var enz *ssa.Alloc
	var result ssa.Value
	var entryUpd *ssa.MapUpdate
	nEntryUpd := 0
	eachInstr(parse, func(i ssa.Instruction) {
		if mu, ok := i.(*ssa.MapUpdate); ok && tname(mu.Map.Type()) == "map[string]poly/io/rebase.Enzyme" {
			nEntryUpd++
			entryUpd = mu
			result = mu.Map
			if ld, ok := mu.Value.(*ssa.UnOp); ok {
				enz, _ = ld.X.(*ssa.Alloc)
			}
		}
	})
	if nEntryUpd != 1 || enz == nil {
		c.bad("FIELDMAP", "entry store", parse.Pos(), fmt.Sprintf("%d stores into the result map, want 1 storing the accumulated record (unrecognised shape)", nEntryUpd))
		return
	}
	tagOf := func(b *ssa.BasicBlock) (string, string) {
		pc := pathCond(tb, parse.Blocks[0], b)
		var pos []string
		for _, a := range pc.atoms() {
			t := a.Atom
			if a.Neg || a.Disj || t.Op != "call" || !(t.Name == "strings.Contains" || t.Name == "strings.HasPrefix") || len(t.Args) != 2 {
				continue
			}
			if tg, ok := t.Args[1].constStr(); ok && rebaseTagField[tg] != "" && t.Args[0].String() == line {
				pos = append(pos, tg)
			}
		}
		if len(pos) == 1 {
			return pos[0], pc.String()
		}
		return "", pc.String()
	}
	seenTag := map[string]bool{}
	tb.buildStores()
	for _, st := range tb.stores[enz] {
		if st.Parent() != parse {
			continue
		}
		_, p, _ := rootAlloc(st.Addr)
		if len(p) == 0 {
			continue // whole-record reset, checked below
		}
		fieldName := strings.TrimPrefix(p[0], ".")
		tag, pc := tagOf(st.Block())
		if tag == "" {
			c.bad("FIELDMAP", "store to "+fieldName, st.Pos(), "field "+fieldName+" is stored outside a single <n> tag case: "+short(pc))
			continue
		}
		seenTag[tag] = true
		val := tb.T(st.Val)
		valOK := val.String() == payload
		switch fieldName {
		case "Isoschizomers":
			valOK = val.String() == "call[strings.Split]("+payload+`, const[","])`
		case "CommercialAvailability":
			valOK = true // judged by TERM below
		}
		c.check(rebaseTagField[tag] == fieldName && valOK, "FIELDMAP", tag+"->"+rebaseTagField[tag], st.Pos(),
			"tag "+tag+" stores line[3:] into "+fieldName,
			fmt.Sprintf("tag %s stores %s into field %s; format 31 assigns %s to %s with payload line[3:]", tag, short(val.String()), fieldName, tag, rebaseTagField[tag]))
	}
	for tg := range rebaseTagField {
		if !seenTag[tg] {
			c.bad("FIELDMAP", tg+"->"+rebaseTagField[tg], parse.Pos(), "tag "+tg+" has no case storing into the record")
		}
	}
	// entry stored in the <8> case under enzyme.Name, accumulator reset right after
	tag, _ := tagOf(entryUpd.Block())
	key := tb.T(entryUpd.Key)
	keyOK := false
	if ld, ok := entryUpd.Key.(*ssa.UnOp); ok {
		if a, p, ok := rootAlloc(ld.X); ok && a == enz && len(p) == 1 && p[0] == ".Name" {
			keyOK = true
		}
	}
	var reset *ssa.Store
	for _, st := range tb.stores[enz] {
		if _, p, _ := rootAlloc(st.Addr); len(p) == 0 && st.Block() == entryUpd.Block() && instrIndex(st) > instrIndex(entryUpd) {
			if v := tb.T(st.Val); v.Op == "const" && strings.HasPrefix(v.Name, "nil:") {
				reset = st
			}
		}
	}
	// References must be stored before the entry is copied into the map
	c.check(tag == "<8>" && keyOK, "FIELDMAP", "entry stored at <8> under Name", entryUpd.Pos(), "enzymeMap[enzyme.Name] = enzyme in the <8> case", "the record is stored under "+short(key.String())+" in the case of tag "+tag+"; want enzyme.Name at <8> (the record terminator)")
	c.check(reset != nil, "FIELDMAP", "accumulator reset after <8>", entryUpd.Pos(), "enzyme = Enzyme{} follows the store", "the accumulator is not reset to the zero Enzyme right after the record is stored: fields leak into the next record")
	// result returned
	rt, _, ok := singleReturnTerm(parse, 0)
	c.check(ok && rt.V == result, "FIELDMAP", "returns the filled map", parse.Pos(), "Parse returns the map the records were stored in", "Parse does not return the map it fills")

	// TERM <7>
	var sup *ssa.MapUpdate
	eachInstr(parse, func(i ssa.Instruction) {
		if mu, ok := i.(*ssa.MapUpdate); ok && tname(mu.Map.Type()) == "map[rune]string" {
			sup = mu
		}
	})
	okTerm := false
	whyTerm := "no store into CommercialAvailability found"
	for _, st := range tb.stores[enz] {
		if _, p, _ := rootAlloc(st.Addr); len(p) == 1 && p[0] == ".CommercialAvailability" {
			v := tb.T(st.Val)
			okTerm = true
			want := "extract[2](next(range(" + payload + ")))"
			sites := topAppendSites(v)
			if len(sites) != 1 {
				okTerm = false
				whyTerm = fmt.Sprintf("%d append sites feed the supplier list, want 1", len(sites))
			}
			for _, stt := range sites {
				el := stt.Elem
				if !(el.Op == "lookup" && el.Args[1].String() == want && sup != nil && el.Args[0].V == sup.Map) {
					okTerm = false
					whyTerm = "appended element is " + short(el.String()) + "; want supplierMap[rune of line[3:]]"
				}
			}
			for _, l := range phiLeaves(v) {
				switch {
				case l.Op == "collect" || l.isCall("builtin:append"):
				case l.Op == "const" && strings.HasPrefix(l.Name, "nil:"):
				default:
					okTerm = false
					whyTerm = "the supplier list starts from " + short(l.String()) + " rather than a fresh nil slice: records share a backing array and a later record overwrites an earlier record's suppliers"
				}
			}
		}
	}
	c.check(okTerm, "TERM", "<7>: suppliers = [supplierMap[r] for r in line[3:]], fresh per record", parse.Pos(), "one lookup per code letter appended in order onto a nil slice", whyTerm)

	// INDENT + TABLE-START
	if sup == nil {
		c.bad("INDENT", "supplier table", parse.Pos(), "no map[rune]string supplier table is filled (unrecognised shape)")
	} else {
		k := tb.T(sup.Key)
		var trims []*Term
		k.walk(func(x *Term) {
			if x.Op == "call" && (x.Name == "strings.TrimLeft" || x.Name == "strings.Trim" || x.Name == "strings.TrimSpace" || x.Name == "strings.TrimPrefix") {
				trims = append(trims, x)
			}
		})
		pc := pathCond(tb, parse.Blocks[0], sup.Block())
		var pcTrims []*Term
		var walkC func(x *Cond)
		var counterAtoms []*Term
		walkC = func(x *Cond) {
			if x.Op == "atom" {
				x.Atom.walk(func(t *Term) {
					if t.Op == "call" && strings.HasPrefix(t.Name, "strings.Trim") {
						pcTrims = append(pcTrims, t)
					}
				})
				if x.Atom.isBin("<") || x.Atom.isBin("<=") {
					if _, isC := x.Atom.Args[0].constInt(); isC && strings.Contains(x.Atom.Args[1].String(), "phi") && !strings.Contains(x.Atom.Args[1].String(), "len") {
						counterAtoms = append(counterAtoms, x.Atom)
					}
				}
			}
			for _, a := range x.Args {
				walkC(a)
			}
		}
		walkC(pc)
		cutOK := func(t *Term) (bool, string) {
			if t.Name == "strings.TrimSpace" {
				return true, "TrimSpace"
			}
			if len(t.Args) < 2 {
				return false, "?"
			}
			cs, ok := t.Args[1].constStr()
			return ok && strings.Contains(cs, " ") && strings.Contains(cs, "\t") && t.Name != "strings.TrimPrefix", fmt.Sprintf("%q", cs)
		}
		for i, set := range [][]*Term{trims, pcTrims} {
			name := []string{"code letter read after trimming spaces and tabs", "blank test trims spaces and tabs"}[i]
			good := len(set) > 0
			why := "no trim applied before the code letter is read"
			for _, t := range set {
				if ok, cs := cutOK(t); !ok {
					good = false
					why = "supplier lines are trimmed with cutset " + cs + ": the distributed file indents with spaces, so the code letter read is ' ' and every supplier decodes to \"\""
				}
			}
			c.check(good, "INDENT", name, sup.Pos(), "cutset contains both ' ' and '\\t'", why)
		}
		goodStart := len(counterAtoms) == 1
		whyS := fmt.Sprintf("%d line-counter guards found, want 1", len(counterAtoms))
		if goodStart {
			a := counterAtoms[0]
			lo, _ := a.Args[0].constInt()
			_, k := a.Args[1].linear()
			// guard: lo < counter+k  (counter counts lines seen since the header, header line = 0 before increment)
			skipped := lo - k + 1 // number of lines (header included) that cannot pass
			if a.isBin("<=") {
				skipped--
			}
			if skipped != 2 {
				goodStart = false
				whyS = fmt.Sprintf("the first %d lines from the header line are skipped; the format has 2 (the header and one blank line), so the first supplier line is lost", skipped)
			}
		}
		c.check(goodStart, "INDENT", "TABLE-START: header + blank line skipped", sup.Pos(), "supplier lines are read from the 3rd line after (and including) the header", whyS)
	}

	// TAGS
	if t := w.spkg("io/rebase").Type("Enzyme"); t != nil {
		checkJSONTags(c, "TAGS", t.Type(), nil)
	} else {
		c.missing("TAGS", "rebase.Enzyme", "type rebase.Enzyme")
	}
	// WRAPPERS
	if rd := w.fn("io/rebase", "Read"); rd != nil {
		c.useFn(rd)
		rtb := newTB(rd)
		good := false
		var why []string
		for _, r := range returnsOf(rd) {
			v, e := rtb.T(r.Results[0]), rtb.T(r.Results[1])
			pc := pathCond(rtb, rd.Blocks[0], r.Block()).String()
			if e.Op == "const" {
				if v.String() == "call[poly/io/rebase.Parse](extract[0](call[os.ReadFile](param[0])))" && strings.Contains(pc, "!(binop[!=](const[nil:error]") {
					good = true
				} else {
					why = append(why, "success return is "+short(v.String()))
				}
			} else if e.String() != "extract[1](call[os.ReadFile](param[0]))" {
				why = append(why, "error return does not propagate the read error")
				good = false
			}
		}
		c.check(good && len(why) == 0, "WRAPPERS", "Read", rd.Pos(), "Read returns (Parse(file), nil) or the read error", strings.Join(why, "; "))
	} else {
		c.missing("WRAPPERS", "Read", "rebase.Read")
	}
	checkReturnIs(c, "WRAPPERS", "Export", w.fn("io/rebase", "Export"), 0, "extract[0](call[encoding/json.Marshal](param[0]))", "Export = json.Marshal(enzymeMap)")
	var fs []*ssa.Function
	for _, f := range funcsSorted(reachable(parse)) {
		if inModule(f) && f.Blocks != nil {
			fs = append(fs, f)
		}
	}
	checkScanCap(c, "SCANCAP", fs)
}
