package main

// C16 REBASE parsing recovers every enzyme record and decodes suppliers.

import (
	"fmt"
	"strings"

	"golang.org/x/tools/go/ssa"
)

func init() { register("C16", ruleC16) }

// countsUpFromZero: every value that reaches the phi is the constant 0 or the phi's own group plus 1.
func countsUpFromZero(ph *ssa.Phi) bool {
	group := map[ssa.Value]bool{}
	var collect func(v ssa.Value)
	collect = func(v ssa.Value) {
		if p, ok := v.(*ssa.Phi); ok && !group[p] {
			group[p] = true
			for _, e := range p.Edges {
				collect(e)
			}
		}
	}
	collect(ph)
	ok := true
	for v := range group {
		for _, e := range v.(*ssa.Phi).Edges {
			switch x := e.(type) {
			case *ssa.Phi:
			case *ssa.Const:
				if x.Value == nil || x.Value.String() != "0" {
					ok = false
				}
			case *ssa.BinOp:
				k, isK := x.Y.(*ssa.Const)
				if x.Op.String() != "+" || !group[x.X] || !isK || k.Value == nil || k.Value.String() != "1" {
					ok = false
				}
			default:
				ok = false
			}
		}
	}
	return ok
}

var rebaseTagField = map[string]string{
	"<1>": "Name", "<2>": "Isoschizomers", "<3>": "RecognitionSequence", "<4>": "MethylationSite",
	"<5>": "MicroOrganism", "<6>": "Source", "<7>": "CommercialAvailability", "<8>": "References",
}

func ruleC16(c *Ctx) {
	c.Decided = []string{
		"FIELDMAP: tags <1>..<8> each handled, each stores line[3:] into the field the format assigns; the entry is stored under enzyme.Name in the <8> case and the accumulator reset right after",
		"TERM: <7>: one supplier-map lookup per rune of the payload appended in order to a list that is fresh for each record",
		"INDENT: every trim applied to a supplier line before its code letter is read strips both spaces and tabs; TABLE-START: exactly the header line and the blank line after it are skipped",
		"TAGS: rebase.Enzyme JSON tags (Export output parses back; json sorts map keys)",
		"WRAPPERS: Read propagates the read error and returns Parse's map; Export = json.Marshal(map)",
		"SCANCAP: no default-capped bufio.Scanner feeds the parser",
	}
	c.Undec = []string{"the supplier-table state machine beyond the start offset (header detection by exact line text)", "name offset [9:] of supplier lines"}
	c.Trusted = []string{"REBASE format 31 tags as encoded in rules_C16.go", "encoding/json sorts map keys"}
	c.floor("FIELDMAP", 10)
	c.floor("TERM", 1)
	c.floor("INDENT", 4)
	c.floor("TAGS", 1)
	c.floor("WRAPPERS", 2)
	w := c.W
	parse := w.fn("io/rebase", "Parse")
	if parse == nil {
		c.missing("FIELDMAP", "rebase.Parse", "rebase.Parse")
		return
	}
	c.useFn(parse)
	view := newFamView(parse)
	for _, g := range view.fns {
		c.useFn(g)
	}
	tb := view.tb[parse]
	// the current line = whatever is tested for the "<1>" tag (found by role, not by how lines are produced)
	line := ""
	eachInstr(parse, func(i ssa.Instruction) {
		if cl, ok := i.(*ssa.Call); ok && (calleeName(cl) == "strings.Contains" || calleeName(cl) == "strings.HasPrefix") {
			if tb.T(cl.Call.Args[1]).isConst(`"<1>"`) {
				line = tb.T(cl.Call.Args[0]).String()
			}
		}
	})
	if line == "" {
		c.undecided("FIELDMAP", "<1> test", parse.Pos(), "no test of the current line for the \"<1>\" tag found")
		return
	}
	// the line whose tag is tested is the line of the listing as written: nothing is stripped or rewritten
	// between the split into lines and the tag tests ("exactly as written" includes trailing blanks)
	if lt := parseTerm(line); lt != nil {
		rep := &lossyReport{}
		judgeSpine(lt, func(x *Term) bool {
			if (x.Op == "each" || x.Op == "index") && len(x.Args) > 0 && (x.Args[0].isCall("strings.Split") || x.Args[0].isCall("bytes.Split") || x.Args[0].isCall("strings.SplitAfter")) {
				return true
			}
			return x.isCall("(*bufio.Scanner).Text") || x.isCall("(*bufio.Scanner).Bytes") || x.isCall("(*bufio.Reader).ReadString")
		}, rep, map[*Term]bool{})
		switch {
		case len(rep.lossy) > 0:
			c.bad("FIELDMAP", "the record line is the listing's line as written", parse.Pos(), "before the tags are looked at the line goes through "+strings.Join(rep.lossy, "; ")+": a field that ends (or begins) with those characters is stored without them")
		case rep.sources > 0 && len(rep.unknown) == 0:
			c.ok("FIELDMAP", "the record line is the listing's line as written", parse.Pos(), "the line tested for tags is an element of the listing split into lines; "+fmt.Sprint(len(rep.neutral))+" boundary operations that keep the payload")
		default:
			c.undecided("FIELDMAP", "the record line is the listing's line as written", parse.Pos(), "how the line is obtained from the listing was not followed: "+short(line))
		}
	}
	payload := "slice(" + line + ", const[3], nil)"
	// payloadState judges how a tag's payload is cut out of the line.
	var payloadState func(t *Term, tag string) (int, string)
	payloadState = func(t *Term, tag string) (int, string) {
		// a guarded cut ("" for a line too short to carry a payload, the cut otherwise): judged by its cuts
		if (t.Op == "phi" || t.Op == "anyof") && !t.Cyc && len(t.Args) > 0 {
			res, why := holds, ""
			n := 0
			for _, a := range t.Args {
				if a.Op == "const" {
					continue
				}
				n++
				st, w := payloadState(a, tag)
				if st == broken {
					return broken, w
				}
				if st != holds {
					res, why = unknown, w
				}
			}
			if n > 0 {
				return res, why
			}
		}
		switch {
		case t.String() == payload:
			return holds, ""
		case t.isCall("strings.TrimPrefix") && t.Args[0].String() == line:
			if t.Args[1].isConst(strconvQuote(tag)) {
				return holds, ""
			}
			if t.Args[1].Op == "const" {
				return broken, "the payload of " + tag + " is cut with TrimPrefix(line, " + t.Args[1].Name + ")"
			}
		case (t.isCall("strings.TrimLeft") || t.isCall("strings.Trim") || t.isCall("strings.TrimRight")) && t.Args[0].String() == line && t.Args[1].Op == "const":
			return broken, "the payload of " + tag + " is cut with " + t.Name + "(line, " + t.Args[1].Name + "), which strips a SET of characters, not the tag: a payload that begins with '<', '>' or the tag's digit (e.g. the reference list \"1,2\" or a name starting with a digit) loses its first characters"
		case t.Op == "slice" && len(t.Args) == 3 && t.Args[0].String() == line && t.Args[2].Op == "nil":
			if k, ok := t.Args[1].constInt(); ok && k != 3 {
				return broken, fmt.Sprintf("the payload of %s is line[%d:]; the tag is 3 characters long", tag, k)
			}
		}
		// cut with Split at a character that a field may contain itself ("<3>A^GATC>T" has a '>')
		if t.Op == "index" && len(t.Args) == 2 && t.Args[0].isCall("strings.Split") && len(t.Args[0].Args) == 2 && t.Args[0].Args[0].String() == line {
			if sep, ok := t.Args[0].Args[1].constStr(); ok && sep != "" {
				return broken, fmt.Sprintf("the payload of %s is strings.Split(line, %q)[%s]: the field ends at the next %q, which the field text may contain itself (a cut mark, an arrow, an address in angle brackets), so the rest of it is lost", tag, sep, t.Args[1].Name, sep)
			}
		}
		return unknown, "the payload of " + tag + " is " + short(t.String())
	}
	// the accumulator: the local Enzyme whose value is stored into the result map
	var enz *ssa.Alloc
	var result ssa.Value
	var entryUpd *ssa.MapUpdate
	nEntryUpd := 0
	eachInstr(parse, func(i ssa.Instruction) {
		if mu, ok := i.(*ssa.MapUpdate); ok && tname(mu.Map.Type()) == "map[string]poly/io/rebase.Enzyme" {
			nEntryUpd++
			entryUpd = mu
			result = mu.Map
			if ld, ok := mu.Value.(*ssa.UnOp); ok {
				enz, _ = ld.X.(*ssa.Alloc)
			}
		}
	})
	if nEntryUpd != 1 || enz == nil {
		c.undecided("FIELDMAP", "entry store", parse.Pos(), fmt.Sprintf("%d stores into the result map, the model needs 1 storing the accumulated record", nEntryUpd))
		return
	}
	tagOf := func(b *ssa.BasicBlock) (string, string) {
		pc := pathCond(tb, parse.Blocks[0], b)
		var pos []string
		for _, a := range pc.atoms() {
			t := a.Atom
			if a.Neg || a.Disj || t.Op != "call" || !(t.Name == "strings.Contains" || t.Name == "strings.HasPrefix") || len(t.Args) != 2 {
				continue
			}
			if tg, ok := t.Args[1].constStr(); ok && rebaseTagField[tg] != "" && t.Args[0].String() == line {
				pos = append(pos, tg)
			}
		}
		if len(pos) == 1 {
			return pos[0], pc.String()
		}
		return "", pc.String()
	}
	seenTag := map[string]bool{}
	tb.buildStores()
	var supStore *ssa.Store
	// which fields each tag case stores into (a case may keep its payload in a second field as well)
	tagFields := map[string]map[string]bool{}
	knownField := map[string]bool{}
	for _, f := range rebaseTagField {
		knownField[f] = true
	}
	for _, st := range tb.stores[enz] {
		if st.Parent() != parse {
			continue
		}
		if _, p, _ := rootAlloc(st.Addr); len(p) > 0 {
			if tag, _ := tagOf(st.Block()); tag != "" {
				if tagFields[tag] == nil {
					tagFields[tag] = map[string]bool{}
				}
				tagFields[tag][strings.TrimPrefix(p[0], ".")] = true
			}
		}
	}
	for _, st := range tb.stores[enz] {
		if st.Parent() != parse {
			continue
		}
		_, p, _ := rootAlloc(st.Addr)
		if len(p) == 0 {
			continue // whole-record reset, checked below
		}
		fieldName := strings.TrimPrefix(p[0], ".")
		tag, pc := tagOf(st.Block())
		if tag == "" {
			c.undecided("FIELDMAP", "store to "+fieldName, st.Pos(), "field "+fieldName+" is stored outside a single <n> tag case: "+short(pc))
			continue
		}
		seenTag[tag] = true
		val := tb.T(st.Val)
		stV, whyV := holds, ""
		switch {
		case rebaseTagField[tag] != fieldName && tagFields[tag][rebaseTagField[tag]] && !knownField[fieldName]:
			// the case fills its own field too; this is a further field of the record, not one of the format's
			stV, whyV = unknown, fmt.Sprintf("the %s case also stores into %s, a field the format does not name; what that field is for is not read", tag, fieldName)
		case rebaseTagField[tag] != fieldName:
			stV, whyV = broken, fmt.Sprintf("the %s case stores into field %s; format 31 assigns %s to %s", tag, fieldName, tag, rebaseTagField[tag])
		case fieldName == "Isoschizomers":
			if val.isCall("strings.Split") && len(val.Args) == 2 {
				stV, whyV = payloadState(val.Args[0], tag)
				if sep, ok := val.Args[1].constStr(); stV == holds && (!ok || sep != ",") {
					stV, whyV = unknown, "isoschizomers split on "+val.Args[1].String()
					if ok {
						stV, whyV = broken, fmt.Sprintf("isoschizomers are split on %q; the format separates them with \",\"", sep)
					}
				}
				// the pieces are the names as written only if nobody rewrites them afterwards: a store into an
				// element of the very list that goes into the field
				if sv, isV := st.Val.(ssa.Value); isV && stV == holds && sv.Referrers() != nil {
					for _, r := range *sv.Referrers() {
						ia, isIA := r.(*ssa.IndexAddr)
						if !isIA || ia.X != sv || ia.Referrers() == nil {
							continue
						}
						for _, rr := range *ia.Referrers() {
							w, isSt := rr.(*ssa.Store)
							if !isSt || w.Addr != ssa.Value(ia) {
								continue
							}
							stV, whyV = unknown, "an element of the split list is stored again at "+c.W.pos(w.Pos())+"; what is stored there is not read"
							if cl, isCall := w.Val.(*ssa.Call); isCall {
								switch n := calleeName(cl); n {
								case "strings.TrimSpace", "strings.Trim", "strings.TrimLeft", "strings.TrimRight", "strings.TrimFunc", "strings.TrimPrefix", "strings.TrimSuffix",
									"strings.ToUpper", "strings.ToLower", "strings.Title", "strings.ToTitle", "strings.Replace", "strings.ReplaceAll":
									stV, whyV = broken, "the names cut from the "+tag+" line are rewritten through "+n+" at "+c.W.pos(w.Pos())+" before they are stored: a name that differs from its rewritten form (blanks around it, other case) is not returned as the listing states it"
								}
							}
						}
					}
				}
			} else if (val.isCall("strings.Fields") || val.isCall("strings.FieldsFunc")) && len(val.Args) >= 1 {
				// Fields / FieldsFunc never yield an empty element: an empty <2> line gives no element where
				// Split gives one empty name, and "A,,B" loses its middle entry
				if st0, _ := payloadState(val.Args[0], tag); st0 == holds {
					stV, whyV = broken, "isoschizomers are cut with "+val.Name+", which drops empty elements: a record with an empty <2> line gets an empty list instead of the one empty name the listing states, and empty entries between commas disappear"
				} else {
					stV, whyV = unknown, "isoschizomers are "+short(val.String())
				}
			} else {
				stV, whyV = unknown, "isoschizomers are "+short(val.String())
			}
		case fieldName == "CommercialAvailability":
			supStore = st // judged by TERM below
		default:
			stV, whyV = payloadState(val, tag)
		}
		c.judge(stV, "FIELDMAP", tag+"->"+rebaseTagField[tag], st.Pos(), "tag "+tag+" stores line[3:] into "+fieldName, whyV)
	}
	for tg := range rebaseTagField {
		if !seenTag[tg] {
			c.undecided("FIELDMAP", tg+"->"+rebaseTagField[tg], parse.Pos(), "no case of tag "+tg+" storing into the record was found")
		}
	}
	// entry stored in the <8> case under enzyme.Name
	tag, _ := tagOf(entryUpd.Block())
	key := tb.T(entryUpd.Key)
	stK, whyK := unknown, "the record is stored under "+short(key.String())
	if ld, ok := entryUpd.Key.(*ssa.UnOp); ok {
		if a, p, ok := rootAlloc(ld.X); ok && a == enz && len(p) == 1 {
			if p[0] == ".Name" {
				stK = holds
			} else {
				stK, whyK = broken, "the record is stored under its "+strings.TrimPrefix(p[0], ".")+", not under the enzyme name"
			}
		}
	}
	if stK == holds && tag != "<8>" {
		stK, whyK = unknown, "the record is stored outside a single tag case"
		if tag != "" {
			stK, whyK = broken, "the record is stored when "+tag+" is read; fields that follow it (up to <8>, the record terminator) are lost or attributed to the next enzyme"
		}
	}
	c.judge(stK, "FIELDMAP", "entry stored at <8> under Name", entryUpd.Pos(), "enzymeMap[enzyme.Name] = enzyme in the <8> case", whyK)
	var reset *ssa.Store
	for _, st := range tb.stores[enz] {
		if _, p, _ := rootAlloc(st.Addr); len(p) == 0 && st.Block() == entryUpd.Block() && instrIndex(st) > instrIndex(entryUpd) {
			if v := tb.T(st.Val); v.Op == "const" && strings.HasPrefix(v.Name, "nil:") {
				reset = st
			}
		}
	}
	c.checkShape(reset != nil, "FIELDMAP", "accumulator reset after <8>", entryUpd.Pos(), "enzyme = Enzyme{} follows the store", "no reset of the accumulator to the zero Enzyme right after the record is stored was found")
	// result returned
	okRet := false
	for _, a := range resultAlts(tb, parse, 0) {
		okRet = a.T.V == result
	}
	c.checkShape(okRet, "FIELDMAP", "returns the filled map", parse.Pos(), "Parse returns the map the records were stored in", "Parse does not visibly return the map it fills")

	// TERM <7>
	var sup *ssa.MapUpdate
	var supFn *ssa.Function
	view.each(func(g *ssa.Function, i ssa.Instruction) {
		if mu, ok := i.(*ssa.MapUpdate); ok && tname(mu.Map.Type()) == "map[rune]string" {
			sup, supFn = mu, g
		}
	})
	stT, whyT := unknown, "no store into CommercialAvailability found"
	if supStore != nil {
		v := tb.T(supStore.Val)
		sites := topAppendSites(v)
		switch {
		case len(sites) != 1:
			whyT = fmt.Sprintf("%d append sites feed the supplier list, the model needs 1", len(sites))
		default:
			el := sites[0].Elem
			stT = holds
			if !(el.Op == "lookup" && sup != nil && (el.Args[0].V == sup.Map || el.Args[0].String() == view.T(supFn, sup.Map).String())) {
				stT, whyT = unknown, "the appended element is "+short(el.String())
			} else {
				k := el.Args[1]
				if k.Op == "extract" && k.Name == "2" && k.Args[0].Op == "next" && k.Args[0].Args[0].Op == "range" {
					_, tg := "", "<7>"
					stT, whyT = payloadState(k.Args[0].Args[0].Args[0], tg)
				} else {
					stT, whyT = unknown, "suppliers are looked up under "+short(k.String())
				}
			}
			if stT == holds {
				for _, l := range phiLeaves(v) {
					switch {
					case l.Op == "collect" || l.isCall("builtin:append"):
					case l.Op == "const" && strings.HasPrefix(l.Name, "nil:"):
					case strings.Contains(l.String(), "field[CommercialAvailability]") || l.Op == "slice":
						stT, whyT = broken, "the supplier list starts from "+short(l.String())+" rather than a fresh slice: records share a backing array and a later record overwrites an earlier record's suppliers"
					default:
						stT, whyT = unknown, "the supplier list starts from "+short(l.String())
					}
				}
			}
		}
	}
	c.judge(stT, "TERM", "<7>: suppliers = [supplierMap[r] for r in line[3:]], fresh per record", parse.Pos(), "one lookup per code letter appended in order onto a fresh slice", whyT)

	// INDENT + TABLE-START
	if sup == nil {
		c.undecided("INDENT", "supplier table", parse.Pos(), "no map[rune]string supplier table is filled")
	} else {
		// the supplier's name is taken from the line as written
		nameT := view.T(supFn, sup.Value)
		stNm, whyNm := unknown, "the supplier name is "+short(nameT.String())
		switch {
		case nameT.contains(func(x *Term) bool { return x.isCall("strings.Fields") }):
			stNm, whyNm = broken, "the supplier name is rebuilt from strings.Fields(line): runs of blanks, tabs and trailing blanks inside the name are normalised, so the decoded supplier is not the text of the file's own table"
		case nameT.Op == "slice" && len(nameT.Args) == 3 && nameT.Args[2].Op == "nil":
			if off, ok := nameT.Args[1].constInt(); ok {
				stNm = holds
				if off != 9 {
					stNm, whyNm = broken, fmt.Sprintf("the supplier name starts at column %d of the trimmed line; the table puts the code in column 0 and the name in column 9", off)
				}
			}
		}
		c.judge(stNm, "INDENT", "supplier name = trimmed line from column 9, as written", sup.Pos(), "name = trimmed[9:]", whyNm)
		k := view.T(supFn, sup.Key)
		var trims []*Term
		k.walk(func(x *Term) {
			if x.Op == "call" && strings.HasPrefix(x.Name, "strings.Trim") && trimsLeftSide(x) {
				trims = append(trims, x)
			}
		})
		pc := view.cond(supFn, sup.Block())
		var pcTrims []*Term
		var counterAtoms []*Term
		for _, a := range pc.atoms() {
			a.Atom.walk(func(t *Term) {
				if t.Op == "call" && strings.HasPrefix(t.Name, "strings.Trim") && trimsLeftSide(t) {
					pcTrims = append(pcTrims, t)
				}
			})
			if a.Atom.isBin("<") || a.Atom.isBin("<=") {
				if _, isC := a.Atom.Args[0].constInt(); isC && strings.Contains(a.Atom.Args[1].String(), "phi") && !strings.Contains(a.Atom.Args[1].String(), "len") {
					counterAtoms = append(counterAtoms, a.Atom)
				}
			}
		}
		cutOK := func(t *Term) (bool, string) {
			if t.Name == "strings.TrimSpace" {
				return true, "TrimSpace"
			}
			if len(t.Args) < 2 {
				return false, "?"
			}
			cs, ok := t.Args[1].constStr()
			if !ok {
				return false, "?" // TrimLeftFunc(line, predicate), a cutset held in a variable: not read
			}
			return ok && strings.Contains(cs, " ") && strings.Contains(cs, "\t") && t.Name != "strings.TrimPrefix", fmt.Sprintf("%q", cs)
		}
		for i, set := range [][]*Term{trims, pcTrims} {
			name := []string{"code letter read after trimming spaces and tabs", "blank test trims spaces and tabs"}[i]
			st, why := holds, ""
			if len(set) == 0 {
				st, why = unknown, "no trim of the supplier line found on this path"
			}
			for _, t := range set {
				if ok, cs := cutOK(t); !ok {
					st, why = broken, "supplier lines are trimmed with cutset "+cs+": the distributed file indents with spaces (generated ones with tabs), so the code letter read is white space and suppliers decode to \"\""
					if cs == "?" {
						st = unknown
					}
				}
			}
			c.judge(st, "INDENT", name, sup.Pos(), "cutset contains both ' ' and '\\t'", why)
		}
		st, whyS := unknown, fmt.Sprintf("%d line-counter guards found, the model needs 1", len(counterAtoms))
		if len(counterAtoms) == 1 {
			a := counterAtoms[0]
			lo, _ := a.Args[0].constInt()
			_, k := a.Args[1].linear()
			// guard: lo < counter+k  (counter counts lines seen since the header, header line = 0 before increment)
			skipped := lo - k + 1 // number of lines (header included) that cannot pass
			if a.isBin("<=") {
				skipped--
			}
			st = holds
			cbase, _ := a.Args[1].linear()
			if cbase == nil {
				cbase = a.Args[1]
			}
			if ph, ok := stripConv(cbase).V.(*ssa.Phi); !ok || !countsUpFromZero(ph) {
				// a count-down, a counter with another start value or step: the guard's arithmetic is not this model's
				st, whyS = unknown, "the line counter in the guard "+short(a.String())+" is not a counter that starts at 0 and advances by 1"
			} else if skipped != 2 {
				st, whyS = broken, fmt.Sprintf("the first %d lines from the header line are skipped; the format has 2 (the header and one blank line), so supplier rows are lost or the blank line is read as a row", skipped)
			}
			// the counter advances on every line of the table, blank ones included
			base, _ := a.Args[1].linear()
			if base == nil {
				base = a.Args[1]
			}
			if ph, ok := stripConv(base).V.(*ssa.Phi); ok && st == holds {
				for _, cb := range additive(tb, ph) {
					if cb.At == nil || !cb.T.isConst("1") {
						continue
					}
					ipc := pathCond(tb, parse.Blocks[0], cb.At.Block())
					if v, known := classEval(ipc, line, lineClass{"blank", ""}); known && !v {
						st, whyS = broken, "blank lines are skipped before the supplier-table line counter advances: the blank line after the heading is not counted, so the fixed two-line offset swallows the first supplier row"
					}
				}
			}
		}
		c.judge(st, "INDENT", "TABLE-START: header + blank line skipped", sup.Pos(), "supplier lines are read from the 3rd line after (and including) the header; every line of the table is counted", whyS)
	}

	// TAGS
	if t := w.spkg("io/rebase").Type("Enzyme"); t != nil {
		checkJSONTags(c, "TAGS", t.Type(), nil)
	} else {
		c.missing("TAGS", "rebase.Enzyme", "type rebase.Enzyme")
	}
	// WRAPPERS
	if rd := w.fn("io/rebase", "Read"); rd != nil {
		c.useFn(rd)
		rtb := newTB(rd)
		st, why := unknown, "no success return found"
		for _, r := range returnsOf(rd) {
			if len(r.Results) != 2 {
				continue
			}
			v, e := rtb.T(r.Results[0]), rtb.T(r.Results[1])
			pc := pathCond(rtb, rd.Blocks[0], r.Block())
			errAtom := "binop[==](const[nil:error], extract[1](call[os.ReadFile](param[0])))"
			switch {
			case e.Op == "const" && pc.implies(errAtom, true):
				st, why = broken, "when the file cannot be read, Read returns no error"
			case e.Op == "const":
				want := "call[poly/io/rebase.Parse](extract[0](call[os.ReadFile](param[0])))"
				if v.String() == want {
					if st != broken {
						st = holds
					}
				} else if st != broken {
					st, why = stateOf(false, vocabOf(want), v), "the success return is "+short(v.String())
					if st == broken && !localDiff(v, want) {
						st = unknown
					}
				}
			}
		}
		// whatever form the reading takes: a reading call whose error result nobody looks at, in a function
		// that has an error to return, hands a partial (or empty) listing to Parse under a nil error
		if st != broken {
			eachInstr(rd, func(i ssa.Instruction) {
				cl, ok := i.(*ssa.Call)
				if !ok || st == broken {
					return
				}
				switch n := calleeName(cl); n {
				case "os.ReadFile", "io/ioutil.ReadFile", "io.ReadAll", "io/ioutil.ReadAll", "(*bytes.Buffer).ReadFrom", "io.Copy", "io.CopyBuffer", "io.ReadFull", "(*bufio.Reader).ReadString", "(*bufio.Reader).ReadBytes":
					sig := cl.Call.Signature().Results()
					if sig.Len() < 2 || tname(sig.At(sig.Len()-1).Type()) != "error" {
						return
					}
					used := false
					if cl.Referrers() != nil {
						for _, r := range *cl.Referrers() {
							if ex, isEx := r.(*ssa.Extract); isEx && ex.Index == sig.Len()-1 && ex.Referrers() != nil {
								for _, rr := range *ex.Referrers() {
									if _, isDbg := rr.(*ssa.DebugRef); !isDbg {
										used = true
									}
								}
							}
						}
					}
					if !used {
						st, why = broken, "Read calls "+n+" and never looks at the error it returns: when reading fails part-way (or at once), Parse is handed what was read so far and Read returns that map with a nil error"
					}
				}
			})
		}
		c.judge(st, "WRAPPERS", "Read", rd.Pos(), "Read returns (Parse(file), nil) or the read error", why)
	} else {
		c.missing("WRAPPERS", "Read", "rebase.Read")
	}
	checkReturnIs(c, "WRAPPERS", "Export", w.fn("io/rebase", "Export"), 0, "extract[0](call[encoding/json.Marshal](param[0]))", "Export = json.Marshal(enzymeMap)")
	var fs []*ssa.Function
	for _, f := range funcsSorted(reachable(parse)) {
		if inModule(f) && f.Blocks != nil {
			fs = append(fs, f)
		}
	}
	checkScanCap(c, "SCANCAP", fs)
}


// trimsLeftSide: the trim can remove characters at the START of the text (where the indentation is); taking
// the line terminator off the end (TrimSuffix(line, "\n"), TrimRight(line, "\r\n")) is not an indentation trim.
func trimsLeftSide(t *Term) bool {
	switch t.Name {
	case "strings.TrimSuffix", "strings.TrimRight", "strings.TrimRightFunc":
		return false
	}
	return true
}
