package main

// caseuse.go: does the letter case of a text parameter reach a case-sensitive operation?
//
// The raw value of the parameter and everything that merely re-packages it (conversions between
// string, []byte and []rune, slices and elements of it, the runes ranged over it, trimming, phis,
// case-preserving helpers of the module) is "raw". A raw value handed to a case normaliser (ToUpper,
// ToLower, EqualFold, unicode.ToUpper, ...) stops being raw. Evidence of case sensitivity is a raw
// value that reaches
//   - a comparison with a constant that contains a letter, or an exact comparison with another
//     arrangement of the same raw text (s == reverse(s)),
//   - a search/count/split/membership function of strings or bytes together with a constant that
//     contains a letter,
//   - a digest (blake3, sha*, md5, hash.Hash.Write),
//   - a lookup in a package-level table all of whose letter keys are written in one case.
// Every other use (an unknown callee, a store, a closure) is reported as "not followed": the caller
// then says UNDECIDED, never VIOLATION. len, cap and utf8 functions do not look at letter case.

import (
	"fmt"
	"go/constant"
	"go/types"
	"sort"
	"strings"
	"unicode"

	"golang.org/x/tools/go/ssa"
)

var caseNormalisers = map[string]bool{
	"strings.ToUpper": true, "strings.ToLower": true, "strings.EqualFold": true, "strings.ToTitle": true, "strings.ToUpperSpecial": true,
	"bytes.ToUpper": true, "bytes.ToLower": true, "bytes.EqualFold": true, "bytes.ToTitle": true,
	"unicode.ToUpper": true, "unicode.ToLower": true, "unicode.ToTitle": true, "unicode.SimpleFold": true,
}

var caseBlind = map[string]bool{
	"builtin:len": true, "builtin:cap": true, "unicode/utf8.RuneCountInString": true, "unicode/utf8.RuneCount": true, "unicode/utf8.RuneLen": true,
	"unicode/utf8.ValidString": true, "unicode/utf8.Valid": true, "unicode.IsLetter": true, "unicode.IsSpace": true, "unicode.IsDigit": true,
}

// functions whose result is the same text re-packaged (case kept): the result is raw again
var casePropagators = map[string]bool{
	"strings.TrimSpace": true, "strings.Trim": true, "strings.TrimLeft": true, "strings.TrimRight": true, "strings.TrimPrefix": true, "strings.TrimSuffix": true,
	"bytes.TrimSpace": true, "bytes.Trim": true, "bytes.TrimLeft": true, "bytes.TrimRight": true, "bytes.TrimPrefix": true, "bytes.TrimSuffix": true,
	"strings.Repeat": true, "bytes.Repeat": true, "strings.Clone": true, "bytes.Clone": true, "builtin:append": true, "builtin:copy": true,
	"unicode/utf8.DecodeRuneInString": true, "unicode/utf8.DecodeRune": true, "unicode/utf8.DecodeLastRuneInString": true,
	"poly/transform.ReverseComplement": true, "poly/transform.Complement": true, "poly/transform.Reverse": true, "poly/transform.ComplementBase": true, "poly/seqhash.RotateSequence": true,
}

var caseSearchers = map[string]bool{
	"Contains": true, "ContainsAny": true, "ContainsRune": true, "Count": true, "Index": true, "IndexAny": true, "IndexByte": true, "IndexRune": true, "LastIndex": true,
	"HasPrefix": true, "HasSuffix": true, "Split": true, "SplitN": true, "Replace": true, "ReplaceAll": true, "Equal": true, "Compare": true,
}

func hasLetterConst(v ssa.Value) bool {
	k, ok := v.(*ssa.Const)
	if !ok || k.Value == nil {
		// a constant converted to []byte / []rune
		if cv, isConv := v.(*ssa.Convert); isConv {
			return hasLetterConst(cv.X)
		}
		return false
	}
	switch k.Value.Kind() {
	case constant.String:
		for _, r := range constant.StringVal(k.Value) {
			if unicode.IsLetter(r) {
				return true
			}
		}
	case constant.Int:
		if b, isB := k.Type().Underlying().(*types.Basic); isB && (b.Kind() == types.Int32 || b.Kind() == types.Uint8 || b.Kind() == types.UntypedRune) {
			if n, exact := constant.Int64Val(k.Value); exact && n > 0 && n < 0x10000 && unicode.IsLetter(rune(n)) {
				return true
			}
		}
	}
	return false
}

// caseUses: what the letter case of parameter k of f reaches. evidence = case-sensitive sinks,
// unknown = uses that are not followed.
func caseUses(w *World, f *ssa.Function, k int) (evidence, unknown []string) {
	return caseUsesR(w, f, k, false)
}

// caseUsesR: as caseUses; with resultSink the text results of f are case-sensitive sinks too (for a function
// whose answer is spelled in one case whatever the input's).
func caseUsesR(w *World, f *ssa.Function, k int, resultSink bool) (evidence, unknown []string) {
	// stores of raw text into cells, found in the previous round; a load of a cell that a normalised store
	// dominates is raw again only if one of THESE can come in between
	rawStores := map[*ssa.Store]bool{}
	for round := 0; round < 5; round++ {
		ev, un, found := caseUsesOnce(w, f, k, rawStores, resultSink)
		grew := false
		for st := range found {
			if !rawStores[st] {
				rawStores[st] = true
				grew = true
			}
		}
		evidence, unknown = ev, un
		if !grew {
			break
		}
	}
	return
}

func caseUsesOnce(w *World, f *ssa.Function, k int, rawStores map[*ssa.Store]bool, resultSink bool) (evidence, unknown []string, rawFound map[*ssa.Store]bool) {
	rawFound = map[*ssa.Store]bool{}
	if k >= len(f.Params) {
		return nil, []string{"no such parameter"}, rawFound
	}
	ev, un := map[string]bool{}, map[string]bool{}
	condNorm, condNormBad := "", ""
	raw := map[ssa.Value]bool{}
	rawCells := map[*ssa.Alloc]bool{}
	var work []ssa.Value
	mark := func(v ssa.Value) {
		if v != nil && !raw[v] {
			raw[v] = true
			work = append(work, v)
		}
	}
	mark(f.Params[k])
	pos := func(i ssa.Instruction) string { return w.pos(i.Pos()) }
	for len(work) > 0 {
		v := work[len(work)-1]
		work = work[:len(work)-1]
		refs := v.Referrers()
		if refs == nil {
			continue
		}
		for _, r := range *refs {
			switch x := r.(type) {
			case *ssa.DebugRef:
			case *ssa.Convert, *ssa.ChangeType, *ssa.Slice, *ssa.Phi, *ssa.Range, *ssa.Next, *ssa.Index, *ssa.IndexAddr, *ssa.MakeInterface, *ssa.Field, *ssa.FieldAddr:
				if ia, isIA := x.(*ssa.IndexAddr); isIA && ia.Index == v && ia.X != v {
					un["index computed from the text at "+pos(x)] = true
					continue
				}
				if ix, isIx := x.(*ssa.Index); isIx && ix.Index == v && ix.X != v {
					un["index computed from the text at "+pos(x)] = true
					continue
				}
				if ph, isPhi := x.(*ssa.Phi); isPhi {
					// the text as typed merged with its own normalised form: it is normalised only when some test
					// says so. Whether that test lets exactly the texts through that need no normalising is a question
					// about the test, not about where the letters go; nothing below is taken as evidence then
					for _, e := range ph.Edges {
						if cl, isCall := e.(*ssa.Call); isCall && caseNormalisers[calleeName(cl)] {
							condNorm = pos(ph)
							if why := partialCaseTest(f, cl); why != "" {
								condNormBad = why
							}
						}
					}
					if condNorm != "" {
						continue
					}
				}
				mark(x.(ssa.Value))
			case *ssa.Extract:
				mark(x)
			case *ssa.UnOp:
				if x.Op.String() == "*" {
					// a load of a cell: raw unless a store of a NORMALISED value into the same cell dominates it
					// (sequence = strings.ToUpper(sequence) on a parameter that lives in a cell)
					if a, isA := v.(*ssa.Alloc); isA && normalisedStoreDominates(a, x, rawStores) {
						continue
					}
					mark(x)
				}
			case *ssa.Lookup:
				if x.Index != v {
					mark(x)
					continue
				}
				// a table keyed by the raw text (or a piece of it)
				switch keysCase(w, x.X) {
				case "one case":
					ev[fmt.Sprintf("a lookup at %s in a table whose letter keys are all written in one case", pos(x))] = true
				case "both cases":
				default:
					un["a table lookup at "+pos(x)] = true
				}
			case *ssa.BinOp:
				switch x.Op.String() {
				case "==", "!=", "<", "<=", ">", ">=":
					other := x.X
					if other == v {
						other = x.Y
					}
					if hasLetterConst(other) {
						ev[fmt.Sprintf("a comparison with a letter constant at %s", pos(x))] = true
					} else if raw[other] && (x.Op.String() == "==" || x.Op.String() == "!=") {
						// the text as typed against another arrangement of itself (s == reverse(s), s[i] == s[j]):
						// an exact comparison, so "aT" and "AT" are told apart
						ev[fmt.Sprintf("an exact comparison of two arrangements of the text as typed at %s", pos(x))] = true
					}
				case "+":
					mark(x)
				}
			case *ssa.Store:
				if x.Val != v {
					continue
				}
				if a, ok := x.Addr.(*ssa.Alloc); ok {
					rawFound[x] = true
					if !rawCells[a] {
						rawCells[a] = true
						mark(a) // loads of the cell, and element addresses of it, are raw
					}
					continue
				}
				if ia, ok := x.Addr.(*ssa.IndexAddr); ok {
					mark(ia.X) // the container now holds raw letters
					if al, _, isLocal := rootAlloc(ia.X); isLocal {
						mark(al)
					}
					continue
				}
				un["a store at "+pos(x)] = true
			case *ssa.MapUpdate:
				un["a map update at "+pos(x)] = true
			case ssa.CallInstruction:
				n := calleeName(x)
				short1 := n[strings.LastIndex(n, ".")+1:]
				switch {
				case caseNormalisers[n] || caseBlind[n]:
				case casePropagators[n]:
					if val, isVal := x.(ssa.Value); isVal {
						mark(val)
					}
				case (strings.HasPrefix(n, "strings.") || strings.HasPrefix(n, "bytes.")) && caseSearchers[short1]:
					letter := false
					for _, a := range x.Common().Args {
						if a != v && hasLetterConst(a) {
							letter = true
						}
					}
					if letter {
						ev[fmt.Sprintf("%s with a letter constant at %s", n, pos(x))] = true
					} else {
						un[n+" at "+pos(x)] = true
					}
				case strings.Contains(n, "blake3.") || strings.HasPrefix(n, "crypto/") || strings.HasPrefix(n, "hash/") || strings.HasSuffix(n, ".Sum256") || strings.HasSuffix(n, ".Sum512"):
					ev[fmt.Sprintf("the digest %s at %s", n, pos(x))] = true
				case strings.HasPrefix(n, "(*strings.Builder).Write") || strings.HasPrefix(n, "(*bytes.Buffer).Write"):
					// the builder's content is the text again
					if len(x.Common().Args) > 0 {
						recv := x.Common().Args[0]
						mark(recv)
						if al, _, isLocal := rootAlloc(recv); isLocal {
							mark(al)
						}
					}
				case n == "(*strings.Builder).String" || n == "(*bytes.Buffer).String" || n == "(*bytes.Buffer).Bytes" || n == "(*strings.Builder).Len" || n == "(*bytes.Buffer).Len" || n == "(*strings.Builder).Reset" || n == "(*bytes.Buffer).Reset" || n == "(*strings.Builder).Grow" || n == "(*bytes.Buffer).Grow":
					if val, isVal := x.(ssa.Value); isVal && !strings.HasSuffix(n, "Len") && !strings.HasSuffix(n, "Reset") && !strings.HasSuffix(n, "Grow") {
						mark(val)
					}
				default:
					un[n+" at "+pos(x)] = true
				}
			case *ssa.Return:
				if resultSink && x.Parent() == f && !types.IsInterface(v.Type()) {
					ev[fmt.Sprintf("what is returned at %s", pos(x))] = true
				}
			case *ssa.MakeClosure:
				un["a function literal at "+pos(x)] = true
			default:
				un[fmt.Sprintf("%T at %s", r, pos(r))] = true
			}
		}
	}
	if condNormBad != "" {
		ev = map[string]bool{condNormBad: true}
		condNorm = ""
	}
	if condNorm != "" {
		un["the text is normalised only under a condition (merge at "+condNorm+"); which texts skip it is not decided"] = true
		for s := range ev {
			un[s] = true
		}
		ev = map[string]bool{}
	}
	for s := range ev {
		evidence = append(evidence, s)
	}
	for s := range un {
		unknown = append(unknown, s)
	}
	sort.Strings(evidence)
	sort.Strings(unknown)
	return
}

// keysCase: the letter case of the constant keys of a package-level map ("one case", "both cases", "").
func keysCase(w *World, m ssa.Value) string {
	gl := globalRoot(m)
	if gl == nil || gl.Pkg == nil {
		return ""
	}
	init := gl.Pkg.Func("init")
	if init == nil {
		return ""
	}
	// the map value stored into the global in the package initialiser, and its updates
	var mp ssa.Value
	eachInstr(init, func(i ssa.Instruction) {
		if st, ok := i.(*ssa.Store); ok && st.Addr == ssa.Value(gl) {
			mp = st.Val
		}
	})
	if mp == nil {
		return ""
	}
	upper, lower, other := false, false, false
	n := 0
	eachInstr(init, func(i ssa.Instruction) {
		mu, ok := i.(*ssa.MapUpdate)
		if !ok || mu.Map != mp {
			return
		}
		n++
		k, isK := mu.Key.(*ssa.Const)
		if !isK || k.Value == nil {
			other = true
			return
		}
		var rs []rune
		switch k.Value.Kind() {
		case constant.String:
			rs = []rune(constant.StringVal(k.Value))
		case constant.Int:
			if v, exact := constant.Int64Val(k.Value); exact {
				rs = []rune{rune(v)}
			}
		}
		for _, r := range rs {
			if unicode.IsUpper(r) {
				upper = true
			}
			if unicode.IsLower(r) {
				lower = true
			}
		}
	})
	switch {
	case n == 0 || other:
		return ""
	case upper && lower:
		return "both cases"
	case upper || lower:
		return "one case"
	}
	return ""
}

// judgeCase: the shared verdict. holds = the case of parameter k reaches nothing case-sensitive and
// nothing that is not followed; broken = it reaches a case-sensitive operation (evidence listed).
func judgeCase(w *World, f *ssa.Function, k int) (int, string) { return judgeCaseR(w, f, k, false) }

func judgeCaseR(w *World, f *ssa.Function, k int, resultSink bool) (int, string) {
	ev, un := caseUsesR(w, f, k, resultSink)
	switch {
	case len(ev) > 0:
		return broken, "the text as typed (case not normalised) reaches " + strings.Join(ev, "; ")
	case len(un) > 0:
		return unknown, "the text as typed is also used by " + strings.Join(un, "; ") + ", not followed"
	}
	return holds, ""
}

// normalisedStoreDominates: some store into cell a whose value is the result of a case normaliser
// dominates the load ld, and no other store into a lies between them on every path (approximated: no
// other store is dominated by that store and dominates the load).
func normalisedStoreDominates(a *ssa.Alloc, ld *ssa.UnOp, rawStores map[*ssa.Store]bool) bool {
	if a.Referrers() == nil {
		return false
	}
	var stores []*ssa.Store
	for _, r := range *a.Referrers() {
		if st, ok := r.(*ssa.Store); ok && st.Addr == ssa.Value(a) {
			stores = append(stores, st)
		}
	}
	for _, st := range stores {
		cl, ok := st.Val.(*ssa.Call)
		if !ok || !caseNormalisers[calleeName(cl)] || !domInstr(st, ld) {
			continue
		}
		later := false
		for _, s2 := range stores {
			if s2 == st {
				continue
			}
			if !rawStores[s2] {
				continue // not (yet) known to store raw text
			}
			// a store of raw text that may come after st and before the load
			if !domInstr(s2, st) {
				later = true
			}
		}
		if !later {
			return true
		}
	}
	return false
}

// partialCaseTest: the normalising call cl (strings.ToUpper(text)) runs only under a condition. Two shapes of
// that condition are decided, both as "too narrow": it looks at ONE position of the text (text[0] >= 'a',
// unicode.IsLower(rune(text[0]))), or it asks strings.ContainsAny(text, <list>) with a list that lacks some
// lower-case letter a-z. In both a text whose lower-case letters sit elsewhere (or are other letters) skips
// the normalisation. Anything else returns "".
func partialCaseTest(f *ssa.Function, cl *ssa.Call) string {
	if len(cl.Call.Args) == 0 || len(f.Blocks) == 0 {
		return ""
	}
	tb := newTB(f)
	tb.NoInline = true
	text := tb.T(cl.Call.Args[0]).String()
	for _, a := range pathCond(tb, f.Blocks[0], cl.Block()).atoms() {
		why := ""
		a.Atom.walk(func(x *Term) {
			if why != "" {
				return
			}
			if x.Op == "index" && len(x.Args) == 2 && x.Args[0].String() == text && x.Args[1].Op == "const" {
				why = "a normalisation that runs only when a test of ONE position of the text (" + short(a.Atom.String()) + ") says so: a text whose lower-case letters sit elsewhere stays as typed"
			}
			if (x.isCall("strings.ContainsAny") || x.isCall("bytes.ContainsAny")) && len(x.Args) == 2 && x.Args[0].String() == text {
				if list, isK := normText(x.Args[1]).constStr(); isK {
					for r := 'a'; r <= 'z'; r++ {
						if !strings.ContainsRune(list, r) {
							why = fmt.Sprintf("a normalisation that runs only when the text contains one of %q: a text whose only lower-case letters are others (%q, say) stays as typed", list, string(r))
							break
						}
					}
				}
			}
		})
		if why != "" {
			return why
		}
	}
	return ""
}
