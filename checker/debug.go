package main

import (
	"fmt"
	"os"
	"strings"

	"golang.org/x/tools/go/ssa"
)

// dumpFunc prints SSA and, for every Return/Store/Send/Call operand, the def-use term. Debug aid only.
func dumpFunc(w *World, spec string) {
	parts := strings.SplitN(spec, ":", 2)
	if len(parts) != 2 {
		fmt.Println("want pkgrel:Func or pkgrel:Type.Method")
		return
	}
	var f *ssa.Function
	if i := strings.Index(parts[1], "."); i >= 0 {
		f = w.method(parts[0], parts[1][:i], parts[1][i+1:])
	} else {
		f = w.fn(parts[0], parts[1])
	}
	if f == nil {
		fmt.Println("not found")
		return
	}
	fs := []*ssa.Function{f}
	fs = append(fs, f.AnonFuncs...)
	tr := func(t *Term) string {
		s := t.String()
		if len(s) > 400 {
			return s[:400] + "…"
		}
		return s
	}
	for _, f := range fs {
		if os.Getenv("DUMP_SSA") != "" {
			f.WriteTo(os.Stdout)
		}
		tb := newTB(f)
		if os.Getenv("DEEP") != "" {
			tb = newDeepTB(f)
		}
		eachInstr(f, func(i ssa.Instruction) {
			switch i := i.(type) {
			case *ssa.Return:
				for k, r := range i.Results {
					fmt.Printf("  RETURN[%d] @b%d = %s\n", k, i.Block().Index, tr(tb.T(r)))
				}
			case *ssa.Store:
				fmt.Printf("  STORE b%d %s <- %s\n", i.Block().Index, tr(tb.T(i.Addr)), tr(tb.T(i.Val)))
			case *ssa.Send:
				fmt.Printf("  SEND b%d %s <- %s\n", i.Block().Index, tr(tb.T(i.Chan)), tr(tb.T(i.X)))
			case *ssa.MapUpdate:
				fmt.Printf("  MAPUPDATE b%d %s[%s] = %s\n", i.Block().Index, tr(tb.T(i.Map)), tr(tb.T(i.Key)), tr(tb.T(i.Value)))
			case *ssa.If:
				fmt.Printf("  IF b%d %s\n", i.Block().Index, tr(tb.T(i.Cond)))
			case ssa.CallInstruction:
				if v, ok := i.(ssa.Value); ok {
					fmt.Printf("  CALL b%d %s\n", i.Block().Index, tr(tb.T(v)))
				} else {
					fmt.Printf("  CALL b%d %s %v\n", i.Block().Index, calleeName(i), i)
					for k, a := range i.Common().Args {
						fmt.Printf("      arg%d = %s\n", k, tr(tb.T(a)))
					}
				}
			}
		})
	}
}
