package main

// emit.go: two small semantic engines shared by the text-format rules.
//
// (1) emission sequences: what a builder function writes per loop iteration, as an ordered list of
//     pieces, whatever the sink (bytes.Buffer / strings.Builder writes, fmt.Fprintf into one, a []byte
//     grown by append, string +=). Adjacent constants are merged, byte constants become text.
//
// (2) line classes: a path condition over tests of a text line ("is empty", "first byte is c") is
//     evaluated, three-valued, for each class of line a format distinguishes. A rule then states for
//     which classes an action must / must not happen, independent of how the tests are written
//     (if-chain, switch, helper, line[0:1]==">" or line[0]=='>' or strings.HasPrefix).

import (
	"fmt"
	"sort"
	"strings"

	"golang.org/x/tools/go/ssa"
)

type emission struct {
	At     ssa.Instruction
	Pieces []*Term
}

// sinkEmissions lists the writes into the sink behind result term rt of f, in program order.
func sinkEmissions(tb *TermBuilder, f *ssa.Function, rt *Term) ([]emission, string) {
	var out []emission
	switch {
	case rt.isCall("(*strings.Builder).String") || rt.isCall("(*bytes.Buffer).String") || rt.isCall("(*bytes.Buffer).Bytes"):
		recv := rt.Args[0].String()
		bad := ""
		eachInstr(f, func(i ssa.Instruction) {
			ci, ok := i.(ssa.CallInstruction)
			if !ok {
				return
			}
			n := calleeName(ci)
			args := ci.Common().Args
			switch {
			case (strings.HasPrefix(n, "(*bytes.Buffer).Write") || strings.HasPrefix(n, "(*strings.Builder).Write")) && len(args) == 2 && tb.T(args[0]).String() == recv:
				ps, _ := tb.pieces(tb.T(args[1]))
				out = append(out, emission{i, ps})
			case (n == "fmt.Fprintf" || n == "fmt.Fprint" || n == "fmt.Fprintln") && len(args) >= 1 && tb.T(args[0]).String() == recv:
				if n != "fmt.Fprintf" {
					bad = n + " into the sink is not modelled"
					return
				}
				// reuse the Sprintf reading
				t := &Term{Op: "call", Name: "fmt.Sprintf", Args: []*Term{tb.T(args[1]), tb.T(args[2])}}
				ps, _ := tb.pieces(t)
				out = append(out, emission{i, ps})
			case (n == "(*bytes.Buffer).Reset" || n == "(*strings.Builder).Reset" || n == "(*bytes.Buffer).Truncate") && tb.T(args[0]).String() == recv:
				bad = "the sink is reset or truncated"
			}
		})
		if bad != "" {
			return nil, bad
		}
	default:
		// a []byte (or string) grown by append / += : the web of phis and appends behind the result
		if rt.V == nil {
			return nil, "result is not a value of the function"
		}
		web := map[ssa.Value]bool{}
		okWeb := true
		var visit func(v ssa.Value)
		visit = func(v ssa.Value) {
			if web[v] || !okWeb {
				return
			}
			switch x := v.(type) {
			case *ssa.Phi:
				web[v] = true
				for _, e := range x.Edges {
					visit(e)
				}
			case *ssa.Call:
				if calleeName(x) != "builtin:append" {
					okWeb = false
					return
				}
				web[v] = true
				visit(x.Call.Args[0])
				el := tb.T(x.Call.Args[1])
				var ps []*Term
				switch {
				case el.Op == "slice" && len(el.Args) > 0 && (el.Args[0].Op == "partial" || el.Args[0].Op == "anyof"):
					// append(b, c1, c2...) : a literal list of elements
					parts := []*Term{el.Args[0]}
					if el.Args[0].Op == "anyof" {
						parts = el.Args[0].Args
					}
					sort.Slice(parts, func(i, j int) bool { return parts[i].Name < parts[j].Name })
					for _, p := range parts {
						if p.Op != "partial" {
							okWeb = false
							return
						}
						ps = append(ps, p.Args[0])
					}
				default:
					ps = []*Term{stripConv(el)} // append(b, s...)
				}
				out = append(out, emission{x, ps})
			case *ssa.BinOp:
				if x.Op.String() != "+" || !isStringType(x.Type()) {
					okWeb = false
					return
				}
				web[v] = true
				visit(x.X)
				ps, _ := tb.pieces(tb.T(x.Y))
				out = append(out, emission{x, ps})
			case *ssa.Const:
			case *ssa.MakeSlice:
			case *ssa.Slice:
				if _, isAlloc := x.X.(*ssa.Alloc); !isAlloc {
					okWeb = false
				}
			case *ssa.Convert:
				visit(x.X)
			default:
				okWeb = false
			}
		}
		visit(rt.V)
		if !okWeb || len(out) == 0 {
			return nil, "the result is not assembled by Buffer/Builder writes, appends or += that the model follows"
		}
		sort.SliceStable(out, func(i, j int) bool {
			a, b := out[i].At, out[j].At
			if a.Block() != b.Block() {
				return a.Block().Index < b.Block().Index
			}
			return instrIndex(a) < instrIndex(b)
		})
	}
	return out, ""
}

// normPieces merges adjacent constants and renders byte/rune constants as text.
func normPieces(ps []*Term) []string {
	var out []string
	lit, hasLit := "", false
	flush := func() {
		if hasLit {
			out = append(out, "const["+strconvQuote(lit)+"]")
			lit, hasLit = "", false
		}
	}
	for _, p := range ps {
		p = stripConv(p)
		if s, ok := p.constStr(); ok {
			lit += s
			hasLit = true
			continue
		}
		if k, ok := p.constInt(); ok && k >= 0 && k < 0x110000 {
			lit += string(rune(k))
			hasLit = true
			continue
		}
		flush()
		out = append(out, p.String())
	}
	flush()
	return out
}

// perIterationPieces: all emissions sit in one block of one loop; returns that block's pieces in order.
func perIterationPieces(ems []emission) ([]string, *ssa.BasicBlock, string) {
	if len(ems) == 0 {
		return nil, nil, "nothing is written"
	}
	blk := ems[0].At.Block()
	var ps []*Term
	for _, e := range ems {
		if e.At.Block() != blk {
			return nil, nil, "writes are spread over several blocks (control flow between them)"
		}
		ps = append(ps, e.Pieces...)
	}
	if enclosingLoopHeader(blk) == nil {
		return nil, nil, "the writes are not in a loop"
	}
	return normPieces(ps), blk, ""
}

// comparePieces: equal -> holds; same length with differing items -> broken (a different constant or
// field in a recognised layout); else unknown.
func comparePieces(got, want []string) (int, string) {
	if strings.Join(got, " ⧺ ") == strings.Join(want, " ⧺ ") {
		return holds, ""
	}
	msg := "writes " + short(strings.Join(got, " ⧺ ")) + "; want " + strings.Join(want, " ⧺ ")
	if len(got) == len(want) {
		diff := 0
		for i := range got {
			if got[i] != want[i] {
				diff++
				g, w := parseTerm(got[i]), parseTerm(want[i])
				if g == nil || w == nil || len(opaqueParts(g, vocabOf(want...))) > 0 {
					return unknown, msg
				}
			}
		}
		if diff <= 2 {
			return broken, msg
		}
		return unknown, msg
	}
	// one piece missing or one extra constant
	if len(got)+1 == len(want) || len(got) == len(want)+1 {
		gs, ws := map[string]int{}, map[string]int{}
		for _, g := range got {
			gs[g]++
		}
		for _, w := range want {
			ws[w]++
		}
		nonConstSame := true
		for k, n := range ws {
			if !strings.HasPrefix(k, "const[") && gs[k] != n {
				nonConstSame = false
			}
		}
		for k, n := range gs {
			if !strings.HasPrefix(k, "const[") && ws[k] != n {
				nonConstSame = false
			}
		}
		if nonConstSame {
			return broken, msg
		}
	}
	return unknown, msg
}

// ---------------------------------------------------------------------------
// line classes

// A lineClass is one kind of input line a text format distinguishes, represented by a sample.
type lineClass struct {
	Name   string
	Sample string
}

// strOf evaluates a string-valued term over the line x := sample: x itself, constants, constant-bounded
// slices of x. ok=false when the term is something else or the slice would be out of range.
func strOf(t *Term, x, sample string) (string, bool) {
	t = stripConv(t)
	if t == nil {
		return "", false
	}
	if t.String() == x {
		return sample, true
	}
	if s, ok := t.constStr(); ok {
		return s, true
	}
	if t.Op == "slice" && len(t.Args) == 3 && t.Args[0].String() == x {
		lo, hi := int64(0), int64(len(sample))
		if t.Args[1].Op != "nil" {
			k, ok := t.Args[1].constInt()
			if !ok {
				return "", false
			}
			lo = k
		}
		if t.Args[2].Op != "nil" {
			k, ok := t.Args[2].constInt()
			if !ok {
				return "", false
			}
			hi = k
		}
		if lo < 0 || hi > int64(len(sample)) || lo > hi {
			return "", false // would panic: no value
		}
		return sample[lo:hi], true
	}
	if t.isCall("strings.TrimSpace") && len(t.Args) == 1 {
		if s, ok := strOf(t.Args[0], x, sample); ok {
			return strings.TrimSpace(s), true
		}
	}
	return "", false
}

func intOf(t *Term, x, sample string) (int64, bool) {
	t = stripConv(t)
	if t == nil {
		return 0, false
	}
	if k, ok := t.constInt(); ok {
		return k, true
	}
	if t.isCall("builtin:len") && len(t.Args) == 1 {
		if s, ok := strOf(t.Args[0], x, sample); ok {
			return int64(len(s)), true
		}
	}
	if t.Op == "index" && len(t.Args) == 2 && t.Args[0].String() == x {
		if k, ok := t.Args[1].constInt(); ok && k >= 0 && k < int64(len(sample)) {
			return int64(sample[k]), true
		}
	}
	return 0, false
}

// atomOnSample evaluates a test of the line (value, known).
func atomOnSample(t *Term, x, sample string) (bool, bool) {
	switch {
	case t.Op == "binop" && len(t.Args) == 2:
		if a, ok1 := strOf(t.Args[0], x, sample); ok1 {
			if b, ok2 := strOf(t.Args[1], x, sample); ok2 {
				switch t.Name {
				case "==":
					return a == b, true
				case "!=":
					return a != b, true
				case "<":
					return a < b, true
				}
			}
		}
		if a, ok1 := intOf(t.Args[0], x, sample); ok1 {
			if b, ok2 := intOf(t.Args[1], x, sample); ok2 {
				if v, ok := relHolds(t.Name, a, b); ok {
					return v, true
				}
			}
		}
	case t.Op == "call" && len(t.Args) == 2 && (t.Name == "strings.HasPrefix" || t.Name == "strings.HasSuffix" || t.Name == "strings.Contains"):
		a, ok1 := strOf(t.Args[0], x, sample)
		b, ok2 := strOf(t.Args[1], x, sample)
		if ok1 && ok2 {
			switch t.Name {
			case "strings.HasPrefix":
				return strings.HasPrefix(a, b), true
			case "strings.HasSuffix":
				return strings.HasSuffix(a, b), true
			default:
				return strings.Contains(a, b), true
			}
		}
	}
	return false, false
}

// evalCond3 evaluates c with atoms valued by val (value, known).
func evalCond3(c *Cond, val func(*Term) (bool, bool)) (bool, bool) {
	switch c.Op {
	case "true":
		return true, true
	case "false":
		return false, true
	case "atom":
		return val(c.Atom)
	case "not":
		v, k := evalCond3(c.Args[0], val)
		return !v, k
	case "and":
		allKnown := true
		for _, a := range c.Args {
			v, k := evalCond3(a, val)
			if k && !v {
				return false, true
			}
			if !k {
				allKnown = false
			}
		}
		return true, allKnown
	case "or":
		allKnown := true
		for _, a := range c.Args {
			v, k := evalCond3(a, val)
			if k && v {
				return true, true
			}
			if !k {
				allKnown = false
			}
		}
		return false, allKnown
	}
	return false, false
}

// classEval: the truth of pc for a line of class cl (x = the line's term). Anything that is not a
// test of the line (loop conditions, flags, counters) is open.
func classEval(pc *Cond, x string, cl lineClass) (bool, bool) {
	return evalCond3(pc, func(t *Term) (bool, bool) {
		// the line being classified exists: the scanner call that produced it (the loop's own condition)
		// returned true
		// ... provided the scanner yields plain lines: a custom split function may already have dropped
		// whole classes of lines, and then nothing is known about what reaches the body
		if t.isCall("(*bufio.Scanner).Scan") {
			plain := true
			if call, ok := t.V.(*ssa.Call); ok && call.Parent() != nil {
				eachInstr(call.Parent(), func(i ssa.Instruction) {
					if ci, ok := i.(ssa.CallInstruction); ok && calleeName(ci) == "(*bufio.Scanner).Split" {
						as := ci.Common().Args
						if fn, isFn := as[len(as)-1].(*ssa.Function); !isFn || fn.String() != "bufio.ScanLines" {
							plain = false
						}
					}
				})
			} else {
				plain = false
			}
			if plain {
				return true, true
			}
		}
		return atomOnSample(t, x, cl.Sample)
	})
}

// classTable renders for which classes pc is true / false / open.
func classTable(pc *Cond, x string, classes []lineClass) string {
	var ss []string
	for _, cl := range classes {
		v, k := classEval(pc, x, cl)
		s := "?"
		if k {
			s = fmt.Sprint(v)
		}
		ss = append(ss, cl.Name+":"+s)
	}
	return strings.Join(ss, " ")
}
