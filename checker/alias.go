package main

// alias.go (K9): who may write memory reachable from arguments / package state.
// Abstraction: values are classified by *origin* – fresh (allocated in this function), param
// (reachable from a parameter/receiver), global (reachable from a package-level variable).
// Copying a struct copies slice headers, not backing arrays, so origin flows through
// Field/Index/Slice/Lookup/Phi/Extract/loads and through struct stores into locals.

import (
	"fmt"
	"go/token"
	"go/types"
	"sort"
	"strings"

	"golang.org/x/tools/go/ssa"
)

type origin int

const (
	oFresh origin = 1 << iota
	oParam
	oGlobal
	oUnknown
)

func (o origin) String() string {
	s := ""
	if o&oFresh != 0 {
		s += "fresh|"
	}
	if o&oParam != 0 {
		s += "param|"
	}
	if o&oGlobal != 0 {
		s += "global|"
	}
	if o&oUnknown != 0 {
		s += "unknown|"
	}
	if s == "" {
		return "none"
	}
	return s[:len(s)-1]
}

func hasRefs(t types.Type) bool {
	switch x := t.Underlying().(type) {
	case *types.Slice, *types.Map, *types.Pointer, *types.Chan, *types.Interface, *types.Signature:
		return true
	case *types.Struct:
		for i := 0; i < x.NumFields(); i++ {
			if hasRefs(x.Field(i).Type()) {
				return true
			}
		}
	case *types.Array:
		return hasRefs(x.Elem())
	case *types.Tuple:
		for i := 0; i < x.Len(); i++ {
			if hasRefs(x.At(i).Type()) {
				return true
			}
		}
	}
	return false
}

type originAnalysis struct {
	f     *ssa.Function
	memo  map[ssa.Value]origin
	cells map[*ssa.Alloc]origin // origin of reference content stored in local allocs
	// the same per first field of a local record ("*" = stored as a whole): what is read from c.A is what was
	// put into c.A, not what was put into c.B. Used only for records whose address goes nowhere else.
	fcells map[*ssa.Alloc]map[string]origin
	ret   func(g *ssa.Function) origin
	depth int
}

func newOriginAnalysis(f *ssa.Function, ret func(g *ssa.Function) origin) *originAnalysis {
	oa := &originAnalysis{f: f, memo: map[ssa.Value]origin{}, cells: map[*ssa.Alloc]origin{}, fcells: map[*ssa.Alloc]map[string]origin{}, ret: ret}
	// fixpoint over cell contents
	for iter := 0; iter < 8; iter++ {
		changed := false
		oa.memo = map[ssa.Value]origin{}
		eachInstr(f, func(i ssa.Instruction) {
			st, ok := i.(*ssa.Store)
			if !ok {
				return
			}
			if a, pth, ok := rootAlloc(st.Addr); ok {
				o := oa.of(st.Val)
				if !hasRefs(st.Val.Type()) {
					return
				}
				if oa.cells[a]|o != oa.cells[a] {
					oa.cells[a] |= o
					changed = true
				}
				key := "*"
				if len(pth) > 0 && strings.HasPrefix(pth[0], ".") {
					key = pth[0]
				}
				if oa.fcells[a] == nil {
					oa.fcells[a] = map[string]origin{}
				}
				if oa.fcells[a][key]|o != oa.fcells[a][key] {
					oa.fcells[a][key] |= o
					changed = true
				}
			}
		})
		if !changed {
			break
		}
	}
	oa.memo = map[ssa.Value]origin{}
	return oa
}

// of returns where the memory referenced by v (slice backing arrays, map, pointee) may come from.
func (oa *originAnalysis) of(v ssa.Value) origin {
	if o, ok := oa.memo[v]; ok {
		return o
	}
	oa.memo[v] = 0 // cycle guard
	o := oa.of1(v)
	oa.memo[v] = o
	return o
}

func (oa *originAnalysis) of1(v ssa.Value) origin {
	switch x := v.(type) {
	case *ssa.Const:
		return oFresh
	case *ssa.Parameter:
		if !hasRefs(x.Type()) {
			return oFresh
		}
		// a parameter of a function literal that is only ever called on the spot (f(args), go f(args),
		// defer f(args)) refers to what the arguments at those sites refer to
		if o, ok := oa.literalParam(x); ok {
			return o
		}
		return oParam
	case *ssa.FreeVar:
		if hasRefs(x.Type()) {
			return oParam
		}
		return oFresh
	case *ssa.Global:
		return oGlobal
	case *ssa.Alloc:
		return oFresh | oa.cells[x]&0 // the address itself is fresh
	case *ssa.MakeSlice, *ssa.MakeMap, *ssa.MakeChan, *ssa.MakeClosure:
		return oFresh
	case *ssa.Phi:
		var o origin
		for _, e := range x.Edges {
			o |= oa.of(e)
		}
		return o
	case *ssa.UnOp:
		if x.Op.String() == "*" {
			if a, pth, ok := rootAlloc(x.X); ok {
				if len(pth) > 0 && strings.HasPrefix(pth[0], ".") && recordStaysLocal(a) {
					if c := oa.fcells[a][pth[0]] | oa.fcells[a]["*"]; c != 0 {
						return c
					}
					return oFresh
				}
				if c := oa.cells[a]; c != 0 {
					return c
				}
				return oFresh
			}
			return oa.of(x.X)
		}
		return oa.of(x.X)
	case *ssa.FieldAddr:
		return oa.of(x.X)
	case *ssa.Field:
		return oa.of(x.X)
	case *ssa.IndexAddr:
		return oa.of(x.X)
	case *ssa.Index:
		return oa.of(x.X)
	case *ssa.Lookup:
		return oa.of(x.X)
	case *ssa.Slice:
		if _, isPtr := x.X.Type().Underlying().(*types.Pointer); isPtr {
			if a, _, ok := rootAlloc(x.X); ok {
				_ = a
				return oFresh // slicing a local array: fresh backing store
			}
		}
		return oa.of(x.X)
	case *ssa.Extract:
		return oa.of(x.Tuple)
	case *ssa.Next:
		return oa.of(x.Iter)
	case *ssa.Range:
		return oa.of(x.X)
	case *ssa.ChangeType:
		return oa.of(x.X)
	case *ssa.Convert:
		// string <-> []byte conversions copy
		return oFresh
	case *ssa.MakeInterface:
		return oa.of(x.X)
	case *ssa.TypeAssert:
		return oa.of(x.X)
	case *ssa.BinOp:
		return oFresh
	case *ssa.Call:
		n := calleeName(x)
		if n == "builtin:append" {
			// append may reuse the first argument's backing array; appended *elements* keep their own origin
			o := oa.of(x.Call.Args[0])
			if len(x.Call.Args) > 1 {
				// append([]byte, string...) has a string as its second operand: no references in it
				if sl, isSlice := x.Call.Args[1].Type().Underlying().(*types.Slice); isSlice && hasRefs(sl.Elem()) {
					o |= oa.elemOrigin(x.Call.Args[1])
				}
			}
			if o == 0 {
				o = oFresh
			}
			return o
		}
		if g := x.Call.StaticCallee(); g != nil && oa.ret != nil && inModule(g) {
			r := oa.ret(g)
			o := origin(0)
			if r&oGlobal != 0 {
				o |= oGlobal
			}
			if r&oFresh != 0 {
				o |= oFresh
			}
			if r&oUnknown != 0 {
				o |= oUnknown
			}
			if r&oParam != 0 {
				for _, a := range callArgs(x) {
					if hasRefs(a.Type()) {
						o |= oa.of(a)
					}
				}
			}
			if o == 0 {
				o = oFresh
			}
			return o
		}
		if !hasRefs(x.Type()) {
			return oFresh
		}
		// std / dynamic callee returning references: conservatively may alias its arguments
		o := oFresh
		for _, a := range callArgs(x) {
			if hasRefs(a.Type()) {
				o |= oa.of(a)
			}
		}
		return o
	}
	return oUnknown
}

// literalParam: origin of parameter p of a function literal from its call sites in the enclosing function.
func (oa *originAnalysis) literalParam(p *ssa.Parameter) (origin, bool) {
	f := oa.f
	parent := f.Parent()
	if parent == nil || parent.Blocks == nil {
		return 0, false
	}
	idx := -1
	for k, q := range f.Params {
		if q == p {
			idx = k
		}
	}
	if idx < 0 {
		return 0, false
	}
	var sites []ssa.CallInstruction
	okAll := true
	eachInstr(parent, func(i ssa.Instruction) {
		for _, op := range i.Operands(nil) {
			if op == nil || *op == nil {
				continue
			}
			uses := false
			switch v := (*op).(type) {
			case *ssa.MakeClosure:
				uses = v.Fn == ssa.Value(f)
			case *ssa.Function:
				uses = v == f
			}
			if !uses {
				continue
			}
			ci, isCall := i.(ssa.CallInstruction)
			if _, isMC := i.(*ssa.MakeClosure); isMC {
				continue // the closure value itself; its uses are looked at where it is called
			}
			if !isCall || unwrapClosureValue(ci.Common().Value) != f {
				okAll = false
				continue
			}
			sites = append(sites, ci)
		}
	})
	if !okAll || len(sites) == 0 {
		return 0, false
	}
	if oa.depth > 2 {
		return 0, false
	}
	pa := newOriginAnalysis(parent, oa.ret)
	pa.depth = oa.depth + 1
	var o origin
	for _, ci := range sites {
		if idx < len(ci.Common().Args) {
			o |= pa.of(ci.Common().Args[idx])
		}
	}
	if o == 0 {
		o = oFresh
	}
	return o, true
}

func unwrapClosureValue(v ssa.Value) *ssa.Function {
	switch x := v.(type) {
	case *ssa.MakeClosure:
		f, _ := x.Fn.(*ssa.Function)
		return f
	case *ssa.Function:
		return x
	}
	return nil
}

// elemOrigin: origin of the reference content of the elements of a varargs slice (new [n]T; stores).
func (oa *originAnalysis) elemOrigin(v ssa.Value) origin {
	if sl, ok := v.(*ssa.Slice); ok {
		if a, _, ok := rootAlloc(sl.X); ok {
			if c := oa.cells[a]; c != 0 {
				return c
			}
			return oFresh
		}
	}
	return oa.of(v)
}

// returnOrigins computes, for module functions, the origin of the references in their results
// (fixpoint over the call graph, bounded).
func returnOrigins(fs []*ssa.Function) map[*ssa.Function]origin {
	res := map[*ssa.Function]origin{}
	for iter := 0; iter < 6; iter++ {
		changed := false
		for _, f := range fs {
			if f.Blocks == nil {
				continue
			}
			oa := newOriginAnalysis(f, func(g *ssa.Function) origin { return res[g] })
			var o origin
			for _, r := range returnsOf(f) {
				for _, v := range r.Results {
					// an error result is not a way to reach the data structures whose sharing is traced
					if hasRefs(v.Type()) && v.Type().String() != "error" {
						o |= oa.of(v)
					}
				}
			}
			if o != res[f] {
				res[f] = o
				changed = true
			}
		}
		if !changed {
			break
		}
	}
	return res
}

// argWriters lists stores in f whose target memory may be reachable from a parameter or receiver
// (i.e. f mutates its caller's data), ignoring stores into f's own fresh allocations.
func argWriters(f *ssa.Function) []string {
	return writersWith(f, oParam|oGlobal, nil)
}

func writersWith(f *ssa.Function, mask origin, ret func(g *ssa.Function) origin) []string {
	oa := newOriginAnalysis(f, ret)
	var out []string
	eachInstr(f, func(i ssa.Instruction) {
		switch x := i.(type) {
		case *ssa.Store:
			if _, _, ok := rootAlloc(x.Addr); ok {
				return // local variable
			}
			if o := oa.of(x.Addr); o&mask != 0 {
				out = append(out, fmt.Sprintf("store at %s into %s memory", f.Prog.Fset.Position(x.Pos()), o&mask))
			}
		case *ssa.MapUpdate:
			if o := oa.of(x.Map); o&mask != 0 {
				out = append(out, fmt.Sprintf("map update at %s into %s memory", f.Prog.Fset.Position(x.Pos()), o&mask))
			}
		case *ssa.Call:
			if b, isB := x.Call.Value.(*ssa.Builtin); isB && b.Name() == "delete" && len(x.Call.Args) == 2 {
				if o := oa.of(x.Call.Args[0]); o&mask != 0 {
					out = append(out, fmt.Sprintf("map entry deleted at %s from %s memory", f.Prog.Fset.Position(x.Pos()), o&mask))
				}
			}
		}
	})
	sort.Strings(out)
	return out
}

// apiArgWrites: does the exported function root, directly or through same-package helpers, write into
// memory its caller can still see? Three ways are recognised:
//   - a store / map update in root through memory of param origin;
//   - the same in a helper that some call site in the family hands caller-reachable memory to
//     (an address into a slice of a by-value argument still points into the caller's backing array);
//   - append(x[:0], ...) (or append(x[:k], ...)) where x is of param origin: the elements are written
//     into the caller's backing array.
//
// Returns one description per site.
func apiArgWrites(root *ssa.Function) []string {
	fam := family(root)
	ro := returnOrigins(fam)
	ret := func(g *ssa.Function) origin { return ro[g] }
	var out []string
	// which helpers receive caller-reachable memory
	receives := map[*ssa.Function]bool{root: true}
	for changed := true; changed; {
		changed = false
		for _, f := range fam {
			if !receives[f] {
				continue
			}
			oa := newOriginAnalysis(f, ret)
			eachInstr(f, func(i ssa.Instruction) {
				ci, ok := i.(ssa.CallInstruction)
				if !ok {
					return
				}
				g := ci.Common().StaticCallee()
				if g == nil || receives[g] || pkgOf(g) != pkgOf(root) || g.Blocks == nil {
					return
				}
				for _, a := range callArgs(ci) {
					if hasRefs(a.Type()) && oa.of(a)&(oParam|oUnknown) != 0 {
						receives[g] = true
						changed = true
					}
				}
			})
		}
		// the address of an ELEMENT of a slice that came in through a parameter is caller-visible whoever
		// holds the slice header: a by-value struct argument is a shallow copy
		for _, f := range fam {
			oa := newOriginAnalysis(f, ret)
			eachInstr(f, func(i ssa.Instruction) {
				ci, ok := i.(ssa.CallInstruction)
				if !ok {
					return
				}
				g := ci.Common().StaticCallee()
				if g == nil || receives[g] || pkgOf(g) != pkgOf(root) || g.Blocks == nil {
					return
				}
				for _, a := range callArgs(ci) {
					if ia, ok := unwrap(a).(*ssa.IndexAddr); ok {
						if _, isSlice := ia.X.Type().Underlying().(*types.Slice); isSlice && oa.of(ia.X)&(oParam|oUnknown) != 0 {
							receives[g] = true
							changed = true
						}
					}
				}
			})
		}
	}
	for _, f := range fam {
		if !receives[f] {
			continue
		}
		for _, w := range writersWith(f, oParam, ret) {
			out = append(out, fname(f)+": "+w)
		}
		oa := newOriginAnalysis(f, ret)
		eachInstr(f, func(i ssa.Instruction) {
			cl, ok := i.(*ssa.Call)
			if !ok || calleeName(cl) != "builtin:append" {
				return
			}
			// the slice appended to: through the web of phis and earlier appends back to a truncated re-slice
			var sl *ssa.Slice
			seen := map[ssa.Value]bool{}
			var find func(v ssa.Value)
			find = func(v ssa.Value) {
				if seen[v] || sl != nil {
					return
				}
				seen[v] = true
				switch x := v.(type) {
				case *ssa.Slice:
					if x.High != nil {
						sl = x
					}
				case *ssa.Phi:
					for _, e := range x.Edges {
						find(e)
					}
				case *ssa.Call:
					if calleeName(x) == "builtin:append" {
						find(x.Call.Args[0])
					}
				}
			}
			find(cl.Call.Args[0])
			if sl == nil {
				return
			}
			if _, isPtr := sl.X.Type().Underlying().(*types.Pointer); isPtr {
				return // slicing a local array
			}
			if oa.of(sl.X)&oParam != 0 {
				out = append(out, fmt.Sprintf("%s: append at %s onto a truncated re-slice of a slice the caller still holds: the appended elements overwrite the caller's", fname(f), f.Prog.Fset.Position(cl.Pos())))
			}
		})
	}
	sort.Strings(out)
	return dedupe(out)
}

// recordStaysLocal: the address of the local record a is used for nothing but reaching its fields, storing
// the record as a whole and loading it: nobody else can have put anything into it.
func recordStaysLocal(a *ssa.Alloc) bool {
	if a.Referrers() == nil {
		return false
	}
	for _, r := range *a.Referrers() {
		switch x := r.(type) {
		case *ssa.FieldAddr, *ssa.DebugRef:
		case *ssa.UnOp:
			if x.Op != token.MUL {
				return false
			}
		case *ssa.Store:
			if x.Addr != ssa.Value(a) {
				return false
			}
		default:
			return false
		}
	}
	return true
}
