package main

// layout.go: constants audit for the GenBank writer (C03 LAYOUT). Instead of matching the shape of
// the writer, every construct that carries a layout constant is collected from the writer's family
// and its constant compared with the format's; constructs that are not found are undecided.

import (
	"fmt"
	"strings"

	"golang.org/x/tools/go/ssa"
)

type layoutAudit struct {
	spaceArgs  []int64 // constant arguments of the spaces helper / strings.Repeat(" ", n) / literal runs of spaces in pieces
	padWidths  []int64 // K in K - len(x)
	wrapWidths []int64
	rems       []int64 // moduli applied to the sequence index
	numWidth   []int64 // K in K - len(Itoa(index+1))
	itoaIdx    []int64 // k in Itoa(index + k) for the ORIGIN line number
	consts     map[string]bool
	spacesFn   *ssa.Function
	spacesOK   int
	posOf      map[string]ssa.Instruction
}

func newLayoutAudit(c *Ctx, fs []*ssa.Function) *layoutAudit {
	a := &layoutAudit{consts: map[string]bool{}, posOf: map[string]ssa.Instruction{}}
	// the spaces helper by role: a module function with one int parameter returning a string that
	// writes the constant " " in a loop
	for _, f := range fs {
		if len(f.Params) == 1 && tname(f.Params[0].Type()) == "int" && f.Signature.Results().Len() == 1 && isStringType(f.Signature.Results().At(0).Type()) {
			writesSpace := false
			tb := newTB(f)
			eachInstr(f, func(i ssa.Instruction) {
				if ci, ok := i.(ssa.CallInstruction); ok && strings.Contains(calleeName(ci), ").WriteString") && len(ci.Common().Args) == 2 && tb.T(ci.Common().Args[1]).isConst(`" "`) && inLoop(ci.Block()) {
					writesSpace = true
				}
				if cl, ok := i.(*ssa.Call); ok && calleeName(cl) == "strings.Repeat" && tb.T(cl.Call.Args[0]).isConst(`" "`) {
					writesSpace = true
				}
			})
			if writesSpace {
				a.spacesFn = f
			}
		}
	}
	if a.spacesFn != nil {
		a.spacesOK = spacesHelperState(a.spacesFn)
	}
	for _, f := range fs {
		tb := newTB(f)
		eachInstr(f, func(i ssa.Instruction) {
			switch x := i.(type) {
			case *ssa.Call:
				n := calleeName(x)
				g := x.Call.StaticCallee()
				switch {
				case g != nil && g == a.spacesFn:
					t := tb.T(x.Call.Args[0])
					if k, ok := t.constInt(); ok {
						a.spaceArgs = append(a.spaceArgs, k)
						a.posOf[fmt.Sprintf("space%d", k)] = x
					} else if t.isBin("-") {
						if k, ok := t.Args[0].constInt(); ok && t.Args[1].isCall("builtin:len") {
							a.padWidths = append(a.padWidths, k)
							a.posOf[fmt.Sprintf("pad%d", k)] = x
						}
					}
				case n == "strings.Repeat":
					if tb.T(x.Call.Args[0]).isConst(`" "`) {
						t := tb.T(x.Call.Args[1])
						if k, ok := t.constInt(); ok {
							a.spaceArgs = append(a.spaceArgs, k)
							a.posOf[fmt.Sprintf("space%d", k)] = x
						} else if t.isBin("-") {
							if k, ok := t.Args[0].constInt(); ok && t.Args[1].isCall("builtin:len") {
								a.padWidths = append(a.padWidths, k)
								a.posOf[fmt.Sprintf("pad%d", k)] = x
							}
						}
					}
				case n == "github.com/mitchellh/go-wordwrap.WrapString":
					if k, ok := tb.T(x.Call.Args[1]).constInt(); ok {
						a.wrapWidths = append(a.wrapWidths, k)
						a.posOf["wrap"] = x
					}
				case n == "strconv.Itoa":
					b, k := tb.T(x.Call.Args[0]).linear()
					if b != nil && b.Op == "extract" && b.Name == "1" && strings.Contains(b.String(), "range(field[Sequence]") {
						a.itoaIdx = append(a.itoaIdx, k)
						a.posOf["itoa"] = x
					}
				case strings.HasPrefix(n, "fmt."):
					// format verbs carrying widths: %-12s, %12s, %9d
					for _, arg := range x.Call.Args {
						if s, ok := tb.T(arg).constStr(); ok {
							a.scanFormat(s, x)
						}
					}
				}
			case *ssa.BinOp:
				t := tb.T(x)
				if t.isBin("%") {
					if k, ok := t.Args[1].constInt(); ok && strings.Contains(t.Args[0].String(), "range(field[Sequence]") {
						a.rems = append(a.rems, k)
						a.posOf[fmt.Sprintf("rem%d", k)] = x
					}
				}
				if t.isBin("-") {
					if k, ok := t.Args[0].constInt(); ok && t.Args[1].isCall("builtin:len") {
						inner := t.Args[1].Args[0]
						if inner.isCall("strconv.Itoa") {
							a.numWidth = append(a.numWidth, k)
							a.posOf["numwidth"] = x
						} else if inner.Op == "param" || inner.Op == "field" {
							a.padWidths = append(a.padWidths, k)
							a.posOf[fmt.Sprintf("pad%d", k)] = x
						}
					}
				}
			}
			for _, op := range i.Operands(nil) {
				if op != nil && *op != nil {
					if cst, ok := (*op).(*ssa.Const); ok {
						if s, ok := tb.T(cst).constStr(); ok {
							a.consts[s] = true
							if strings.TrimLeft(s, " ") != s && strings.TrimSpace(s) == "/" || (len(s) > 3 && strings.Trim(s, " ") == "") {
								// a literal run of spaces (possibly followed by '/')
								a.spaceArgs = append(a.spaceArgs, int64(len(s)-len(strings.TrimLeft(s, " "))))
							}
						}
					}
				}
			}
		})
	}
	return a
}

func (a *layoutAudit) scanFormat(f string, at ssa.Instruction) {
	for i := 0; i < len(f); i++ {
		if f[i] != '%' {
			continue
		}
		j := i + 1
		left := false
		if j < len(f) && f[j] == '-' {
			left = true
			j++
		}
		n := int64(0)
		digits := 0
		for j < len(f) && f[j] >= '0' && f[j] <= '9' {
			n = n*10 + int64(f[j]-'0')
			j++
			digits++
		}
		if digits > 0 && j < len(f) {
			switch f[j] {
			case 's':
				if left {
					a.padWidths = append(a.padWidths, n)
					a.posOf[fmt.Sprintf("pad%d", n)] = at
				} else {
					a.spaceArgs = append(a.spaceArgs, n)
					a.posOf[fmt.Sprintf("space%d", n)] = at
				}
			case 'd':
				a.numWidth = append(a.numWidth, n)
				a.posOf["numwidth"] = at
			}
		}
		i = j
	}
}

// spacesHelperState: does the helper return exactly n spaces?
func spacesHelperState(f *ssa.Function) int {
	tb := newTB(f)
	rt, _, ok := singleReturnTerm(f, 0)
	if !ok {
		return unknown
	}
	if rt.isCall("strings.Repeat") {
		if rt.Args[0].isConst(`" "`) && rt.Args[1].isParam(0) {
			return holds
		}
		if rt.Args[0].isConst(`" "`) {
			if b, k := rt.Args[1].linear(); b != nil && b.isParam(0) && k != 0 {
				return broken
			}
		}
		return unknown
	}
	if rt.isCall("(*strings.Builder).String") || rt.isCall("(*bytes.Buffer).String") {
		ws := bufWrites(f, tb, rt.Args[0].String())
		if len(ws) == 1 && ws[0].arg.isConst(`" "`) {
			hdr := enclosingLoopHeader(ws[0].call.Block())
			if hdr != nil {
				if ifi, ok := hdr.Instrs[len(hdr.Instrs)-1].(*ssa.If); ok {
					g := tb.T(ifi.Cond)
					if g.Op == "binop" && (g.Name == "<" || g.Name == "<=") {
						if ph, ok := g.Args[0].V.(*ssa.Phi); ok {
							b, k := g.Args[1].linear()
							init := int64(-99)
							step := false
							for _, e := range ph.Edges {
								et := tb.T(e)
								if v, ok := et.constInt(); ok {
									init = v
								} else if bb, kk := et.linear(); bb != nil && bb.V == ssa.Value(ph) && kk == 1 {
									step = true
								}
							}
							if b != nil && b.isParam(0) && step && init != -99 {
								// iterations = bound - init (for <) or +1 (for <=)
								iters := k - init
								if g.Name == "<=" {
									iters++
								}
								if iters == 0 {
									return holds
								}
								return broken
							}
						}
					}
				}
			}
		}
	}
	return unknown
}

func has(xs []int64, v int64) bool {
	for _, x := range xs {
		if x == v {
			return true
		}
	}
	return false
}

func (a *layoutAudit) report(c *Ctx, build, metaFn *ssa.Function) {
	pos := build.Pos()
	// spaces helper
	if a.spacesFn != nil {
		c.judge(a.spacesOK, "LAYOUT", "spaces helper returns n spaces", a.spacesFn.Pos(), "one space per unit", "the helper that builds runs of spaces does not return exactly n spaces")
	}
	// keyword pad and continuation indent
	switch {
	case len(a.padWidths) == 0:
		c.undecided("LAYOUT", "keyword field width 12", pos, "no K - len(keyword) padding (or %-Ks) found")
	default:
		// a pad width is evidence against the layout only when it is a near miss of 12 (10, 11, 13, 14): any
		// other "K - len(x)" in the writer pads something else (a sub-keyword column, a template helper)
		near := false
		for _, w := range a.padWidths {
			if w != 12 && w >= 10 && w <= 14 {
				near = true
			}
		}
		switch {
		case has(a.padWidths, 12) && !near:
			c.ok("LAYOUT", "keyword field width 12", pos, "keywords are padded to 12 columns")
		case near:
			c.bad("LAYOUT", "keyword field width 12", pos, fmt.Sprintf("keywords are padded to %v columns; GenBank's keyword field is 12", a.padWidths))
		default:
			c.undecided("LAYOUT", "keyword field width 12", pos, fmt.Sprintf("pad widths found: %v, none is the keyword field's 12 or a near miss of it", a.padWidths))
		}
	}
	// continuation indent: a constant run of spaces of the metadata helper; must equal 12
	if metaFn != nil {
		var ind []int64
		tb := newTB(metaFn)
		for _, f := range family(metaFn) {
			ftb := tb
			if f != metaFn {
				ftb = newTB(f)
			}
			if f == a.spacesFn {
				continue
			}
			eachInstr(f, func(i ssa.Instruction) {
				if cl, ok := i.(*ssa.Call); ok {
					g := cl.Call.StaticCallee()
					if (g != nil && g == a.spacesFn) || calleeName(cl) == "strings.Repeat" {
						arg := cl.Call.Args[len(cl.Call.Args)-1]
						if g == a.spacesFn {
							arg = cl.Call.Args[0]
						}
						if k, ok := ftb.T(arg).constInt(); ok {
							ind = append(ind, k)
						}
					}
					if strings.HasPrefix(calleeName(cl), "fmt.") {
						for _, arg := range cl.Call.Args {
							if s, ok := ftb.T(arg).constStr(); ok {
								b := &layoutAudit{posOf: map[string]ssa.Instruction{}}
								b.scanFormat(s, cl)
								ind = append(ind, b.spaceArgs...)
							}
						}
					}
				}
				for _, op := range i.Operands(nil) {
					if op != nil && *op != nil {
						if cst, ok := (*op).(*ssa.Const); ok {
							if s, ok := ftb.T(cst).constStr(); ok && len(s) > 3 && strings.Trim(s, " ") == "" {
								ind = append(ind, int64(len(s)))
							}
						}
					}
				}
			})
		}
		switch {
		case len(ind) == 0:
			c.undecided("LAYOUT", "continuation lines indented by 12", metaFn.Pos(), "no constant run of spaces found in the metadata-line helper")
		default:
			c.check(has(ind, 12), "LAYOUT", "continuation lines indented by 12", metaFn.Pos(), "wrapped lines start in the data column", fmt.Sprintf("continuation lines are indented by %v spaces under a 12-column keyword field: a column-strict reader (line[12:]) loses or gains a letter on every wrapped line", ind))
		}
	}
	switch {
	case len(a.wrapWidths) == 0:
		c.undecided("LAYOUT", "wrap width <= 68", pos, "no word-wrap call with a constant width found")
	default:
		okW := true
		for _, k := range a.wrapWidths {
			if k > 68 {
				okW = false
			}
		}
		c.check(okW, "LAYOUT", "wrap width <= 68", pos, "12 + 68 = 80 columns", fmt.Sprintf("metadata is wrapped at %v columns; 12 + width must not exceed 80", a.wrapWidths))
	}
	// feature columns: a recognised constant that is close to, but not, the format's value is evidence;
	// a missing constant (the column produced another way) is not
	{
		near := func(xs []int64, want int64) (int64, bool) {
			if has(xs, want) {
				return 0, false
			}
			for _, x := range xs {
				if x != want && x >= want-2 && x <= want+2 {
					return x, true
				}
			}
			return 0, false
		}
		var wrong []string
		if x, ok := near(a.spaceArgs, 5); ok {
			wrong = append(wrong, fmt.Sprintf("feature keys are indented by %d, want 5", x))
		}
		if x, ok := near(a.spaceArgs, 21); ok {
			wrong = append(wrong, fmt.Sprintf("qualifier lines are indented by %d, want 21", x))
		}
		if x, ok := near(a.padWidths, 16); ok {
			wrong = append(wrong, fmt.Sprintf("feature keys are padded to %d, want 16 (5 + 16 = 21)", x))
		}
		switch {
		case len(wrong) > 0:
			c.bad("LAYOUT", "feature key at column 5 padded to 16, qualifiers at column 21", pos, strings.Join(wrong, "; "))
		case has(a.spaceArgs, 5) && has(a.spaceArgs, 21) && has(a.padWidths, 16):
			c.ok("LAYOUT", "feature key at column 5 padded to 16, qualifiers at column 21", pos, "5 + 16 = 21")
		default:
			c.undecided("LAYOUT", "feature key at column 5 padded to 16, qualifiers at column 21", pos, fmt.Sprintf("feature-table column constants not all recognised (indents %v, pads %v)", a.spaceArgs, a.padWidths))
		}
	}
	// qualifier delimiters
	if a.consts["/"] && a.consts["=\""] && a.consts["\"\n"] {
		c.ok("LAYOUT", "qualifier line = /key=\"value\"", pos, "delimiters / =\" \"\\n")
	} else {
		c.undecided("LAYOUT", "qualifier line = /key=\"value\"", pos, "qualifier delimiters are not separate constants (formatted output?)")
	}
	// ORIGIN
	switch {
	case len(a.rems) == 0:
		c.undecided("LAYOUT", "ORIGIN: 60 per line, 10 per block", pos, "no modulus applied to the sequence index found")
	default:
		good := has(a.rems, 60) && has(a.rems, 10) && len(a.rems) <= 3
		for _, r := range a.rems {
			if r != 60 && r != 10 {
				good = false
			}
		}
		c.check(good, "LAYOUT", "ORIGIN: 60 per line, 10 per block", pos, "line break every 60 bases, a space every 10", fmt.Sprintf("the sequence index is taken modulo %v; GenBank prints 60 bases per line in blocks of 10", a.rems))
	}
	switch {
	case len(a.itoaIdx) == 0:
		c.undecided("LAYOUT", "ORIGIN line number = index+1", pos, "no Itoa of the sequence index found")
	default:
		c.check(len(a.itoaIdx) == 1 && a.itoaIdx[0] == 1, "LAYOUT", "ORIGIN line number = index+1", pos, "1-based position of the first base of the line", fmt.Sprintf("ORIGIN lines are numbered index%+d", a.itoaIdx[0]))
	}
	switch {
	case len(a.numWidth) == 0:
		c.undecided("LAYOUT", "ORIGIN number right-aligned in 9", pos, "no K - len(number) padding found")
	default:
		c.check(has(a.numWidth, 9), "LAYOUT", "ORIGIN number right-aligned in 9", pos, "9 columns + one space", fmt.Sprintf("ORIGIN numbers are right-aligned in %v columns; GenBank uses 9", a.numWidth))
	}
	hdr, hdrWrong := false, ""
	for s := range a.consts {
		if strings.HasPrefix(s, "FEATURES") && strings.Contains(s, "Location/Qualifiers") {
			if col := len(s) - len(strings.TrimLeft(strings.TrimPrefix(s, "FEATURES"), " ")); col == 21 {
				hdr = true
			} else {
				hdrWrong = fmt.Sprintf("the FEATURES header puts Location/Qualifiers at column %d; the feature table's qualifier column is 21", col)
			}
		}
	}
	term := a.consts["\n//"] || a.consts["//"] || a.consts["//\n"]
	orig := a.consts["ORIGIN\n"] || a.consts["ORIGIN"]
	if hdrWrong != "" && !hdr {
		c.bad("LAYOUT", "FEATURES header, ORIGIN line and // terminator constants", pos, hdrWrong)
	} else if hdr && term && orig {
		c.ok("LAYOUT", "FEATURES header, ORIGIN line and // terminator constants", pos, "section markers are the format's")
	} else if hdr || term || orig {
		c.undecided("LAYOUT", "FEATURES header, ORIGIN line and // terminator constants", pos, fmt.Sprintf("section markers recognised: FEATURES header(21 columns)=%v ORIGIN=%v //=%v", hdr, orig, term))
	} else {
		c.undecided("LAYOUT", "FEATURES header, ORIGIN line and // terminator constants", pos, "section marker constants not found")
	}
}
