package main

// view.go: a "family view" reads a function together with the same-package helpers it calls from
// exactly one site, and renders every value and path condition of those helpers in the vocabulary of
// the root function (helper parameters are replaced by the argument terms at the call site, and the
// helper's path conditions are conjoined with the condition of the call site). Extracting a loop or a
// literal into a helper therefore does not change what a rule sees.

import (
	"fmt"
	"go/types"
	"sort"
	"strconv"
	"strings"

	"golang.org/x/tools/go/ssa"
)

type famView struct {
	root   *ssa.Function
	fns    []*ssa.Function
	tb     map[*ssa.Function]*TermBuilder
	site   map[*ssa.Function]ssa.CallInstruction
	caller map[*ssa.Function]*ssa.Function
	args   map[*ssa.Function][]*Term
	conds  map[*ssa.Function]*Cond
}

func newFamView(root *ssa.Function, keep ...string) *famView {
	v := &famView{root: root, tb: map[*ssa.Function]*TermBuilder{}, site: map[*ssa.Function]ssa.CallInstruction{},
		caller: map[*ssa.Function]*ssa.Function{}, args: map[*ssa.Function][]*Term{}, conds: map[*ssa.Function]*Cond{}}
	v.fns = []*ssa.Function{root}
	v.tb[root] = newDeepTB(root, keep...)
	v.conds[root] = &Cond{Op: "true"}
	// count static call sites of same-package helpers within the family
	fam := family(root)
	inFam := map[*ssa.Function]bool{}
	for _, f := range fam {
		inFam[f] = true
	}
	sites := map[*ssa.Function][]ssa.CallInstruction{}
	from := map[ssa.CallInstruction]*ssa.Function{}
	for _, f := range fam {
		f := f
		eachInstr(f, func(i ssa.Instruction) {
			if ci, ok := i.(ssa.CallInstruction); ok {
				if _, isGo := i.(*ssa.Go); isGo {
					return
				}
				if _, isDefer := i.(*ssa.Defer); isDefer {
					return
				}
				if g := ci.Common().StaticCallee(); g != nil && inFam[g] && g != root {
					sites[g] = append(sites[g], ci)
					from[ci] = f
				}
			}
		})
	}
	// breadth-first from the root: include helpers whose single call site lies in an included function
	for changed := true; changed; {
		changed = false
		for _, g := range fam {
			if _, done := v.tb[g]; done || len(sites[g]) != 1 || g.Blocks == nil || len(g.FreeVars) > 0 {
				continue
			}
			ci := sites[g][0]
			f := from[ci]
			if _, ok := v.tb[f]; !ok || f == g {
				continue
			}
			v.tb[g] = newDeepTB(g, keep...)
			v.site[g] = ci
			v.caller[g] = f
			var ats []*Term
			for _, a := range callArgs(ci) {
				ats = append(ats, v.T(f, a))
			}
			v.args[g] = ats
			v.conds[g] = v.cond(f, ci.Block())
			v.fns = append(v.fns, g)
			changed = true
		}
	}
	return v
}

// T: the term of val (a value of function g) in the root's vocabulary.
func (v *famView) T(g *ssa.Function, val ssa.Value) *Term {
	tb := v.tb[g]
	if tb == nil {
		return newTB(g).T(val)
	}
	t := tb.T(val)
	if g == v.root {
		return t
	}
	return substParams(t, v.args[g])
}

// cond: the condition under which block b of g runs, in the root's vocabulary.
func (v *famView) cond(g *ssa.Function, b *ssa.BasicBlock) *Cond {
	pc := pathCond(v.tb[g], g.Blocks[0], b)
	if g == v.root {
		return pc
	}
	return cAnd(v.conds[g], substCond(pc, v.args[g]))
}

// condFrom: like cond but only from block head of the same function (head must dominate b).
func (v *famView) condFrom(g *ssa.Function, head, b *ssa.BasicBlock) *Cond {
	pc := pathCond(v.tb[g], head, b)
	if g == v.root {
		return pc
	}
	return substCond(pc, v.args[g])
}

func (v *famView) has(g *ssa.Function) bool { return v.tb[g] != nil }

// each calls fn for every instruction of every function in the view.
func (v *famView) each(fn func(g *ssa.Function, i ssa.Instruction)) {
	for _, g := range v.fns {
		g := g
		eachInstr(g, func(i ssa.Instruction) { fn(g, i) })
	}
}

func substCond(c *Cond, args []*Term) *Cond {
	switch c.Op {
	case "true", "false":
		return c
	case "atom":
		t := substParams(c.Atom, args)
		neg := false
		for t.Op == "unop" && t.Name == "!" && len(t.Args) == 1 {
			t, neg = t.Args[0], !neg
		}
		if t.Op == "const" && (t.Name == "true" || t.Name == "false") {
			if (t.Name == "true") != neg {
				return &Cond{Op: "true"}
			}
			return &Cond{Op: "false"}
		}
		a := &Cond{Op: "atom", Atom: t}
		if neg {
			return cNot(a)
		}
		return a
	case "not":
		return cNot(substCond(c.Args[0], args))
	case "and":
		r := &Cond{Op: "true"}
		for _, a := range c.Args {
			r = cAnd(r, substCond(a, args))
		}
		return r
	case "or":
		r := &Cond{Op: "false"}
		for _, a := range c.Args {
			r = cOr(r, substCond(a, args))
		}
		return r
	}
	return c
}

// structLits: struct literals of the named type built field by field (composite literals) in g:
// per literal, the stored term of each field, keyed by the address the fields are taken from.
type structLit struct {
	Fn     *ssa.Function
	At     ssa.Instruction // the last field store
	Fields map[string]*Term
}

func (v *famView) structLits(typ string) []structLit {
	var out []structLit
	for _, g := range v.fns {
		byBase := map[ssa.Value]*structLit{}
		var order []ssa.Value
		g := g
		eachInstr(g, func(i ssa.Instruction) {
			st, ok := i.(*ssa.Store)
			if !ok {
				return
			}
			fa, ok := st.Addr.(*ssa.FieldAddr)
			if !ok || tname(deref(fa.X.Type())) != typ {
				return
			}
			l := byBase[fa.X]
			if l == nil {
				l = &structLit{Fn: g, Fields: map[string]*Term{}}
				byBase[fa.X] = l
				order = append(order, fa.X)
			}
			l.At = st
			l.Fields[storeFieldName(fa)] = v.T(g, st.Val)
		})
		for _, b := range order {
			out = append(out, *byBase[b])
		}
	}
	return out
}

func storeFieldName(fa *ssa.FieldAddr) string {
	t := storeTarget(fa)
	for i := len(t) - 1; i >= 0; i-- {
		if t[i] == '.' {
			return t[i+1:]
		}
	}
	return t
}

var _ = strconv.Itoa

// copyOmissions: struct literals of type typ (a *types.Named rendered as pkg.Name) that are visibly a
// field-by-field copy of ANOTHER value of the same type (at least two fields are field[F](X) of one
// source X stored under the same name F) but leave some of the type's fields out. Those fields are
// zero in the copy. Returns one description per such literal.
func copyOmissions(fs []*ssa.Function, typ string, st *types.Struct) []string {
	var out []string
	for _, f := range fs {
		v := &famView{root: f, fns: []*ssa.Function{f}, tb: map[*ssa.Function]*TermBuilder{f: newTB(f)}}
		for _, lit := range v.structLits(typ) {
			src := map[string]int{}
			for name, t := range lit.Fields {
				if t.Op == "field" && t.Name == name && len(t.Args) == 1 {
					src[t.Args[0].String()]++
				}
			}
			best, n := "", 0
			for s, k := range src {
				if k > n {
					best, n = s, k
				}
			}
			if n < 2 {
				continue
			}
			var missing []string
			for i := 0; i < st.NumFields(); i++ {
				if _, ok := lit.Fields[st.Field(i).Name()]; !ok {
					missing = append(missing, st.Field(i).Name())
				}
			}
			if len(missing) > 0 {
				out = append(out, fmt.Sprintf("%s builds a %s as a field-by-field copy of %s (at %s) but leaves out %s: those fields are zero in the copy", fname(f), typ, short(best), currentWorld.pos(lit.At.Pos()), strings.Join(missing, ", ")))
			}
		}
	}
	sort.Strings(out)
	return out
}
