package main

// C14 GFF write-then-read preserves records and 1-based/0-based coordinates.

import (
	"fmt"
	"sort"
	"strings"

	"golang.org/x/tools/go/ssa"
)

func init() { register("C14", ruleC14) }

// bufWrites lists, in instruction order, the Write*/WriteString/WriteRune calls on receiver recv (term string).
type bufWrite struct {
	call ssa.CallInstruction
	arg  *Term
}

func bufWrites(f *ssa.Function, tb *TermBuilder, recv string) []bufWrite {
	var out []bufWrite
	eachInstr(f, func(i ssa.Instruction) {
		ci, ok := i.(ssa.CallInstruction)
		if !ok {
			return
		}
		n := calleeName(ci)
		if (strings.HasPrefix(n, "(*bytes.Buffer).Write") || strings.HasPrefix(n, "(*strings.Builder).Write")) && tb.T(ci.Common().Args[0]).String() == recv {
			out = append(out, bufWrite{ci, tb.T(ci.Common().Args[1])})
		}
	})
	return out
}

// findCall returns the unique call instruction to name in f.
func findCall(f *ssa.Function, name string) (ssa.CallInstruction, int) {
	cs := callsIn(f, name)
	if len(cs) == 0 {
		return nil, 0
	}
	return cs[0], len(cs)
}

func ruleC14(c *Ctx) {
	c.Decided = []string{
		"COORD: Parse: Start = atoi(col4)-1, End = atoi(col5) exactly (no clamping); Build: col4 = Itoa(Start+1), col5 = Itoa(End); with C02's evaluator (parent[Start:End]) a parsed feature is bases start..end",
		"FIELDMAP: column k written by Build is the field Parse fills from fields[k] (Name,Source,Type,start,end,Score,Strand,Phase,Attributes), tab separator on both sides; attribute delimiters '=' and ';' agree, no trailing ';'; header lines ##gff-version / ##sequence-region agree with the reader's space-split indices; ##FASTA constant identical",
		"MAPORDER: attribute keys sorted before emission",
		"PREFIX: line[0:2], line[0:1] guarded by len(line) >= k",
		"TERM: embedded sequence = concatenation of all non-header lines after ##FASTA",
		"WRAPPERS: Read = Parse(ReadFile(path)), Write = WriteFile(path, Build(x)) (truncating)",
	}
	c.Undec = []string{"Build's defaults (\"feature\", \"unknown\", region end from LOCUS length) as round-trip fixpoints", "the 70-column wrap's interaction with RegionEnd", "layouts of an independent GFF writer beyond the column/delimiter conventions"}
	c.Trusted = []string{"strings.Split, strconv.Atoi/Itoa", "ioutil.WriteFile truncates"}
	c.floor("COORD", 4)
	c.floor("FIELDMAP", 12)
	c.floor("MAPORDER", 1)
	c.floor("PREFIX", 2)
	c.floor("TERM", 2)
	c.floor("WRAPPERS", 2)
	w := c.W
	parse, build := w.fn("io/gff", "Parse"), w.fn("io/gff", "Build")
	if parse == nil || build == nil {
		c.missing("FIELDMAP", "gff.Parse/Build", "exported functions gff.Parse and gff.Build")
		return
	}
	c.useFn(parse)
	c.useFn(build)
	checkGffReader(c, parse)
	checkGffWriter(c, build)
	// MAPORDER over Build and what it calls
	var fs []*ssa.Function
	for _, f := range funcsSorted(reachable(build)) {
		if inModule(f) {
			fs = append(fs, f)
		}
	}
	checkMapOrder(c, "MAPORDER", fs)

	// WRAPPERS
	checkReturnIs(c, "WRAPPERS", "Read", w.fn("io/gff", "Read"), 0, "call[poly/io/gff.Parse](extract[0](call[os.ReadFile](param[0])))", "Read(path) = Parse(ReadFile(path))")
	checkFileWrite(c, "WRAPPERS", "Write", w.fn("io/gff", "Write"), 1, "call[poly/io/gff.Build](param[0])")
}

// judgeLeaves: every alternative of got must be want. An alternative that is a local variation of want
// (built from the same vocabulary) is a violation; anything else is undecided.
func judgeLeaves(got *Term, want string, extra ...string) (int, string) {
	if got == nil {
		return unknown, "not found"
	}
	st, why := holds, ""
	// a text is the same text as string and as []byte (normText)
	want = normStr(want)
	for _, l := range phiLeaves(normText(got)) {
		if l.String() == want {
			continue
		}
		s2 := unknown
		if len(opaqueParts(l, vocabOf(append(extra, want)...))) == 0 && localDiff(l, want) {
			s2 = broken
		}
		if st == holds || s2 == broken {
			st, why = s2, "holds "+short(l.String())+"; want "+short(want)
		}
	}
	return st, why
}

func checkGffReader(c *Ctx, parse *ssa.Function) {
	view := newFamView(parse)
	for _, g := range view.fns {
		c.useFn(g)
	}
	ptb := view.tb[parse]
	linesRaw := `call[strings.Split](conv[string](param[0]), const["\n"])`
	lines := normStr(linesRaw)
	line := "each(" + linesRaw + ")" // as written in the code: path conditions are matched against it
	lineN := "each(" + lines + ")"   // representation folded away (normText): field terms are compared with it
	// the line being parsed, by role: whatever is split at tabs (as a string or as bytes)
	view.each(func(g *ssa.Function, i ssa.Instruction) {
		if cl, ok := i.(*ssa.Call); ok && (calleeName(cl) == "strings.Split" || calleeName(cl) == "bytes.Split") && normText(view.T(g, cl.Call.Args[1])).isConst(`"\t"`) {
			line = view.T(g, cl.Call.Args[0]).String()
			lineN = normText(view.T(g, cl.Call.Args[0])).String()
		}
	})
	fields := `call[strings.Split](` + lineN + `, const["\t"])`
	fld := func(k int) string { return fmt.Sprintf("index(%s, const[%d])", fields, k) }
	af, n := findCall(parse, "(*poly.Sequence).AddFeature")
	if n != 1 {
		c.undecided("FIELDMAP", "Parse:AddFeature", parse.Pos(), fmt.Sprintf("%d AddFeature calls in gff.Parse, the model needs 1", n))
		return
	}
	rec, ok := unwrap(af.Common().Args[1]).(*ssa.Alloc)
	if !ok {
		c.undecided("FIELDMAP", "Parse:AddFeature", af.Pos(), "the feature handed to AddFeature is not a local record")
		return
	}
	type col struct {
		name string
		path []string
		want string
		rule string
	}
	cols := []col{
		{"col1 seqid->Name", []string{".Name"}, fld(0), "FIELDMAP"},
		{"col2 source->Source", []string{".Source"}, fld(1), "FIELDMAP"},
		{"col3 type->Type", []string{".Type"}, fld(2), "FIELDMAP"},
		{"col4 start->Start=atoi-1", []string{".SequenceLocation", ".Start"}, "binop[-](extract[0](call[strconv.Atoi](" + fld(3) + ")), const[1])", "COORD"},
		{"col5 end->End=atoi", []string{".SequenceLocation", ".End"}, "extract[0](call[strconv.Atoi](" + fld(4) + "))", "COORD"},
		{"col6 score->Score", []string{".Score"}, fld(5), "FIELDMAP"},
		{"col7 strand->Strand", []string{".Strand"}, fld(6), "FIELDMAP"},
		{"col8 phase->Phase", []string{".Phase"}, fld(7), "FIELDMAP"},
	}
	var extra []string
	for k := 0; k < 9; k++ {
		extra = append(extra, fld(k))
	}
	extra = append(extra, "binop[-](a, const[1])", "binop[+](a, const[1])", "extract[0](call[strconv.Atoi](a))")
	// the columns of a row are what lies between its tabs, empty ones included: Fields / FieldsFunc never yield
	// an empty piece, so an empty column (a feature without a seqid, an empty score) shifts every later column
	for _, g := range view.fns {
		g := g
		eachInstr(g, func(i ssa.Instruction) {
			cl, ok := i.(*ssa.Call)
			if !ok || len(cl.Call.Args) == 0 {
				return
			}
			if n := calleeName(cl); n != "strings.Fields" && n != "strings.FieldsFunc" && n != "bytes.Fields" && n != "bytes.FieldsFunc" {
				return
			}
			if normText(view.T(g, cl.Call.Args[0])).String() != lineN || cl.Referrers() == nil {
				return
			}
			for _, r := range *cl.Referrers() {
				var ix ssa.Value
				switch x := r.(type) {
				case *ssa.IndexAddr:
					ix = x.Index
				case *ssa.Index:
					ix = x.Index
				}
				if k, isK := ix.(*ssa.Const); isK && k.Value != nil && k.Int64() >= 1 {
					c.bad("FIELDMAP", "Parse:columns are the pieces between tabs", cl.Pos(), "the row is cut with "+calleeName(cl)+", which never yields an empty piece, and the pieces are then taken by position: a row with an empty column has every later column read one place too early")
					return
				}
			}
		})
	}
	for k, cl := range cols {
		got := ptb.at(rec, cl.path, af)
		st, why := judgeLeaves(got, cl.want, extra...)
		if st == unknown {
			// an alternative that does not come from this column at all: the column's value is overridden on some path
			own := fld(k)
			loopComputed := got.contains(func(x *Term) bool { return x.Op == "rec" || (x.Op == "phi" && x.Cyc) })
			for _, l := range phiLeaves(normText(got)) {
				// evidence of an override: a constant, a value that does not come from this line, or the text of
				// ANOTHER column; a value obtained from the line in some other way (a regexp with groups, a cursor over the columns) is a shape not read here
				other := l.Op == "const" || !strings.Contains(l.String(), lineN) // a constant, or something not taken from this line at all (a header value)
				if l.Op == "const" && loopComputed {
					other = false // the start value of a loop that works the number out digit by digit
				}
				for j := 0; j < 9; j++ {
					if j != k && strings.Contains(l.String(), fld(j)) {
						other = true
					}
				}
				// the column's own text, read as a number and written out again: the spelling changes
				// ("0.50" -> "0.5", "1e-5" -> "1e-05") although the column is kept as text
				if !other && cl.rule == "FIELDMAP" && strings.Contains(l.String(), own) && l.Op == "call" &&
					(strings.HasPrefix(l.Name, "strconv.Format") || l.Name == "strconv.Itoa" || strings.HasPrefix(l.Name, "fmt.Sprint")) &&
					l.contains(func(x *Term) bool {
						return x.Op == "call" && (strings.HasPrefix(x.Name, "strconv.Parse") || x.Name == "strconv.Atoi")
					}) {
					st, why = broken, "may hold "+short(l.String())+": the text of column "+fmt.Sprint(k+1)+" is parsed as a number and formatted again, so a value is re-spelled (0.50 becomes 0.5, 1e-5 becomes 1e-05) instead of being kept as written"
				}
				if !other {
					continue
				}
				if !strings.Contains(l.String(), own) && l.Op != "zero" && len(opaqueParts(l, vocabOf(append(extra, cl.want)...))) == 0 {
					st, why = broken, "may hold "+short(l.String())+", which does not come from column "+fmt.Sprint(k+1)+" of the line (clamped or overridden); want "+short(cl.want)
				}
			}
		}
		c.judge(st, cl.rule, "Parse:"+cl.name, af.Pos(), "at AddFeature the field holds exactly "+short(cl.want), "at AddFeature the field "+why)
	}
	// the location is the plain span start..end: the strand is kept in its own column, and the feature's
	// sequence is read from the file's bases as they stand
	{
		got := normText(ptb.at(rec, []string{".SequenceLocation", ".Complement"}, af))
		st, why := unknown, "holds "+short(got.String())
		switch {
		case got.Op == "zero" || got.isConst("false"):
			st = holds
		case got.isConst("true") || (len(opaqueParts(got, vocabOf(extra...))) == 0 && strings.Contains(got.String(), lineN) && got.Op == "binop"):
			st, why = broken, "is set from the line ("+short(got.String())+"): GetSequence then answers with the reverse complement instead of bases start..end of the file's sequence"
		}
		c.judge(st, "COORD", "Parse:location is the plain span (Complement not set)", af.Pos(), "SequenceLocation.Complement is left false", "at AddFeature SequenceLocation.Complement "+why)
	}
	// attributes
	stA, whyA := unknown, "no store into the record's attribute map found"
	nUpd := 0
	view.each(func(g *ssa.Function, i ssa.Instruction) {
		mu, ok := i.(*ssa.MapUpdate)
		if !ok {
			return
		}
		nUpd++
		k, v := normText(view.T(g, mu.Key)), normText(view.T(g, mu.Value))
		// key = split(pair, "=")[0], value = split(pair, "=")[1], pair = each(split(fields[8], ";"))
		trimmed := ""
		untrim := func(t *Term) *Term {
			for t != nil && t.Op == "call" && strings.HasPrefix(t.Name, "strings.Trim") && len(t.Args) >= 1 {
				trimmed = t.Name
				t = t.Args[0]
			}
			return t
		}
		kvOf := func(t *Term, idx string) (pairSep, listSep string, src *Term, ok bool) {
			t = untrim(t)
			if t.Op != "index" || !t.Args[1].isConst(idx) {
				return
			}
			sp := t.Args[0]
			if len(sp.Args) >= 1 {
				sp = &Term{Op: sp.Op, Name: sp.Name, Args: append([]*Term{untrim(sp.Args[0])}, sp.Args[1:]...), V: sp.V}
			}
			if !(sp.isCall("strings.Split") || sp.isCall("strings.SplitN")) {
				return
			}
			ps, ok1 := sp.Args[1].constStr()
			pair := sp.Args[0]
			if pair.Op != "each" || !(pair.Args[0].isCall("strings.Split")) {
				return
			}
			ls, ok2 := pair.Args[0].Args[1].constStr()
			return ps, ls, pair.Args[0].Args[0], ok1 && ok2
		}
		ps1, ls1, src1, ok1 := kvOf(k, "0")
		ps2, ls2, src2, ok2 := kvOf(v, "1")
		switch {
		case ok1 && ok2 && trimmed != "":
			stA, whyA = broken, "attribute text passes through "+trimmed+" before it is stored: keys or values that begin or end with blanks come back altered (field text may contain blanks; only tab, newline, ';' and '=' are excluded)"
		case !ok1 || !ok2:
			if stA != broken {
				whyA = "attribute store " + short(k.String()) + " -> " + short(v.String())
			}
		case ps1 != "=" || ps2 != "=" || ls1 != ";" || ls2 != ";":
			stA, whyA = broken, fmt.Sprintf("attributes are split on %q then %q; the writer joins with \";\" and \"=\"", ls1, ps1)
		case src1.String() != fld(8) || src2.String() != fld(8):
			stA, whyA = stateOf(false, vocabOf(extra...), src1, src2), "attributes are read from "+short(src1.String())+"; want column 9"
		default:
			if stA != broken {
				stA = holds
			}
		}
	})
	if stA == holds && nUpd != 1 {
		stA, whyA = unknown, fmt.Sprintf("%d map updates in the reader", nUpd)
	}
	c.judge(stA, "FIELDMAP", "Parse:col9 attributes k=v;k=v", af.Pos(), "Attributes[k]=v for each ';'-separated 'k=v' of fields[8]", whyA)
	// which lines are feature lines / sequence lines
	classes := []lineClass{{"blank", ""}, {"##FASTA", "##FASTA"}, {"directive", "##gff-version 3"}, {"directive", "###"}, {"fasta header", ">seq1"}, {"data", "chr1\tsrc\tgene\t1\t9\t.\t+\t.\tID=a"}, {"data", "#chr1\tsrc\tgene\t1\t9\t.\t+\t.\tID=a"}, {"data", "ACGTACGTAC"}, {"data", "A"}}
	pcF := view.cond(parse, af.Block())
	stF, whyF := holds, ""
	for _, cl := range classes {
		v, known := classEval(pcF, line, cl)
		switch {
		case cl.Name == "data" && known && !v:
			stF, whyF = broken, fmt.Sprintf("the feature line %q is never parsed as a feature (only '##' starts a directive; a seqid may begin with a single '#') (%s)", cl.Sample, classTable(pcF, line, classes))
		case (cl.Name == "blank" || cl.Name == "##FASTA" || cl.Name == "directive") && known && v:
			stF, whyF = broken, "a "+cl.Name+" line is parsed as a feature ("+classTable(pcF, line, classes)+")"
		case (cl.Name == "blank" || cl.Name == "##FASTA" || cl.Name == "directive") && !known && stF == holds:
			stF, whyF = unknown, "whether a "+cl.Name+" line is parsed as a feature depends on "+short(pcF.String())
		}
	}
	c.judge(stF, "FIELDMAP", "Parse:feature lines", af.Pos(), "a feature is parsed from every line that is not blank, not '##…' and not in the FASTA section", whyF)
	// header
	var metaAlloc *ssa.Alloc
	eachInstr(parse, func(i ssa.Instruction) {
		if a, ok := i.(*ssa.Alloc); ok && tname(deref(a.Type())) == "poly.Meta" {
			metaAlloc = a
		}
	})
	hdr := func(ln, k int) string {
		return fmt.Sprintf(`index(call[strings.Split](index(slice(%s, const[0], const[2]), const[%d]), const[" "]), const[%d])`, lines, ln, k)
	}
	hdrB := func(ln, k int) string {
		return fmt.Sprintf(`index(call[strings.Split](index(%s, const[%d]), const[" "]), const[%d])`, lines, ln, k)
	}
	rets := returnsOf(parse)
	for _, h := range []struct {
		name string
		path string
		ln   int
		k    int
		atoi bool
	}{
		{"##gff-version v -> GffVersion", ".GffVersion", 0, 1, false},
		{"##sequence-region name -> Name", ".Name", 1, 1, false},
		{"##sequence-region start -> RegionStart", ".RegionStart", 1, 2, true},
		{"##sequence-region end -> RegionEnd", ".RegionEnd", 1, 3, true},
	} {
		if metaAlloc == nil || len(rets) == 0 {
			c.undecided("FIELDMAP", "Parse:"+h.name, parse.Pos(), "no local Meta record found")
			continue
		}
		got := ptb.at(metaAlloc, []string{h.path}, rets[0])
		want, wantB := hdr(h.ln, h.k), hdrB(h.ln, h.k)
		if h.atoi {
			want, wantB = "extract[0](call[strconv.Atoi]("+want+"))", "extract[0](call[strconv.Atoi]("+wantB+"))"
		}
		st, why := judgeLeaves(got, want, extra...)
		if st != holds {
			if st2, _ := judgeLeaves(got, wantB, extra...); st2 == holds {
				st = holds
			}
		}
		c.judge(st, "FIELDMAP", "Parse:"+h.name, parse.Pos(), "read from the space-split header line at that index", why)
	}
	// the returned sequence carries the FASTA text
	stS, whyS := unknown, "the returned Sequence is not visibly the content of one buffer"
	var sq *Term
	for _, a := range resultAlts(ptb, parse, 0) {
		sq = partialOf(a.T, "Sequence")
	}
	if sq != nil && (sq.isCall("(*bytes.Buffer).String") || sq.isCall("(*strings.Builder).String")) {
		ws := bufWrites(parse, ptb, sq.Args[0].String())
		switch {
		case len(ws) != 1:
			whyS = fmt.Sprintf("%d writes into the sequence buffer, the model needs 1", len(ws))
		case ws[0].arg.String() != line && normText(ws[0].arg).String() != lineN:
			stS = stateOf(false, vocabOf(line), ws[0].arg)
			if stS == broken && !localDiff(ws[0].arg, line) {
				stS = unknown
			}
			whyS = "the text appended to the sequence is " + short(ws[0].arg.String()) + ", want the raw line"
		default:
			stS = holds
			wpc := view.cond(parse, ws[0].call.Block())
			for _, cl := range classes {
				v, known := classEval(wpc, line, cl)
				bad := cl.Name == "blank" || cl.Name == "##FASTA" || cl.Name == "directive" || cl.Name == "fasta header"
				switch {
				case bad && known && v:
					stS, whyS = broken, "a "+cl.Name+" line is appended to the sequence ("+classTable(wpc, line, classes)+")"
				case cl.Name == "data" && known && !v:
					stS, whyS = broken, "sequence lines are never appended ("+classTable(wpc, line, classes)+")"
				case bad && !known && stS == holds:
					// open only because of the in-FASTA flag? then the line tests alone must exclude it
					aboutLine := false // some atom really is a test of this line's text
					v2, k2 := evalCond3(wpc, func(t *Term) (bool, bool) {
						if vv, kk := atomOnSample(t, line, cl.Sample); kk {
							aboutLine = true
							return vv, true
						}
						return true, true // flags and loop conditions set as favourably as possible
					})
					if k2 && v2 && aboutLine {
						stS, whyS = broken, "inside the FASTA section a "+cl.Name+" line is appended to the sequence ("+classTable(wpc, line, classes)+")"
					}
				}
			}
		}
	}
	c.judge(stS, "TERM", "Parse:sequence=concat(FASTA lines)", parse.Pos(), "every non-blank, non-'##', non-'>' line after ##FASTA is appended unmodified", whyS)
	checkPrefix(c, "PREFIX", parse)
}

func checkGffWriter(c *Ctx, build *ssa.Function) {
	btb := newDeepTB(build)
	var rt *Term
	for _, a := range resultAlts(btb, build, 0) {
		rt = a.T
	}
	if rt == nil {
		c.undecided("FIELDMAP", "Build:buffer", build.Pos(), "no result")
		return
	}
	ems, why := sinkEmissions(btb, build, rt)
	if why != "" {
		c.undecided("FIELDMAP", "Build:buffer", build.Pos(), why)
		return
	}
	feat := "each(field[Features](param[0]))"
	meta := func(f string) string { return "field[" + f + "](field[Meta](param[0]))" }
	var featLine []*Term
	var featAt ssa.Instruction
	stV, whyV := unknown, "no write of \"##gff-version \" + version found"
	stR, whyR := unknown, "no write of the ##sequence-region line found"
	var fastaOK, nameLineOK bool
	hasConst := func(ps []*Term, pre string) bool {
		for _, p := range ps {
			if s, ok := p.constStr(); ok && strings.HasPrefix(s, pre) {
				return true
			}
		}
		return false
	}
	// a write whose argument is one of several alternatives (a variable assigned in branches) counts once per alternative
	var flat []emission
	for _, e := range ems {
		if len(e.Pieces) == 1 && e.Pieces[0].Op == "phi" && !e.Pieces[0].Cyc {
			for _, l := range phiLeaves(e.Pieces[0]) {
				ps, _ := btb.pieces(l)
				flat = append(flat, emission{e.At, ps})
			}
			continue
		}
		flat = append(flat, e)
	}
	for _, e := range flat {
		ps := e.Pieces
		nTab := 0
		for _, p := range ps {
			if p.isConst(`"\t"`) {
				nTab++
			}
		}
		switch {
		case nTab >= 8:
			featLine, featAt = ps, e.At
		case hasConst(ps, "##gff-version "):
			np := normPieces(ps)
			if len(np) == 1 {
				continue // the constant default line
			}
			// a default for an empty field ("3 " unless the record says otherwise) is the field or a constant
			for k, pcs := range np {
				pc := parseTerm(pcs)
				if pc == nil || (pc.Op != "phi" && pc.Op != "anyof") {
					continue
				}
				own, onlyConsts := false, true
				for _, l := range phiLeaves(pc) {
					switch {
					case l.String() == meta("GffVersion"):
						own = true
					case l.Op != "const":
						onlyConsts = false
					}
				}
				if own && onlyConsts {
					np[k] = meta("GffVersion")
				}
			}
			stV, whyV = comparePieces(np, []string{`const["##gff-version "]`, meta("GffVersion"), `const["\n"]`})
		case hasConst(ps, "##sequence-region"):
			// "##sequence-region " name " " start " " end "\n"
			if len(ps) == 8 && ps[0].isConst(`"##sequence-region"`) && ps[1].isConst(`" "`) {
				ps = append([]*Term{{Op: "const", Name: `"##sequence-region "`}}, ps[2:]...)
			}
			if len(ps) != 7 {
				whyR = fmt.Sprintf("the region line is assembled from %d pieces", len(ps))
				continue
			}
			wants := []string{meta("Name"), "call[strconv.Itoa](" + meta("RegionStart") + ")", "call[strconv.Itoa](" + meta("RegionEnd") + ")"}
			stR = holds
			if !(ps[0].isConst(`"##sequence-region "`) && ps[2].isConst(`" "`) && ps[4].isConst(`" "`) && ps[6].isConst(`"\n"`)) {
				stR, whyR = broken, "the region line's separators are "+short(piecesString(ps))+"; the reader splits on single spaces"
				for _, k := range []int{0, 2, 4, 6} {
					if ps[k].Op != "const" {
						stR = unknown
					}
				}
			}
			for k, slot := range []int{1, 3, 5} {
				own := false
				other := -1
				for _, l := range phiLeaves(ps[slot]) {
					if l.String() == wants[k] {
						own = true
					}
					for k2 := range wants {
						if k2 != k && l.String() == wants[k2] {
							other = k2
						}
					}
				}
				switch {
				case own:
				case other >= 0:
					stR, whyR = broken, fmt.Sprintf("slot %d of the region line holds %s; the reader expects name, start, end in that order", k+1, wants[other])
				case stR == holds:
					stR, whyR = unknown, fmt.Sprintf("slot %d of the region line is %s", k+1, short(ps[slot].String()))
				}
			}
		case len(ps) == 1 && ps[0].isConst(`"##FASTA\n"`):
			fastaOK = true
		case len(ps) == 3 && ps[0].isConst(`">"`) && ps[2].isConst(`"\n"`):
			nameLineOK = true
		}
	}
	c.judge(stV, "FIELDMAP", "Build:##gff-version", build.Pos(), "\"##gff-version \"+GffVersion+\"\\n\": the reader's split(\" \")[1]", whyV)
	c.judge(stR, "FIELDMAP", "Build:##sequence-region", build.Pos(), "\"##sequence-region \"+name+\" \"+start+\" \"+end+\"\\n\" in the reader's index order", whyR)
	// the sequence body: every letter of Sequence, once, in order
	{
		src := "field[Sequence](param[0])"
		st, why, at := unknown, "", ssa.Instruction(nil)
		if rt.isCall("(*bytes.Buffer).Bytes") || rt.isCall("(*bytes.Buffer).String") || rt.isCall("(*strings.Builder).String") {
			st, why, at = perLetterOnce(btb, build, src, rt.Args[0].String())
		}
		if st == unknown {
			for _, e := range ems {
				for _, p := range e.Pieces {
					if p.Op == "slice" && len(p.Args) == 3 && p.Args[0].String() == src {
						if hdr := enclosingLoopHeader(e.At.Block()); hdr != nil {
							st, why = chunkCoverage(btb, hdr, p.Args[1], p.Args[2], 215)
							at = e.At
						}
					}
				}
			}
		}
		pos := build.Pos()
		if at != nil {
			pos = at.Pos()
		}
		c.judge(st, "TERM", "Build:sequence body = every letter once, in order", pos, "each letter of Sequence is written exactly once on every path (or the chunks written tile the sequence for every length 0..215)", why)
	}
	c.checkShape(fastaOK && nameLineOK, "FIELDMAP", "Build:##FASTA section", build.Pos(), "\"##FASTA\\n\" then a '>' name line", "the FASTA section marker / name line writes were not recognised")
	if featLine == nil {
		c.undecided("FIELDMAP", "Build:feature line", build.Pos(), "no 9-column tab-separated feature line write found")
		return
	}
	// columns = pieces between the tab constants
	var colsT [][]*Term
	cur := []*Term{}
	for _, p := range featLine {
		if p.isConst(`"\t"`) {
			colsT = append(colsT, cur)
			cur = []*Term{}
			continue
		}
		cur = append(cur, p)
	}
	colsT = append(colsT, cur)
	wantCols := []struct{ name, want, rule string }{
		{"col1", "field[Name](" + feat + ")", "FIELDMAP"},
		{"col2", "field[Source](" + feat + ")", "FIELDMAP"},
		{"col3", "field[Type](" + feat + ")", "FIELDMAP"},
		{"col4=Itoa(Start+1)", "call[strconv.Itoa](binop[+](const[1], field[Start](field[SequenceLocation](" + feat + "))))", "COORD"},
		{"col5=Itoa(End)", "call[strconv.Itoa](field[End](field[SequenceLocation](" + feat + ")))", "COORD"},
		{"col6", "field[Score](" + feat + ")", "FIELDMAP"},
		{"col7", "field[Strand](" + feat + ")", "FIELDMAP"},
		{"col8", "field[Phase](" + feat + ")", "FIELDMAP"},
	}
	var vocab []string
	for _, wc := range wantCols {
		vocab = append(vocab, wc.want)
	}
	vocab = append(vocab, "binop[-](a, const[1])")
	for k, wc := range wantCols {
		if k >= len(colsT) || len(colsT[k]) != 1 {
			c.undecided(wc.rule, "Build:"+wc.name, featAt.Pos(), "column is assembled from several pieces")
			continue
		}
		t := colsT[k][0]
		has := false
		st, why := holds, ""
		for _, l := range phiLeaves(t) {
			ls := l.String()
			switch {
			case ls == wc.want:
				has = true
			case !strings.Contains(ls, feat):
				// a default for an empty field ("." etc.)
			default:
				s2 := unknown
				if len(opaqueParts(l, vocabOf(vocab...))) == 0 && localDiff(l, wc.want) {
					s2 = broken
				}
				// a coordinate column: Itoa(coordinate + constant); an offset that is not a constant does not
				// invert the reader's fixed "- 1"
				if wc.rule == "COORD" && l.isCall("strconv.Itoa") && len(opaqueParts(l, nil)) == 0 {
					coefs, _, _ := linearForm(l.Args[0])
					coord := "field[Start](field[SequenceLocation](" + feat + "))"
					if k == 4 {
						coord = "field[End](field[SequenceLocation](" + feat + "))"
					}
					if coefs[coord] == 1 && len(coefs) > 1 {
						var others []string
						for name := range coefs {
							if name != coord {
								others = append(others, short(name))
							}
						}
						sort.Strings(others)
						s2 = broken
						ls = ls + " (the coordinate is offset by " + strings.Join(others, " + ") + ", not by a constant: the reader's fixed shift does not undo it)"
					}
				}
				if st == holds || s2 == broken {
					st, why = s2, fmt.Sprintf("column %d may hold %s; want %s", k+1, short(ls), short(wc.want))
				}
			}
		}
		if st == holds && !has {
			st, why = unknown, fmt.Sprintf("column %d holds %s", k+1, short(t.String()))
		}
		c.judge(st, wc.rule, "Build:"+wc.name, featAt.Pos(), "column holds "+short(wc.want)+" followed by a tab", why)
	}
	last := colsT[len(colsT)-1]
	endsNL := len(last) >= 1 && last[len(last)-1].isConst(`"\n"`)
	c.checkShape(len(colsT) == 9 && endsNL, "FIELDMAP", "Build:line end", featAt.Pos(), "nine columns, the line ends with \\n", fmt.Sprintf("%d columns; ends with newline: %v", len(colsT), endsNL))
	// attributes column: accumulate key + "=" + Attributes[key] + ";" over sorted keys, then drop the trailing ';'
	stAt, whyAt := unknown, "the attribute column is not built as key=value pairs joined by ';' without a trailing ';' in a form the rule knows"
	if len(colsT) == 9 && len(last) >= 1 {
		at := last[0]
		for _, l := range phiLeaves(at) {
			if l.isCall("strings.Join") && len(l.Args) == 2 && l.Args[0].Op == "collect" && len(l.Args[0].Args) == 1 {
				// Join(pairs, ";") with pairs = collect(key + "=" + Attributes[key])
				sep, okSep := l.Args[1].constStr()
				p := l.Args[0].Args[0].sumTerms()
				if okSep && len(p) == 3 && p[2].Op == "lookup" && p[2].Args[0].String() == "field[Attributes]("+feat+")" && p[2].Args[1].String() == p[0].String() {
					eq, _ := p[1].constStr()
					if eq != "=" || sep != ";" {
						stAt, whyAt = broken, fmt.Sprintf("attributes are written as key%qvalue joined by %q; the reader splits on \";\" then \"=\"", eq, sep)
					} else {
						stAt = holds
					}
				}
				continue
			}
			if l.Op != "slice" {
				continue
			}
			hi, k := l.Args[2].linear()
			if !((l.Args[1].isConst("0") || l.Args[1].Op == "nil") && hi != nil && hi.isCall("builtin:len") && k == -1) {
				continue
			}
			for _, acc := range phiLeaves(l.Args[0]) {
				p := acc.sumTerms()
				if len(p) != 5 || p[3].Op != "lookup" || p[3].Args[0].String() != "field[Attributes]("+feat+")" {
					continue
				}
				eq, _ := p[2].constStr()
				semi, _ := p[4].constStr()
				switch {
				case p[3].Args[1].String() != p[1].String():
					whyAt = "the value written is not the one stored under the key written"
				case eq != "=" || semi != ";":
					stAt, whyAt = broken, fmt.Sprintf("attributes are written as key%qvalue%q; the reader splits on \";\" then \"=\"", eq, semi)
				default:
					stAt = holds
				}
			}
		}
	}
	c.judge(stAt, "FIELDMAP", "Build:col9 attributes k=v;k=v", featAt.Pos(), "k + \"=\" + Attributes[k] + \";\" per key, trailing ';' removed: the reader's split on ';' then '='", whyAt)
}
