package main

// C14 GFF write-then-read preserves records and 1-based/0-based coordinates.

import (
	"fmt"
	"strings"

	"golang.org/x/tools/go/ssa"
)

func init() { register("C14", ruleC14) }

// bufWrites lists, in instruction order, the Write*/WriteString/WriteRune calls on receiver recv (term string).
type bufWrite struct {
	call ssa.CallInstruction
	arg  *Term
}

func bufWrites(f *ssa.Function, tb *TermBuilder, recv string) []bufWrite {
	var out []bufWrite
	eachInstr(f, func(i ssa.Instruction) {
		ci, ok := i.(ssa.CallInstruction)
		if !ok {
			return
		}
		n := calleeName(ci)
		if (strings.HasPrefix(n, "(*bytes.Buffer).Write") || strings.HasPrefix(n, "(*strings.Builder).Write")) && tb.T(ci.Common().Args[0]).String() == recv {
			out = append(out, bufWrite{ci, tb.T(ci.Common().Args[1])})
		}
	})
	return out
}

// findCall returns the unique call instruction to name in f.
func findCall(f *ssa.Function, name string) (ssa.CallInstruction, int) {
	cs := callsIn(f, name)
	if len(cs) == 0 {
		return nil, 0
	}
	return cs[0], len(cs)
}

func ruleC14(c *Ctx) {
	c.Decided = []string{
		"COORD: Parse: Start = atoi(col4)-1, End = atoi(col5) exactly (no clamping); Build: col4 = Itoa(Start+1), col5 = Itoa(End); with C02's evaluator (parent[Start:End]) a parsed feature is bases start..end",
		"FIELDMAP: column k written by Build is the field Parse fills from fields[k] (Name,Source,Type,start,end,Score,Strand,Phase,Attributes), tab separator on both sides; attribute delimiters '=' and ';' agree, no trailing ';'; header lines ##gff-version / ##sequence-region agree with the reader's space-split indices; ##FASTA constant identical",
		"MAPORDER: attribute keys sorted before emission",
		"PREFIX: line[0:2], line[0:1] guarded by len(line) >= k",
		"TERM: embedded sequence = concatenation of all non-header lines after ##FASTA",
		"WRAPPERS: Read = Parse(ReadFile(path)), Write = WriteFile(path, Build(x)) (truncating)",
	}
	c.Undec = []string{"Build's defaults (\"feature\", \"unknown\", region end from LOCUS length) as round-trip fixpoints", "the 70-column wrap's interaction with RegionEnd", "layouts of an independent GFF writer beyond the column/delimiter conventions"}
	c.Trusted = []string{"strings.Split, strconv.Atoi/Itoa", "ioutil.WriteFile truncates"}
	c.floor("COORD", 4)
	c.floor("FIELDMAP", 12)
	c.floor("MAPORDER", 1)
	c.floor("PREFIX", 2)
	c.floor("TERM", 1)
	c.floor("WRAPPERS", 2)
	w := c.W
	parse, build := w.fn("io/gff", "Parse"), w.fn("io/gff", "Build")
	if parse == nil || build == nil {
		c.missing("FIELDMAP", "gff.Parse/Build", "exported functions gff.Parse and gff.Build")
		return
	}
	c.useFn(parse)
	c.useFn(build)
	ptb, btb := newTB(parse), newTB(build)

	// ---------------- reader side
	lines := `call[strings.Split](conv[string](param[0]), const["\n"])`
	line := "each(" + lines + ")"
	fields := `call[strings.Split](` + line + `, const["\t"])`
	fld := func(k int) string { return fmt.Sprintf("index(%s, const[%d])", fields, k) }
	af, n := findCall(parse, "(*poly.Sequence).AddFeature")
	if n != 1 {
		c.bad("FIELDMAP", "Parse:AddFeature", parse.Pos(), fmt.Sprintf("%d AddFeature calls in gff.Parse, want 1 (every feature line is added through the canonical method)", n))
		return
	}
	rec, ok := unwrap(af.Common().Args[1]).(*ssa.Alloc)
	if !ok {
		c.bad("FIELDMAP", "Parse:AddFeature", af.Pos(), "the feature handed to AddFeature is not a local record (unrecognised shape)")
		return
	}
	type col struct {
		name string
		path []string
		want string
		rule string
	}
	cols := []col{
		{"col1 seqid->Name", []string{".Name"}, fld(0), "FIELDMAP"},
		{"col2 source->Source", []string{".Source"}, fld(1), "FIELDMAP"},
		{"col3 type->Type", []string{".Type"}, fld(2), "FIELDMAP"},
		{"col4 start->Start=atoi-1", []string{".SequenceLocation", ".Start"}, "binop[-](extract[0](call[strconv.Atoi](" + fld(3) + ")), const[1])", "COORD"},
		{"col5 end->End=atoi", []string{".SequenceLocation", ".End"}, "extract[0](call[strconv.Atoi](" + fld(4) + "))", "COORD"},
		{"col6 score->Score", []string{".Score"}, fld(5), "FIELDMAP"},
		{"col7 strand->Strand", []string{".Strand"}, fld(6), "FIELDMAP"},
		{"col8 phase->Phase", []string{".Phase"}, fld(7), "FIELDMAP"},
	}
	for _, cl := range cols {
		got := ptb.at(rec, cl.path, af).String()
		c.check(got == cl.want, cl.rule, "Parse:"+cl.name, af.Pos(), "at AddFeature the field holds exactly "+short(cl.want), "at AddFeature the field holds "+short(got)+"; want "+short(cl.want))
	}
	// attributes
	attrSplit := `call[strings.Split](each(call[strings.Split](` + fld(8) + `, const[";"])), const["="])`
	nUpd, okUpd := 0, false
	eachInstr(parse, func(i ssa.Instruction) {
		if mu, ok := i.(*ssa.MapUpdate); ok {
			nUpd++
			k, v := ptb.T(mu.Key).String(), ptb.T(mu.Value).String()
			if k == "index("+attrSplit+", const[0])" && v == "index("+attrSplit+", const[1])" {
				// the map updated is the record's Attributes
				m := ptb.T(mu.Map)
				if m.contains(func(x *Term) bool { return x.Op == "makemap" }) {
					okUpd = true
				}
			}
		}
	})
	c.check(nUpd == 1 && okUpd, "FIELDMAP", "Parse:col9 attributes k=v;k=v", af.Pos(), "Attributes[k]=v for each ';'-separated 'k=v' of fields[8]", fmt.Sprintf("attributes are not decoded as split(fields[8], \";\") then split(_, \"=\")[0]->[1] (map updates=%d)", nUpd))
	// the loop reaches AddFeature exactly for non-empty, non-'##', non-FASTA lines
	pc := pathCond(ptb, parse.Blocks[0], af.Block()).String()
	c.Sites++
	wantParts := []string{`!(binop[==](const["##FASTA"], ` + line + `))`, `!(binop[==](call[builtin:len](` + line + `), const[0]))`}
	okPC := true
	for _, p := range wantParts {
		if !strings.Contains(pc, p) {
			okPC = false
		}
	}
	c.check(okPC, "FIELDMAP", "Parse:feature lines", af.Pos(), "a feature is parsed from every line that is not blank, not '##…' and not in the FASTA section", "feature lines are selected under "+short(pc))
	// header
	meta := func(path ...string) string {
		// Meta is assembled in a local and stored into sequence.Meta before return
		var metaAlloc *ssa.Alloc
		eachInstr(parse, func(i ssa.Instruction) {
			if a, ok := i.(*ssa.Alloc); ok && tname(deref(a.Type())) == "poly.Meta" {
				metaAlloc = a
			}
		})
		if metaAlloc == nil {
			return "<no Meta local>"
		}
		rets := returnsOf(parse)
		return ptb.at(metaAlloc, path, rets[0]).String()
	}
	hdr := func(ln, k int) string {
		return fmt.Sprintf(`index(call[strings.Split](index(slice(%s, const[0], const[2]), const[%d]), const[" "]), const[%d])`, lines, ln, k)
	}
	for _, h := range []struct {
		name string
		path string
		want string
	}{
		{"##gff-version v -> GffVersion", ".GffVersion", hdr(0, 1)},
		{"##sequence-region name -> Name", ".Name", hdr(1, 1)},
		{"##sequence-region start -> RegionStart", ".RegionStart", "extract[0](call[strconv.Atoi](" + hdr(1, 2) + "))"},
		{"##sequence-region end -> RegionEnd", ".RegionEnd", "extract[0](call[strconv.Atoi](" + hdr(1, 3) + "))"},
	} {
		got := meta(h.path)
		c.check(got == h.want, "FIELDMAP", "Parse:"+h.name, parse.Pos(), "read from the space-split header line at that index", "holds "+short(got)+"; want "+short(h.want))
	}
	// the returned sequence carries that Meta and the FASTA text
	rt, _, okRet := singleReturnTerm(parse, 0)
	seqOK := false
	if okRet {
		var sq *Term
		for _, a := range rt.Args {
			if a.Op == "partial" && a.Name == ".Sequence" {
				sq = a.Args[0]
			}
		}
		if sq != nil && sq.isCall("(*bytes.Buffer).String") {
			ws := bufWrites(parse, ptb, sq.Args[0].String())
			if len(ws) == 1 && ws[0].arg.String() == line {
				wpc := pathCond(ptb, parse.Blocks[0], ws[0].call.Block()).String()
				gt := `binop[!=](const[">"], slice(` + line + `, const[0], const[1]))`
				skipsDirectives := strings.Contains(wpc, `!(binop[==](const["##"], slice(`+line+`, const[0], const[2])))`) || strings.Contains(wpc, `!(call[strings.HasPrefix](`+line+`, const["##"]))`)
				seqOK = strings.Contains(wpc, gt) && !strings.Contains(wpc, "!("+gt+")") && skipsDirectives
			}
		}
	}
	c.check(seqOK, "TERM", "Parse:sequence=concat(FASTA lines)", parse.Pos(), "every non-blank, non-'##', non-'>' line after ##FASTA is appended unmodified", "the embedded sequence is not the plain concatenation of the FASTA section's sequence lines (unrecognised shape)")
	checkPrefix(c, "PREFIX", parse)

	// ---------------- writer side
	rtb, _, okB := singleReturnTerm(build, 0)
	if !okB || !rtb.isCall("(*bytes.Buffer).Bytes") {
		c.bad("FIELDMAP", "Build:buffer", build.Pos(), "Build does not return the bytes of one buffer (unrecognised shape)")
		return
	}
	buf := rtb.Args[0].String()
	ws := bufWrites(build, btb, buf)
	feat := "each(field[Features](param[0]))"
	var featLine []*Term
	var versionOK, regionOK, fastaOK, nameLineOK bool
	var region []*Term
	for _, wr := range ws {
		parts := wr.arg.sumTerms()
		s := wr.arg.String()
		switch {
		case len(parts) == 18:
			featLine = parts
		case strings.Contains(s, `const["##gff-version "]`):
			for _, l := range phiLeaves(wr.arg) {
				p := l.sumTerms()
				if len(p) == 3 && p[0].isConst(`"##gff-version "`) && p[1].String() == "field[GffVersion](field[Meta](param[0]))" && p[2].isConst(`"\n"`) {
					versionOK = true
				}
			}
		case strings.Contains(s, `const["##sequence-region "]`):
			region = parts
		case wr.arg.isConst(`"##FASTA\n"`):
			fastaOK = true
		case len(parts) == 3 && parts[0].isConst(`">"`) && parts[2].isConst(`"\n"`):
			nameLineOK = true
		}
	}
	c.check(versionOK, "FIELDMAP", "Build:##gff-version", build.Pos(), "\"##gff-version \"+GffVersion+\"\\n\": the reader's split(\" \")[1]", "version header is not \"##gff-version \"+Meta.GffVersion+\"\\n\"")
	if len(region) == 7 {
		leafHas := func(t *Term, want string) bool {
			for _, l := range phiLeaves(t) {
				if l.String() == want {
					return true
				}
			}
			return false
		}
		regionOK = region[0].isConst(`"##sequence-region "`) && leafHas(region[1], "field[Name](field[Meta](param[0]))") && region[2].isConst(`" "`) &&
			leafHas(region[3], "call[strconv.Itoa](field[RegionStart](field[Meta](param[0])))") && region[4].isConst(`" "`) &&
			leafHas(region[5], "call[strconv.Itoa](field[RegionEnd](field[Meta](param[0])))") && region[6].isConst(`"\n"`)
	}
	c.check(regionOK, "FIELDMAP", "Build:##sequence-region", build.Pos(), "\"##sequence-region \"+name+\" \"+start+\" \"+end+\"\\n\" in the reader's index order", "region header does not write Meta.Name, RegionStart, RegionEnd separated by single spaces in that order")
	c.check(fastaOK && nameLineOK, "FIELDMAP", "Build:##FASTA section", build.Pos(), "\"##FASTA\\n\" then a '>' name line", "the FASTA section marker/name line differs from what the reader tests for")
	if featLine == nil {
		c.bad("FIELDMAP", "Build:feature line", build.Pos(), "no 9-column tab-separated feature line write found (unrecognised shape)")
	} else {
		wantCols := []struct{ name, want, rule string }{
			{"col1", "field[Name](" + feat + ")", "FIELDMAP"},
			{"col2", "field[Source](" + feat + ")", "FIELDMAP"},
			{"col3", "field[Type](" + feat + ")", "FIELDMAP"},
			{"col4=Itoa(Start+1)", "call[strconv.Itoa](binop[+](const[1], field[Start](field[SequenceLocation](" + feat + "))))", "COORD"},
			{"col5=Itoa(End)", "call[strconv.Itoa](field[End](field[SequenceLocation](" + feat + ")))", "COORD"},
			{"col6", "field[Score](" + feat + ")", "FIELDMAP"},
			{"col7", "field[Strand](" + feat + ")", "FIELDMAP"},
			{"col8", "field[Phase](" + feat + ")", "FIELDMAP"},
		}
		for k, wc := range wantCols {
			t := featLine[2*k]
			sep := featLine[2*k+1]
			has := false
			var other []string
			for _, l := range phiLeaves(t) {
				ls := l.String()
				if ls == wc.want {
					has = true
				} else if strings.Contains(ls, feat) {
					other = append(other, short(ls))
				}
			}
			c.check(has && len(other) == 0 && sep.isConst(`"\t"`), wc.rule, "Build:"+wc.name, build.Pos(), "column holds "+short(wc.want)+" followed by a tab", fmt.Sprintf("column %d holds %s (other feature data: %v), separator %s", k+1, short(t.String()), other, sep.String()))
		}
		c.check(featLine[17].isConst(`"\n"`), "FIELDMAP", "Build:line end", build.Pos(), "feature line ends with \\n", "feature line does not end with a newline")
		// attributes column: accumulate key + "=" + Attributes[key] + ";" over sorted keys, then drop the trailing ';'
		at := featLine[16]
		okAttr := false
		for _, l := range phiLeaves(at) {
			if l.Op == "slice" {
				// slice(acc, 0, len(acc)-1)
				hi, k := l.Args[2].linear()
				if l.Args[1].isConst("0") && hi != nil && hi.isCall("builtin:len") && k == -1 {
					for _, acc := range phiLeaves(l.Args[0]) {
						p := acc.sumTerms()
						if len(p) == 5 && p[2].isConst(`"="`) && p[4].isConst(`";"`) && p[3].Op == "lookup" && p[3].Args[0].String() == "field[Attributes]("+feat+")" && p[3].Args[1].String() == p[1].String() {
							okAttr = true
						}
					}
				}
			}
		}
		c.check(okAttr, "FIELDMAP", "Build:col9 attributes k=v;k=v", build.Pos(), "k + \"=\" + Attributes[k] + \";\" per key, trailing ';' removed: the reader's split on ';' then '='", "attribute column is not built as key=value pairs joined by ';' without a trailing ';' (unrecognised shape)")
	}
	// MAPORDER over Build and what it calls
	var fs []*ssa.Function
	for _, f := range funcsSorted(reachable(build)) {
		if inModule(f) {
			fs = append(fs, f)
		}
	}
	checkMapOrder(c, "MAPORDER", fs)

	// WRAPPERS
	checkReturnIs(c, "WRAPPERS", "Read", w.fn("io/gff", "Read"), 0, "call[poly/io/gff.Parse](extract[0](call[os.ReadFile](param[0])))", "Read(path) = Parse(ReadFile(path))")
	checkFileWrite(c, "WRAPPERS", "Write", w.fn("io/gff", "Write"), 1, "call[poly/io/gff.Build](param[0])")
}
