package main

// C09 GoldenGate returns exactly the plasmids the overhangs allow.

import (
	"fmt"
	"strings"

	"golang.org/x/tools/go/ssa"
)

func init() { register("C09", ruleC09) }

// addBeforeGo: every `go g(...)` in f is accounted for on the WaitGroup it passes before it starts:
// wg.Add(1) earlier in its own block, or one wg.Add(len(xs)) that dominates a loop over xs spawning once
// per element. A spawn with no Add before it at all is a violation; other arrangements are undecided.
func addBeforeGo(c *Ctx, rule string, f, g *ssa.Function, wgArg int) int {
	n := 0
	tb := newTB(f)
	for _, gs := range goSites(f, g) {
		n++
		wg := unwrap(gs.Call.Args[wgArg])
		st, why := unknown, ""
		var adds []*ssa.Call
		eachInstr(f, func(i ssa.Instruction) {
			if ci, isCall := i.(*ssa.Call); isCall && calleeName(ci) == "(*sync.WaitGroup).Add" && unwrap(ci.Call.Args[0]) == wg {
				adds = append(adds, ci)
			}
		})
		before := false
		for _, a := range adds {
			k, isC := a.Call.Args[1].(*ssa.Const)
			one := isC && k.Value != nil && k.Value.ExactString() == "1"
			switch {
			case a.Block() == gs.Block() && instrIndex(a) < instrIndex(gs) && one:
				st = holds
			case a.Block() == gs.Block() && instrIndex(a) < instrIndex(gs):
				before = true
				why = "wg.Add(" + short(tb.T(a.Call.Args[1]).String()) + ") precedes the spawn"
			case a.Block() != gs.Block() && a.Block().Dominates(gs.Block()):
				before = true
				// Add(len(xs)) ahead of a loop that spawns once per element of xs
				entry := loopBodyEntry(gs.Block())
				amount := tb.T(a.Call.Args[1])
				if entry != nil && !inLoop(a.Block()) && amount.isCall("builtin:len") && pathCond(tb, entry, gs.Block()).Op == "true" {
					hdr := enclosingLoopHeader(gs.Block())
					if ifi, ok := hdr.Instrs[len(hdr.Instrs)-1].(*ssa.If); ok {
						ct := tb.T(ifi.Cond)
						if ct.isBin("<") && ct.Args[0].Op == "rangeidx" && ct.Args[1].String() == amount.String() && len(goSitesInLoop(f, hdr)) == 1 {
							st = holds
						}
					}
				}
				if st != holds {
					why = "wg.Add(" + short(amount.String()) + ") dominates the spawn; its amount is not matched to the number of spawns"
				}
			}
		}
		if st != holds && !before {
			st, why = broken, "a goroutine is spawned without a wg.Add before it on its path: Wait may return (and the channel be closed) while it is still running"
		}
		c.judge(st, rule, fmt.Sprintf("%s: wg.Add before go %s", fname(f), g.Name()), gs.Pos(), "the spawn is counted on the WaitGroup before it starts", why)
	}
	return n
}

func goSitesInLoop(f *ssa.Function, hdr *ssa.BasicBlock) []*ssa.Go {
	var out []*ssa.Go
	eachInstr(f, func(i ssa.Instruction) {
		if g, ok := i.(*ssa.Go); ok && g.Block() != hdr && hdr.Dominates(g.Block()) && reaches(g.Block(), hdr) {
			out = append(out, g)
		}
	})
	return out
}

func ruleC09(c *Ctx) {
	c.Decided = []string{
		"CHANLIFE: construct channel: sends only in the worker, every spawn counted on the WaitGroup before it starts, defer wg.Done() first in the worker, collector started before wg.Wait() which precedes close(c) which precedes the receive of the result, which is returned; result channel: one send then one close after the input is exhausted; every fragment seeds a worker unconditionally",
		"TERM-LIGATE: closure test Fwd==Rev sends Fwd+Seq; forward extension under seed.Rev==new.Fwd builds {seed.Seq+seed.Rev+new.Seq, seed.Fwd, new.Rev}; flipped extension under seed.Rev==RC(new.Rev) and seed.Rev!=RC(seed.Rev) builds {seed.Seq+seed.Rev+RC(new.Seq), seed.Fwd, RC(new.Fwd)}; the two extensions are tested independently for every pool fragment (helpers are inlined)",
		"TERM-DEDUP: collector keys constructs by seqhash.Hash(x,\"DNA\",true,true), keeps a construct iff no earlier key is equal (flag scan reset per construct, or a seen-set), returns Part{x, Circular:true}",
		"NOSHARED: goroutine bodies use no package-level variable and do not store through the shared fragment list",
		"WRAPPERS: GoldenGate cuts every input with directional=true in input order, propagates the lookup error, passes all fragments to CircularLigate",
		"VARIANT: each recursive spawn carries a decreasing measure (fails today: known findings)",
	}
	c.Undec = []string{"that the enumeration is complete and duplicate-free for libraries (combinatorial)", "rotation behaviour inherited from C10", "scheduling beyond the happens-before edges listed"}
	c.Trusted = []string{"sync.WaitGroup, channel semantics", "C04/C05 (seqhash canonical form), C11 (reverse complement)"}
	c.floor("CHANLIFE", 8)
	c.floor("TERM-LIGATE", 4)
	c.floor("TERM-DEDUP", 2)
	c.floor("NOSHARED", 2)
	c.floor("WRAPPERS", 2)
	c.floor("VARIANT", 2)
	w := c.W
	cl, gg := w.fn("clone", "CircularLigate"), w.fn("clone", "GoldenGate")
	if cl == nil || gg == nil {
		c.missing("CHANLIFE", "clone.CircularLigate/GoldenGate", "exported ligation functions")
		return
	}
	// the workers by role: goroutines started by CircularLigate; the recursive one is the ligation worker
	var rl, gc *ssa.Function
	eachInstr(cl, func(i ssa.Instruction) {
		if g, ok := i.(*ssa.Go); ok {
			if f := callee(g); f != nil && inModule(f) {
				if len(goSites(f, f)) > 0 {
					rl = f
				} else {
					gc = f
				}
			}
		}
	})
	if rl == nil || gc == nil || len(rl.Params) != 4 || len(gc.Params) != 2 {
		c.missingHelper("CHANLIFE", "ligation workers", "a recursive worker (wg, chan, seed, pool) and a collector (in, out) started as goroutines by CircularLigate")
		return
	}
	for _, f := range []*ssa.Function{rl, gc, cl, gg} {
		c.useFn(f)
	}
	if tn := tname(rl.Params[0].Type()); tn != "*sync.WaitGroup" {
		// completion is tracked by something else (an atomic counter, an errgroup, a semaphore): the
		// Add / Done / Wait typestate is not this code's protocol, nothing is claimed about it
		c.undecided("CHANLIFE", "ligation workers", rl.Pos(), "the workers are not counted on a *sync.WaitGroup (first parameter is "+tn+"); the Add/Done/Wait/close ordering rules do not apply to this protocol")
		checkGoldenGate(c, gg)
		return
	}
	checkCircularLigate(c, cl, rl, gc)
	recGos := checkWorkerLifecycle(c, rl)
	checkLigationTerms(c, rl, recGos)
	checkCollector(c, gc)

	// ---- NOSHARED
	checkNoShared(c, "NOSHARED", "goroutine bodies use no package state", []*ssa.Function{rl, gc}, nil)
	ws := argWriters(rl)
	c.check(len(ws) == 0, "NOSHARED", "recurseLigate does not write the shared fragment list", rl.Pos(), "no store through its parameters", strings.Join(ws, "; "))

	checkGoldenGate(c, gg)

	// ---- VARIANT
	rtb := newDeepTB(rl)
	for _, g := range recGos {
		pool := unwrap(g.Call.Args[3])
		measured := false
		why := "the spawn passes the same pool and an ever-growing seed"
		if pool != ssa.Value(rl.Params[3]) {
			// a strictly smaller pool built by an element-removing idiom?
			t := rtb.T(pool)
			if t.contains(func(x *Term) bool { return x.isCall("builtin:append") || x.Op == "collect" || x.Op == "slice" }) {
				measured = true
			}
		}
		// an integer depth parameter compared with a bound on a dominating path
		for k, a := range g.Call.Args {
			if k < len(rl.Params) && types_isInt(a) {
				b, d := rtb.T(a).linear()
				if b != nil && b.isParam(k) && d != 0 {
					pc := pathCond(rtb, rl.Blocks[0], g.Block())
					for _, at := range pc.atoms() {
						if at.Atom.contains(func(x *Term) bool { return x.isParam(k) }) {
							measured = true
						}
					}
				}
			}
		}
		kind := "forward"
		if sq := partialOf(seedRecord(rtb, g), "Sequence"); sq != nil && strings.Contains(sq.String(), "ReverseComplement") {
			kind = "flipped"
		}
		// (the orientation of the extension is printed, but is not part of the obligation's name: a refactor that
		// builds the new seed through a helper hides it, and the defect is the same)
		_ = kind
		c.check(measured, "VARIANT", "recursive spawn carries a decreasing measure", g.Pos(), "strictly smaller pool, bounded depth or consulted visited set", "unmeasured recursive spawn: "+why+"; with a pool whose overhangs close a cycle that excludes the seed (a->b, b->c, c->b) the recursion never terminates")
	}
}

func seedRecord(tb *TermBuilder, g *ssa.Go) *Term {
	if a, ok := unwrap(g.Call.Args[2]).(*ssa.UnOp); ok {
		return tb.T(a)
	}
	return tb.T(g.Call.Args[2])
}

func checkCircularLigate(c *Ctx, cl, rl, gc *ssa.Function) {
	ctb := newTB(cl)
	workerGos := goSites(cl, rl)
	collGos := goSites(cl, gc)
	if len(workerGos) == 0 || len(collGos) != 1 {
		c.undecided("CHANLIFE", "CircularLigate:spawns", cl.Pos(), fmt.Sprintf("%d worker spawn sites, %d collector spawn sites (the model needs >=1 and 1)", len(workerGos), len(collGos)))
		return
	}
	addBeforeGo(c, "CHANLIFE", cl, rl, 0)
	wg := unwrap(workerGos[0].Call.Args[0])
	ch := unwrap(workerGos[0].Call.Args[1])
	res := unwrap(collGos[0].Call.Args[1])
	okWire := unwrap(collGos[0].Call.Args[0]) == ch
	for _, g := range workerGos {
		if unwrap(g.Call.Args[0]) != wg || unwrap(g.Call.Args[1]) != ch {
			okWire = false
		}
	}
	_, chMake := ch.(*ssa.MakeChan)
	_, resMake := res.(*ssa.MakeChan)
	if a, isLocal := res.(*ssa.Alloc); isLocal && !resMake {
		// the collector fills a local of CircularLigate through a pointer: reading that local needs a
		// happens-before edge FROM the collector (a receive on a channel it sends on or closes, or a Wait on a
		// WaitGroup it is Done with); waiting for the workers and closing their channel orders nothing after it
		synced := false
		for k, arg := range collGos[0].Call.Args {
			av := unwrap(arg)
			if k >= len(gc.Params) {
				continue
			}
			switch {
			case isChanType(av.Type()) && av != ch:
				eachInstr(cl, func(i ssa.Instruction) {
					if u, ok := i.(*ssa.UnOp); ok && u.Op.String() == "<-" && u.X == av {
						synced = true
					}
				})
			case strings.Contains(tname(av.Type()), "sync.WaitGroup") && av != wg:
				eachInstr(cl, func(i ssa.Instruction) {
					if call, ok := i.(*ssa.Call); ok && calleeName(call) == "(*sync.WaitGroup).Wait" && unwrap(call.Call.Args[0]) == av {
						synced = true
					}
				})
			}
		}
		if !synced {
			c.bad("CHANLIFE", "CircularLigate:result read only after the collector has finished", collGos[0].Pos(), "the collector goroutine fills "+a.Comment+" through a pointer and CircularLigate reads it without any synchronisation with that goroutine (waiting for the workers and closing their channel does not wait for the collector): the last construct(s) can be missing from the result, and the read races with the append")
			return
		}
	}
	c.checkShape(okWire && chMake && resMake, "CHANLIFE", "CircularLigate:one WaitGroup, one construct channel shared by workers and collector", cl.Pos(), "all workers get the same wg and channel; the collector reads that channel", "workers and collector are not visibly wired to one WaitGroup / one construct channel created here")
	if !(okWire && chMake && resMake) {
		return
	}
	// every fragment seeds a worker, over the whole pool
	for _, g := range workerGos {
		entry := loopBodyEntry(g.Block())
		st, why := unknown, "the worker spawn is not in a loop"
		if entry != nil {
			pc := pathCond(ctb, entry, g.Block())
			seed := ctb.T(g.Call.Args[2])
			if u, ok := unwrap(g.Call.Args[2]).(*ssa.UnOp); ok {
				seed = ctb.T(u)
			}
			pool := ctb.T(g.Call.Args[3])
			switch {
			case pc.Op != "true" && len(opaqueCond(pc)) == 0:
				st, why = broken, "a fragment seeds a ligation only under "+short(pc.String())+": rings whose other fragments are alternatives of a skipped seed are never started from them, so constructs go missing depending on input order"
			case pc.Op != "true":
				why = "seed spawn conditional on " + short(pc.String())
			case seed.String() == "each(param[0])" && pool.isParam(0):
				st = holds
			default:
				why = "seed " + short(seed.String()) + ", pool " + short(pool.String())
			}
		}
		c.judge(st, "CHANLIFE", "CircularLigate: every fragment seeds a worker over the whole pool", g.Pos(), "go worker(&wg, c, fragment, fragments) for each fragment, unconditionally", why)
	}
	var wait, cls, recv ssa.Instruction
	eachInstr(cl, func(i ssa.Instruction) {
		switch x := i.(type) {
		case *ssa.Call:
			if calleeName(x) == "(*sync.WaitGroup).Wait" && unwrap(x.Call.Args[0]) == wg {
				wait = x
			}
			if isCloseOf(x, ch) {
				cls = x
			}
		case *ssa.UnOp:
			if x.Op.String() == "<-" && x.X == res {
				recv = x
			}
		}
	})
	st, why := holds, ""
	switch {
	case wait == nil:
		st, why = broken, "CircularLigate never waits for its workers: the construct channel is closed (or the result read) while ligations are still running"
	case cls == nil:
		st, why = unknown, "no close of the construct channel in CircularLigate"
	case recv == nil:
		st, why = unknown, "no receive of the collector's result in CircularLigate"
	case domInstr(cls, wait):
		st, why = broken, "the construct channel is closed before wg.Wait(): a worker still running sends on a closed channel (panic) or its construct is lost"
	case domInstr(recv, cls):
		st, why = broken, "the result is received before the construct channel is closed: the collector only reports after the close, so this blocks forever"
	case domInstr(wait, collGos[0]) && ch.(*ssa.MakeChan).Size.(*ssa.Const) != nil && ctb.T(ch.(*ssa.MakeChan).Size).isConst("0"):
		st, why = broken, "the collector is started after wg.Wait() on an unbuffered channel: workers block on send and Wait never returns"
	case !(domInstr(collGos[0], wait) && domInstr(wait, cls) && domInstr(cls, recv)):
		st, why = unknown, "collector start / Wait / close / receive are not totally ordered by dominance"
	}
	if st == holds {
		for _, g := range workerGos {
			if reaches(wait.Block(), g.Block()) {
				st, why = broken, "a worker is spawned after wg.Wait()"
			}
		}
	}
	c.judge(st, "CHANLIFE", "CircularLigate:go collector < wg.Wait < close(c) < receive result", cl.Pos(), "the collector runs before Wait (unbuffered sends can complete), the channel is closed only after all workers are done, the result is read after the close", why)
	checkCloseOnce(c, "CHANLIFE", cl, ch, "constructs")
	okRet := false
	var rts []string
	for _, a := range resultAlts(ctb, cl, 0) {
		okRet = recv != nil && a.T.V == recv.(ssa.Value)
		rts = append(rts, short(a.T.String()))
	}
	c.checkShape(okRet, "CHANLIFE", "CircularLigate returns the collector's result", cl.Pos(), "the returned slice is what the collector sent", "CircularLigate returns "+strings.Join(rts, " | ")+", not visibly the list received from the collector")
}

func checkWorkerLifecycle(c *Ctx, rl *ssa.Function) []*ssa.Go {
	// defer wg.Done() first
	st, why := unknown, ""
	var done []ssa.CallInstruction
	eachInstr(rl, func(i ssa.Instruction) {
		if ci, ok := i.(ssa.CallInstruction); ok && calleeName(ci) == "(*sync.WaitGroup).Done" && unwrap(ci.Common().Args[0]) == ssa.Value(rl.Params[0]) {
			done = append(done, ci)
		}
	})
	switch {
	case len(done) == 0:
		st, why = broken, "the worker never calls wg.Done(): Wait blocks forever"
	default:
		for _, ins := range rl.Blocks[0].Instrs {
			if d, ok := ins.(*ssa.Defer); ok {
				if len(done) == 1 && ssa.Instruction(d) == done[0].(ssa.Instruction) {
					st = holds
				}
				break
			}
			if _, ok := ins.(ssa.CallInstruction); ok {
				break
			}
		}
		if st != holds {
			// every way from the entry to a return runs some Done (several explicit calls, one per way out,
			// count as much as one that every path shares)
			hasDone := map[*ssa.BasicBlock]bool{}
			deferredAtEntry := false
			for _, d := range done {
				if _, isDefer := d.(*ssa.Defer); isDefer {
					if d.Block() == rl.Blocks[0] {
						deferredAtEntry = true
					}
					continue
				}
				hasDone[d.Block()] = true
			}
			covered := true
			if !deferredAtEntry {
				seen := map[*ssa.BasicBlock]bool{}
				stack := []*ssa.BasicBlock{rl.Blocks[0]}
				for len(stack) > 0 {
					b := stack[len(stack)-1]
					stack = stack[:len(stack)-1]
					if seen[b] || hasDone[b] {
						continue
					}
					seen[b] = true
					if len(b.Instrs) > 0 {
						if _, isRet := b.Instrs[len(b.Instrs)-1].(*ssa.Return); isRet {
							covered = false
						}
					}
					stack = append(stack, b.Succs...)
				}
			}
			if !covered {
				st, why = broken, "wg.Done() is not deferred at entry and does not run on every path out of the worker: some path leaves Wait blocked"
			} else {
				why = "wg.Done() is called, but not as the first deferred action"
			}
		}
	}
	c.judge(st, "CHANLIFE", "recurseLigate: defer wg.Done() first", rl.Pos(), "Done is deferred before any other call", why)
	addBeforeGo(c, "CHANLIFE", rl, rl, 0)
	recGos := goSites(rl, rl)
	okPass := true
	for _, g := range recGos {
		if unwrap(g.Call.Args[0]) != ssa.Value(rl.Params[0]) || unwrap(g.Call.Args[1]) != ssa.Value(rl.Params[1]) {
			okPass = false
		}
	}
	c.checkShape(okPass, "CHANLIFE", "recurseLigate: spawns pass the same wg and channel", rl.Pos(), "recursive workers share the caller's WaitGroup and channel", "a recursive spawn does not visibly pass on the caller's WaitGroup and channel")
	nb := 0
	eachInstr(rl, func(i ssa.Instruction) {
		if s, ok := i.(*ssa.Select); ok {
			for _, stt := range s.States {
				if stt.Chan == ssa.Value(rl.Params[1]) {
					nb++
				}
			}
		}
	})
	sends := sendsOn(rl, rl.Params[1])
	esc := chanEscapes(rl, rl.Params[1], map[string]bool{fname(rl): true})
	switch {
	case nb > 0:
		c.bad("CHANLIFE", "recurseLigate: plain blocking sends only", rl.Pos(), "constructs are sent through a select: a construct can be dropped when the collector is busy")
	case len(sends) >= 1 && len(esc) == 0:
		c.ok("CHANLIFE", "recurseLigate: plain blocking sends only", rl.Pos(), fmt.Sprintf("%d blocking send site(s), no select", len(sends)))
	default:
		c.undecided("CHANLIFE", "recurseLigate: plain blocking sends only", rl.Pos(), fmt.Sprintf("%d send sites; channel %v", len(sends), esc))
	}
	return recGos
}

func checkLigationTerms(c *Ctx, rl *ssa.Function, recGos []*ssa.Go) {
	rtb := newDeepTB(rl)
	seed := "param[2]"
	nw := "each(param[3])"
	F := func(x, f string) string { return "field[" + f + "](" + x + ")" }
	RC := func(x string) string { return "call[poly/transform.ReverseComplement](" + x + ")" }
	vocab := []string{F(seed, "ForwardOverhang"), F(seed, "ReverseOverhang"), F(seed, "Sequence"), F(nw, "ForwardOverhang"), F(nw, "ReverseOverhang"), F(nw, "Sequence"), RC("x")}
	closeAtom := "binop[==](" + F(seed, "ForwardOverhang") + ", " + F(seed, "ReverseOverhang") + ")"
	fwdAtom := "binop[==](" + F(nw, "ForwardOverhang") + ", " + F(seed, "ReverseOverhang") + ")"
	flipAtom := "binop[==](" + RC(F(nw, "ReverseOverhang")) + ", " + F(seed, "ReverseOverhang") + ")"
	palAtom := "binop[==](" + RC(F(seed, "ReverseOverhang")) + ", " + F(seed, "ReverseOverhang") + ")"
	sends := sendsOn(rl, rl.Params[1])
	if len(sends) != 1 {
		c.undecided("TERM-LIGATE", "closure: Fwd==Rev sends Fwd+Seq", rl.Pos(), fmt.Sprintf("%d send sites, the model needs 1", len(sends)))
	} else {
		pc := pathCond(rtb, rl.Blocks[0], sends[0].Block())
		st, why := holds, ""
		switch {
		case pc.implies(closeAtom, true):
			st, why = broken, "a construct is reported when the seed's overhangs differ (ring-closure test inverted)"
		case !pc.implies(closeAtom, false):
			st, why = unknown, "construct reported under "+short(pc.String())
			if pc.Op == "true" {
				st, why = broken, "every seed is reported as a construct, closed ring or not"
			}
		case len(pc.atoms()) != 1:
			st, why = unknown, "construct reported under "+short(pc.String())
		}
		c.judge(st, "TERM-LIGATE", "closure: reported exactly when Fwd==Rev", sends[0].Pos(), "a seed whose two overhangs are equal is a closed ring", why)
		c.cmpTerm("TERM-LIGATE", "closure: sends Fwd+Seq", sends[0].Pos(), rtb.T(sends[0].X), "binop[+]("+F(seed, "ForwardOverhang")+", "+F(seed, "Sequence")+")", "the ring is reported as ForwardOverhang+Sequence", "the construct reported for a closed ring", vocab...)
	}
	type ext struct {
		seen bool
	}
	var sawFwd, sawFlip bool
	pre := "binop[+](binop[+](" + F(seed, "Sequence") + ", " + F(seed, "ReverseOverhang") + "), "
	for _, g := range recGos {
		pc := pathCond(rtb, rl.Blocks[0], g.Block())
		sd := seedRecord(rtb, g)
		sq, fo, ro := partialOf(sd, "Sequence"), partialOf(sd, "ForwardOverhang"), partialOf(sd, "ReverseOverhang")
		if sq == nil || fo == nil || ro == nil {
			c.undecided("TERM-LIGATE", "extension", g.Pos(), "the new seed is not a visible Fragment literal: "+short(sd.String()))
			continue
		}
		// a pool whose elements carry more than a Fragment's three fields (overhangs of the other orientation
		// worked out beforehand, say): what those further fields hold is not followed
		further := ""
		for _, t := range []*Term{sq, fo, ro, parseOrNil(pc.String())} {
			if t == nil {
				continue
			}
			t.walk(func(x *Term) {
				if x.Op == "field" && x.Name != "Sequence" && x.Name != "ForwardOverhang" && x.Name != "ReverseOverhang" && x.Name != "Fragment" {
					further = x.Name
				}
			})
		}
		if further != "" {
			c.undecided("TERM-LIGATE", "extension", g.Pos(), "the new seed or its condition reads the field "+further+", which a Fragment does not have; what it holds is not followed")
			sawFwd, sawFlip = true, true
			continue
		}
		flipped := strings.Contains(sq.String(), RC(F(nw, "Sequence"))) || strings.Contains(ro.String(), "ReverseComplement")
		listOK := unwrap(g.Call.Args[3]) == ssa.Value(rl.Params[3])
		name, wantSq, wantRo, need := "forward extension", pre+F(nw, "Sequence")+")", F(nw, "ReverseOverhang"), fwdAtom
		okWhy := "under seed.Rev == new.Fwd: {seed.Seq+seed.Rev+new.Seq, seed.Fwd, new.Rev}, same pool"
		if flipped {
			name, wantSq, wantRo, need = "flipped extension (independent of the forward test)", pre+RC(F(nw, "Sequence"))+")", RC(F(nw, "ForwardOverhang")), flipAtom
			okWhy = "under seed.Rev == RC(new.Rev) && seed.Rev != RC(seed.Rev): {seed.Seq+seed.Rev+RC(new.Seq), seed.Fwd, RC(new.Fwd)}; tested for every fragment whether or not it also fits forward"
			if sawFlip {
				name += " #2"
			}
			sawFlip = true
		} else {
			if sawFwd {
				name += " #2"
			}
			sawFwd = true
		}
		// the record
		st, why := holds, ""
		for _, p := range []struct {
			got  *Term
			want string
			what string
		}{{sq, wantSq, "Sequence"}, {fo, F(seed, "ForwardOverhang"), "ForwardOverhang"}, {ro, wantRo, "ReverseOverhang"}} {
			if p.got.String() == p.want {
				continue
			}
			s2 := unknown
			if len(opaqueParts(p.got, vocabOf(vocab...))) == 0 && localDiff(p.got, p.want) {
				s2 = broken
			}
			if st == holds || s2 == broken {
				st, why = s2, "the new seed's "+p.what+" is "+short(p.got.String())+"; want "+short(p.want)
			}
		}
		if st == holds && !listOK {
			st, why = unknown, "the spawn passes a different pool"
		}
		// the condition
		if st == holds {
			var extra []string
			extraOpaque := false
			hasPal := false
			for _, at := range pc.atoms() {
				s := at.Atom.String()
				switch {
				case s == need && !at.Neg && !at.Disj:
				case s == closeAtom && at.Neg:
				case isIterCond(at.Atom):
				case flipped && s == palAtom && at.Neg && !at.Disj:
					hasPal = true
				case flipped && s == fwdAtom:
					st, why = broken, "the flipped extension is only tried when the forward test "+map[bool]string{true: "fails", false: "succeeds"}[at.Neg]+": a fragment that fits both ways is ligated one way only"
				default:
					extra = append(extra, short(s))
					// only a test on the fragments' sequence TEXT is taken as evidence; a visited set or a depth
					// bound (which a repair of the termination finding would add) is left undecided
					if len(opaqueParts(at.Atom, vocabOf(vocab...))) > 0 || !at.Atom.contains(func(x *Term) bool { return x.isField("Sequence") }) {
						extraOpaque = true
					}
				}
			}
			switch {
			case st == broken:
			case pc.implies(need, true):
				st, why = broken, "the extension is spawned when the overhangs do NOT match (test inverted)"
			case !pc.implies(need, false):
				st, why = unknown, "spawned under "+short(pc.String())
				// a different equality between overhang fields in its place
				for _, at := range pc.atoms() {
					if at.Atom.isBin("==") && !at.Neg && !at.Disj && at.Atom.String() != need && len(opaqueParts(at.Atom, vocabOf(vocab...))) == 0 && localDiff(at.Atom, need) {
						st, why = broken, "the extension is spawned under "+short(at.Atom.String())+"; want "+need
					}
				}
			case len(extra) > 0 && !extraOpaque:
				st, why = broken, fmt.Sprintf("a fragment whose overhang matches is ligated only if additionally %v: compatibility is decided by the overhangs alone, so rings that need the excluded fragments (e.g. one reusing a body already in the seed, with other overhangs) are never found", extra)
			case len(extra) > 0:
				st, why = unknown, fmt.Sprintf("additional conditions %v", extra)
			case flipped && !hasPal:
				st, why = broken, "the flipped extension is not guarded by seed.Rev != RC(seed.Rev): a seed with a palindromic overhang ligates to flipped copies for ever"
			}
		}
		c.judge(st, "TERM-LIGATE", name, g.Pos(), okWhy, why)
	}
	if !sawFwd {
		c.undecided("TERM-LIGATE", "forward extension", rl.Pos(), "no forward-extension spawn found")
	}
	if !sawFlip {
		c.undecided("TERM-LIGATE", "flipped extension (independent of the forward test)", rl.Pos(), "no flipped-extension spawn found")
	}
	c.checkShape(len(recGos) == 2, "TERM-LIGATE", "exactly two extension kinds", rl.Pos(), "forward and flipped", fmt.Sprintf("%d recursive spawn sites", len(recGos)))
}

func checkCollector(c *Ctx, gc *ssa.Function) {
	gtb := newDeepTB(gc)
	in, out := gc.Params[0], gc.Params[1]
	checkCloseOnceOnPath(c, gc, gtb, in, out)
	recvT := "extract[0](unop[<-,ok](param[0]))"
	hash := `extract[0](call[poly/seqhash.Hash](` + recvT + `, const["DNA"], const[true], const[true]))`
	// the key
	var hashCalls []*ssa.Call
	eachInstr(gc, func(i ssa.Instruction) {
		if cl, ok := i.(*ssa.Call); ok && calleeName(cl) == "poly/seqhash.Hash" {
			hashCalls = append(hashCalls, cl)
		}
	})
	if len(hashCalls) != 1 {
		c.undecided("TERM-DEDUP", "key = seqhash(x, DNA, circular, double-stranded)", gc.Pos(), fmt.Sprintf("%d calls of seqhash.Hash in the collector, the model needs 1", len(hashCalls)))
	} else {
		c.cmpTerm("TERM-DEDUP", "key = seqhash(x, DNA, circular, double-stranded)", hashCalls[0].Pos(), gtb.T(hashCalls[0]), `call[poly/seqhash.Hash](`+recvT+`, const["DNA"], const[true], const[true])`,
			"constructs equal up to rotation and strand share a key", "the dedup key (plasmids equal up to rotation or strand are reported twice, or different ones merged, unless it is Hash(construct, \"DNA\", true, true))", `const["RNA"]`, `const["PROTEIN"]`, "const[false]")
	}
	// the keep site
	var partApp *appSite
	eachInstr(gc, func(i ssa.Instruction) {
		if cl, ok := i.(*ssa.Call); ok && calleeName(cl) == "builtin:append" {
			for _, s := range topAppendSites(gtb.T(cl)) {
				s := s
				if s.At == ssa.Instruction(cl) && partialOf(s.Elem, "Sequence") != nil {
					partApp = &s
				}
			}
		}
	})
	if partApp == nil {
		c.undecided("TERM-DEDUP", "keep iff hash unseen; Part{x, Circular:true}", gc.Pos(), "no append of a Part literal found in the collector")
		return
	}
	sq, ci := partialOf(partApp.Elem, "Sequence"), partialOf(partApp.Elem, "Circular")
	st, why := holds, ""
	switch {
	case sq.String() != recvT:
		st, why = stateOf(false, vocabOf(recvT), sq), "the kept Part's sequence is "+short(sq.String())+", want the received construct"
		// a part of the received value (the channel carries a record): a change of layout, not of what is kept
		for x := sq; x != nil && len(x.Args) > 0 && (x.Op == "field" || x.Op == "deref" || x.Op == "extract" || x.Op == "index" || x.Op == "typeassert"); x = x.Args[0] {
			if x.Args[0].String() == recvT {
				st = unknown
			}
		}
	case ci == nil || !ci.isConst("true"):
		st, why = broken, "constructs are kept as linear Parts (Circular is not true)"
	}
	if st == holds {
		pc := pathCond(gtb, gc.Blocks[0], partApp.At.Block())
		st, why = unknown, "a construct is kept under "+short(pc.String())
		for _, a := range pc.atoms() {
			if a.Disj {
				continue
			}
			switch {
			case a.Atom.Op == "extract" && a.Atom.Name == "1" && a.Atom.Args[0].Op == "lookup" && a.Atom.Args[0].Name == ",ok":
				// seen-set: kept iff the hash is not in the map, and then recorded under the hash
				lk := a.Atom.Args[0]
				if lk.Args[1].String() != hash || lk.Args[0].Op != "makemap" {
					why = "membership is tested for " + short(lk.Args[1].String())
					continue
				}
				if !a.Neg {
					st, why = broken, "a construct is kept when its hash has been seen before (test inverted)"
					continue
				}
				recorded := false
				eachInstr(gc, func(i ssa.Instruction) {
					if mu, ok := i.(*ssa.MapUpdate); ok && gtb.T(mu.Map).String() == lk.Args[0].String() && gtb.T(mu.Key).String() == hash {
						if pathCond(gtb, gc.Blocks[0], mu.Block()).String() == pc.String() {
							recorded = true
						}
					}
				})
				if recorded {
					st = holds
				} else {
					why = "the hash of a kept construct is not recorded in the seen-set on the same path"
				}
			case a.Atom.Op == "phi" && !a.Atom.Cyc || a.Atom.Op == "phi":
				// flag scan: flag := false; for each earlier hash { if h == hash { flag = true } }; keep iff !flag
				flag := a.Atom
				eqSeen := false
				eachInstr(gc, func(i ssa.Instruction) {
					if ifi, ok := i.(*ssa.If); ok {
						t := gtb.T(ifi.Cond)
						if t.isBin("==") && ((t.Args[1].String() == hash && strings.HasPrefix(t.Args[0].String(), "each(collect("+hash)) || (t.Args[0].String() == hash && strings.HasPrefix(t.Args[1].String(), "each(collect("+hash))) {
							eqSeen = true
						}
					}
				})
				if !eqSeen {
					why = "no comparison of the construct's hash with every recorded hash found"
					continue
				}
				// only a flag that is raised by that comparison is an 'already seen' flag; kept under it = inverted
				if !a.Neg {
					raisedOnEqual := false
					if ph, ok := flag.V.(*ssa.Phi); ok {
						for _, e := range ph.Edges {
							if k, isC := e.(*ssa.Const); isC && k.Value != nil && k.Value.ExactString() == "true" {
								raisedOnEqual = true
							}
						}
					}
					if raisedOnEqual {
						st, why = broken, "a construct is kept when the 'already seen' flag is set (test inverted)"
					} else {
						why = "the flag the keep decision tests is not visibly the 'already seen' flag"
					}
					continue
				}
				// hashes are recorded with the construct
				okRec := false
				eachInstr(gc, func(i ssa.Instruction) {
					if cl, ok := i.(*ssa.Call); ok && calleeName(cl) == "builtin:append" && cl.Block() == partApp.At.Block() {
						for _, s := range topAppendSites(gtb.T(cl)) {
							if s.At == ssa.Instruction(cl) && s.Elem.String() == hash {
								okRec = true
							}
						}
					}
				})
				if !okRec {
					why = "the hash of a kept construct is not recorded with it"
					continue
				}
				// the flag is reset for each construct: entering the scan loop its value is the constant false
				ph, _ := flag.V.(*ssa.Phi)
				resetOK, carried := false, false
				if ph != nil {
					seen := map[*ssa.Phi]bool{}
					var walk func(p *ssa.Phi)
					walk = func(p *ssa.Phi) {
						if seen[p] {
							return
						}
						seen[p] = true
						hdr := p.Block()
						for k, e := range p.Edges {
							pred := hdr.Preds[k]
							fromOutside := !(hdr.Dominates(pred) && reaches(pred, hdr)) || pred == hdr && false
							switch x := e.(type) {
							case *ssa.Const:
								if fromOutside && x.Value != nil && x.Value.ExactString() == "false" && enclosingLoopHeader(hdr) != nil || (x.Value != nil && x.Value.ExactString() == "false" && inLoop(pred)) {
									resetOK = true
								}
							case *ssa.Phi:
								if fromOutside && isCyclicPhi(x) && inLoop(x.Block()) && !seen[x] {
									// the value entering the scan is carried over from the previous construct
									carried = true
								}
								walk(x)
							}
						}
					}
					walk(ph)
				}
				switch {
				case carried:
					st, why = broken, "the 'already seen' flag is not reset for each construct: once one duplicate has been seen, every later construct is dropped as a duplicate too"
				case resetOK:
					st = holds
				default:
					why = "the reset of the 'already seen' flag was not recognised"
				}
			}
		}
	}
	c.judge(st, "TERM-DEDUP", "keep iff hash unseen; Part{x, Circular:true}", partApp.At.Pos(), "every received construct is compared with all earlier hashes and kept once", why)
}

func checkGoldenGate(c *Ctx, gg *ssa.Function) {
	ggtb := newDeepTB(gg, "poly/clone.CircularLigate", "poly/clone.CutWithEnzymeByName")
	cutT := "call[poly/clone.CutWithEnzymeByName](each(param[0]), const[true], param[1])"
	var succ []resultAlt
	for _, a := range resultAlts(ggtb, gg, 0) {
		if len(a.Ret.Results) == 2 {
			if e := ggtb.T(a.Ret.Results[1]); e.Op == "const" && strings.HasPrefix(e.Name, "nil:") {
				succ = append(succ, a)
			}
		}
	}
	st, why := unknown, fmt.Sprintf("%d success returns", len(succ))
	pos := gg.Pos()
	if len(succ) == 1 && succ[0].T.isCall("poly/clone.CircularLigate") {
		t := succ[0].T
		sites := topAppendSites(t.Args[0])
		why = "fragments passed to CircularLigate are " + short(t.Args[0].String())
		if len(sites) == 1 {
			pos = sites[0].At.Pos()
			e := sites[0].Elem
			switch {
			case e.String() == "extract[0]("+cutT+")":
				st = holds
				pc := pathCond(ggtb, gg.Blocks[0], sites[0].At.Block())
				errAtom := "binop[==](const[nil:error], extract[1](" + cutT + "))"
				if !pc.implies(errAtom, false) {
					st, why = unknown, "fragments are collected under "+short(pc.String())
					if pc.implies(errAtom, true) {
						st, why = broken, "fragments are collected only when the cut reported an error"
					}
				}
			case e.Op == "extract" && e.Name == "0" && e.Args[0].isCall("poly/clone.CutWithEnzymeByName") && len(opaqueParts(e, vocabOf(cutT, "const[false]"))) == 0 && localDiff(e.Args[0], cutT):
				st, why = broken, "parts are cut by "+short(e.Args[0].String())+"; GoldenGate needs "+cutT+" (directional cut of every part, in input order)"
			}
		}
	}
	c.judge(st, "WRAPPERS", "GoldenGate: cut every part directionally, ligate all fragments", pos, "CutWithEnzymeByName(part, true, enzyme) for each part in order; all fragments go to CircularLigate", why)
	okErr := false
	for _, r := range returnsOf(gg) {
		if len(r.Results) == 2 && ggtb.T(r.Results[1]).String() == "extract[1]("+cutT+")" {
			okErr = true
		}
	}
	c.checkShape(okErr, "WRAPPERS", "GoldenGate propagates the enzyme lookup error", gg.Pos(), "the error of CutWithEnzymeByName is returned", "no return of the cut's error found")
}

func types_isInt(v ssa.Value) bool {
	return tname(v.Type()) == "int"
}

// checkCloseOnceOnPath: the collector sends its result exactly once and closes the result channel
// exactly once, only on the path where the input channel reported closed, then returns.
func checkCloseOnceOnPath(c *Ctx, f *ssa.Function, tb *TermBuilder, in, out *ssa.Parameter) {
	sends := sendsOn(f, out)
	var cls []ssa.Instruction
	eachInstr(f, func(i ssa.Instruction) {
		if isCloseOf(i, out) {
			cls = append(cls, i)
		}
	})
	st, why := unknown, fmt.Sprintf("%d sends / %d closes on the result channel, the model needs 1 / 1", len(sends), len(cls))
	switch {
	case len(sends) == 0 && len(chanEscapes(f, out, nil)) == 0:
		st, why = broken, "the collector never sends its result: the caller's receive blocks forever"
	case len(sends) == 1 && inLoop(sends[0].Block()):
		st, why = broken, "the collector sends its (partial) result inside the receive loop: the caller gets the list before all constructs have arrived"
	case len(sends) == 1 && len(cls) <= 1:
		pc := pathCond(tb, f.Blocks[0], sends[0].Block())
		more := "extract[1](unop[<-,ok](param[0]))"
		switch {
		case pc.implies(more, false):
			st, why = broken, "the result is sent while the construct channel is still open (under 'more'), not when it has been closed"
		case !pc.implies(more, true):
			why = "result is sent under " + short(pc.String())
		case len(cls) == 1 && domInstr(cls[0], sends[0]):
			st, why = broken, "the result channel is closed before the result is sent: the send panics"
		default:
			st = holds
		}
	}
	c.judge(st, "CHANLIFE", "getConstructs: one send then one close when the input is closed", f.Pos(), "result delivered exactly once, after the last construct", why)
	// receive is comma-ok in a loop
	okRecv := false
	eachInstr(f, func(i ssa.Instruction) {
		if u, ok := i.(*ssa.UnOp); ok && u.Op.String() == "<-" && u.X == ssa.Value(in) && u.CommaOk && inLoop(u.Block()) {
			okRecv = true
		}
	})
	c.checkShape(okRecv, "CHANLIFE", "getConstructs: receives until the channel is closed", f.Pos(), "comma-ok receive in a loop", "no comma-ok receive from the construct channel in a loop found")
}
