package main

// C09 GoldenGate returns exactly the plasmids the overhangs allow.

import (
	"fmt"
	"strings"

	"golang.org/x/tools/go/ssa"
)

func init() { register("C09", ruleC09) }

// addBeforeGo: every `go g(...)` in f is preceded, in its own block, by wg.Add(const 1) on the
// WaitGroup it passes, so the counter can never be observed at zero while a spawn is pending.
func addBeforeGo(c *Ctx, rule string, f, g *ssa.Function, wgArg int) int {
	n := 0
	for _, gs := range goSites(f, g) {
		n++
		wg := unwrap(gs.Call.Args[wgArg])
		ok := false
		for _, ins := range gs.Block().Instrs {
			if ins == ssa.Instruction(gs) {
				break
			}
			if ci, isCall := ins.(*ssa.Call); isCall && calleeName(ci) == "(*sync.WaitGroup).Add" && unwrap(ci.Call.Args[0]) == wg {
				if k, isC := ci.Call.Args[1].(*ssa.Const); isC && k.Value != nil && k.Value.ExactString() == "1" {
					ok = true
				}
			}
		}
		c.check(ok, rule, fmt.Sprintf("%s: wg.Add(1) before go %s", fname(f), g.Name()), gs.Pos(), "Add(1) precedes the go statement in the same block", "a goroutine is spawned without a preceding wg.Add(1) in the same block: Wait may return (and the channel be closed) while it is still running")
	}
	return n
}

func ruleC09(c *Ctx) {
	c.Decided = []string{
		"CHANLIFE: construct channel: sends only in recurseLigate, every spawn preceded by wg.Add(1), defer wg.Done() first in recurseLigate, collector started before wg.Wait() which precedes close(c) which precedes the receive of the result, which is returned; result channel: one send then one close on the !more path only",
		"TERM-LIGATE: closure test Fwd==Rev sends Fwd+Seq; forward extension under seed.Rev==new.Fwd builds {seed.Seq+seed.Rev+new.Seq, seed.Fwd, new.Rev}; flipped extension under seed.Rev==RC(new.Rev) and seed.Rev!=RC(seed.Rev) builds {seed.Seq+seed.Rev+RC(new.Seq), seed.Fwd, RC(new.Fwd)}; the two extensions are tested independently for every pool fragment",
		"TERM-DEDUP: collector keys constructs by seqhash.Hash(x,\"DNA\",true,true), keeps a construct iff no earlier key is equal, returns Part{x, Circular:true}",
		"NOSHARED: goroutine bodies use no package-level variable and do not store through the shared fragment list",
		"WRAPPERS: GoldenGate cuts every input with directional=true in input order, propagates the lookup error, passes all fragments to CircularLigate",
		"VARIANT: each recursive spawn carries a decreasing measure (fails today: known findings)",
	}
	c.Undec = []string{"that the enumeration is complete and duplicate-free for libraries (combinatorial)", "rotation behaviour inherited from C10", "scheduling beyond the happens-before edges listed"}
	c.Trusted = []string{"sync.WaitGroup, channel semantics", "C04/C05 (seqhash canonical form), C11 (reverse complement)"}
	c.floor("CHANLIFE", 8)
	c.floor("TERM-LIGATE", 4)
	c.floor("TERM-DEDUP", 2)
	c.floor("NOSHARED", 2)
	c.floor("WRAPPERS", 2)
	c.floor("VARIANT", 2)
	w := c.W
	rl, gc, cl, gg := w.fn("clone", "recurseLigate"), w.fn("clone", "getConstructs"), w.fn("clone", "CircularLigate"), w.fn("clone", "GoldenGate")
	if cl == nil || gg == nil {
		c.missing("CHANLIFE", "clone.CircularLigate/GoldenGate", "exported ligation functions")
		return
	}
	// find the spawned workers by role if names changed: goroutines started by CircularLigate
	if rl == nil || gc == nil {
		c.missing("CHANLIFE", "ligation workers", "functions recurseLigate/getConstructs started by CircularLigate")
		return
	}
	for _, f := range []*ssa.Function{rl, gc, cl, gg} {
		c.useFn(f)
	}
	ctb := newTB(cl)
	// ---- CircularLigate
	workerGos := goSites(cl, rl)
	collGos := goSites(cl, gc)
	if len(workerGos) == 0 || len(collGos) != 1 {
		c.bad("CHANLIFE", "CircularLigate:spawns", cl.Pos(), fmt.Sprintf("%d worker spawn sites, %d collector spawn sites (want >=1 and 1)", len(workerGos), len(collGos)))
		return
	}
	addBeforeGo(c, "CHANLIFE", cl, rl, 0)
	wg := unwrap(workerGos[0].Call.Args[0])
	ch := unwrap(workerGos[0].Call.Args[1])
	res := unwrap(collGos[0].Call.Args[1])
	okWire := unwrap(collGos[0].Call.Args[0]) == ch
	for _, g := range workerGos {
		if unwrap(g.Call.Args[0]) != wg || unwrap(g.Call.Args[1]) != ch {
			okWire = false
		}
	}
	_, chMake := ch.(*ssa.MakeChan)
	_, resMake := res.(*ssa.MakeChan)
	c.check(okWire && chMake && resMake, "CHANLIFE", "CircularLigate:one WaitGroup, one construct channel shared by workers and collector", cl.Pos(), "all workers get the same wg and channel; the collector reads that channel", "workers and collector are not wired to one WaitGroup / one construct channel created here")
	var wait, cls, recv ssa.Instruction
	eachInstr(cl, func(i ssa.Instruction) {
		switch x := i.(type) {
		case *ssa.Call:
			if calleeName(x) == "(*sync.WaitGroup).Wait" && unwrap(x.Call.Args[0]) == wg {
				wait = x
			}
			if isCloseOf(x, ch) {
				cls = x
			}
		case *ssa.UnOp:
			if x.Op.String() == "<-" && x.X == res {
				recv = x
			}
		}
	})
	okOrder := wait != nil && cls != nil && recv != nil && domInstr(collGos[0], wait) && domInstr(wait, cls) && domInstr(cls, recv)
	for _, g := range workerGos {
		if wait == nil || !(g.Block().Dominates(wait.Block()) || reaches(g.Block(), wait.Block())) {
			okOrder = false
		}
		if wait != nil && (reaches(wait.Block(), g.Block())) {
			okOrder = false
		}
	}
	c.check(okOrder, "CHANLIFE", "CircularLigate:go collector < wg.Wait < close(c) < receive result", cl.Pos(), "the collector runs before Wait (unbuffered sends can complete), the channel is closed only after all workers are done, the result is read after the close", "the ordering collector-start / Wait / close / receive is broken: workers may block forever, send on a closed channel, or constructs may be lost")
	checkCloseOnce(c, "CHANLIFE", cl, ch, "constructs")
	rt, _, okR := singleReturnTerm(cl, 0)
	c.check(okR && recv != nil && rt.V == recv.(ssa.Value), "CHANLIFE", "CircularLigate returns the collector's result", cl.Pos(), "the returned slice is what the collector sent", "CircularLigate does not return the list received from the collector")
	_ = ctb

	// ---- recurseLigate
	rtb := newTB(rl)
	// defer wg.Done() first
	firstDefer := false
	for _, ins := range rl.Blocks[0].Instrs {
		if d, ok := ins.(*ssa.Defer); ok {
			firstDefer = calleeName(d) == "(*sync.WaitGroup).Done" && unwrap(d.Call.Args[0]) == ssa.Value(rl.Params[0])
			break
		}
		if _, ok := ins.(ssa.CallInstruction); ok {
			break
		}
	}
	c.check(firstDefer, "CHANLIFE", "recurseLigate: defer wg.Done() first", rl.Pos(), "Done is deferred before any other call", "recurseLigate does not defer wg.Done() as its first action: a panic or early return leaves Wait blocked")
	addBeforeGo(c, "CHANLIFE", rl, rl, 0)
	recGos := goSites(rl, rl)
	okPass := true
	for _, g := range recGos {
		if unwrap(g.Call.Args[0]) != ssa.Value(rl.Params[0]) || unwrap(g.Call.Args[1]) != ssa.Value(rl.Params[1]) {
			okPass = false
		}
	}
	c.check(okPass, "CHANLIFE", "recurseLigate: spawns pass the same wg and channel", rl.Pos(), "recursive workers share the caller's WaitGroup and channel", "a recursive spawn uses a different WaitGroup or channel")
	nb := 0
	eachInstr(rl, func(i ssa.Instruction) {
		if s, ok := i.(*ssa.Select); ok {
			nb += len(s.States)
		}
	})
	sends := sendsOn(rl, rl.Params[1])
	c.check(nb == 0 && len(sends) >= 1 && len(chanEscapes(rl, rl.Params[1], map[string]bool{"poly/clone.recurseLigate": true})) == 0, "CHANLIFE", "recurseLigate: plain blocking sends only", rl.Pos(), fmt.Sprintf("%d blocking send site(s), no select", len(sends)), "constructs are sent through select or the channel escapes: results may be dropped")
	// TERM-LIGATE
	seed := "param[2]"
	nw := "each(param[3])"
	F := func(x, f string) string { return "field[" + f + "](" + x + ")" }
	RC := func(x string) string { return "call[poly/transform.ReverseComplement](" + x + ")" }
	closeAtom := "binop[==](" + F(seed, "ForwardOverhang") + ", " + F(seed, "ReverseOverhang") + ")"
	okClose := len(sends) == 1
	if okClose {
		pc := pathCond(rtb, rl.Blocks[0], sends[0].Block())
		okClose = pc.String() == closeAtom && rtb.T(sends[0].X).String() == "binop[+]("+F(seed, "ForwardOverhang")+", "+F(seed, "Sequence")+")"
	}
	c.check(okClose, "TERM-LIGATE", "closure: Fwd==Rev sends Fwd+Seq", rl.Pos(), "a seed whose two overhangs are equal is reported as ForwardOverhang+Sequence, exactly then", "the ring-closure test or the reported construct differs from {seed.Fwd == seed.Rev -> seed.Fwd + seed.Seq}")
	fwdAtom := "binop[==](" + F(nw, "ForwardOverhang") + ", " + F(seed, "ReverseOverhang") + ")"
	flipAtom := "binop[==](" + RC(F(nw, "ReverseOverhang")) + ", " + F(seed, "ReverseOverhang") + ")"
	palAtom := "binop[!=](" + RC(F(seed, "ReverseOverhang")) + ", " + F(seed, "ReverseOverhang") + ")"
	var okFwd, okFlip bool
	var whyFwd, whyFlip = "no forward-extension spawn found", "no flipped-extension spawn found"
	for _, g := range recGos {
		pc := pathCond(rtb, rl.Blocks[0], g.Block())
		a, ok := unwrap(g.Call.Args[2]).(*ssa.UnOp)
		var sd *Term
		if ok {
			sd = rtb.T(a)
		} else {
			sd = rtb.T(g.Call.Args[2])
		}
		sq, fo, ro := partialOf(sd, "Sequence"), partialOf(sd, "ForwardOverhang"), partialOf(sd, "ReverseOverhang")
		if sq == nil || fo == nil || ro == nil {
			continue
		}
		listOK := unwrap(g.Call.Args[3]) == ssa.Value(rl.Params[3])
		pre := "binop[+](binop[+](" + F(seed, "Sequence") + ", " + F(seed, "ReverseOverhang") + "), "
		switch {
		case sq.String() == pre+F(nw, "Sequence")+")":
			extra := []string{}
			for _, at := range pc.atoms() {
				s := at.Atom.String()
				if s != fwdAtom && s != closeAtom && !strings.HasPrefix(s, "binop[<](binop[+](const[1], phi") {
					extra = append(extra, short(s))
				}
			}
			okFwd = pc.implies(fwdAtom, false) && pc.implies(closeAtom, true) && fo.String() == F(seed, "ForwardOverhang") && ro.String() == F(nw, "ReverseOverhang") && listOK && len(extra) == 0
			whyFwd = fmt.Sprintf("forward extension builds {%s, %s, %s} under %s (extra conditions %v)", short(sq.String()), short(fo.String()), short(ro.String()), short(pc.String()), extra)
		case sq.String() == pre+RC(F(nw, "Sequence"))+")":
			extra := []string{}
			for _, at := range pc.atoms() {
				s := at.Atom.String()
				if s != flipAtom && s != palAtom && s != closeAtom && !strings.HasPrefix(s, "binop[<](binop[+](const[1], phi") {
					extra = append(extra, short(s))
				}
			}
			okFlip = pc.implies(flipAtom, false) && pc.implies(palAtom, false) && fo.String() == F(seed, "ForwardOverhang") && ro.String() == RC(F(nw, "ForwardOverhang")) && listOK && len(extra) == 0
			whyFlip = fmt.Sprintf("flipped extension builds {%s, %s, %s} under %s (conditions it must not depend on: %v)", short(sq.String()), short(fo.String()), short(ro.String()), short(pc.String()), extra)
		}
	}
	c.check(okFwd, "TERM-LIGATE", "forward extension", rl.Pos(), "under seed.Rev == new.Fwd: {seed.Seq+seed.Rev+new.Seq, seed.Fwd, new.Rev}, same pool", whyFwd)
	c.check(okFlip, "TERM-LIGATE", "flipped extension (independent of the forward test)", rl.Pos(), "under seed.Rev == RC(new.Rev) && seed.Rev != RC(seed.Rev): {seed.Seq+seed.Rev+RC(new.Seq), seed.Fwd, RC(new.Fwd)}; tested for every fragment whether or not it also fits forward", whyFlip)
	c.check(len(recGos) == 2, "TERM-LIGATE", "exactly two extension kinds", rl.Pos(), "forward and flipped", fmt.Sprintf("%d recursive spawn sites, want 2", len(recGos)))

	// ---- getConstructs
	gtb := newTB(gc)
	in, out := gc.Params[0], gc.Params[1]
	checkCloseOnceOnPath(c, gc, gtb, in, out)
	hash := `extract[0](call[poly/seqhash.Hash](extract[0](unop[<-,ok](param[0])), const["DNA"], const[true], const[true]))`
	var partApp, hashApp *appSite
	eachInstr(gc, func(i ssa.Instruction) {
		if cl, ok := i.(*ssa.Call); ok && calleeName(cl) == "builtin:append" {
			for _, s := range topAppendSites(gtb.T(cl)) {
				s := s
				if s.At != ssa.Instruction(cl) {
					continue
				}
				if s.Elem.String() == hash {
					hashApp = &s
				} else if partialOf(s.Elem, "Sequence") != nil {
					partApp = &s
				}
			}
		}
	})
	okDedup := partApp != nil && hashApp != nil && partApp.At.Block() == hashApp.At.Block()
	whyD := "constructs and their hashes are not recorded together"
	if okDedup {
		sq, ci := partialOf(partApp.Elem, "Sequence"), partialOf(partApp.Elem, "Circular")
		okDedup = sq.String() == "extract[0](unop[<-,ok](param[0]))" && ci != nil && ci.isConst("true")
		whyD = "kept value is not Part{construct, Circular: true}"
		// kept iff no earlier equal hash: the keep block is reached under !exists where exists = OR over earlier hashes == this hash
		pc := pathCond(gtb, gc.Blocks[0], partApp.At.Block())
		var flag *Term
		for _, a := range pc.atoms() {
			if a.Neg && a.Atom.Op == "phi" {
				flag = a.Atom
			}
		}
		eqSeen := false
		eachInstr(gc, func(i ssa.Instruction) {
			if ifi, ok := i.(*ssa.If); ok {
				t := gtb.T(ifi.Cond)
				if t.isBin("==") && ((t.Args[1].String() == hash && strings.HasPrefix(t.Args[0].String(), "each(collect("+hash)) || (t.Args[0].String() == hash && strings.HasPrefix(t.Args[1].String(), "each(collect("+hash))) {
					eqSeen = true
				}
			}
		})
		if flag == nil || !eqSeen {
			okDedup = false
			whyD = "a construct is not kept exactly when no earlier recorded hash equals its hash"
		} else {
			leaves := phiLeaves(flag)
			for _, l := range leaves {
				if !l.isConst("true") && !l.isConst("false") {
					okDedup = false
					whyD = "the 'already seen' flag is not a plain true/false marker"
				}
			}
		}
	}
	c.check(okDedup, "TERM-DEDUP", "keep iff hash unseen; Part{x, Circular:true}", gc.Pos(), "every received construct is compared with all earlier hashes and kept once", whyD)
	hashOK := false
	eachInstr(gc, func(i ssa.Instruction) {
		if cl, ok := i.(*ssa.Call); ok && calleeName(cl) == "poly/seqhash.Hash" {
			hashOK = gtb.T(cl).String() == `call[poly/seqhash.Hash](extract[0](unop[<-,ok](param[0])), const["DNA"], const[true], const[true])`
		}
	})
	c.check(hashOK, "TERM-DEDUP", "key = seqhash(x, DNA, circular, double-stranded)", gc.Pos(), "constructs equal up to rotation and strand share a key", "the dedup key is not seqhash.Hash(construct, \"DNA\", true, true): plasmids equal up to rotation or strand are reported twice (or different ones merged)")

	// ---- NOSHARED
	checkNoShared(c, "NOSHARED", "goroutine bodies use no package state", []*ssa.Function{rl, gc}, nil)
	ws := argWriters(rl)
	c.check(len(ws) == 0, "NOSHARED", "recurseLigate does not write the shared fragment list", rl.Pos(), "no store through its parameters", strings.Join(ws, "; "))

	// ---- WRAPPERS
	ggtb := newTB(gg)
	sr := successReturn(ggtb, gg, 1)
	okGG := false
	whyGG := "no single success return"
	if sr != nil {
		t := ggtb.T(sr.Results[0])
		cutT := "call[poly/clone.CutWithEnzymeByName](each(param[0]), const[true], param[1])"
		if t.isCall("poly/clone.CircularLigate") {
			sites := topAppendSites(t.Args[0])
			okGG = len(sites) == 1 && sites[0].Elem.String() == "extract[0]("+cutT+")"
			whyGG = "fragments passed to CircularLigate are " + short(t.Args[0].String())
			if okGG {
				pc := pathCond(ggtb, gg.Blocks[0], sites[0].At.Block())
				if !pc.implies("binop[!=](const[nil:error], extract[1]("+cutT+"))", true) {
					okGG = false
					whyGG = "fragments are used although the cut reported an error"
				}
			}
		}
	}
	c.check(okGG, "WRAPPERS", "GoldenGate: cut every part directionally, ligate all fragments", gg.Pos(), "CutWithEnzymeByName(part, true, enzyme) for each part in order; all fragments go to CircularLigate", whyGG)
	okErr := false
	for _, r := range returnsOf(gg) {
		if ggtb.T(r.Results[1]).String() == "extract[1](call[poly/clone.CutWithEnzymeByName](each(param[0]), const[true], param[1]))" {
			okErr = true
		}
	}
	c.check(okErr, "WRAPPERS", "GoldenGate propagates the enzyme lookup error", gg.Pos(), "the error of CutWithEnzymeByName is returned", "the lookup error is swallowed")

	// ---- VARIANT
	for _, g := range recGos {
		pool := unwrap(g.Call.Args[3])
		measured := false
		why := "the spawn passes the same pool and an ever-growing seed"
		if pool != ssa.Value(rl.Params[3]) {
			// a strictly smaller pool built by an element-removing idiom?
			t := rtb.T(pool)
			if t.contains(func(x *Term) bool { return x.isCall("builtin:append") || x.Op == "collect" || x.Op == "slice" }) {
				measured = true
			}
		}
		// an integer depth parameter compared with a bound on a dominating path
		for k, a := range g.Call.Args {
			if k < len(rl.Params) && types_isInt(a) {
				b, d := rtb.T(a).linear()
				if b != nil && b.isParam(k) && d != 0 {
					pc := pathCond(rtb, rl.Blocks[0], g.Block())
					for _, at := range pc.atoms() {
						if at.Atom.contains(func(x *Term) bool { return x.isParam(k) }) {
							measured = true
						}
					}
				}
			}
		}
		kind := "forward"
		if strings.Contains(rtb.T(g.Call.Args[2]).String(), "ReverseComplement") {
			kind = "flipped"
		}
		c.check(measured, "VARIANT", "recursive spawn ("+kind+") carries a decreasing measure", g.Pos(), "strictly smaller pool, bounded depth or consulted visited set", "unmeasured recursive spawn: "+why+"; with a pool whose overhangs close a cycle that excludes the seed (a->b, b->c, c->b) the recursion never terminates")
	}
}

func types_isInt(v ssa.Value) bool {
	return tname(v.Type()) == "int"
}

// checkCloseOnceOnPath: the collector sends its result exactly once and closes the result channel
// exactly once, only on the path where the input channel reported closed, then returns.
func checkCloseOnceOnPath(c *Ctx, f *ssa.Function, tb *TermBuilder, in, out *ssa.Parameter) {
	sends := sendsOn(f, out)
	var cls []ssa.Instruction
	eachInstr(f, func(i ssa.Instruction) {
		if isCloseOf(i, out) {
			cls = append(cls, i)
		}
	})
	good := len(sends) == 1 && len(cls) == 1
	why := fmt.Sprintf("%d sends / %d closes on the result channel, want 1 / 1", len(sends), len(cls))
	if good {
		pc := pathCond(tb, f.Blocks[0], sends[0].Block())
		more := "extract[1](unop[<-,ok](param[0]))"
		good = pc.implies(more, true) && sends[0].Block() == cls[0].Block() && domInstr(sends[0], cls[0]) && !inLoop(sends[0].Block())
		why = "result is sent/closed under " + short(pc.String()) + "; want exactly once when the construct channel is closed (!more), send before close"
		if good {
			// after the close the function returns
			last := sends[0].Block().Instrs[len(sends[0].Block().Instrs)-1]
			if _, isRet := last.(*ssa.Return); !isRet {
				good = false
				why = "the collector keeps running after delivering its result"
			}
		}
	}
	c.check(good, "CHANLIFE", "getConstructs: one send then one close when the input is closed", f.Pos(), "result delivered exactly once, after the last construct", why)
	// receive is comma-ok in a loop
	okRecv := false
	eachInstr(f, func(i ssa.Instruction) {
		if u, ok := i.(*ssa.UnOp); ok && u.Op.String() == "<-" && u.X == ssa.Value(in) && u.CommaOk && inLoop(u.Block()) {
			okRecv = true
		}
	})
	c.check(okRecv, "CHANLIFE", "getConstructs: receives until the channel is closed", f.Pos(), "comma-ok receive in a loop", "the collector does not receive with comma-ok in a loop")
}
