package main

// C08 Codon usage tables count exactly and never leak between calls.

import (
	"fmt"
	"go/types"
	"sort"
	"strings"

	"golang.org/x/tools/go/ssa"
)

func init() { register("C08", ruleC08) }

// storeTarget describes the struct field a store writes, e.g. "Codon.Weight".
func storeTarget(addr ssa.Value) string {
	if fa, ok := addr.(*ssa.FieldAddr); ok {
		pt := types.Unalias(fa.X.Type().Underlying().(*types.Pointer).Elem())
		st := pt.Underlying().(*types.Struct)
		name := "struct"
		if n, ok := pt.(*types.Named); ok {
			name = n.Obj().Name()
		}
		return name + "." + st.Field(fa.Field).Name()
	}
	if ia, ok := addr.(*ssa.IndexAddr); ok {
		return "elem of " + tname(ia.X.Type())
	}
	return tname(deref(addr.Type()))
}

func ruleC08(c *Ctx) {
	c.Decided = []string{
		"ALIAS: exported functions returning Table memory reachable from package state x functions storing through a Table argument's backing arrays must not combine (value semantics); WRITERS: complete list of functions storing into non-fresh Codon/AminoAcid/Table memory; the package-level table map is written only by its initialiser",
		"TERM-COUNT: getCodonFrequency: window of 3 over every rune of its argument, +1 per complete window (=1 on first sight), reset; OptimizeTable counts over ToUpper(sequence) and sets each Weight := freq[codon.Triplet] (absent = 0); letters/triplets never stored to",
		"SHAPE: each default table is produced by its own generator call returning only freshly allocated memory (no two ids share slices, no cache), weight constant 1 (C06 SHAPE-GEN)",
	}
	c.Undec = []string{"data races under concurrency beyond 'tables of different ids share no memory and no other package state is written'", "behaviour of callers that hold a Table across calls"}
	c.Trusted = []string{"strings.Builder, strings.ToUpper", "no pointer analysis: origin abstraction (fresh/param/global) over the type closure of Table"}
	c.floor("ALIAS", 1)
	c.floor("WRITERS", 4)
	c.floor("TERM-COUNT", 4)
	c.floor("SHAPE", 1)
	w := c.W
	sp := w.spkg("transform/codon")
	if sp == nil {
		c.missing("ALIAS", "package codon", "package transform/codon")
		return
	}
	// functions of package codon
	var fs []*ssa.Function
	for _, f := range w.moduleFuncs() {
		if f.Pkg == sp || (f.Parent() != nil && f.Parent().Pkg == sp) {
			if !strings.HasPrefix(f.Name(), "init") {
				fs = append(fs, f)
			}
		}
	}
	ro := returnOrigins(fs)
	retOf := func(g *ssa.Function) origin { return ro[g] }
	tableT := sp.Type("Table")
	if tableT == nil {
		c.missing("ALIAS", "codon.Table", "type codon.Table")
		return
	}
	inClosure := map[string]bool{}
	for _, n := range typeClosure(tableT.Type()) {
		inClosure[n.Obj().Name()] = true
	}
	returnsTable := func(f *ssa.Function) bool {
		res := f.Signature.Results()
		for i := 0; i < res.Len(); i++ {
			if strings.Contains(tname(res.At(i).Type()), "codon.Table") {
				return true
			}
		}
		return false
	}
	// leaks
	var leaks []*ssa.Function
	for _, f := range fs {
		if f.Object() != nil && f.Object().Exported() && returnsTable(f) && ro[f]&oGlobal != 0 {
			leaks = append(leaks, f)
		}
	}
	// mutators: stores into param-origin memory of the Table closure
	type mut struct {
		f      *ssa.Function
		target string
		pos    ssa.Instruction
	}
	var muts []mut
	var allWriters []string
	for _, f := range fs {
		c.useFn(f)
		oa := newOriginAnalysis(f, retOf)
		eachInstr(f, func(i ssa.Instruction) {
			st, ok := i.(*ssa.Store)
			if !ok {
				return
			}
			if _, _, isLocal := rootAlloc(st.Addr); isLocal {
				return
			}
			tgt := storeTarget(st.Addr)
			o := oa.of(st.Addr)
			if o&(oParam|oGlobal|oUnknown) == 0 {
				return
			}
			owner := strings.SplitN(tgt, ".", 2)[0]
			if inClosure[owner] || strings.Contains(tgt, "codon.") {
				muts = append(muts, mut{f, tgt, st})
				allWriters = append(allWriters, fmt.Sprintf("%s writes %s (%s memory)", fname(f), tgt, o&(oParam|oGlobal|oUnknown)))
			}
		})
	}
	sort.Strings(allWriters)
	// lift writes in unexported helpers to the API functions that reach them with caller memory
	direct := map[*ssa.Function][]mut{}
	for _, m := range muts {
		direct[m.f] = append(direct[m.f], m)
	}
	passesCallerMemory := func(e, h *ssa.Function) bool {
		if e == h {
			return true
		}
		ok := false
		for _, g := range family(e) {
			oa := newOriginAnalysis(g, retOf)
			eachInstr(g, func(i ssa.Instruction) {
				if ci, isCall := i.(ssa.CallInstruction); isCall && ci.Common().StaticCallee() == h {
					for _, a := range callArgs(ci) {
						if hasRefs(a.Type()) && oa.of(a)&(oParam|oGlobal|oUnknown) != 0 {
							ok = true
						}
					}
				}
			})
		}
		return ok
	}
	var apiMuts []mut
	for _, e := range fs {
		if e.Object() == nil || !e.Object().Exported() {
			continue
		}
		seen := map[string]bool{}
		for _, h := range family(e) {
			if h != e && h.Object() != nil && h.Object().Exported() {
				continue // an exported callee is an API function of its own
			}
			for _, m := range direct[h] {
				if !seen[m.target] && passesCallerMemory(e, h) {
					seen[m.target] = true
					apiMuts = append(apiMuts, mut{e, m.target, m.pos})
				}
			}
		}
	}
	muts = apiMuts
	// ALIAS pairs
	for _, l := range leaks {
		for _, m := range muts {
			c.bad("ALIAS", fmt.Sprintf("%s->%s:%s", strings.TrimPrefix(fname(l), "poly/transform/"), strings.TrimPrefix(fname(m.f), "poly/transform/"), m.target), m.pos.Pos(),
				fmt.Sprintf("%s hands out a Table whose slices are shared with package state, and %s stores %s through a Table it received by value: a re-weighting leaks into every later request for that default table", fname(l), fname(m.f), m.target))
		}
	}
	if len(leaks) == 0 || len(muts) == 0 {
		c.ok("ALIAS", "no leak x mutator pair", sp.Func("GetCodonTable").Pos(), fmt.Sprintf("%d functions return shared Table memory, %d functions write through Table arguments", len(leaks), len(muts)))
	}
	// WRITERS: allowed set is documented here, one reason each
	allowedWriters := map[string]string{
		"(poly/transform/codon.Table).OptimizeTable": "documented in-place re-weighting of its receiver copy (see ALIAS for the leak it causes)",
	}
	var extra []string
	for _, m := range muts {
		if _, ok := allowedWriters[fname(m.f)]; !ok || m.target != "Codon.Weight" {
			extra = append(extra, fmt.Sprintf("%s writes %s at %s", fname(m.f), m.target, c.W.pos(m.pos.Pos())))
		}
	}
	sort.Strings(extra)
	c.check(len(extra) == 0, "WRITERS", "only OptimizeTable writes Codon.Weight in place", sp.Func("GetCodonTable").Pos(), fmt.Sprintf("in-place writers of Table memory: %v", allWriters), "unexpected in-place writer(s) of Table/AminoAcid/Codon memory: "+strings.Join(extra, "; "))
	// the combining functions leave their operands alone (a default table handed in must stay pristine)
	for _, name := range []string{"AddCodonTable", "CompromiseCodonTable"} {
		if f := w.fn("transform/codon", name); f != nil {
			c.useFn(f)
			ws := apiArgWrites(f)
			c.check(len(ws) == 0, "WRITERS", name+" does not write its operands", f.Pos(), "no store or in-place append reaches memory reachable from a parameter", strings.Join(ws, "; ")+": combining a default table with another one changes the default table for every later request")
		}
	}
	// package-level table map
	dt := readDefaultTables(c)
	if dt != nil {
		// "a freshly requested default table carries the pristine NCBI assignments": the literal itself
		checkNCBITables(c, dt)
		wr := globalWriters(c, "transform/codon", dt.globalName)
		c.check(len(wr) == 0, "WRITERS", "default table map written only by its initialiser", dt.mapPos, "no assignment, map update or delete on "+dt.globalName+" outside init", strings.Join(wr, "; "))
		// any other package-level variable of reference type in codon written by non-init code?
		var others []string
		for _, m := range sp.Members {
			g, ok := m.(*ssa.Global)
			if !ok || g.Name() == dt.globalName {
				continue
			}
			if ws := globalWriters(c, "transform/codon", g.Name()); len(ws) > 0 {
				others = append(others, g.Name()+": "+strings.Join(ws, ", "))
			}
		}
		sort.Strings(others)
		c.check(len(others) == 0, "WRITERS", "no other package state written at run time", dt.mapPos, "package codon has no run-time-written package variable", "package-level state written outside init: "+strings.Join(others, "; "))
		// SHAPE: generator returns only fresh memory
		if dt.gen != nil {
			c.useFn(dt.gen)
			o := ro[dt.gen]
			c.check(o == oFresh, "SHAPE", "generator returns fresh memory", dt.gen.Pos(), "every slice in a generated table is allocated by that call: no two default tables share memory", "the table generator returns memory of origin "+o.String()+" (e.g. cached or shared slices): re-weighting one default table changes another")
		}
	}

	// ---- TERM-COUNT
	gcf := w.fn("transform/codon", "getCodonFrequency")
	ot := w.method("transform/codon", "Table", "OptimizeTable")
	if ot == nil {
		c.missing("TERM-COUNT", "Table.OptimizeTable", "exported method codon.Table.OptimizeTable")
		return
	}
	if gcf == nil {
		// by role: the same-package function OptimizeTable calls that returns the codon counts
		for _, g := range family(ot) {
			if g != ot && g.Signature.Results().Len() == 1 && tname(g.Signature.Results().At(0).Type()) == "map[string]int" {
				gcf = g
			}
		}
	}
	if gcf == nil {
		c.missingHelper("TERM-COUNT", "codon counter", "the function behind OptimizeTable that counts codons")
		return
	}
	c.useFn(gcf)
	c.useFn(ot)
	tb := newDeepTB(gcf)
	poolHygiene(c, "TERM-COUNT", family(ot))
	frameAlignment(c, "TERM-COUNT", family(ot))
	wi := windowModel(gcf, tb, "param[0]")
	c.judge(wi.State, "TERM-COUNT", "getCodonFrequency:window of 3 over every letter", gcf.Pos(),
		"every letter of the argument enters the window unconditionally; a region runs exactly at Len()==3 and resets the window; the loop leaves only at end of input", wi.Why)
	if wi.State == holds {
		key := wi.Key
		st, why := unknown, "no count update found"
		nUpd := 0
		var m ssa.Value
		eachInstr(gcf, func(i ssa.Instruction) {
			mu, ok := i.(*ssa.MapUpdate)
			if !ok {
				return
			}
			nUpd++
			if m != nil && m != mu.Map {
				st, why = unknown, "several maps are updated"
				return
			}
			m = mu.Map
			k, v := tb.T(mu.Key), tb.T(mu.Value)
			mt := tb.T(mu.Map).String()
			inc := "binop[+](const[1], lookup(" + mt + ", " + key + "))"
			hit := "extract[1](lookup[,ok](" + mt + ", " + key + "))"
			pc := pathCond(tb, wi.Write.Block(), mu.Block())
			this := unknown
			thisWhy := ""
			switch {
			case !wi.full(mu.Block()):
				thisWhy = "count updated outside the complete-window branch"
				if pc.Op == "true" {
					this, thisWhy = broken, "the count is updated after every letter, not once per complete codon"
				}
			case k.String() != key:
				this = stateOf(false, vocabOf(key), k)
				if k.contains(func(x *Term) bool { return x.Op == "global" || x.Op == "phi" && x.Cyc }) {
					// the key went through package-level memory (an interning table): an equal text may come back
					this = unknown
				}
				thisWhy = "count keyed by " + short(k.String()) + ", want the window's content"
			case v.String() == inc:
				this = holds
			case v.isConst("1") && pc.implies(hit, true):
				this = holds
			case v.isConst("1"):
				this, thisWhy = broken, "the count is set to 1 although the codon may already have been counted (under "+short(pc.String())+")"
			case v.Op == "const":
				this, thisWhy = broken, "the count is set to the constant "+v.Name
			case v.isBin("+") && v.Args[0].Op == "const" && v.Args[1].String() == "lookup("+mt+", "+key+")":
				this, thisWhy = broken, "each complete window adds "+v.Args[0].Name+" to its count, want exactly 1"
			default:
				thisWhy = "count set to " + short(v.String()) + " under " + short(pc.String())
			}
			if this == broken || (this == unknown && st != broken) || (this == holds && st == unknown && nUpd == 1) {
				st, why = this, thisWhy
			}
		})
		if st == holds {
			okR := false
			for _, a := range resultAlts(tb, gcf, 0) {
				okR = a.T.V == m
			}
			if !okR {
				st, why = unknown, "the returned map is not visibly the one counted into"
			}
		}
		c.judge(st, "TERM-COUNT", "getCodonFrequency:+1 per complete window", gcf.Pos(), "each complete 3-letter window increments its own count by exactly one", why)
	}
	// OptimizeTable: the only stores through the table are Weight := freq(ToUpper(sequence))[Triplet]
	freq := "call[" + fname(gcf) + "](call[strings.ToUpper](param[1]))"
	type wst struct {
		f  *ssa.Function
		st *ssa.Store
	}
	var wstores []wst
	for _, f := range family(ot) {
		if f == gcf {
			continue
		}
		oa := newOriginAnalysis(f, retOf)
		eachInstr(f, func(i ssa.Instruction) {
			if st, ok := i.(*ssa.Store); ok {
				if _, _, isLocal := rootAlloc(st.Addr); !isLocal && oa.of(st.Addr)&(oParam|oGlobal|oUnknown) != 0 {
					wstores = append(wstores, wst{f, st})
				}
			}
		})
	}
	st, why := unknown, fmt.Sprintf("%d stores through the table in OptimizeTable and its helpers; the model needs exactly the Weight store", len(wstores))
	if len(wstores) == 1 {
		ws := wstores[0]
		tgt := storeTarget(ws.st.Addr)
		if tgt != "Codon.Weight" {
			st, why = broken, "OptimizeTable stores into "+tgt+" of the table; only Codon.Weight may change (the codon-to-amino-acid assignment must stay untouched)"
		} else if ws.f == ot {
			otb := newDeepTB(ot, fname(gcf))
			a := otb.T(ws.st.Addr).String()
			v := otb.T(ws.st.Val)
			wantV := "lookup(" + freq + ", field[Triplet](each(field[Codons](each(field[AminoAcids](param[0]))))))"
			okAddr := strings.HasPrefix(a, "fieldaddr[Weight](indexaddr(field[Codons](each(field[AminoAcids](param[0]))), rangeidx[")
			// the upper-casing may live in the counter itself: freq(sequence) with the counter's window fed from ToUpper(its argument)
			rawV := "lookup(call[" + fname(gcf) + "](param[1]), field[Triplet](each(field[Codons](each(field[AminoAcids](param[0]))))))"
			innerUpper := false
			if v.String() == rawV {
				if wi := windowModel(gcf, newDeepTB(gcf), "call[strings.ToUpper](param[0])"); wi.State == holds {
					innerUpper = true
				}
			}
			switch {
			case okAddr && v.String() == wantV:
				st = holds
			case okAddr && innerUpper:
				st = holds
			case okAddr && v.String() == rawV && upperWindowUnknown(gcf):
				why = "the sequence is handed to the counter as typed and the counter's own case handling was not recognised"
			case okAddr && len(opaqueParts(v, vocabOf(wantV))) == 0 && localDiff(v, wantV):
				st, why = broken, "Weight is set to "+short(v.String())+"; want freq(ToUpper(sequence))[codon.Triplet]"
			default:
				why = "Weight store " + short(v.String()) + " into " + short(a) + " is not in the form the rule knows"
			}
		} else {
			why = "the Weight store sits in helper " + fname(ws.f)
		}
	} else {
		for _, ws := range wstores {
			if tgt := storeTarget(ws.st.Addr); tgt != "Codon.Weight" && (strings.HasPrefix(tgt, "Codon.") || strings.HasPrefix(tgt, "AminoAcid.") || strings.HasPrefix(tgt, "Table.")) {
				st, why = broken, "OptimizeTable stores into "+tgt+" of the table; only Codon.Weight may change (the codon-to-amino-acid assignment must stay untouched)"
			}
		}
	}
	// ... and on every path: a return that is reached without passing the re-weighting loops leaves the
	// weights of an earlier optimisation (or the default 1s) in place for that input
	if len(wstores) == 1 && wstores[0].f == ot {
		wb := wstores[0].st.Block()
		outer := wb
		for h := enclosingLoopHeader(outer); h != nil; h = enclosingLoopHeader(outer) {
			outer = h
			if p := h.Idom(); p != nil {
				outer = p
			} else {
				break
			}
		}
		pc := pathCond(newDeepTB(ot), ot.Blocks[0], outer)
		var conds []string
		opaqueC := false
		for _, a := range pc.atoms() {
			if isIterCond(a.Atom) {
				continue
			}
			conds = append(conds, short(a.Atom.String()))
			if len(opaqueParts(a.Atom, nil)) > 0 || !a.Atom.contains(func(x *Term) bool { return x.isParam(1) }) {
				opaqueC = true
			}
		}
		switch {
		case len(conds) == 0:
			c.ok("TERM-COUNT", "OptimizeTable:weights rewritten on every path", ot.Pos(), "the re-weighting loops are reached unconditionally")
		case opaqueC:
			c.undecided("TERM-COUNT", "OptimizeTable:weights rewritten on every path", ot.Pos(), "the re-weighting loops run under "+strings.Join(conds, ", "))
		default:
			c.bad("TERM-COUNT", "OptimizeTable:weights rewritten on every path", wstores[0].st.Pos(), "the weights are only rewritten under "+strings.Join(conds, ", ")+" (a test on the sequence): for other sequences the table comes back with the weights it had – the 1s of a default table or the counts of an earlier optimisation – instead of the counts of this sequence (all 0)")
		}
	}
	c.judge(st, "TERM-COUNT", "OptimizeTable:Weight=freq(ToUpper(seq))[Triplet], nothing else written", ot.Pos(), "for every codon of every amino acid; counts are taken over the upper-cased sequence; letters and triplets untouched", why)
	okRet := false
	var rts []string
	for _, a := range resultAlts(newTB(ot), ot, 0) {
		okRet = a.T.isParam(0)
		rts = append(rts, short(a.T.String()))
	}
	c.checkShape(okRet, "TERM-COUNT", "OptimizeTable returns the re-weighted table", ot.Pos(), "returns its (re-weighted) receiver", "OptimizeTable returns "+strings.Join(rts, " | "))
}

// upperWindowUnknown: the counter's window model holds neither over its raw argument nor over the
// upper-cased one (so nothing can be said about where the case is normalised).
func upperWindowUnknown(gcf *ssa.Function) bool {
	tb := newDeepTB(gcf)
	return windowModel(gcf, tb, "param[0]").State != holds && windowModel(gcf, tb, "call[strings.ToUpper](param[0])").State != holds
}
