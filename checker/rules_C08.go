package main

// C08 Codon usage tables count exactly and never leak between calls.

import (
	"fmt"
	"go/types"
	"sort"
	"strings"

	"golang.org/x/tools/go/ssa"
)

func init() { register("C08", ruleC08) }

// storeTarget describes the struct field a store writes, e.g. "Codon.Weight".
func storeTarget(addr ssa.Value) string {
	if fa, ok := addr.(*ssa.FieldAddr); ok {
		pt := fa.X.Type().Underlying().(*types.Pointer).Elem()
		st := pt.Underlying().(*types.Struct)
		name := "struct"
		if n, ok := pt.(*types.Named); ok {
			name = n.Obj().Name()
		}
		return name + "." + st.Field(fa.Field).Name()
	}
	if ia, ok := addr.(*ssa.IndexAddr); ok {
		return "elem of " + tname(ia.X.Type())
	}
	return tname(deref(addr.Type()))
}

// checkWindowCounter: the 3-letter window idiom shared by Translate and getCodonFrequency.
// Returns the window builder term and the block executed for each complete window.
func windowIdiom(c *Ctx, rule, who string, f *ssa.Function, tb *TermBuilder, src string) (string, *ssa.BasicBlock, bool) {
	var wr ssa.CallInstruction
	n := 0
	eachInstr(f, func(i ssa.Instruction) {
		if ci, ok := i.(ssa.CallInstruction); ok && calleeName(ci) == "(*strings.Builder).WriteRune" {
			if tb.T(ci.Common().Args[1]).String() == "extract[2](next(range("+src+")))" {
				wr = ci
			}
			n++
		}
	})
	if wr == nil || n != 1 {
		c.bad(rule, who+":window+=each letter", f.Pos(), fmt.Sprintf("expected exactly one WriteRune of each rune of %s into the window (found %d WriteRune sites)", src, n))
		return "", nil, false
	}
	win := tb.T(wr.Common().Args[0]).String()
	body := wr.Block()
	uncond := len(body.Preds) == 1
	if uncond {
		_, uncond = body.Preds[0].Instrs[len(body.Preds[0].Instrs)-1].(*ssa.If)
	}
	c.check(uncond, rule, who+":window+=each letter", wr.Pos(), "every rune of the input is appended to the window, unconditionally, in order", "the window write is conditional")
	// the block under Len()==3
	var full *ssa.BasicBlock
	wantAtom := "binop[==](call[(*strings.Builder).Len](" + win + "), const[3])"
	for _, b := range f.Blocks {
		if body.Dominates(b) && b != body {
			pc := pathCond(tb, body, b)
			if pc.String() == wantAtom {
				if full == nil || b.Dominates(full) {
					full = b
				}
			}
		}
	}
	if full == nil {
		c.bad(rule, who+":window==3", wr.Pos(), "no branch taken exactly when the window holds 3 letters")
		return win, nil, false
	}
	// reset exactly once, on every path through the full-window region, nowhere else
	nReset, okReset := 0, false
	eachInstr(f, func(i ssa.Instruction) {
		if ci, ok := i.(ssa.CallInstruction); ok && calleeName(ci) == "(*strings.Builder).Reset" && tb.T(ci.Common().Args[0]).String() == win {
			nReset++
			pc := pathCond(tb, body, ci.Block())
			if pc.String() == wantAtom {
				okReset = true
			}
		}
	})
	c.check(nReset == 1 && okReset, rule, who+":reset after each complete window", wr.Pos(), "the window is reset exactly when it held 3 letters (stride 3, trailing partial codon ignored)", fmt.Sprintf("%d Reset sites; reset under len==3: %v", nReset, okReset))
	return win, full, true
}

func ruleC08(c *Ctx) {
	c.Decided = []string{
		"ALIAS: exported functions returning Table memory reachable from package state x functions storing through a Table argument's backing arrays must not combine (value semantics); WRITERS: complete list of functions storing into non-fresh Codon/AminoAcid/Table memory; the package-level table map is written only by its initialiser",
		"TERM-COUNT: getCodonFrequency: window of 3 over every rune of its argument, +1 per complete window (=1 on first sight), reset; OptimizeTable counts over ToUpper(sequence) and sets each Weight := freq[codon.Triplet] (absent = 0); letters/triplets never stored to",
		"SHAPE: each default table is produced by its own generator call returning only freshly allocated memory (no two ids share slices, no cache), weight constant 1 (C06 SHAPE-GEN)",
	}
	c.Undec = []string{"data races under concurrency beyond 'tables of different ids share no memory and no other package state is written'", "behaviour of callers that hold a Table across calls"}
	c.Trusted = []string{"strings.Builder, strings.ToUpper", "no pointer analysis: origin abstraction (fresh/param/global) over the type closure of Table"}
	c.floor("ALIAS", 1)
	c.floor("WRITERS", 2)
	c.floor("TERM-COUNT", 5)
	c.floor("SHAPE", 1)
	w := c.W
	sp := w.spkg("transform/codon")
	if sp == nil {
		c.missing("ALIAS", "package codon", "package transform/codon")
		return
	}
	// functions of package codon
	var fs []*ssa.Function
	for _, f := range w.moduleFuncs() {
		if f.Pkg == sp || (f.Parent() != nil && f.Parent().Pkg == sp) {
			if !strings.HasPrefix(f.Name(), "init") {
				fs = append(fs, f)
			}
		}
	}
	ro := returnOrigins(fs)
	retOf := func(g *ssa.Function) origin { return ro[g] }
	tableT := sp.Type("Table")
	if tableT == nil {
		c.missing("ALIAS", "codon.Table", "type codon.Table")
		return
	}
	inClosure := map[string]bool{}
	for _, n := range typeClosure(tableT.Type()) {
		inClosure[n.Obj().Name()] = true
	}
	returnsTable := func(f *ssa.Function) bool {
		res := f.Signature.Results()
		for i := 0; i < res.Len(); i++ {
			if strings.Contains(tname(res.At(i).Type()), "codon.Table") {
				return true
			}
		}
		return false
	}
	// leaks
	var leaks []*ssa.Function
	for _, f := range fs {
		if f.Object() != nil && f.Object().Exported() && returnsTable(f) && ro[f]&oGlobal != 0 {
			leaks = append(leaks, f)
		}
	}
	// mutators: stores into param-origin memory of the Table closure
	type mut struct {
		f      *ssa.Function
		target string
		pos    ssa.Instruction
	}
	var muts []mut
	var allWriters []string
	for _, f := range fs {
		c.useFn(f)
		oa := newOriginAnalysis(f, retOf)
		eachInstr(f, func(i ssa.Instruction) {
			st, ok := i.(*ssa.Store)
			if !ok {
				return
			}
			if _, _, isLocal := rootAlloc(st.Addr); isLocal {
				return
			}
			tgt := storeTarget(st.Addr)
			o := oa.of(st.Addr)
			if o&(oParam|oGlobal|oUnknown) == 0 {
				return
			}
			owner := strings.SplitN(tgt, ".", 2)[0]
			if inClosure[owner] || strings.Contains(tgt, "codon.") {
				muts = append(muts, mut{f, tgt, st})
				allWriters = append(allWriters, fmt.Sprintf("%s writes %s (%s memory)", fname(f), tgt, o&(oParam|oGlobal|oUnknown)))
			}
		})
	}
	sort.Strings(allWriters)
	// ALIAS pairs
	for _, l := range leaks {
		for _, m := range muts {
			c.bad("ALIAS", fmt.Sprintf("%s->%s:%s", strings.TrimPrefix(fname(l), "poly/transform/"), strings.TrimPrefix(fname(m.f), "poly/transform/"), m.target), m.pos.Pos(),
				fmt.Sprintf("%s hands out a Table whose slices are shared with package state, and %s stores %s through a Table it received by value: a re-weighting leaks into every later request for that default table", fname(l), fname(m.f), m.target))
		}
	}
	if len(leaks) == 0 || len(muts) == 0 {
		c.ok("ALIAS", "no leak x mutator pair", sp.Func("GetCodonTable").Pos(), fmt.Sprintf("%d functions return shared Table memory, %d functions write through Table arguments", len(leaks), len(muts)))
	}
	// WRITERS: allowed set is documented here, one reason each
	allowedWriters := map[string]string{
		"(poly/transform/codon.Table).OptimizeTable": "documented in-place re-weighting of its receiver copy (see ALIAS for the leak it causes)",
	}
	var extra []string
	for _, m := range muts {
		if _, ok := allowedWriters[fname(m.f)]; !ok || m.target != "Codon.Weight" {
			extra = append(extra, fmt.Sprintf("%s writes %s at %s", fname(m.f), m.target, c.W.pos(m.pos.Pos())))
		}
	}
	sort.Strings(extra)
	c.check(len(extra) == 0, "WRITERS", "only OptimizeTable writes Codon.Weight in place", sp.Func("GetCodonTable").Pos(), fmt.Sprintf("in-place writers of Table memory: %v", allWriters), "unexpected in-place writer(s) of Table/AminoAcid/Codon memory: "+strings.Join(extra, "; "))
	// package-level table map
	dt := readDefaultTables(c)
	if dt != nil {
		wr := globalWriters(c, "transform/codon", dt.globalName)
		c.check(len(wr) == 0, "WRITERS", "default table map written only by its initialiser", dt.mapPos, "no assignment, map update or delete on "+dt.globalName+" outside init", strings.Join(wr, "; "))
		// any other package-level variable of reference type in codon written by non-init code?
		var others []string
		for _, m := range sp.Members {
			g, ok := m.(*ssa.Global)
			if !ok || g.Name() == dt.globalName {
				continue
			}
			if ws := globalWriters(c, "transform/codon", g.Name()); len(ws) > 0 {
				others = append(others, g.Name()+": "+strings.Join(ws, ", "))
			}
		}
		sort.Strings(others)
		c.check(len(others) == 0, "WRITERS", "no other package state written at run time", dt.mapPos, "package codon has no run-time-written package variable", "package-level state written outside init: "+strings.Join(others, "; "))
		// SHAPE: generator returns only fresh memory
		if dt.gen != nil {
			c.useFn(dt.gen)
			o := ro[dt.gen]
			c.check(o == oFresh, "SHAPE", "generator returns fresh memory", dt.gen.Pos(), "every slice in a generated table is allocated by that call: no two default tables share memory", "the table generator returns memory of origin "+o.String()+" (e.g. cached or shared slices): re-weighting one default table changes another")
		}
	}

	// ---- TERM-COUNT
	gcf := w.fn("transform/codon", "getCodonFrequency")
	ot := w.method("transform/codon", "Table", "OptimizeTable")
	if gcf == nil || ot == nil {
		c.missing("TERM-COUNT", "getCodonFrequency/OptimizeTable", "codon.getCodonFrequency and Table.OptimizeTable")
		return
	}
	c.useFn(gcf)
	c.useFn(ot)
	tb := newTB(gcf)
	win, full, ok := windowIdiom(c, "TERM-COUNT", "getCodonFrequency", gcf, tb, "param[0]")
	if ok {
		key := "call[(*strings.Builder).String](" + win + ")"
		var problems []string
		nUpd := 0
		var m ssa.Value
		eachInstr(gcf, func(i ssa.Instruction) {
			mu, ok := i.(*ssa.MapUpdate)
			if !ok {
				return
			}
			nUpd++
			m = mu.Map
			if !full.Dominates(mu.Block()) {
				problems = append(problems, "count updated outside the complete-window branch")
			}
			k, v := tb.T(mu.Key).String(), tb.T(mu.Value)
			if k != key {
				problems = append(problems, "count keyed by "+short(k))
			}
			pc := pathCond(tb, full, mu.Block())
			hit := "extract[1](lookup[,ok](" + tb.T(mu.Map).String() + ", " + key + "))"
			switch {
			case v.isConst("1") && (pc.implies(hit, true)):
			case v.String() == "binop[+](const[1], lookup("+tb.T(mu.Map).String()+", "+key+"))":
			default:
				problems = append(problems, "count set to "+short(v.String())+" under "+short(pc.String()))
			}
		})
		rt, _, okR := singleReturnTerm(gcf, 0)
		if !okR || rt.V != m {
			problems = append(problems, "the returned map is not the one counted into")
		}
		c.check(len(problems) == 0 && nUpd >= 1, "TERM-COUNT", "getCodonFrequency:+1 per complete window", gcf.Pos(), "each complete 3-letter window increments its own count by exactly one", strings.Join(problems, "; "))
	}
	otb := newTB(ot)
	freq := "call[poly/transform/codon.getCodonFrequency](call[strings.ToUpper](param[1]))"
	var wstores []*ssa.Store
	eachInstr(ot, func(i ssa.Instruction) {
		if st, ok := i.(*ssa.Store); ok {
			if _, _, isLocal := rootAlloc(st.Addr); !isLocal {
				wstores = append(wstores, st)
			}
		}
	})
	good := len(wstores) == 1
	why := fmt.Sprintf("%d stores through the table, want exactly the Weight store", len(wstores))
	if good {
		st := wstores[0]
		a := otb.T(st.Addr).String()
		v := otb.T(st.Val).String()
		wantV := "lookup(" + freq + ", field[Triplet](each(field[Codons](each(field[AminoAcids](param[0]))))))"
		okAddr := strings.HasPrefix(a, "fieldaddr[Weight](indexaddr(field[Codons](each(field[AminoAcids](param[0]))), binop[+](const[1], phi")
		if !okAddr || v != wantV {
			good = false
			why = fmt.Sprintf("stores %s into %s; want Weight of every codon := freq(ToUpper(sequence))[codon.Triplet]", short(v), short(a))
		}
	}
	c.check(good, "TERM-COUNT", "OptimizeTable:Weight=freq(ToUpper(seq))[Triplet], nothing else written", ot.Pos(), "for every codon of every amino acid; counts are taken over the upper-cased sequence; letters and triplets untouched", why)
	rt, _, okR := singleReturnTerm(ot, 0)
	c.check(okR && rt.isParam(0), "TERM-COUNT", "OptimizeTable returns the re-weighted table", ot.Pos(), "returns its (re-weighted) receiver", "OptimizeTable does not return the table it re-weighted")
}
