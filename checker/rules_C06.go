package main

// C06 Translation implements the NCBI genetic codes codon by codon.

import (
	"fmt"
	"go/token"
	"sort"
	"strings"

	"golang.org/x/tools/go/ssa"
)

func init() { register("C06", ruleC06) }

// defaultTables resolves, by role, the package-level table map that codon.GetCodonTable indexes and
// reads its initialiser: id -> (residues, starts) plus the generator function the entries call.
type defaultTables struct {
	globalName string
	genName    string
	gen        *ssa.Function
	ids        []int
	aas        map[int]string
	starts     map[int]string
	pos        map[int]token.Pos
	mapPos     token.Pos
	problems   []string
}

func readDefaultTables(c *Ctx) *defaultTables {
	w := c.W
	get := w.fn("transform/codon", "GetCodonTable")
	if get == nil {
		c.missing("WRAPPERS", "codon.GetCodonTable", "exported function codon.GetCodonTable")
		return nil
	}
	c.useFn(get)
	tb := newTB(get)
	rets := returnsOf(get)
	dt := &defaultTables{aas: map[int]string{}, starts: map[int]string{}, pos: map[int]token.Pos{}}
	okShape := len(rets) == 1 && len(rets[0].Results) == 1
	var t *Term
	if okShape {
		t = tb.T(rets[0].Results[0])
		okShape = t.Op == "lookup" && t.Name == "" && t.Args[0].Op == "global" && t.Args[1].isParam(0)
	}
	if !okShape {
		c.bad("WRAPPERS", "codon.GetCodonTable", get.Pos(), "GetCodonTable(i) is expected to return the entry for i of a package-level table map; got "+short(fmt.Sprint(t)))
		return nil
	}
	c.ok("WRAPPERS", "codon.GetCodonTable", get.Pos(), "returns "+t.Args[0].Name+"[index] (plain map lookup keyed by the argument)")
	dt.globalName = t.Args[0].Name[strings.LastIndex(t.Args[0].Name, ".")+1:]
	p := w.pkg("transform/codon")
	v := pkgVar(p, dt.globalName)
	if v == nil {
		c.missing("TABLE-NCBI", "tablemap", "package variable "+dt.globalName)
		return nil
	}
	init := varInit(p, v)
	if init == nil {
		c.bad("TABLE-NCBI", "tablemap", v.Pos(), "table map "+dt.globalName+" is not initialised by a single composite literal (or is assigned elsewhere)")
		return nil
	}
	av := evalAST(p, init)
	dt.mapPos = av.Pos
	if av.Kind != "comp" {
		c.bad("TABLE-NCBI", "tablemap", av.Pos, "table map initialiser is not a composite literal: "+av.String())
		return nil
	}
	for _, e := range av.Elts {
		if e.Key == nil || e.Key.Kind != "int" {
			dt.problems = append(dt.problems, "non-constant key at "+w.pos(e.Pos))
			continue
		}
		id := int(e.Key.Int)
		if _, dup := dt.aas[id]; dup {
			dt.problems = append(dt.problems, fmt.Sprintf("duplicate id %d", id))
		}
		val := e.Val
		if val.Kind != "call" || len(val.Args) != 2 || val.Args[0].Kind != "string" || val.Args[1].Kind != "string" {
			dt.problems = append(dt.problems, fmt.Sprintf("entry %d is not generator(<const string>, <const string>): %s", id, val))
			continue
		}
		if dt.genName == "" {
			dt.genName = val.Fun
		} else if dt.genName != val.Fun {
			dt.problems = append(dt.problems, fmt.Sprintf("entry %d built by %s, others by %s", id, val.Fun, dt.genName))
		}
		dt.ids = append(dt.ids, id)
		dt.aas[id] = val.Args[0].Str
		dt.starts[id] = val.Args[1].Str
		dt.pos[id] = e.Pos
	}
	sort.Ints(dt.ids)
	if dt.genName != "" {
		name := dt.genName[strings.LastIndex(dt.genName, ".")+1:]
		dt.gen = w.fn("transform/codon", name)
	}
	return dt
}

func ruleC06(c *Ctx) {
	c.Decided = []string{
		"TABLE-NCBI: key set of the default table map = NCBI ids {1-6,9-14,16,21-31,33}; each entry's residue string and start/stop string equal the oracle (25x128 facts); base1/2/3 equal NCBI's",
		"SHAPE-GEN: generator builds triplet base1[i]base2[i]base3[i] under residue aminoAcids[i]; start iff starts[i]=='M', stop iff starts[i]=='*'; weight 1",
		"SHAPE-XLATE: translation map = every Codon.Triplet of every AminoAcid -> that AminoAcid.Letter, nothing else; Translate looks up ToUpper(3-letter window), one WriteString per complete window, Reset in the same branch, no early exit",
		"WRAPPERS: GetCodonTable(i) returns the map entry for i",
	}
	c.Undec = []string{"Translate on non-ASCII input (outside the quantifier)", "behaviour of strings.Builder / strings.ToUpper (std contract)"}
	c.Trusted = []string{"NCBI gc.prt v4.6 as encoded in oracle.go (standard code + reassignments + start sets)", "strings.Builder, strings.ToUpper"}
	c.floor("TABLE-NCBI", 26)
	c.floor("SHAPE-GEN", 5)
	c.floor("SHAPE-XLATE", 4)
	c.floor("WRAPPERS", 1)

	dt := readDefaultTables(c)
	if dt == nil {
		return
	}
	w := c.W
	// --- TABLE-NCBI
	for _, pr := range dt.problems {
		c.bad("TABLE-NCBI", "tablemap:shape", dt.mapPos, pr)
	}
	want := ncbiIDs()
	c.check(fmt.Sprint(want) == fmt.Sprint(dt.ids), "TABLE-NCBI", "idset", dt.mapPos,
		fmt.Sprintf("table ids %v = NCBI's 25 published codes", dt.ids),
		fmt.Sprintf("table ids %v differ from NCBI's %v", dt.ids, want))
	codons := allCodonsNCBI()
	for _, code := range ncbiCodes {
		aas, ok := dt.aas[code.id]
		if !ok {
			continue // reported by idset
		}
		wa, ws := code.expand()
		var diffs []string
		if len(aas) != 64 || len(dt.starts[code.id]) != 64 {
			diffs = append(diffs, fmt.Sprintf("string lengths %d/%d, want 64/64", len(aas), len(dt.starts[code.id])))
		} else {
			for i := 0; i < 64; i++ {
				if aas[i] != wa[i] {
					diffs = append(diffs, fmt.Sprintf("%s translates to %c, NCBI says %c", codons[i], aas[i], wa[i]))
				}
				if dt.starts[code.id][i] != ws[i] {
					diffs = append(diffs, fmt.Sprintf("%s start/stop mark %c, NCBI says %c", codons[i], dt.starts[code.id][i], ws[i]))
				}
			}
		}
		c.check(len(diffs) == 0, "TABLE-NCBI", fmt.Sprintf("table%d", code.id), dt.pos[code.id],
			"64 residues and 64 start/stop marks equal NCBI's", strings.Join(diffs, "; "))
	}
	c.Sites += 25 * 128
	if dt.gen == nil {
		c.missing("SHAPE-GEN", "generator", "table generator function "+dt.genName)
		return
	}
	checkGenerator(c, dt.gen)
	checkTranslate(c)
	_ = w
}

// checkGenerator: SHAPE-GEN on the function that every default-table entry calls.
func checkGenerator(c *Ctx, gen *ssa.Function) {
	c.useFn(gen)
	tb := newTB(gen)
	gname := fname(gen)
	// the triplet: conv[string](slice(3-byte array with bytes index(const S_k, idx)))
	var triplet *Term
	eachInstr(gen, func(i ssa.Instruction) {
		if cv, ok := i.(*ssa.Convert); ok && isStringType(cv.Type()) {
			t := tb.T(cv)
			if t.Op == "conv" && len(t.Args) == 1 && t.Args[0].Op == "slice" && t.Args[0].Args[0].Op == "anyof" {
				triplet = t
			}
		}
	})
	if triplet == nil {
		c.bad("SHAPE-GEN", "triplet", gen.Pos(), "no string built from a 3-byte array of base-table letters found in "+gname+" (unrecognised shape)")
		return
	}
	parts := map[string]*Term{}
	for _, a := range triplet.Args[0].Args[0].Args {
		if a.Op == "partial" {
			parts[a.Name] = a.Args[0]
		}
	}
	cod := allCodonsNCBI()
	wantBase := [3]string{}
	for k := 0; k < 3; k++ {
		var sb strings.Builder
		for _, cd := range cod {
			sb.WriteByte(cd[k])
		}
		wantBase[k] = sb.String()
	}
	var idx *Term
	okAll := len(parts) == 3
	why := []string{}
	for k := 0; k < 3; k++ {
		p := parts[fmt.Sprintf("[%d]", k)]
		if p == nil || p.Op != "index" {
			okAll = false
			why = append(why, fmt.Sprintf("byte %d of the triplet is not a base-table lookup", k))
			continue
		}
		s, isStr := p.Args[0].constStr()
		if !isStr || s != wantBase[k] {
			okAll = false
			why = append(why, fmt.Sprintf("byte %d of the triplet is read from %s, NCBI Base%d is %q", k, short(p.Args[0].String()), k+1, wantBase[k]))
		}
		if idx == nil {
			idx = p.Args[1]
		} else if idx.String() != p.Args[1].String() {
			okAll = false
			why = append(why, "the three base tables are indexed by different values")
		}
	}
	c.check(okAll, "SHAPE-GEN", "triplet=base1[i]base2[i]base3[i]", triplet.V.Pos(), "triplet bytes 0,1,2 come from NCBI Base1,Base2,Base3 at one index", strings.Join(why, "; "))
	if idx == nil {
		return
	}
	// index is the range index over the residue string (param 0)
	wantIdx := "extract[1](next(range(param[0])))"
	c.check(idx.String() == wantIdx, "SHAPE-GEN", "index=range(residues)", triplet.V.Pos(), "i is the range index over the residue string", "base tables indexed by "+short(idx.String())+", want the range index over the residue-string parameter")
	residue := "extract[2](next(range(param[0])))"
	// codon appended under the residue
	nUpd, okUpd := 0, false
	var updPos token.Pos
	eachInstr(gen, func(i ssa.Instruction) {
		mu, ok := i.(*ssa.MapUpdate)
		if !ok {
			return
		}
		v := tb.T(mu.Value)
		if !v.isCall("builtin:append") {
			return
		}
		nUpd++
		updPos = mu.Pos()
		key := tb.T(mu.Key)
		elem := v.Args[1]
		hasTrip := elem.contains(func(x *Term) bool { return x.Op == "partial" && x.Name == ".Triplet" && x.Args[0].String() == triplet.String() })
		hasW := elem.contains(func(x *Term) bool { return x.Op == "partial" && x.Name == ".Weight" && x.Args[0].isConst("1") })
		sameMap := v.Args[0].Op == "lookup" && v.Args[0].Args[1].String() == key.String()
		if key.String() == residue && hasTrip && hasW && sameMap {
			okUpd = true
		}
	})
	c.check(nUpd == 1 && okUpd, "SHAPE-GEN", "codon{triplet,1} appended under aminoAcids[i]", updPos,
		"the codon (triplet, weight 1) is appended to the list keyed by the residue at the same index",
		fmt.Sprintf("expected exactly one append of Codon{triplet, 1} under the residue rune at index i (found %d appends, matching=%v)", nUpd, okUpd))
	// start / stop lists
	rets := returnsOf(gen)
	if len(rets) != 1 {
		c.bad("SHAPE-GEN", "return", gen.Pos(), "generator has several returns (unrecognised shape)")
		return
	}
	rt := tb.T(rets[0].Results[0])
	field := func(name string) *Term {
		var out *Term
		for _, a := range rt.Args {
			if a.Op == "partial" && a.Name == "."+name {
				out = a.Args[0]
			}
		}
		return out
	}
	headBlock := triplet.V.(ssa.Instruction).Block()
	for _, spec := range []struct {
		fld  string
		mark string
		name string
	}{{"StartCodons", "77", "start iff starts[i]=='M'"}, {"StopCodons", "42", "stop iff starts[i]=='*'"}} {
		ft := field(spec.fld)
		if ft == nil {
			c.bad("SHAPE-GEN", spec.name, rets[0].Pos(), "returned Table has no "+spec.fld+" built in this function")
			continue
		}
		apps := topAppendSites(ft)
		good := len(apps) == 1
		msg := fmt.Sprintf("%d append sites feed %s, want 1", len(apps), spec.fld)
		if good {
			a := apps[0]
			blk := a.At.Block()
			pc := pathCond(tb, headBlock, blk).String()
			wantPC := "binop[==](const[" + spec.mark + "], index(param[1], " + wantIdx + "))"
			carries := a.Elem.String() == triplet.String()
			if pc != wantPC || !carries {
				good = false
				msg = fmt.Sprintf("append to %s happens under %s (want %s), carries triplet=%v", spec.fld, short(pc), wantPC, carries)
			}
		}
		c.check(good, "SHAPE-GEN", spec.name, rets[0].Pos(), "the triplet is appended to "+spec.fld+" exactly under that mark", msg)
	}
	// AminoAcids: one entry per key of the residue map, Letter=string(key), Codons=value
	at := field("AminoAcids")
	good := false
	if at != nil {
		apps := topAppendSites(at)
		if len(apps) == 1 {
			e := apps[0].Elem
			l := e.contains(func(x *Term) bool {
				return x.Op == "partial" && x.Name == ".Letter" && strings.HasPrefix(x.Args[0].String(), "conv[string](extract[1](next(range(makemap[")
			})
			cd := e.contains(func(x *Term) bool {
				return x.Op == "partial" && x.Name == ".Codons" && strings.HasPrefix(x.Args[0].String(), "extract[2](next(range(makemap[")
			})
			good = l && cd
		}
	}
	c.check(good, "SHAPE-GEN", "aminoacids=residue map entries", rets[0].Pos(), "AminoAcids holds one {string(residue), codons-of-residue} per map entry", "AminoAcids is not built as one {Letter: string(key), Codons: value} per entry of the residue map (unrecognised shape)")
}

// checkTranslate: SHAPE-XLATE.
func checkTranslate(c *Ctx) {
	w := c.W
	tr := w.fn("transform/codon", "Translate")
	if tr == nil {
		c.missing("SHAPE-XLATE", "codon.Translate", "exported function codon.Translate")
		return
	}
	c.useFn(tr)
	tb := newTB(tr)
	// find the lookup used as WriteString argument
	var ws []ssa.CallInstruction
	var resets, writeRunes []ssa.CallInstruction
	eachInstr(tr, func(i ssa.Instruction) {
		if ci, ok := i.(ssa.CallInstruction); ok {
			switch calleeName(ci) {
			case "(*strings.Builder).WriteString", "(*strings.Builder).WriteRune", "(*strings.Builder).WriteByte", "(*strings.Builder).Write":
				if calleeName(ci) == "(*strings.Builder).WriteRune" {
					writeRunes = append(writeRunes, ci)
				}
				ws = append(ws, ci)
			case "(*strings.Builder).Reset":
				resets = append(resets, ci)
			}
		}
	})
	rets := returnsOf(tr)
	var okRet *ssa.Return
	for _, r := range rets {
		if len(r.Results) == 2 {
			if t := tb.T(r.Results[1]); t.Op == "const" && strings.HasPrefix(t.Name, "nil:") {
				if okRet != nil {
					okRet = nil
					break
				}
				okRet = r
			}
		}
	}
	if okRet == nil {
		c.bad("SHAPE-XLATE", "Translate:result", tr.Pos(), "expected exactly one success return (value, nil) (unrecognised shape)")
		return
	}
	res := tb.T(okRet.Results[0])
	if !res.isCall("(*strings.Builder).String") {
		c.bad("SHAPE-XLATE", "Translate:result", okRet.Pos(), "result is not the accumulated builder string: "+short(res.String()))
		return
	}
	out := res.Args[0].String()
	// writes into the output builder
	var outWrites []ssa.CallInstruction
	var winBuilder string
	for _, ci := range ws {
		recv := tb.T(ci.Common().Args[0]).String()
		if recv == out {
			outWrites = append(outWrites, ci)
		}
	}
	if len(outWrites) != 1 || calleeName(outWrites[0]) != "(*strings.Builder).WriteString" {
		c.bad("SHAPE-XLATE", "Translate:one-write-per-window", tr.Pos(), fmt.Sprintf("%d write sites feed the result, want exactly one WriteString", len(outWrites)))
		return
	}
	ow := outWrites[0]
	arg := tb.T(ow.Common().Args[1])
	genName := "(poly/transform/codon.Table).generateTranslationTable"
	okLookup := arg.Op == "lookup" && arg.Name == "" && arg.Args[0].Op == "call" && arg.Args[0].Name == genName && arg.Args[0].Args[0].isParam(1) &&
		arg.Args[1].isCall("strings.ToUpper") && arg.Args[1].Args[0].isCall("(*strings.Builder).String")
	c.check(okLookup, "SHAPE-XLATE", "Translate:lookup=table[ToUpper(window)]", ow.Pos(),
		"residue = translationTable(codonTable)[strings.ToUpper(window.String())]",
		"the residue written is "+short(arg.String())+"; want the translation map of the table parameter indexed by strings.ToUpper(window)")
	if okLookup {
		winBuilder = arg.Args[1].Args[0].Args[0].String()
	}
	// window: one WriteRune of the range value of param 0 per iteration, unconditional in the loop body
	okWin := false
	var loopBody *ssa.BasicBlock
	for _, wr := range writeRunes {
		if tb.T(wr.Common().Args[0]).String() == winBuilder && tb.T(wr.Common().Args[1]).String() == "extract[2](next(range(param[0])))" {
			// unconditional: its block is the range body (direct successor of the block holding the 'next')
			blk := wr.Block()
			if len(blk.Preds) == 1 {
				if _, ok := blk.Preds[0].Instrs[len(blk.Preds[0].Instrs)-1].(*ssa.If); ok {
					okWin = true
					loopBody = blk
				}
			}
		}
	}
	nWinWrites := 0
	for _, ci := range ws {
		if tb.T(ci.Common().Args[0]).String() == winBuilder {
			nWinWrites++
		}
	}
	c.check(okWin && nWinWrites == 1, "SHAPE-XLATE", "Translate:window+=each letter", ow.Pos(),
		"every input letter is appended to the window exactly once, unconditionally, in input order",
		fmt.Sprintf("the window builder must receive each rune of the sequence once per iteration unconditionally (found %d writes, shape ok=%v)", nWinWrites, okWin))
	if loopBody != nil {
		pc := pathCond(tb, loopBody, ow.Block()).String()
		wantPC := "binop[==](call[(*strings.Builder).Len](" + winBuilder + "), const[3])"
		okReset := false
		for _, r := range resets {
			if tb.T(r.Common().Args[0]).String() == winBuilder && r.Block() == ow.Block() {
				okReset = true
			}
		}
		nReset := 0
		for _, r := range resets {
			if tb.T(r.Common().Args[0]).String() == winBuilder {
				nReset++
			}
		}
		c.check(pc == wantPC && okReset && nReset == 1, "SHAPE-XLATE", "Translate:window==3->emit+reset", ow.Pos(),
			"a residue is emitted exactly when the window holds 3 letters, and the window is reset in that branch only",
			fmt.Sprintf("emit condition %s (want %s); reset in emitting branch=%v; resets=%d", short(pc), wantPC, okReset, nReset))
		// no early exit: all blocks of the loop except the header have all successors inside the loop
		hdr := loopBody.Preds[0]
		okExit := true
		for _, b := range tr.Blocks {
			if b == hdr || !hdr.Dominates(b) || !reaches(b, hdr) {
				continue
			}
			for _, s := range b.Succs {
				if !(s == hdr || (hdr.Dominates(s) && reaches(s, hdr))) {
					okExit = false
				}
			}
		}
		c.check(okExit, "SHAPE-XLATE", "Translate:no early exit", hdr.Instrs[0].Pos(), "the loop leaves only when the input is exhausted", "the translation loop has an exit other than end of input (e.g. stopping at a stop codon)")
	}
	// generateTranslationTable
	g := w.method("transform/codon", "Table", "generateTranslationTable")
	if g == nil {
		c.missing("SHAPE-XLATE", "translation map", "method Table.generateTranslationTable")
		return
	}
	c.useFn(g)
	tg := newTB(g)
	n := 0
	good := false
	var p token.Pos
	eachInstr(g, func(i ssa.Instruction) {
		if mu, ok := i.(*ssa.MapUpdate); ok {
			n++
			p = mu.Pos()
			k, v, m := tg.T(mu.Key).String(), tg.T(mu.Value).String(), tg.T(mu.Map)
			if k == "field[Triplet](each(field[Codons](each(field[AminoAcids](param[0])))))" && v == "field[Letter](each(field[AminoAcids](param[0])))" && m.Op == "makemap" {
				good = true
			}
		}
	})
	gr := returnsOf(g)
	retOK := len(gr) == 1 && tg.T(gr[0].Results[0]).Op == "makemap"
	c.check(n == 1 && good && retOK, "SHAPE-XLATE", "map=all (Triplet->Letter)", p,
		"the map holds exactly Triplet->Letter for every codon of every amino acid (two nested ranges, one store, no filter)",
		fmt.Sprintf("translation map is not exactly {codon.Triplet: aminoAcid.Letter} over all amino acids and codons (map stores=%d, canonical store=%v, returns fresh map=%v)", n, good, retOK))
	// no conditional around the store: its block is reached unconditionally from the inner range body
	_ = sort.Ints
}
