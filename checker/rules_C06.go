package main

// C06 Translation implements the NCBI genetic codes codon by codon.

import (
	"fmt"
	"go/token"
	"sort"
	"strings"

	"golang.org/x/tools/go/ssa"
)

func init() { register("C06", ruleC06) }

// defaultTables resolves, by role, the package-level table map that codon.GetCodonTable indexes and
// reads its initialiser: id -> (residues, starts) plus the generator function the entries call.
type defaultTables struct {
	globalName string
	genName    string
	gen        *ssa.Function
	ids        []int
	keys       []int // every constant key of the literal, recognised entry or not
	aas        map[int]string
	starts     map[int]string
	pos        map[int]token.Pos
	mapPos     token.Pos
	problems   []string
}

func readDefaultTables(c *Ctx) *defaultTables {
	w := c.W
	get := w.fn("transform/codon", "GetCodonTable")
	if get == nil {
		c.missing("WRAPPERS", "codon.GetCodonTable", "exported function codon.GetCodonTable")
		return nil
	}
	c.useFn(get)
	tb := newTB(get)
	rets := returnsOf(get)
	dt := &defaultTables{aas: map[int]string{}, starts: map[int]string{}, pos: map[int]token.Pos{}}
	okShape := len(rets) == 1 && len(rets[0].Results) == 1
	var t *Term
	if okShape {
		t = tb.T(rets[0].Results[0])
		okShape = t.Op == "lookup" && t.Name == "" && t.Args[0].Op == "global" && t.Args[1].isParam(0)
	}
	if !okShape {
		c.undecided("WRAPPERS", "codon.GetCodonTable", get.Pos(), "GetCodonTable(i) is expected to return the entry for i of a package-level table map; got "+short(fmt.Sprint(t)))
		return nil
	}
	c.ok("WRAPPERS", "codon.GetCodonTable", get.Pos(), "returns "+t.Args[0].Name+"[index] (plain map lookup keyed by the argument)")
	dt.globalName = t.Args[0].Name[strings.LastIndex(t.Args[0].Name, ".")+1:]
	p := w.pkg("transform/codon")
	v := pkgVar(p, dt.globalName)
	if v == nil {
		c.missingHelper("TABLE-NCBI", "tablemap", "package variable "+dt.globalName)
		return nil
	}
	init := varInit(p, v)
	if init == nil {
		c.undecided("TABLE-NCBI", "tablemap", v.Pos(), "table map "+dt.globalName+" is not initialised by a single composite literal (or is assigned elsewhere)")
		return nil
	}
	av := evalAST(p, init)
	dt.mapPos = av.Pos
	if av.Kind != "comp" {
		c.undecided("TABLE-NCBI", "tablemap", av.Pos, "table map initialiser is not a composite literal: "+av.String())
		return nil
	}
	for _, e := range av.Elts {
		if e.Key == nil || e.Key.Kind != "int" {
			dt.problems = append(dt.problems, "non-constant key at "+w.pos(e.Pos))
			continue
		}
		id := int(e.Key.Int)
		dt.keys = append(dt.keys, id)
		if _, dup := dt.aas[id]; dup {
			dt.problems = append(dt.problems, fmt.Sprintf("duplicate id %d", id))
		}
		val := e.Val
		if val.Kind != "call" || len(val.Args) != 2 || val.Args[0].Kind != "string" || val.Args[1].Kind != "string" {
			dt.problems = append(dt.problems, fmt.Sprintf("entry %d is not generator(<const string>, <const string>): %s", id, val))
			continue
		}
		if dt.genName == "" {
			dt.genName = val.Fun
		} else if dt.genName != val.Fun {
			dt.problems = append(dt.problems, fmt.Sprintf("entry %d built by %s, others by %s", id, val.Fun, dt.genName))
		}
		dt.ids = append(dt.ids, id)
		dt.aas[id] = val.Args[0].Str
		dt.starts[id] = val.Args[1].Str
		dt.pos[id] = e.Pos
	}
	sort.Ints(dt.ids)
	sort.Ints(dt.keys)
	if dt.genName != "" {
		name := dt.genName[strings.LastIndex(dt.genName, ".")+1:]
		dt.gen = w.fn("transform/codon", name)
	}
	return dt
}

func ruleC06(c *Ctx) {
	c.Decided = []string{
		"TABLE-NCBI: key set of the default table map = NCBI ids {1-6,9-14,16,21-31,33}; each entry's residue string and start/stop string equal the oracle (25x128 facts); base1/2/3 equal NCBI's",
		"SHAPE-GEN: generator builds triplet base1[i]base2[i]base3[i] under residue aminoAcids[i]; start iff starts[i]=='M', stop iff starts[i]=='*'; weight 1",
		"SHAPE-XLATE: translation map = every Codon.Triplet of every AminoAcid -> that AminoAcid.Letter, nothing else; Translate looks up ToUpper(3-letter window), one WriteString per complete window, Reset in the same branch, no early exit",
		"WRAPPERS: GetCodonTable(i) returns the map entry for i",
	}
	c.Undec = []string{"Translate on non-ASCII input (outside the quantifier)", "behaviour of strings.Builder / strings.ToUpper (std contract)"}
	c.Trusted = []string{"NCBI gc.prt v4.6 as encoded in oracle.go (standard code + reassignments + start sets)", "strings.Builder, strings.ToUpper"}
	c.floor("TABLE-NCBI", 26)
	c.floor("SHAPE-GEN", 5)
	c.floor("SHAPE-XLATE", 4)
	c.floor("WRAPPERS", 1)

	dt := readDefaultTables(c)
	if dt == nil {
		return
	}
	w := c.W
	checkNCBITables(c, dt)
	c.Sites += 25 * 128
	if dt.gen == nil {
		c.missingHelper("SHAPE-GEN", "generator", "table generator function "+dt.genName)
		return
	}
	checkGenerator(c, dt.gen)
	checkTranslate(c)
	_ = w
}

// checkNCBITables (TABLE-NCBI): the default table map has NCBI's 25 ids and every entry's residue and start/stop
// strings equal the published ones. Shared by C06 (translation) and C08 (a fresh default table is pristine).
func checkNCBITables(c *Ctx, dt *defaultTables) {
	// --- TABLE-NCBI
	for _, pr := range dt.problems {
		c.undecided("TABLE-NCBI", "tablemap:shape", dt.mapPos, pr)
	}
	want := ncbiIDs()
	// the key set is read from every constant key, whatever shape the entry's value has
	c.check(fmt.Sprint(want) == fmt.Sprint(dt.keys), "TABLE-NCBI", "idset", dt.mapPos,
		fmt.Sprintf("table ids %v = NCBI's 25 published codes", dt.keys),
		fmt.Sprintf("table ids %v differ from NCBI's %v", dt.keys, want))
	codons := allCodonsNCBI()
	for _, code := range ncbiCodes {
		aas, ok := dt.aas[code.id]
		if !ok {
			continue // reported by idset
		}
		wa, ws := code.expand()
		var diffs []string
		if len(aas) != 64 || len(dt.starts[code.id]) != 64 {
			diffs = append(diffs, fmt.Sprintf("string lengths %d/%d, want 64/64", len(aas), len(dt.starts[code.id])))
		} else {
			for i := 0; i < 64; i++ {
				if aas[i] != wa[i] {
					diffs = append(diffs, fmt.Sprintf("%s translates to %c, NCBI says %c", codons[i], aas[i], wa[i]))
				}
				if dt.starts[code.id][i] != ws[i] {
					diffs = append(diffs, fmt.Sprintf("%s start/stop mark %c, NCBI says %c", codons[i], dt.starts[code.id][i], ws[i]))
				}
			}
		}
		c.check(len(diffs) == 0, "TABLE-NCBI", fmt.Sprintf("table%d", code.id), dt.pos[code.id],
			"64 residues and 64 start/stop marks equal NCBI's", strings.Join(diffs, "; "))
	}
}

// evalIntTerm evaluates an integer index expression over one variable (rendered term varStr) by the
// checker's own arithmetic: constants, + - * / %. This reads a closed-form table index, it does not run poly.
func evalIntTerm(t *Term, varStr string, val int64) (int64, bool) {
	if t == nil {
		return 0, false
	}
	if t.String() == varStr {
		return val, true
	}
	if k, ok := t.constInt(); ok {
		return k, true
	}
	if t.Op == "conv" && len(t.Args) == 1 {
		return evalIntTerm(t.Args[0], varStr, val)
	}
	if t.Op == "binop" && len(t.Args) == 2 {
		a, ok1 := evalIntTerm(t.Args[0], varStr, val)
		b, ok2 := evalIntTerm(t.Args[1], varStr, val)
		if !ok1 || !ok2 {
			return 0, false
		}
		switch t.Name {
		case "+":
			return a + b, true
		case "-":
			return a - b, true
		case "*":
			return a * b, true
		case "/":
			if b == 0 {
				return 0, false
			}
			return a / b, true
		case "%":
			if b == 0 {
				return 0, false
			}
			return a % b, true
		case ">>":
			return a >> uint(b), true
		case "&":
			return a & b, true
		}
	}
	return 0, false
}

// checkGenerator: SHAPE-GEN on the function that every default-table entry calls.
func checkGenerator(c *Ctx, gen *ssa.Function) {
	c.useFn(gen)
	tb := newDeepTB(gen)
	// the triplet: the Triplet field of the codon appended per index; a string built from three bytes,
	// each a lookup S_k[E_k(i)] in a constant string
	var triplet *Term
	var parts [3]*Term
	var tripletAt *ssa.MapUpdate
	eachInstr(gen, func(i ssa.Instruction) {
		mu, ok := i.(*ssa.MapUpdate)
		if !ok {
			return
		}
		for _, site := range topAppendSites(tb.T(mu.Value)) {
			t := partialOf(site.Elem, "Triplet")
			if t == nil || t.Op != "conv" || len(t.Args) != 1 || t.Args[0].Op != "slice" {
				continue
			}
			inner := t.Args[0].Args[0]
			ps := []*Term{inner}
			if inner.Op == "anyof" {
				ps = inner.Args
			}
			var got [3]*Term
			n := 0
			for _, a := range ps {
				if a.Op == "partial" && len(a.Name) == 3 && a.Name[0] == '[' {
					k := int(a.Name[1] - '0')
					if k >= 0 && k < 3 && got[k] == nil {
						got[k] = a.Args[0]
						n++
					}
				}
			}
			if n == 3 {
				triplet, parts = t, got
				tripletAt = mu
			}
		}
	})
	if triplet == nil {
		c.undecided("SHAPE-GEN", "triplet(i) = i-th codon in NCBI order", gen.Pos(), "no string built from a 3-byte array found in "+fname(gen))
		return
	}
	// the index variable: the non-constant leaf shared by the three byte expressions
	var idx *Term
	recognised := true
	for k := 0; k < 3; k++ {
		p := parts[k]
		if p == nil || p.Op != "index" {
			recognised = false
			continue
		}
		if _, isStr := p.Args[0].constStr(); !isStr {
			recognised = false
		}
		p.Args[1].walk(func(x *Term) {
			if idx == nil && (x.Op == "extract" || x.Op == "rangeidx" || (x.Op == "phi" && x.Cyc)) {
				idx = x
			}
		})
	}
	if !recognised || idx == nil {
		c.undecided("SHAPE-GEN", "triplet(i) = i-th codon in NCBI order", triplet.V.Pos(), "the three bytes of the triplet are not lookups in constant strings by one index variable")
		return
	}
	cod := allCodonsNCBI()
	var diffs []string
	evalOK := true
	for i := 0; i < 64 && evalOK; i++ {
		var trip [3]byte
		for k := 0; k < 3; k++ {
			sK, _ := parts[k].Args[0].constStr()
			e, ok := evalIntTerm(parts[k].Args[1], idx.String(), int64(i))
			if !ok || e < 0 || int(e) >= len(sK) {
				evalOK = false
				break
			}
			trip[k] = sK[e]
		}
		if evalOK && string(trip[:]) != cod[i] && len(diffs) < 4 {
			diffs = append(diffs, fmt.Sprintf("i=%d gives %s, NCBI's %d-th codon is %s", i, string(trip[:]), i, cod[i]))
		}
	}
	if !evalOK {
		c.undecided("SHAPE-GEN", "triplet(i) = i-th codon in NCBI order", triplet.V.Pos(), "the index expressions of the base tables could not be evaluated for i = 0..63")
		return
	}
	c.check(len(diffs) == 0, "SHAPE-GEN", "triplet(i) = i-th codon in NCBI order", triplet.V.Pos(), "for i = 0..63 the three bytes spell the i-th codon of NCBI's TCAG order", strings.Join(diffs, "; "))
	c.Sites += 64
	// i ranges over the residue string; the residue at i keys the codon list
	residueOf := func(t *Term) bool {
		// rune at the same position of param[0]
		if idx.Op == "extract" && t.Op == "extract" && t.Name == "2" && len(t.Args) == 1 && len(idx.Args) == 1 && t.Args[0].String() == idx.Args[0].String() {
			return t.Args[0].String() == "next(range(param[0]))"
		}
		x := t
		if x.Op == "conv" && len(x.Args) == 1 {
			x = x.Args[0]
		}
		return (x.Op == "index" && x.Args[0].isParam(0) && x.Args[1].String() == idx.String()) || (x.Op == "each" && x.Args[0].isParam(0))
	}
	nUpd := 0
	st := unknown
	why := "no append of a Codon under the residue found"
	var updPos = gen.Pos()
	eachInstr(gen, func(i ssa.Instruction) {
		mu, ok := i.(*ssa.MapUpdate)
		if !ok {
			return
		}
		v := tb.T(mu.Value)
		sites := topAppendSites(v)
		if len(sites) != 1 {
			return
		}
		el := sites[0].Elem
		trp, wt := partialOf(el, "Triplet"), partialOf(el, "Weight")
		if trp == nil || trp.String() != triplet.String() {
			return
		}
		nUpd++
		updPos = mu.Pos()
		key := tb.T(mu.Key)
		switch {
		case !residueOf(key):
			st = stateOf(false, nil, key)
			why = "the codon is filed under " + short(key.String()) + ", want the residue at the same index of the residue string"
		case wt == nil:
			st, why = unknown, "codon weight not set in the literal"
		case !wt.isConst("1"):
			if wt.Op == "const" {
				st, why = broken, "default codons get weight "+wt.Name+"; a default table carries uniform weight 1"
			} else {
				st, why = unknown, "codon weight is "+short(wt.String())
			}
		default:
			st = holds
		}
	})
	if nUpd > 1 {
		st, why = unknown, fmt.Sprintf("%d sites append codons", nUpd)
	}
	c.judge(st, "SHAPE-GEN", "codon{triplet,1} appended under aminoAcids[i]", updPos, "the codon (triplet, weight 1) is appended to the list keyed by the residue at the same index", why)
	// start / stop lists
	var rt *Term
	if alts := resultAlts(tb, gen, 0); len(alts) == 1 {
		rt = alts[0].T
	}
	if rt == nil {
		c.undecided("SHAPE-GEN", "start/stop lists", gen.Pos(), "generator has several returns")
		return
	}
	headBlock := loopBodyEntry(tripletAt.Block())
	if headBlock == nil {
		c.undecided("SHAPE-GEN", "start/stop lists", gen.Pos(), "codons are not appended in a loop")
		return
	}
	for _, spec := range []struct {
		fld  string
		mark int64
		name string
	}{{"StartCodons", 77, "start iff starts[i]=='M'"}, {"StopCodons", 42, "stop iff starts[i]=='*'"}} {
		ft := partialOf(rt, spec.fld)
		if ft == nil {
			c.undecided("SHAPE-GEN", spec.name, gen.Pos(), "returned Table's "+spec.fld+" is not built in this function")
			continue
		}
		apps := topAppendSites(ft)
		if len(apps) != 1 || apps[0].Elem.String() != triplet.String() {
			c.undecided("SHAPE-GEN", spec.name, gen.Pos(), fmt.Sprintf("%d append sites feed %s (want one appending the triplet)", len(apps), spec.fld))
			continue
		}
		if !headBlock.Dominates(apps[0].At.Block()) {
			c.undecided("SHAPE-GEN", spec.name, gen.Pos(), spec.fld+" is not filled in the loop that generates the codons")
			continue
		}
		pc := pathCond(tb, headBlock, apps[0].At.Block())
		st := unknown
		why := "the triplet is appended to " + spec.fld + " under " + short(pc.String())
		for _, at := range pc.atoms() {
			if at.Neg || at.Disj || !at.Atom.isBin("==") {
				continue
			}
			for k := 0; k < 2; k++ {
				kv, isC := at.Atom.Args[k].constInt()
				o := at.Atom.Args[1-k]
				if !isC {
					continue
				}
				if residueOf(o) {
					st, why = broken, spec.fld+" is filled from the residue line, not from NCBI's start/stop line: context-dependent stops (codes 27, 28, 31) and alternative starts are lost"
					continue
				}
				o = stripConv(o)
				if o.Op != "index" || o.Args[1].String() != idx.String() {
					continue
				}
				switch {
				case o.Args[0].isParam(1) && kv == spec.mark:
					st = holds
				case o.Args[0].isParam(1):
					st, why = broken, fmt.Sprintf("%s is filled where the start/stop line has %q; NCBI marks it with %q", spec.fld, rune(kv), rune(spec.mark))
				case o.Args[0].isParam(0):
					st, why = broken, spec.fld+" is filled from the residue line, not from NCBI's start/stop line: context-dependent stops (codes 27, 28, 31) are lost"
				}
			}
		}
		c.judge(st, "SHAPE-GEN", spec.name, apps[0].At.Pos(), "the triplet is appended to "+spec.fld+" exactly under that mark of the start/stop line", why)
	}
	// AminoAcids: one entry per key of the residue map, Letter=string(key), Codons=value
	at := partialOf(rt, "AminoAcids")
	good := false
	if at != nil {
		apps := topAppendSites(at)
		if len(apps) == 1 {
			e := apps[0].Elem
			l, cd := partialOf(e, "Letter"), partialOf(e, "Codons")
			good = l != nil && cd != nil && strings.HasPrefix(l.String(), "conv[string](extract[1](next(range(makemap[") && strings.HasPrefix(cd.String(), "extract[2](next(range(makemap[")
		}
	}
	c.checkShape(good, "SHAPE-GEN", "aminoacids=residue map entries", gen.Pos(), "AminoAcids holds one {string(residue), codons-of-residue} per map entry", "AminoAcids is not visibly one {Letter: string(key), Codons: value} per entry of the residue map")
}

// checkTranslate: SHAPE-XLATE.
func checkTranslate(c *Ctx) {
	w := c.W
	tr := w.fn("transform/codon", "Translate")
	if tr == nil {
		c.missing("SHAPE-XLATE", "codon.Translate", "exported function codon.Translate")
		return
	}
	c.useFn(tr)
	genName := "(poly/transform/codon.Table).generateTranslationTable"
	tb := newDeepTB(tr, genName)
	wi := windowModel(tr, tb, "param[0]")
	poolHygiene(c, "SHAPE-XLATE", family(tr))
	frameAlignment(c, "SHAPE-XLATE", family(tr))
	// "letter case is irrelevant": only positive evidence counts here (the text as typed reaching a search for
	// particular letters, a comparison with a letter, a table spelt in one case); anything not followed is left
	// to the window and lookup obligations below
	if stCase, whyCase := judgeCase(w, tr, 0); stCase == broken {
		c.bad("SHAPE-XLATE", "DEPEND: letter case of the sequence", tr.Pos(), whyCase+": whether (or how) a sequence is translated depends on how its letters are cased")
	}
	c.judge(wi.State, "SHAPE-XLATE", "Translate:window of 3 over every letter", tr.Pos(),
		"every input letter is appended to the window unconditionally; a region runs exactly at Len()==3 and resets the window; the loop leaves only at end of input", wi.Why)
	if wi.State == holds {
		// the residue written per complete window
		var out []ssa.CallInstruction
		var res *Term
		for _, a := range resultAlts(tb, tr, 0) {
			if a.T.isCall("(*strings.Builder).String") {
				res = a.T
			}
		}
		if res != nil {
			eachInstr(tr, func(i ssa.Instruction) {
				if ci, ok := i.(ssa.CallInstruction); ok && strings.HasPrefix(calleeName(ci), "(*strings.Builder).Write") && ci != wi.Write {
					if tb.T(ci.Common().Args[0]).String() == res.Args[0].String() {
						out = append(out, ci)
					}
				}
			})
		}
		switch {
		case res == nil:
			c.undecided("SHAPE-XLATE", "Translate:lookup=table[ToUpper(window)]", tr.Pos(), "the result is not a strings.Builder's content")
		case len(out) != 1:
			// several write sites: a residue that is a fixed letter rather than the table's answer for the
			// window is evidence by itself (the protein must be what the table says for every codon)
			constSite := false
			for _, o := range out {
				as := o.Common().Args
				if k, isC := as[len(as)-1].(*ssa.Const); isC && k.Value != nil && len(k.Value.ExactString()) > 2 {
					constSite = true
					c.bad("SHAPE-XLATE", "Translate:lookup=table[ToUpper(window)]", o.Pos(), "on some path the residue written for a complete codon is the constant "+k.Value.ExactString()+" instead of the table's entry for that codon: the translation of a sequence is no longer the table applied codon by codon (e.g. a first codon listed as a start codon is written as M whatever it encodes)")
					break
				}
			}
			if !constSite {
				c.undecided("SHAPE-XLATE", "Translate:lookup=table[ToUpper(window)]", tr.Pos(), fmt.Sprintf("%d sites write the result, the model needs one", len(out)))
			}
		default:
			ow := out[0]
			want := "lookup(call[" + genName + "](param[1]), call[strings.ToUpper](" + wi.Key + "))"
			got := tb.T(ow.Common().Args[1])
			if got.Op == "lookup" && len(got.Args) == 2 && got.Args[1].Op == "phi" && !got.Args[1].Cyc {
				// the key has alternatives: each must be upper-cased
				raw := false
				for _, l := range phiLeaves(got.Args[1]) {
					if l.String() == wi.Key {
						raw = true
					}
				}
				if raw {
					// which windows take the as-typed path decides it (a helper that hands back
					// windows without lower-case letters as they are is the same function): the
					// letter-case taint under DEPEND judges that, this term rule does not
					c.undecided("SHAPE-XLATE", "Translate:lookup=table[ToUpper(window)]", ow.Pos(), "on some path the window is looked up as typed, without strings.ToUpper; whether only windows that are already upper case take that path is not decided here")
					goto emitted
				}
			}
			c.cmpTerm("SHAPE-XLATE", "Translate:lookup=table[ToUpper(window)]", ow.Pos(), got, want,
				"residue = translationTable(codonTable)[strings.ToUpper(window.String())]", "the residue written per complete window", wi.Key)
		emitted:
			st, why := holds, ""
			if !wi.full(ow.Block()) {
				st, why = unknown, "the residue write is not in the complete-window branch"
				if pc := pathCond(tb, wi.Write.Block(), ow.Block()); pc.Op == "true" {
					st, why = broken, "a residue is written after every letter, not once per complete codon"
				}
			}
			c.judge(st, "SHAPE-XLATE", "Translate:one residue per complete window", ow.Pos(), "the residue is written exactly in the Len()==3 region", why)
		}
	}
	// generateTranslationTable
	g := w.method("transform/codon", "Table", "generateTranslationTable")
	if g == nil {
		c.missingHelper("SHAPE-XLATE", "translation map", "method Table.generateTranslationTable")
		return
	}
	c.useFn(g)
	tg := newDeepTB(g)
	wantK, wantV := "field[Triplet](each(field[Codons](each(field[AminoAcids](param[0])))))", "field[Letter](each(field[AminoAcids](param[0])))"
	n := 0
	st, why := unknown, "no store into the translation map found"
	var p = g.Pos()
	eachInstr(g, func(i ssa.Instruction) {
		mu, ok := i.(*ssa.MapUpdate)
		if !ok {
			return
		}
		n++
		p = mu.Pos()
		k, v, m := tg.T(mu.Key), tg.T(mu.Value), tg.T(mu.Map)
		if m.Op != "makemap" {
			return
		}
		hdr := enclosingLoopHeader(mu.Block())
		uncond := false
		if hdr != nil {
			for _, e := range hdr.Succs {
				if e != hdr && hdr.Dominates(e) && reaches(e, hdr) && e.Dominates(mu.Block()) {
					uncond = pathCond(tg, e, mu.Block()).Op == "true"
				}
			}
		}
		switch {
		case k.String() == wantK && v.String() == wantV && uncond:
			if st == unknown {
				st = holds
			}
		case k.String() == wantK && v.String() == wantV:
			st, why = unknown, "the Triplet->Letter store is conditional"
		case k.String() == wantK && len(opaqueParts(v, vocabOf(wantK, wantV))) == 0 && localDiff(v, wantV):
			st, why = broken, "codon triplets are mapped to "+short(v.String())+", want the Letter of the amino acid that lists them"
		case v.String() == wantV && len(opaqueParts(k, vocabOf(wantK, wantV))) == 0 && localDiff(k, wantK):
			st, why = broken, "the map is keyed by "+short(k.String())+", want each codon's Triplet"
		case k.contains(func(x *Term) bool { return x.isParam(0) }) && v.Op == "const":
			// an additional constant entry over table codons (e.g. stops forced to a fixed letter)
			st, why = broken, "codons of the table are additionally mapped to the constant "+v.Name+", overriding the table's own letter"
		default:
			if st == holds {
				st, why = unknown, "additional store "+short(k.String())+" -> "+short(v.String())
			}
		}
	})
	if st == holds {
		okRet := false
		for _, a := range resultAlts(tg, g, 0) {
			okRet = a.T.Op == "makemap"
		}
		if !okRet {
			st, why = unknown, "the map returned is not visibly the one filled"
		}
	}
	c.judge(st, "SHAPE-XLATE", "map=all (Triplet->Letter)", p,
		"the map holds exactly Triplet->Letter for every codon of every amino acid (two nested ranges, unconditional store)", why)
}
