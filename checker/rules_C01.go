package main

// C01 GenBank parsing returns exactly what a well-formed record states.

import (
	"fmt"
	"go/types"
	"regexp"
	"sort"
	"strings"

	"golang.org/x/tools/go/ssa"
)

func init() { register("C01", ruleC01) }

// keywordAtom extracts X from a positive atom KEY == const["X"] of the path condition.
func positiveConstEq(pc *Cond, key string) []string {
	var out []string
	for _, a := range pc.atoms() {
		if a.Disj {
			continue
		}
		t := a.Atom
		if t.Op != "binop" {
			continue
		}
		for k := 0; k < 2; k++ {
			if t.Args[k].String() == key {
				if s, ok := t.Args[1-k].constStr(); ok {
					if (t.Name == "==" && !a.Neg) || (t.Name == "!=" && a.Neg) {
						out = append(out, s)
					}
				}
			}
		}
	}
	return out
}

// pairNext: for a call helper(head, rest) the continuation lines must start right after the line the
// head was taken from: head derives from X[i], rest = X[i+1:].
func pairNext(call *ssa.Call) (int, string) {
	if len(call.Call.Args) < 2 {
		return unknown, "fewer than two arguments"
	}
	if _, p0 := call.Call.Args[0].(*ssa.Parameter); p0 {
		if _, p1 := call.Call.Args[1].(*ssa.Parameter); p1 {
			return holds, "" // pass-through of an already paired (head, rest)
		}
	}
	sl, ok := call.Call.Args[1].(*ssa.Slice)
	if !ok || sl.Low == nil || sl.High != nil {
		return unknown, "continuation argument is not X[k:]"
	}
	// find an IndexAddr / Index on the same X feeding the head
	var idx ssa.Value
	seen := map[ssa.Value]bool{}
	var walk func(v ssa.Value, d int)
	walk = func(v ssa.Value, d int) {
		if v == nil || seen[v] || d > 12 || idx != nil {
			return
		}
		seen[v] = true
		switch x := v.(type) {
		case *ssa.IndexAddr:
			if x.X == sl.X {
				idx = x.Index
				return
			}
		case *ssa.Index:
			if x.X == sl.X {
				idx = x.Index
				return
			}
		}
		if ins, ok := v.(ssa.Instruction); ok {
			for _, op := range ins.Operands(nil) {
				if op != nil && *op != nil {
					walk(*op, d+1)
				}
			}
		}
	}
	walk(call.Call.Args[0], 0)
	if idx == nil {
		return unknown, "the head is not visibly taken from a line of the same list the continuation slices"
	}
	// Low must be idx+1: compare as linear forms over the same base
	tb := newTB(call.Parent())
	lb, lk := tb.T(sl.Low).linear()
	ib, ik := tb.T(idx).linear()
	if lb != nil && ib != nil && lb.String() == ib.String() {
		if lk-ik == 1 {
			return holds, ""
		}
		return broken, fmt.Sprintf("continuation lines start at (index of the head line)%+d, want +1", lk-ik)
	}
	if lb == nil && ib != nil {
		return broken, fmt.Sprintf("continuation lines start at the fixed offset %d while the head line is found at a variable index", lk)
	}
	return unknown, "continuation start and head index are not comparable"
}

func ruleC01(c *Ctx) {
	c.Decided = []string{
		"FIELDMAP-R: in genbank.Parse's keyword dispatch and the reference sub-dispatch every keyword stores into the field the format assigns (LOCUS, DEFINITION, ACCESSION, VERSION, KEYWORDS, SOURCE/ORGANISM, REFERENCE, FEATURES, ORIGIN; AUTHORS, TITLE, JOURNAL, PUBMED, REMARK), unknown keywords go to Meta.Other[keyword]; every entry of the repo's own top-level keyword table has a case",
		"PAIR-NEXT: every continuation-joining call receives the lines that follow the very line its head was taken from (X[i], X[i+1:])",
		"REFHEAD: the REFERENCE number is the first token of the line split on single blanks (or white space)",
		"WRAPPERS: Read->Parse, ReadMulti->ParseMulti, ReadFlat->ParseFlat, ReadFlatGz->gzip->ParseFlat, ParseFlat drops exactly 10 header lines then ParseMulti, ParseMulti splits after \"//\\n\" and parses each piece in order",
		"LOSSY: no deleting/truncating string operation (payload alphabet: printable ASCII except the double quote) on the def-use path from the feature lines to Feature.Attributes values",
		"TABLE: the ORIGIN filter deletes exactly the non-letters (letters survive in order, concatenated in line order); LOCUS topology words are matched as space-delimited tokens",
		"TERM: every parsed feature is attached with Sequence.AddFeature in file order (parent link: C15 RELINK rules)",
	}
	c.Undec = []string{"the line scanner itself: LOCUS regexes for length/molecule/division, location continuation detection, qualifier continuation joining, the final-newline dependence of ParseMulti – real defects exist there today (DESIGN §6) and none has a shape rule that would not also fire on harmless rewrites", "boundary whitespace of values"}
	c.Trusted = []string{"GenBank flat-file keyword->field table as encoded in rules_C01.go", "regexp, strings (std)"}
	c.floor("FIELDMAP-R", 15)
	c.floor("PAIR-NEXT", 7)
	c.floor("WRAPPERS", 6)
	c.floor("LOSSY", 1)
	c.floor("TABLE", 2)
	c.floor("TERM", 1)
	w := c.W
	parse := w.fn("io/genbank", "Parse")
	if parse == nil {
		c.missing("FIELDMAP-R", "genbank.Parse", "genbank.Parse")
		return
	}
	c.useFn(parse)
	tb := newTB(parse)
	// KEY: the term compared with const "LOCUS"
	key := ""
	eachInstr(parse, func(i ssa.Instruction) {
		if ifi, ok := i.(*ssa.If); ok {
			t := tb.T(ifi.Cond)
			if t.isBin("==") {
				for k := 0; k < 2; k++ {
					if t.Args[k].isConst(`"LOCUS"`) {
						key = t.Args[1-k].String()
					}
				}
			}
		}
	})
	if key == "" {
		c.undecided("FIELDMAP-R", "keyword dispatch", parse.Pos(), "no comparison of the line's keyword with \"LOCUS\" found")
		return
	}
	// every constant the keyword is compared with (the dispatch's case set)
	caseSet := map[string]bool{}
	eachInstr(parse, func(i ssa.Instruction) {
		if bo, ok := i.(*ssa.BinOp); ok {
			t := tb.T(bo)
			if t.isBin("==") || t.isBin("!=") {
				for k := 0; k < 2; k++ {
					if t.Args[k].String() == key {
						if s, ok := t.Args[1-k].constStr(); ok {
							caseSet[s] = true
						}
					}
				}
			}
		}
	})
	// Meta and Sequence locals
	var metaA, seqA *ssa.Alloc
	eachInstr(parse, func(i ssa.Instruction) {
		if a, ok := i.(*ssa.Alloc); ok {
			switch tname(deref(a.Type())) {
			case "poly.Meta":
				metaA = a
			case "poly.Sequence":
				seqA = a
			}
		}
	})
	if metaA == nil || seqA == nil {
		c.undecided("FIELDMAP-R", "locals", parse.Pos(), "Parse does not assemble a poly.Meta and a poly.Sequence local")
		return
	}
	want := map[string]struct{ field, producer string }{
		"LOCUS":      {"Locus", "poly/io/genbank.parseLocus"},
		"DEFINITION": {"Definition", "poly/io/genbank.joinSubLines"},
		"ACCESSION":  {"Accession", "poly/io/genbank.joinSubLines"},
		"VERSION":    {"Version", "poly/io/genbank.joinSubLines"},
		"KEYWORDS":   {"Keywords", "poly/io/genbank.joinSubLines"},
	}
	seenKW := map[string]bool{}
	tb.buildStores()
	producerOf := func(t *Term) string {
		x := t
		for x != nil {
			switch {
			case x.Op == "extract" && len(x.Args) == 1:
				x = x.Args[0]
			case x.Op == "call":
				return x.Name
			default:
				return x.Op
			}
		}
		return "?"
	}
	for _, st := range tb.stores[metaA] {
		if st.Parent() != parse {
			continue
		}
		_, p, _ := rootAlloc(st.Addr)
		if len(p) != 1 {
			continue
		}
		fld := strings.TrimPrefix(p[0], ".")
		if fld == "Other" && tb.T(st.Val).Op == "makemap" {
			continue
		}
		pc := pathCond(tb, parse.Blocks[0], st.Block())
		kws := positiveConstEq(pc, key)
		if len(kws) != 1 {
			c.undecided("FIELDMAP-R", "store to Meta."+fld, st.Pos(), fmt.Sprintf("Meta.%s is stored under keywords %v (want exactly one keyword case)", fld, kws))
			continue
		}
		kw := kws[0]
		v := tb.T(st.Val)
		switch kw {
		case "SOURCE":
			fieldOK := fld == "Source" || fld == "Organism"
			okS := (fld == "Source" && v.Op == "extract" && v.Name == "0" || fld == "Organism" && v.Op == "extract" && v.Name == "1") && strings.HasPrefix(v.Args[0].Name, "poly/io/genbank.getSourceOrganism")
			seenKW[kw+"/"+fld] = true
			stt := holds
			if !fieldOK {
				stt = broken
			} else if !okS {
				stt = unknown
				if v.Op == "extract" && strings.HasPrefix(v.Args[0].Name, "poly/io/genbank.getSourceOrganism") {
					stt = broken // the two results are crossed
				}
			}
			c.judge(stt, "FIELDMAP-R", "SOURCE->"+fld, st.Pos(), "SOURCE block fills Source (1st result) and Organism (2nd result)", "under SOURCE, Meta."+fld+" = "+short(v.String()))
		case "REFERENCE":
			sites := topAppendSites(v)
			okR := fld == "References" && len(sites) == 1 && sites[0].Elem.isCall("poly/io/genbank.getReference")
			seenKW[kw] = true
			stt := holds
			if fld != "References" {
				stt = broken
			} else if !okR {
				stt = unknown
			}
			c.judge(stt, "FIELDMAP-R", "REFERENCE->append(References)", st.Pos(), "each REFERENCE block appends one parsed reference, in order", "under REFERENCE, Meta."+fld+" = "+short(v.String()))
		default:
			exp, known := want[kw]
			seenKW[kw] = true
			stt := holds
			switch {
			case !known:
				stt = unknown
			case exp.field != fld:
				stt = broken
			case producerOf(v) != exp.producer:
				stt = unknown
			}
			whyKW := fmt.Sprintf("keyword %s stores %s into Meta.%s; the format assigns %s to Meta.%s", kw, producerOf(v), fld, kw, exp.field)
			if stt == unknown && known && exp.field == fld && exp.producer == "poly/io/genbank.joinSubLines" {
				// a block that may wrap: the value has to be made from the lines that follow the keyword line too
				if one, lst := readsOnlyOneLine(v); one {
					stt, whyKW = broken, fmt.Sprintf("under %s, Meta.%s is made from the keyword line alone (%s): nothing of the list of lines %s beyond that one line goes into it, so the wrapped continuation lines of the block are lost", kw, fld, short(v.String()), short(lst))
				}
			}
			c.judge(stt, "FIELDMAP-R", kw+"->"+exp.field, st.Pos(), "keyword "+kw+" fills Meta."+fld+" via "+producerOf(v), whyKW)
		}
	}
	// Other map update
	nOther := 0
	tableDispatch := false // the keyword is (also) looked up in a table: absence from the comparisons proves nothing
	eachInstr(parse, func(i ssa.Instruction) {
		if lk, ok := i.(*ssa.Lookup); ok && tb.T(lk.Index).String() == key {
			if _, isMap := lk.X.Type().Underlying().(*types.Map); isMap {
				tableDispatch = true
			}
		}
	})
	// ... or handed to a function of the module that decides what to do with it (a helper that maps the
	// one-value keywords to their fields): its comparisons are part of the dispatch, not read here
	eachInstr(parse, func(i ssa.Instruction) {
		ci, ok := i.(ssa.CallInstruction)
		if !ok {
			return
		}
		callee := ci.Common().StaticCallee()
		if callee == nil || !inModule(callee) {
			return
		}
		for _, a := range ci.Common().Args {
			if tb.T(a).String() == key {
				tableDispatch = true
			}
		}
	})
	eachInstr(parse, func(i ssa.Instruction) {
		mu, ok := i.(*ssa.MapUpdate)
		if !ok {
			return
		}
		// only stores into the record's Other map (map[string]string); a dispatch table built at run time is not it
		if tname(mu.Map.Type()) != "map[string]string" {
			tableDispatch = true
			return
		}
		nOther++
		pc := pathCond(tb, parse.Blocks[0], mu.Block())
		kws := positiveConstEq(pc, key)
		k, v := tb.T(mu.Key).String(), tb.T(mu.Value)
		stt := holds
		switch {
		case len(kws) > 0:
			stt = broken // the catch-all sits inside a specific keyword's case
		case k != key:
			stt = stateOf(false, nil, tb.T(mu.Key))
		case !v.isCall("poly/io/genbank.joinSubLines"):
			stt = unknown
		}
		c.judge(stt, "FIELDMAP-R", "other keyword->Other[keyword]", mu.Pos(), "a keyword without its own case is kept under its own name with its joined block", fmt.Sprintf("the catch-all stores %s under %s (dispatch keyword is %s) in a case for %v", short(v.String()), k, key, kws))
	})
	if nOther != 1 {
		c.undecided("FIELDMAP-R", "other keyword->Other[keyword]#count", parse.Pos(), fmt.Sprintf("%d map updates in Parse, want the single catch-all", nOther))
	}
	// FEATURES / ORIGIN
	for _, cl := range callsIn(parse, "poly/io/genbank.getFeatures") {
		pc := pathCond(tb, parse.Blocks[0], cl.Block())
		seenKW["FEATURES"] = true
		kk := positiveConstEq(pc, key)
		stt := holds
		if len(kk) == 1 && kk[0] != "FEATURES" {
			stt = broken
		} else if len(kk) != 1 {
			stt = unknown
		}
		c.judge(stt, "FIELDMAP-R", "FEATURES->feature table", cl.Pos(), "the feature table is parsed from the lines after FEATURES", "getFeatures is called under "+fmt.Sprint(kk))
	}
	for _, st := range tb.stores[seqA] {
		_, p, _ := rootAlloc(st.Addr)
		if len(p) == 1 && p[0] == ".Sequence" {
			pc := pathCond(tb, parse.Blocks[0], st.Block())
			seenKW["ORIGIN"] = true
			kk := positiveConstEq(pc, key)
			stt := holds
			if len(kk) == 1 && kk[0] != "ORIGIN" {
				stt = broken
			} else if len(kk) != 1 || !tb.T(st.Val).isCall("poly/io/genbank.getSequence") {
				stt = unknown
			}
			c.judge(stt, "FIELDMAP-R", "ORIGIN->Sequence", st.Pos(), "the sequence is read from the lines after ORIGIN", "Sequence.Sequence = "+short(tb.T(st.Val).String())+" under "+fmt.Sprint(kk))
		}
	}
	for _, kw := range []string{"LOCUS", "DEFINITION", "ACCESSION", "VERSION", "KEYWORDS", "SOURCE/Source", "SOURCE/Organism", "REFERENCE", "FEATURES", "ORIGIN"} {
		if !seenKW[kw] {
			base := strings.SplitN(kw, "/", 2)[0]
			if !caseSet[base] && !tableDispatch {
				c.bad("FIELDMAP-R", "missing case "+kw, parse.Pos(), "the keyword dispatch compares the keyword with "+fmt.Sprint(len(caseSet))+" constants but never with "+base+": that block is not parsed")
			} else {
				c.undecided("FIELDMAP-R", "missing case "+kw, parse.Pos(), "the case for "+base+" exists but its effect on the record was not recognised")
			}
		}
	}
	// repo's own table agrees with the dispatch
	if p := w.pkg("io/genbank"); p != nil {
		if v := pkgVar(p, "genbankTopLevelFeatures"); v != nil {
			if init := varInit(p, v); init != nil {
				av := evalAST(p, init)
				var missing []string
				for _, e := range av.Elts {
					k := e.Val.Str
					if !(seenKW[k] || seenKW[k+"/Source"]) {
						missing = append(missing, k)
					}
				}
				for _, m := range missing {
					if caseSet[m] {
						missing = nil // the case exists; only its effect was not recognised
						break
					}
				}
				if len(missing) > 0 && tableDispatch {
					c.undecided("FIELDMAP-R", "top-level keyword table agrees with the dispatch", av.Pos, "the keyword is also dispatched outside Parse's own comparisons (a table, a helper); keywords not seen here: "+strings.Join(missing, ","))
					missing = nil
				} else {
					c.check(len(missing) == 0, "FIELDMAP-R", "top-level keyword table agrees with the dispatch", av.Pos, fmt.Sprintf("%d table entries all have a case", len(av.Elts)), "keywords in the table without a case: "+strings.Join(missing, ","))
				}
			}
		}
	}
	// reference sub-dispatch
	if gr := w.fn("io/genbank", "getReference"); gr != nil {
		c.useFn(gr)
		rtb := newTB(gr)
		rtb.buildStores()
		var refA *ssa.Alloc
		eachInstr(gr, func(i ssa.Instruction) {
			if a, ok := i.(*ssa.Alloc); ok && tname(deref(a.Type())) == "poly.Reference" {
				refA = a
			}
		})
		sub := map[string]string{"AUTHORS": "Authors", "TITLE": "Title", "JOURNAL": "Journal", "PUBMED": "PubMed", "REMARK": "Remark"}
		seenSub := map[string]bool{}
		if refA != nil {
			// sub-keyword key: what is compared with "AUTHORS"
			skey := ""
			eachInstr(gr, func(i ssa.Instruction) {
				if ifi, ok := i.(*ssa.If); ok {
					t := rtb.T(ifi.Cond)
					if t.isBin("==") {
						for k := 0; k < 2; k++ {
							if t.Args[k].isConst(`"AUTHORS"`) {
								skey = t.Args[1-k].String()
							}
						}
					}
				}
			})
			for _, st := range rtb.stores[refA] {
				_, p, _ := rootAlloc(st.Addr)
				if len(p) != 1 {
					continue
				}
				fld := strings.TrimPrefix(p[0], ".")
				if fld == "Index" || fld == "Range" {
					continue
				}
				pc := pathCond(rtb, gr.Blocks[0], st.Block())
				kws := positiveConstEq(pc, skey)
				stt := holds
				if len(kws) == 1 {
					seenSub[kws[0]] = true
					if sub[kws[0]] != fld {
						stt = broken
					} else if !rtb.T(st.Val).isCall("poly/io/genbank.joinSubLines") {
						stt = unknown
					}
				} else {
					stt = unknown
				}
				c.judge(stt, "FIELDMAP-R", "reference:"+strings.Join(kws, "|")+"->"+fld, st.Pos(), "sub-keyword fills the same-named Reference field with its joined block", fmt.Sprintf("Reference.%s is stored under %v", fld, kws))
			}
		}
		subCases := map[string]bool{}
		eachInstr(gr, func(i ssa.Instruction) {
			if bo, ok := i.(*ssa.BinOp); ok {
				t := rtb.T(bo)
				if t.isBin("==") {
					for k := 0; k < 2; k++ {
						if s, ok := t.Args[k].constStr(); ok {
							subCases[s] = true
						}
					}
				}
			}
		})
		for k := range sub {
			if !seenSub[k] {
				refTable := false
				eachInstr(gr, func(i ssa.Instruction) {
					if lk, ok := i.(*ssa.Lookup); ok {
						if _, isMap := lk.X.Type().Underlying().(*types.Map); isMap {
							refTable = true // sub-keywords dispatched through a table: absence from the comparisons proves nothing
						}
					}
				})
				if refA != nil && len(subCases) >= 3 && !subCases[k] && !refTable {
					c.bad("FIELDMAP-R", "reference:missing "+k, gr.Pos(), "the reference sub-dispatch has cases for "+fmt.Sprint(len(subCases))+" keywords but none for "+k+": that line is dropped")
				} else {
					c.undecided("FIELDMAP-R", "reference:missing "+k, gr.Pos(), "handling of the reference sub-keyword "+k+" was not recognised")
				}
			}
		}
	} else {
		c.missingHelper("FIELDMAP-R", "getReference", "genbank.getReference")
	}
	// PAIR-NEXT over every joinSubLines / getSourceOrganism / getReference call in the package
	for _, f := range w.moduleFuncs() {
		if f.Pkg == nil || f.Pkg != w.spkg("io/genbank") {
			continue
		}
		eachInstr(f, func(i ssa.Instruction) {
			cl, ok := i.(*ssa.Call)
			if !ok {
				return
			}
			n := calleeName(cl)
			if n == "poly/io/genbank.joinSubLines" || n == "poly/io/genbank.getSourceOrganism" || n == "poly/io/genbank.getReference" {
				c.useFn(f)
				stt, why := pairNext(cl)
				c.judge(stt, "PAIR-NEXT", fname(f)+"->"+strings.TrimPrefix(n, "poly/io/genbank."), cl.Pos(), "head = X[i], continuation = X[i+1:]", "continuation lines are mis-aligned with the head line: "+why+" (a block's wrapped lines are lost or mixed with another block)")
			}
		})
	}
	// TERM: features attached in order
	af, n := findCall(parse, "(*poly.Sequence).AddFeature")
	if n != 1 {
		c.undecided("TERM", "every parsed feature added via AddFeature, in order", parse.Pos(), fmt.Sprintf("%d AddFeature calls in Parse, want 1", n))
	} else {
		fa, _ := unwrap(af.Common().Args[1]).(*ssa.Alloc)
		recv := unwrap(af.Common().Args[0])
		var featT *Term
		if fa != nil {
			featT = tb.at(fa, nil, af)
		}
		hdr := enclosingLoopHeader(af.Block())
		stt := holds
		whyT := ""
		switch {
		case hdr == nil || featT == nil || !(featT.Op == "each" || featT.Op == "zip" || featT.Op == "index"):
			stt, whyT = unknown, "the feature handed to AddFeature is not an element of a list walked by a loop: "+short(fmt.Sprint(featT))
		case recv != ssa.Value(seqA):
			stt, whyT = unknown, "features are added to a value that is not visibly the sequence returned"
			if a2, ok := recv.(*ssa.Alloc); ok && a2 != seqA && tname(deref(a2.Type())) == tname(deref(seqA.Type())) {
				stt, whyT = broken, "features are added to another local Sequence than the one returned"
			}
		case len(hdr.Succs) == 2 && pathCond(tb, hdr.Succs[0], af.Block()).Op != "true":
			stt, whyT = broken, "AddFeature is conditional inside the loop (under "+short(pathCond(tb, hdr.Succs[0], af.Block()).String())+"): some parsed features are not attached"
			if len(opaqueCond(pathCond(tb, hdr.Succs[0], af.Block()))) > 0 {
				stt = unknown
			}
		case !featT.contains(func(x *Term) bool { return x.isCall("poly/io/genbank.getFeatures") }):
			stt, whyT = unknown, "the list walked is not visibly getFeatures' result: "+short(featT.String())
		}
		for _, r := range returnsOf(parse) {
			if ld, ok := r.Results[0].(*ssa.UnOp); !ok || ld.X != ssa.Value(seqA) {
				if stt == holds {
					stt, whyT = unknown, "the returned value is not visibly the sequence the features were added to"
				}
			}
		}
		c.judge(stt, "TERM", "every parsed feature added via AddFeature, in order", parse.Pos(), "range over getFeatures' result, unconditional AddFeature on the returned sequence", whyT)
	}

	// ---- LOSSY
	gf := w.fn("io/genbank", "getFeatures")
	if gf == nil {
		c.missingHelper("LOSSY", "getFeatures", "genbank.getFeatures")
	} else {
		c.useFn(gf)
		ftb := newDeepTB(gf)
		nSink := 0
		eachInstr(gf, func(i ssa.Instruction) {
			mu, ok := i.(*ssa.MapUpdate)
			if !ok {
				return
			}
			nSink++
			rep := &lossyReport{}
			judgeSpine(ftb.T(mu.Value), func(t *Term) bool {
				return (t.Op == "index" || t.Op == "each") && len(t.Args) >= 1 && t.Args[0].isParam(0)
			}, rep, map[*Term]bool{})
			probs := append(append([]string{}, rep.lossy...), rep.unknown...)
			sort.Strings(probs)
			stt := holds
			if len(rep.lossy) > 0 {
				stt = broken
			} else if len(rep.unknown) > 0 || rep.sources == 0 {
				stt = unknown
			}
			c.judge(stt, "LOSSY", "qualifier value verbatim", mu.Pos(), fmt.Sprintf("value reaches Attributes through %d neutral operations only", len(rep.neutral)), strings.Join(dedupe(probs), "; "))
			c.Sites += len(rep.neutral) + len(rep.lossy)
		})
		if nSink != 1 {
			c.undecided("LOSSY", "sink", gf.Pos(), fmt.Sprintf("%d stores into Feature.Attributes in getFeatures, want 1", nSink))
		}
	}
	// ---- TABLE: ORIGIN filter
	if gs := w.fn("io/genbank", "getSequence"); gs != nil {
		c.useFn(gs)
		t, stb, ok := singleReturnTerm(gs, 0)
		stt := unknown
		why := "result is not regexp.ReplaceAllString(<all lines concatenated>, \"\")"
		if ok && t.isCall("(*regexp.Regexp).ReplaceAllString") {
			pat, okP := regexpPattern(t.Args[0])
			repl, _ := t.Args[2].constStr()
			src := t.Args[1]
			okSrc := false
			if src.isCall("(*bytes.Buffer).String") || src.isCall("(*strings.Builder).String") {
				ws := bufWrites(gs, stb, src.Args[0].String())
				okSrc = len(ws) == 1 && ws[0].arg.String() == "each(param[0])"
			} else if src.isCall("strings.Join") && src.Args[0].isParam(0) && src.Args[1].isConst(`""`) {
				okSrc = true
			}
			if okP && repl == "" {
				re, err := regexp.Compile(pat)
				if err == nil {
					stt = holds
					var wrong []string
					for ch := 0; ch < 128; ch++ {
						isLetter := (ch >= 'a' && ch <= 'z') || (ch >= 'A' && ch <= 'Z')
						deleted := re.MatchString(string(rune(ch)))
						if deleted == isLetter {
							stt = broken
							wrong = append(wrong, fmt.Sprintf("%q", rune(ch)))
						}
					}
					why = "the ORIGIN filter " + pat + " treats these characters wrongly (letters must survive, everything else go): " + strings.Join(wrong, " ")
					if stt == holds && !okSrc {
						stt, why = unknown, "the filter is right but it is not visibly applied to all lines concatenated in order"
					}
				}
			}
		}
		c.judge(stt, "TABLE", "ORIGIN filter deletes exactly the non-letters", gs.Pos(), "all lines concatenated in order, then every non-letter removed", why)
	} else {
		c.missingHelper("TABLE", "getSequence", "genbank.getSequence")
	}
	// ---- TABLE: LOCUS topology tokens
	if pl := w.fn("io/genbank", "parseLocus"); pl != nil {
		c.useFn(pl)
		ltb := newTB(pl)
		ltb.buildStores()
		eachInstr(pl, func(i ssa.Instruction) {
			st, ok := i.(*ssa.Store)
			if !ok {
				return
			}
			_, p, isLocal := rootAlloc(st.Addr)
			if !isLocal || len(p) != 1 || (p[0] != ".Circular" && p[0] != ".Linear") {
				return
			}
			word := strings.ToLower(strings.TrimPrefix(p[0], "."))
			pc := pathCond(ltb, pl.Blocks[0], st.Block())
			stt := unknown
			desc := "no constant pattern containing the word found in the guarding condition"
			consider := func(t *Term) {
				t.walk(func(x *Term) {
					y := x
					if y.Op == "global" {
						if it := globalInitTerm(y); it != nil {
							it.walk(func(z *Term) {
								if s, ok := z.constStr(); ok && strings.Contains(s, word) {
									y = z
								}
							})
						}
					}
					if s, ok := y.constStr(); ok && strings.Contains(s, word) {
						delim := strings.HasPrefix(s, " ") || strings.HasPrefix(s, `\b`) || strings.HasPrefix(s, `\s`)
						rev := strings.HasSuffix(s, " ") || strings.HasSuffix(s, `\b`) || strings.HasSuffix(s, `\s`) || strings.HasSuffix(s, `\s+`)
						desc = fmt.Sprintf("%q", s)
						if delim && rev {
							stt = holds
						} else if stt != holds {
							stt = broken
						}
					}
				})
			}
			for _, a := range pc.atoms() {
				if a.Neg || a.Disj {
					continue
				}
				consider(a.Atom)
				// equality with a whitespace-split field is also a token match
				if a.Atom.isBin("==") && (a.Atom.Args[0].isConst(`"`+word+`"`) || a.Atom.Args[1].isConst(`"`+word+`"`)) {
					stt = holds
				}
			}
			// the flag may also be assigned the test's result directly
			if v := ltb.T(st.Val); v.Op != "const" {
				consider(v)
				if v.isBin("==") && (v.Args[0].isConst(`"`+word+`"`) || v.Args[1].isConst(`"`+word+`"`)) {
					stt = holds
				}
			}
			c.judge(stt, "TABLE", "LOCUS topology '"+word+"' matched as a whole token", st.Pos(), "pattern "+desc+" is delimited on both sides", "Locus."+strings.TrimPrefix(p[0], ".")+" is set when the LOCUS line merely contains "+desc+": a locus name containing the word sets the wrong topology")
		})
	}

	checkReferenceHead(c, parse)
	// ---- WRAPPERS
	checkReturnIs(c, "WRAPPERS", "Read", w.fn("io/genbank", "Read"), 0, "call[poly/io/genbank.Parse](extract[0](call[os.ReadFile](param[0])))", "Read(path) = Parse(ReadFile(path))")
	checkReturnIs(c, "WRAPPERS", "ReadMulti", w.fn("io/genbank", "ReadMulti"), 0, "call[poly/io/genbank.ParseMulti](extract[0](call[os.ReadFile](param[0])))", "ReadMulti(path) = ParseMulti(ReadFile(path))")
	checkReturnIs(c, "WRAPPERS", "ReadFlat", w.fn("io/genbank", "ReadFlat"), 0, "call[poly/io/genbank.ParseFlat](extract[0](call[os.ReadFile](param[0])))", "ReadFlat(path) = ParseFlat(ReadFile(path))")
	checkReturnIs(c, "WRAPPERS", "ReadFlatGz", w.fn("io/genbank", "ReadFlatGz"), 0, "call[poly/io/genbank.ParseFlat](extract[0](call[io.ReadAll](extract[0](call[compress/gzip.NewReader](call[bytes.NewReader](extract[0](call[os.ReadFile](param[0]))))))))", "ReadFlatGz(path) = ParseFlat(gunzip(ReadFile(path)))")
	checkReturnIs(c, "WRAPPERS", "ParseFlat", w.fn("io/genbank", "ParseFlat"), 0, `call[poly/io/genbank.ParseMulti](conv[[]byte](call[strings.Join](slice(call[strings.Split](conv[string](param[0]), const["\n"]), const[10], nil), const["\n"])))`, "ParseFlat drops exactly the 10 header lines and hands the rest to ParseMulti")
	if pm := w.fn("io/genbank", "ParseMulti"); pm != nil {
		c.useFn(pm)
		ptb := newTB(pm)
		// the record separator: a Split/SplitAfter of the input by a constant
		var sepCall *Term
		eachInstr(pm, func(i ssa.Instruction) {
			if cl, ok := i.(*ssa.Call); ok {
				n := calleeName(cl)
				if n == "strings.SplitAfter" || n == "strings.Split" || n == "strings.SplitAfterN" || n == "strings.SplitN" {
					sepCall = ptb.T(cl)
				}
			}
		})
		stt := unknown
		why := "no split of the input by a constant record terminator found"
		if sepCall != nil {
			sep, okS := sepCall.Args[1].constStr()
			src := sepCall.Args[0].String()
			switch {
			case !okS || src != "conv[string](param[0])":
				why = "the input is split as " + short(sepCall.String())
			case sepCall.Name == "strings.SplitAfter" && sep != "//\n":
				stt, why = broken, fmt.Sprintf("records are split after %q; the terminator is \"//\" at the end of a line", sep)
			case sepCall.Name != "strings.SplitAfter":
				why = "records are split with " + sepCall.Name
			default:
				// each piece, in order, goes through Parse and is appended
				nParse := 0
				okEach := false
				eachInstr(pm, func(i ssa.Instruction) {
					if cl, ok := i.(*ssa.Call); ok && calleeName(cl) == "poly/io/genbank.Parse" {
						nParse++
						a := ptb.T(cl.Call.Args[0])
						if a.Op == "conv" && (a.Args[0].Op == "each" || a.Args[0].Op == "index" || a.Args[0].Op == "zip") && strings.Contains(a.Args[0].String(), sepCall.String()) && inLoop(cl.Block()) {
							okEach = true
						}
					}
				})
				if nParse == 1 && okEach {
					stt = holds
				} else {
					why = fmt.Sprintf("%d Parse calls; each piece parsed in a loop: %v", nParse, okEach)
				}
			}
		}
		c.judge(stt, "WRAPPERS", "ParseMulti", pm.Pos(), "splits after every \"//\\n\" terminator and parses each piece in file order", why)
	} else {
		c.missing("WRAPPERS", "ParseMulti", "genbank.ParseMulti")
	}
}

func dedupe(s []string) []string {
	var out []string
	for i, x := range s {
		if i == 0 || x != s[i-1] {
			out = append(out, x)
		}
	}
	return out
}

// checkReferenceHead: the REFERENCE line's number is its first blank-delimited token and the range is the
// rest. The flat file separates them by one OR MORE blanks (NCBI writes one blank once the number has
// two digits), so splitting on anything but a single blank (or on white space generally) mis-reads records.
func checkReferenceHead(c *Ctx, parse *ssa.Function) {
	for _, f := range family(parse) {
		tb := newDeepTB(f)
		eachInstr(f, func(i ssa.Instruction) {
			st, ok := i.(*ssa.Store)
			if !ok {
				return
			}
			fa, ok := st.Addr.(*ssa.FieldAddr)
			if !ok || storeTarget(fa) != "Reference.Index" {
				return
			}
			c.useFn(f)
			v := tb.T(st.Val)
			state, why := unknown, "the reference number is "+short(v.String())
			if v.Op == "index" && v.Args[1].isConst("0") {
				sp := v.Args[0]
				switch {
				case sp.isCall("strings.Fields"):
					state = holds
				case sp.isCall("strings.Split") || sp.isCall("strings.SplitN"):
					if sep, isC := sp.Args[1].constStr(); isC {
						if sep == " " {
							state = holds
						} else {
							state, why = broken, fmt.Sprintf("the REFERENCE line is split on %q: a record that separates the number from its range by a single blank (as NCBI does for two-digit numbers) gets the whole text as its Index and an empty Range", sep)
						}
					}
				}
			}
			c.judge(state, "FIELDMAP-R", "REFERENCE number = first blank-delimited token", st.Pos(), "the reference number is the first token of the line split on single blanks", why)
		})
	}
}


// readsOnlyOneLine: v is computed with library string functions only, from ONE element of a list of lines
// (index(list, i) / each(list)) and from nothing else of that list: no slice of it, no call that is handed
// the list. Returns the list's term for the message.
func readsOnlyOneLine(v *Term) (bool, string) {
	list := ""
	multi, opaque := false, false
	var walk func(t *Term, parent *Term)
	walk = func(t *Term, parent *Term) {
		if t == nil {
			return
		}
		switch t.Op {
		case "call":
			if !strings.HasPrefix(t.Name, "strings.") && !strings.HasPrefix(t.Name, "bytes.") && !strings.HasPrefix(t.Name, "builtin:") {
				opaque = true
			}
		case "phi", "rec", "anyof", "alloc", "freevar", "unknown", "deref", "field", "global", "lookup":
			opaque = true
		}
		if (t.Op == "each" || t.Op == "index") && len(t.Args) > 0 && t.Args[0].isCall("strings.Split") && len(t.Args[0].Args) == 2 && (t.Args[0].Args[1].isConst(`"\n"`) || t.Args[0].Args[1].isConst("\"\\n\"")) {
			list = t.Args[0].String()
		}
		for _, a := range t.Args {
			walk(a, t)
		}
	}
	walk(v, nil)
	if list == "" || opaque {
		return false, list
	}
	// any occurrence of the list that is not the operand of each/index reads more than one line
	var occ func(t *Term, parent *Term)
	occ = func(t *Term, parent *Term) {
		if t == nil {
			return
		}
		if t.String() == list {
			if parent == nil || !((parent.Op == "each" || parent.Op == "index") && parent.Args[0] == t) {
				multi = true
			}
			return
		}
		for _, a := range t.Args {
			occ(a, t)
		}
	}
	occ(v, nil)
	return !multi, list
}
