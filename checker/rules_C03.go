package main

// C03 GenBank write-then-read is the identity and writing is deterministic.

import (
	"fmt"
	"sort"
	"strings"

	"golang.org/x/tools/go/ssa"
)

func init() { register("C03", ruleC03) }

func ruleC03(c *Ctx) {
	c.Decided = []string{
		"MAPORDER: genbank.Build and BuildFeatureString emit no text in map iteration order",
		"FIELDMAP-W: every field the reader fills is read by the writer and emitted under the keyword the reader dispatches on (incl. the two-space sub-keyword indent); each optional reference line depends only on its own field being non-empty; exceptions: Reference.Index (regenerated as ordinal), Locus.SequenceCoding (literal bp), Feature.ParentSequence (link)",
		"LAYOUT: key field padded to 12 = continuation indent; feature key at column 5, padded to 16, location/qualifiers at column 21; qualifier lines are 21 spaces + /key=\"value\"; ORIGIN 60 per line, 10 per block, number right-aligned in 9; terminator //; FEATURES header before the first feature; wrap width <= 80-12",
		"TERM: location is the cached text when non-empty else BuildLocationString(SequenceLocation)",
		"NOSHARED: Build and its helpers use no package-level mutable state (two Build results never share memory)",
		"WRAPPERS: Write = WriteFile(path, Build(x)) truncating; Read = Parse(ReadFile(path)); C01's and C02's rules are the read side",
	}
	c.Undec = []string{"equality of Parse(Build(x)) for all x (needs the undecided scanner of C01)", "that 68-column word-wrap followed by trim-and-rejoin is the identity on long metadata (depends on the text's own spacing)"}
	c.Trusted = []string{"github.com/mitchellh/go-wordwrap", "GenBank flat-file column conventions as encoded in rules_C03.go"}
	c.floor("MAPORDER", 2)
	c.floor("FIELDMAP-W", 14)
	c.floor("LAYOUT", 6)
	c.floor("TERM", 1)
	c.floor("WRAPPERS", 2)
	c.floor("NOSHARED", 1)
	w := c.W
	build := w.fn("io/genbank", "Build")
	bms := w.fn("io/genbank", "buildMetaString")
	bfs := w.fn("io/genbank", "BuildFeatureString")
	gws := w.fn("io/genbank", "generateWhiteSpace")
	if build == nil || bms == nil || bfs == nil {
		c.missing("FIELDMAP-W", "genbank.Build/buildMetaString/BuildFeatureString", "GenBank writer functions")
		return
	}
	for _, f := range []*ssa.Function{build, bms, bfs} {
		c.useFn(f)
	}
	var reach []*ssa.Function
	for _, f := range funcsSorted(reachable(build)) {
		if inModule(f) && f.Blocks != nil {
			reach = append(reach, f)
		}
	}
	checkMapOrder(c, "MAPORDER", reach)
	checkNoShared(c, "NOSHARED", "Build and helpers", reach, map[string]string{})
	// the spaces helper
	spaces := func(n string) string { return "call[poly/io/genbank.generateWhiteSpace](" + n + ")" }
	if gws != nil {
		c.useFn(gws)
		gtb := newTB(gws)
		rt, _, ok := singleReturnTerm(gws, 0)
		good := false
		if ok && (rt.isCall("(*strings.Builder).String") || rt.isCall("(*bytes.Buffer).String")) {
			ws := bufWrites(gws, gtb, rt.Args[0].String())
			if len(ws) == 1 && ws[0].arg.isConst(`" "`) {
				// in a counted loop i = 0..n-1
				hdr := enclosingLoopHeader(ws[0].call.Block())
				if hdr != nil {
					if ifi, ok := hdr.Instrs[len(hdr.Instrs)-1].(*ssa.If); ok {
						g := gtb.T(ifi.Cond)
						if g.isBin("<") && g.Args[1].isParam(0) {
							if ph, ok := g.Args[0].V.(*ssa.Phi); ok {
								init0, step := false, false
								for _, e := range ph.Edges {
									et := gtb.T(e)
									if et.isConst("0") {
										init0 = true
									} else if b, k := et.linear(); b != nil && b.V == ssa.Value(ph) && k == 1 {
										step = true
									}
								}
								good = init0 && step
							}
						}
					}
				}
			}
		}
		c.check(good, "LAYOUT", "generateWhiteSpace(n) = n spaces", gws.Pos(), "one space per i = 0..n-1", "generateWhiteSpace does not return exactly n spaces")
	} else {
		c.missing("LAYOUT", "generateWhiteSpace", "genbank.generateWhiteSpace")
	}

	// ---------------- Build
	tb := newTB(build)
	rt, _, okR := singleReturnTerm(build, 0)
	if !okR || !rt.isCall("(*bytes.Buffer).Bytes") {
		c.bad("FIELDMAP-W", "Build:buffer", build.Pos(), "Build does not return the bytes of one local buffer (unrecognised shape)")
		return
	}
	if a, ok := rt.Args[0].V.(*ssa.Alloc); !ok || a.Parent() != build {
		c.bad("NOSHARED", "Build:own buffer", build.Pos(), "the returned bytes do not come from a buffer allocated by this call")
	}
	buf := rt.Args[0].String()
	ws := bufWrites(build, tb, buf)
	meta := "field[Meta](param[0])"
	ref := "each(field[References](" + meta + "))"
	type kwWrite struct {
		kw, val string
		wr      bufWrite
	}
	var kws []kwWrite
	var consts []string
	var constPos = map[string]int{}
	var featIdx, locusIdx = -1, -1
	for i, wr := range ws {
		a := wr.arg
		if a.isCall("poly/io/genbank.buildMetaString") {
			k, _ := a.Args[0].constStr()
			if k == "" {
				k = "<" + a.Args[0].String() + ">"
			}
			kws = append(kws, kwWrite{k, a.Args[1].String(), wr})
			continue
		}
		if s, ok := a.constStr(); ok {
			consts = append(consts, s)
			constPos[s] = i
			continue
		}
		if a.isCall("poly/io/genbank.BuildFeatureString") {
			featIdx = i
			c.check(a.Args[0].String() == "each(field[Features](param[0]))", "FIELDMAP-W", "every feature written, in order", wr.call.Pos(), "BuildFeatureString(feature) for each feature of the sequence", "features written are "+short(a.Args[0].String()))
			continue
		}
		if parts := a.sumTerms(); len(parts) > 3 && parts[0].isConst(`"LOCUS       "`) {
			locusIdx = i
			var flds []string
			for _, p := range parts {
				p.walk(func(x *Term) {
					if x.Op == "field" && len(x.Args) == 1 && x.Args[0].String() == "field[Locus]("+meta+")" {
						flds = append(flds, x.Name)
					}
				})
			}
			sort.Strings(flds)
			flds = dedupe(flds)
			wantL := []string{"GenbankDivision", "ModificationDate", "MoleculeType", "Name", "SequenceLength"}
			// shape: phi over "circular"/"linear" decided by Locus.Circular / Locus.Linear
			shapeOK := a.contains(func(x *Term) bool { return x.isConst(`"circular"`) }) && a.contains(func(x *Term) bool { return x.isConst(`"linear"`) })
			c.check(strings.Join(flds, ",") == strings.Join(wantL, ",") && shapeOK && parts[len(parts)-1].isConst(`"\n"`), "FIELDMAP-W", "LOCUS line carries name, length, molecule type, topology, division, date", wr.call.Pos(), "all six LOCUS items the reader extracts are written (SequenceCoding is the literal bp)", fmt.Sprintf("LOCUS line uses Locus fields %v (topology words present: %v)", flds, shapeOK))
			c.check(parts[0].isConst(`"LOCUS       "`), "LAYOUT", "LOCUS keyword padded to 12 columns", wr.call.Pos(), "\"LOCUS\" + 7 spaces", "LOCUS keyword field is not 12 columns wide")
		}
	}
	if locusIdx != 0 {
		c.bad("FIELDMAP-W", "LOCUS line first", build.Pos(), "the LOCUS line is not the first thing written")
	}
	wantKW := []struct{ kw, val, name string }{
		{"DEFINITION", "field[Definition](" + meta + ")", "Definition"},
		{"ACCESSION", "field[Accession](" + meta + ")", "Accession"},
		{"VERSION", "field[Version](" + meta + ")", "Version"},
		{"KEYWORDS", "field[Keywords](" + meta + ")", "Keywords"},
		{"SOURCE", "field[Source](" + meta + ")", "Source"},
		{"  ORGANISM", "field[Organism](" + meta + ")", "Organism"},
		{"  AUTHORS", "field[Authors](" + ref + ")", "Reference.Authors"},
		{"  TITLE", "field[Title](" + ref + ")", "Reference.Title"},
		{"  JOURNAL", "field[Journal](" + ref + ")", "Reference.Journal"},
		{"  PUBMED", "field[PubMed](" + ref + ")", "Reference.PubMed"},
		{"  REMARK", "field[Remark](" + ref + ")", "Reference.Remark"},
	}
	for _, wk := range wantKW {
		var hit *kwWrite
		for i := range kws {
			if kws[i].kw == wk.kw {
				hit = &kws[i]
			}
		}
		if hit == nil {
			c.bad("FIELDMAP-W", wk.name+" written under "+strings.TrimSpace(wk.kw), build.Pos(), fmt.Sprintf("the reader fills %s from the %q block but the writer never emits it: the value is lost by write-then-read", wk.name, strings.TrimSpace(wk.kw)))
			continue
		}
		good := hit.val == wk.val
		why := fmt.Sprintf("keyword %q carries %s; want %s", wk.kw, short(hit.val), wk.val)
		// an optional line may depend only on its own field
		pc := pathCond(tb, build.Blocks[0], hit.wr.call.Block())
		for _, a := range pc.atoms() {
			as := a.Atom.String()
			if strings.HasPrefix(as, "binop[<](binop[+](const[1], phi") || strings.HasPrefix(as, "extract[0](next(range(") {
				continue
			}
			if !strings.Contains(as, wk.val) {
				good = false
				why = fmt.Sprintf("the %q line is written only under the unrelated condition %s: it is dropped when another field is empty", strings.TrimSpace(wk.kw), short(as))
			}
		}
		c.check(good, "FIELDMAP-W", wk.name+" written under "+strings.TrimSpace(wk.kw), hit.wr.call.Pos(), "same keyword as the reader's case, value = the field, optional only on its own emptiness", why)
	}
	// REFERENCE header and Other
	var okRefHdr, okOther bool
	for _, k := range kws {
		if k.kw == "REFERENCE" {
			okRefHdr = strings.HasPrefix(k.val, "binop[+](binop[+](call[strconv.Itoa](") && strings.HasSuffix(k.val, `const["  "]), field[Range](`+ref+`))`)
		}
		if strings.HasPrefix(k.kw, "<") {
			keys := strings.TrimSuffix(strings.TrimPrefix(k.kw, "<"), ">")
			okOther = strings.Contains(keys, "field[Other]("+meta+")") && k.val == "lookup(field[Other]("+meta+"), "+keys+")"
		}
	}
	c.check(okRefHdr, "FIELDMAP-W", "REFERENCE header = ordinal + Range", build.Pos(), "REFERENCE <n>  <range> for every reference in order", "the REFERENCE line is not Itoa(index+1) + two spaces + reference.Range")
	c.check(okOther, "FIELDMAP-W", "Other[keyword] written under its keyword", build.Pos(), "every extra keyword block is written back under its own key", "Meta.Other is not written as buildMetaString(key, Other[key]) for every key")
	// constants and order
	fh, hasFH := constPos["FEATURES             Location/Qualifiers\n"]
	oh, hasOH := constPos["ORIGIN\n"]
	tm, hasTM := constPos["\n//"]
	okOrder := hasFH && hasOH && hasTM && featIdx >= 0
	if okOrder {
		FH, FE, OH, TM := ws[fh].call, ws[featIdx].call, ws[oh].call, ws[tm].call
		okOrder = domInstr(FH, FE) && domInstr(FH, OH) && !reaches(OH.Block(), FE.Block()) && domInstr(OH, TM)
		// nothing is written after the terminator
		for _, wr := range ws {
			if wr.call != TM && (domInstr(TM, wr.call) || reaches(TM.Block(), wr.call.Block())) {
				okOrder = false
			}
		}
	}
	c.check(okOrder, "LAYOUT", "FEATURES header < features < ORIGIN < // terminator", build.Pos(), "section order and the \"//\" record terminator, nothing after it", fmt.Sprintf("section markers present: FEATURES=%v ORIGIN=%v //=%v; order/terminator-last ok=%v", hasFH, hasOH, hasTM, okOrder))
	// ORIGIN blocks: conditions index%60==0, index%10==0; number right aligned in 9
	idx := "extract[1](next(range(field[Sequence](param[0]))))"
	var has60, has10, has9, hasNum, baseEvery bool
	eachInstr(build, func(i ssa.Instruction) {
		if ifi, ok := i.(*ssa.If); ok {
			s := tb.T(ifi.Cond).String()
			if s == "binop[==](binop[%]("+idx+", const[60]), const[0])" {
				has60 = true
			}
			if s == "binop[==](binop[%]("+idx+", const[10]), const[0])" {
				has10 = true
			}
			if strings.Contains(s, "binop[-](const[9], call[builtin:len](call[strconv.Itoa](binop[+](const[1], "+idx+"))))") {
				has9 = true
			}
		}
	})
	nBase := 0
	for _, wr := range ws {
		if wr.arg.String() == "binop[+](call[strconv.Itoa](binop[+](const[1], "+idx+")), const[\" \"])" {
			hasNum = true
		}
		if wr.arg.String() == "extract[2](next(range(field[Sequence](param[0]))))" {
			nBase++
		}
	}
	// each base is written exactly once on every path through the loop body: three mutually exclusive sites
	baseEvery = nBase == 3
	c.check(has60 && has10 && has9 && hasNum && baseEvery, "LAYOUT", "ORIGIN: 60 per line, 10 per block, 1-based number right-aligned in 9", build.Pos(), "line break and number every 60 bases, a space every 10, every base written once", fmt.Sprintf("60-per-line=%v 10-per-block=%v width-9=%v number=Itoa(index+1)=%v every-base-once=%v", has60, has10, has9, hasNum, baseEvery))

	// ---------------- buildMetaString
	mtb := newTB(bms)
	mrt, _, okM := singleReturnTerm(bms, 0)
	goodPad, goodIndent, goodWrap := false, false, false
	var indentN int64 = -1
	if okM {
		eachInstr(bms, func(i ssa.Instruction) {
			if ifi, ok := i.(*ssa.If); ok {
				if strings.HasSuffix(mtb.T(ifi.Cond).String(), "binop[-](const[12], call[builtin:len](param[0])))") {
					goodPad = true
				}
			}
		})
		mrt.walk(func(x *Term) {
			if x.isCall("poly/io/genbank.generateWhiteSpace") {
				if k, ok := x.Args[0].constInt(); ok {
					indentN = k
				}
			}
			if x.isCall("github.com/mitchellh/go-wordwrap.WrapString") {
				if k, ok := x.Args[1].constInt(); ok && k <= 68 && x.Args[0].isParam(1) {
					goodWrap = true
				}
			}
		})
		goodIndent = indentN == 12
	}
	c.check(goodPad, "LAYOUT", "keyword padded to column 12", bms.Pos(), "12 - len(keyword) spaces follow the keyword", "the keyword field is not padded to 12 columns")
	c.check(goodIndent, "LAYOUT", "continuation lines indented by 12", bms.Pos(), "wrapped lines start in the data column", fmt.Sprintf("continuation lines are indented by %d spaces under a 12-column keyword field: a column-strict reader (line[12:]) loses the first letter of every wrapped line", indentN))
	c.check(goodWrap, "LAYOUT", "wrap width <= 68", bms.Pos(), "12 + 68 = 80 columns", "metadata is not wrapped at <= 68 columns")

	// ---------------- BuildFeatureString
	frt, _, okF := singleReturnTerm(bfs, 0)
	if !okF {
		c.bad("LAYOUT", "feature lines", bfs.Pos(), "BuildFeatureString has several returns (unrecognised shape)")
	} else {
		var hdr, qual []*Term
		for _, l := range phiLeaves(frt) {
			parts := l.sumTerms()
			if len(parts) >= 5 && parts[0].String() == spaces("const[5]") {
				hdr = parts
			} else {
				// rec + (spaces(21) + "/" + k + "=\"" + v + "\"\n")
				n := len(parts)
				if n >= 6 {
					qual = parts[n-6:]
				}
			}
		}
		okHdr := len(hdr) == 5 && hdr[1].String() == "field[Type](param[0])" && hdr[2].String() == spaces("binop[-](const[16], call[builtin:len](field[Type](param[0])))") && hdr[4].isConst(`"\n"`)
		c.check(okHdr, "LAYOUT", "feature key at column 5, location at column 21", bfs.Pos(), "5 spaces + key + (16-len(key)) spaces + location", "the feature header line is not 5 spaces + Type padded to 16 + location + newline")
		okLoc := false
		if len(hdr) == 5 {
			var lv []string
			for _, l := range phiLeaves(hdr[3]) {
				lv = append(lv, l.String())
			}
			sort.Strings(lv)
			okLoc = len(lv) == 2 && lv[0] == "call[poly/io/genbank.BuildLocationString](field[SequenceLocation](param[0]))" && lv[1] == "field[GbkLocationString](param[0])"
			// the cached text is used exactly when non-empty
			if ph, ok := hdr[3].V.(*ssa.Phi); ok && okLoc {
				ftb := newTB(bfs)
				for i, e := range ph.Edges {
					pc := pathCond(ftb, bfs.Blocks[0], ph.Block().Preds[i])
					cached := ftb.T(e).String() == "field[GbkLocationString](param[0])"
					if cached != pc.implies(`binop[!=](const[""], field[GbkLocationString](param[0]))`, false) {
						okLoc = false
					}
				}
			}
		}
		c.check(okLoc, "TERM", "location = cached text if non-empty else BuildLocationString(SequenceLocation)", bfs.Pos(), "a programmatically built feature gets its location printed from the structure", "the location column is not {GbkLocationString when non-empty, else BuildLocationString(SequenceLocation)}")
		okQ := len(qual) == 6 && qual[0].String() == spaces("const[21]") && qual[1].isConst(`"/"`) && qual[3].isConst(`"=\""`) && qual[5].isConst(`"\"\n"`) && qual[4].Op == "lookup" && qual[4].Args[0].String() == "field[Attributes](param[0])" && qual[4].Args[1].String() == qual[2].String()
		c.check(okQ, "LAYOUT", "qualifier line = 21 spaces + /key=\"value\"", bfs.Pos(), "one line per qualifier, value quoted, from Attributes[key]", "qualifier lines are not 21 spaces + \"/\" + key + \"=\\\"\" + Attributes[key] + \"\\\"\\n\"")
	}
	// ---------------- WRAPPERS
	checkReturnIs(c, "WRAPPERS", "Read", w.fn("io/genbank", "Read"), 0, "call[poly/io/genbank.Parse](extract[0](call[io/ioutil.ReadFile](param[0])))", "Read(path) = Parse(ReadFile(path))")
	checkFileWrite(c, "WRAPPERS", "Write", w.fn("io/genbank", "Write"), 1, "call[poly/io/genbank.Build](param[0])")
}
