package main

// C03 GenBank write-then-read is the identity and writing is deterministic.

import (
	"fmt"
	"sort"
	"strings"

	"golang.org/x/tools/go/ssa"
)

func init() { register("C03", ruleC03) }

func ruleC03(c *Ctx) {
	c.Decided = []string{
		"MAPORDER: genbank.Build and BuildFeatureString emit no text in map iteration order",
		"FIELDMAP-W: every field the reader fills is written, somewhere in Build's family, under the keyword the reader dispatches on (incl. the two-space sub-keyword indent) and carries that very field; an optional line depends only on its own field; the LOCUS line carries name, length, molecule type, topology, division and date; REFERENCE header = ordinal + Range; Other[k] under k; every feature written",
		"LAYOUT: constants audit – keyword pad width = continuation indent = 12, wrap width <= 68, feature columns 5/16/21, qualifier line = indent + /key=\"value\", ORIGIN 60 per line / 10 per block / number = index+1 right-aligned in 9, FEATURES header and // terminator constants, the spaces helper returns n spaces",
		"TERM: location is the cached text when non-empty else BuildLocationString(SequenceLocation)",
		"HAZARDS: no sort of map-derived keys by a non-injective key; no writer loop that leaves at the first empty value; no value cut at a fixed column into continuation lines; no keyword written with a constant; Build* do not modify the record; C02 location printer/parser rules re-run",
		"NOSHARED: Build and its helpers use no package-level mutable state and return their own buffer",
		"WRAPPERS: Write = WriteFile(path, Build(x)) truncating; Read = Parse(ReadFile(path)); C01's and C02's rules are the read side",
	}
	c.Undec = []string{"equality of Parse(Build(x)) for all x (needs the undecided scanner of C01)", "that 68-column word-wrap followed by trim-and-rejoin is the identity on long metadata (depends on the text's own spacing)", "the relative order of sections when the writer is restructured"}
	c.Trusted = []string{"github.com/mitchellh/go-wordwrap", "GenBank flat-file column conventions as encoded in rules_C03.go"}
	c.floor("MAPORDER", 2)
	c.floor("FIELDMAP-W", 12)
	c.floor("LAYOUT", 5)
	c.floor("WRAPPERS", 2)
	c.floor("NOSHARED", 3)
	w := c.W
	build := w.fn("io/genbank", "Build")
	bfs := w.fn("io/genbank", "BuildFeatureString")
	if build == nil || bfs == nil {
		c.missing("FIELDMAP-W", "genbank.Build/BuildFeatureString", "exported GenBank writer functions")
		return
	}
	fam := family(build)
	for _, f := range fam {
		c.useFn(f)
	}
	checkMapOrder(c, "MAPORDER", fam)
	checkNoShared(c, "NOSHARED", "Build and helpers", fam, map[string]string{})
	writerLoopHazards(c, "FIELDMAP-W", fam)
	for _, root := range []*ssa.Function{build, c.W.fn("io/genbank", "BuildFeatureString"), c.W.fn("io/genbank", "BuildLocationString")} {
		if root != nil {
			ws := apiArgWrites(root)
			c.check(len(ws) == 0, "NOSHARED", root.Name()+" does not modify the record it writes", root.Pos(), "no store reaches memory the caller still holds", "writing changes the record: "+strings.Join(ws, "; ")+": a second write, or a later GetSequence, sees altered data")
		}
	}
	// feature locations are part of the record: the location printer and parser rules of C02 are prerequisites
	if bl, pl := c.W.fn("io/genbank", "BuildLocationString"), c.W.fn("io/genbank", "parseLocation"); bl != nil {
		checkLocationPrinter(c, bl, pl)
		if pl != nil {
			checkLocationParser(c, pl)
		}
	}
	// the returned bytes come from a buffer this call allocated
	{
		tb := newTB(build)
		ownBuf := unknown
		for _, a := range resultAlts(tb, build, 0) {
			t := a.T
			if (t.isCall("(*bytes.Buffer).Bytes") || (t.Op == "conv" && len(t.Args) == 1)) && ownBuf != broken {
				x := t.Args[0]
				if x.isCall("(*strings.Builder).String") {
					x = x.Args[0]
				}
				if al, ok := x.V.(*ssa.Alloc); ok && al.Parent() == build {
					ownBuf = holds
				} else if x.contains(func(y *Term) bool { return y.Op == "global" || y.isCall("(*sync.Pool).Get") }) {
					ownBuf = broken
				}
			}
		}
		c.judge(ownBuf, "NOSHARED", "Build returns its own buffer", build.Pos(), "the result's memory is allocated by this call", "the returned bytes alias a buffer that outlives the call (pool / package state): a later Build overwrites an earlier result")
	}

	// ---------------- keyword writes across the family
	// The metadata-line helper, by role: the module function called with the constant "DEFINITION".
	var metaFn *ssa.Function
	for _, f := range fam {
		tb := newTB(f)
		eachInstr(f, func(i ssa.Instruction) {
			if cl, ok := i.(*ssa.Call); ok && len(cl.Call.Args) >= 2 {
				if g := cl.Call.StaticCallee(); g != nil && inModule(g) && tb.T(cl.Call.Args[0]).isConst(`"DEFINITION"`) {
					metaFn = g
				}
			}
		})
	}
	type kwWrite struct {
		kw   string
		val  *Term
		call *ssa.Call
		tb   *TermBuilder
		fn   *ssa.Function
	}
	var kws []kwWrite
	dynamic := 0
	if metaFn != nil {
		for _, f := range fam {
			tb := newTB(f)
			eachInstr(f, func(i ssa.Instruction) {
				cl, ok := i.(*ssa.Call)
				if !ok || cl.Call.StaticCallee() != metaFn {
					return
				}
				k, isC := tb.T(cl.Call.Args[0]).constStr()
				v := tb.T(cl.Call.Args[1])
				if !isC {
					kt := tb.T(cl.Call.Args[0])
					if kt.contains(func(x *Term) bool { return x.isField("Other") }) {
						k = "<other>"
					} else {
						dynamic++
						return
					}
				}
				kws = append(kws, kwWrite{k, v, cl, tb, f})
			})
		}
	}
	if metaFn == nil || len(kws) == 0 {
		c.undecided("FIELDMAP-W", "keyword lines", build.Pos(), "no helper called with constant GenBank keywords found in Build's family")
	} else {
		lastField := func(t *Term) (string, *Term) {
			x := t
			for x != nil && x.Op == "phi" && len(x.Args) == 1 {
				x = x.Args[0]
			}
			if x != nil && x.Op == "field" {
				return x.Name, x.Args[0]
			}
			return "", nil
		}
		wantKW := []struct{ kw, field, owner, name string }{
			{"DEFINITION", "Definition", "Meta", "Definition"},
			{"ACCESSION", "Accession", "Meta", "Accession"},
			{"VERSION", "Version", "Meta", "Version"},
			{"KEYWORDS", "Keywords", "Meta", "Keywords"},
			{"SOURCE", "Source", "Meta", "Source"},
			{"  ORGANISM", "Organism", "Meta", "Organism"},
			{"  AUTHORS", "Authors", "Reference", "Reference.Authors"},
			{"  TITLE", "Title", "Reference", "Reference.Title"},
			{"  JOURNAL", "Journal", "Reference", "Reference.Journal"},
			{"  PUBMED", "PubMed", "Reference", "Reference.PubMed"},
			{"  REMARK", "Remark", "Reference", "Reference.Remark"},
		}
		refFields := map[string]bool{"Authors": true, "Title": true, "Journal": true, "PubMed": true, "Remark": true}
		for _, wk := range wantKW {
			var hit *kwWrite
			for i := range kws {
				if kws[i].kw == wk.kw {
					hit = &kws[i]
				}
			}
			key := wk.name + " written under " + strings.TrimSpace(wk.kw)
			if hit == nil {
				// a differently indented spelling of the same keyword is positive evidence
				var near *kwWrite
				for i := range kws {
					if strings.TrimSpace(kws[i].kw) == strings.TrimSpace(wk.kw) {
						near = &kws[i]
					}
				}
				switch {
				case near != nil:
					c.bad("FIELDMAP-W", key, near.call.Pos(), fmt.Sprintf("the writer spells the keyword %q; the reader's dispatch needs %q (sub-keywords are indented by two spaces, top-level ones are not)", near.kw, wk.kw))
				case dynamic == 0 && len(kws) >= 6:
					c.bad("FIELDMAP-W", key, build.Pos(), fmt.Sprintf("the reader fills %s from the %q block but the writer, which emits %d other keyword lines, never emits this one: the value is lost by write-then-read", wk.name, strings.TrimSpace(wk.kw), len(kws)))
				default:
					c.undecided("FIELDMAP-W", key, build.Pos(), "no line with that constant keyword found (keywords may be written through a table)")
				}
				continue
			}
			fld, _ := lastField(hit.val)
			stt := holds
			why := ""
			switch {
			case fld == "" && hit.val.Op == "const":
				stt, why = broken, fmt.Sprintf("keyword %q is written with the constant %s instead of %s: the value is lost by write-then-read", wk.kw, hit.val.Name, wk.name)
			case fld == "":
				stt, why = unknown, "the value written is "+short(hit.val.String())
			case fld != wk.field:
				stt, why = broken, fmt.Sprintf("keyword %q carries the field %s; the reader stores that block into %s", wk.kw, fld, wk.field)
			}
			if stt == holds {
				// optional only on its own field
				pc := pathCond(hit.tb, hit.fn.Blocks[0], hit.call.Block())
				for _, a := range pc.atoms() {
					a.Atom.walk(func(x *Term) {
						if x.Op == "field" && refFields[x.Name] && x.Name != wk.field && wk.owner == "Reference" {
							stt, why = broken, fmt.Sprintf("the %s line is written only under a condition on Reference.%s: it is dropped when that other field is empty", strings.TrimSpace(wk.kw), x.Name)
						}
					})
				}
			}
			c.judge(stt, "FIELDMAP-W", key, hit.call.Pos(), "same keyword as the reader's case, value = the field, optional only on its own emptiness", why)
		}
		// REFERENCE header and Other
		refSt, othSt := unknown, unknown
		refWhy := "no REFERENCE line found"
		for _, k := range kws {
			if k.kw == "REFERENCE" {
				ps, _ := k.tb.pieces(k.val)
				refWhy = "REFERENCE line is " + short(piecesString(ps))
				if len(ps) == 3 && ps[0].isCall("strconv.Itoa") && ps[2].isField("Range") {
					bb, kk := ps[0].Args[0].linear()
					if sep, ok := ps[1].constStr(); ok && strings.TrimSpace(sep) == "" && len(sep) >= 1 && bb != nil && bb.Op == "rangeidx" {
						if kk == 1 {
							refSt = holds
						} else {
							refSt, refWhy = broken, fmt.Sprintf("references are numbered from index%+d; GenBank numbers them from 1", kk)
						}
					}
				}
			}
			if k.kw == "<other>" {
				if k.val.Op == "lookup" && k.val.Args[0].isField("Other") && k.val.Args[1].String() == k.tb.T(k.call.Call.Args[0]).String() {
					othSt = holds
				}
			}
		}
		c.judge(refSt, "FIELDMAP-W", "REFERENCE header = ordinal + Range", build.Pos(), "REFERENCE <n>  <range> for every reference in order", refWhy)
		c.judge(othSt, "FIELDMAP-W", "Other[keyword] written under its keyword", build.Pos(), "every extra keyword block is written back under its own key", "Meta.Other is not visibly written as helper(key, Other[key]) for every key")
	}
	// LOCUS line: all fields of Meta.Locus that are read somewhere in the family
	{
		used := map[string]bool{}
		words := map[string]bool{}
		for _, f := range fam {
			tb := newTB(f)
			eachInstr(f, func(i ssa.Instruction) {
				if v, ok := i.(ssa.Value); ok {
					t := tb.T(v)
					if t.Op == "field" && len(t.Args) == 1 && t.Args[0].isField("Locus") {
						used[t.Name] = true
					}
					if s, ok := t.constStr(); ok && (s == "circular" || s == "linear") {
						words[s] = true
					}
				}
				for _, op := range i.Operands(nil) {
					if op != nil && *op != nil {
						if cst, ok := (*op).(*ssa.Const); ok {
							if s, ok := tb.T(cst).constStr(); ok && (s == "circular" || s == "linear") {
								words[s] = true
							}
						}
					}
				}
			})
		}
		var missing []string
		for _, f := range []string{"Name", "SequenceLength", "MoleculeType", "GenbankDivision", "ModificationDate"} {
			if !used[f] {
				missing = append(missing, f)
			}
		}
		if !(used["Circular"] && words["circular"]) {
			missing = append(missing, "Circular->\"circular\"")
		}
		if !(used["Linear"] && words["linear"]) {
			missing = append(missing, "Linear->\"linear\"")
		}
		st := holds
		if len(missing) > 0 {
			st = broken
			if len(used) == 0 {
				st = unknown
			}
		}
		c.judge(st, "FIELDMAP-W", "LOCUS line carries name, length, molecule type, topology, division, date", build.Pos(), "all LOCUS items the reader extracts are read by the writer (SequenceCoding is the literal bp)", "the writer never reads Locus."+strings.Join(missing, ", Locus.")+": that item is lost by write-then-read")
	}
	// every feature written
	{
		st := unknown
		for _, f := range fam {
			tb := newTB(f)
			eachInstr(f, func(i ssa.Instruction) {
				if cl, ok := i.(*ssa.Call); ok && cl.Call.StaticCallee() == bfs {
					a := tb.T(cl.Call.Args[0])
					if a.Op == "each" && a.Args[0].isField("Features") && inLoop(cl.Block()) {
						hdr := enclosingLoopHeader(cl.Block())
						if hdr != nil && len(hdr.Succs) == 2 && pathCond(tb, hdr.Succs[0], cl.Block()).Op == "true" {
							st = holds
						} else {
							st = broken
						}
					}
				}
			})
		}
		c.judge(st, "FIELDMAP-W", "every feature written, in order", build.Pos(), "BuildFeatureString(feature) for each feature, unconditionally", "some features are skipped by the writer")
	}

	// ---------------- LAYOUT: constants audit over the family (and the feature writer's family)
	all := append([]*ssa.Function{}, fam...)
	for _, f := range family(bfs) {
		dup := false
		for _, g := range all {
			if g == f {
				dup = true
			}
		}
		if !dup {
			all = append(all, f)
			c.useFn(f)
		}
	}
	audit := newLayoutAudit(c, all)
	audit.report(c, build, metaFn)

	// ---------------- TERM: cached-or-built location
	{
		ftb := newDeepTB(bfs, "poly/io/genbank.BuildLocationString")
		st := unknown
		why := "no value selected between the cached location text and BuildLocationString found"
		eachInstr(bfs, func(i ssa.Instruction) {
			ph, ok := i.(*ssa.Phi)
			if !ok || !isStringType(ph.Type()) || isCyclicPhi(ph) {
				return
			}
			var lv []string
			for _, l := range phiLeaves(ftb.T(ph)) {
				lv = append(lv, l.String())
			}
			sort.Strings(lv)
			if len(lv) == 2 && lv[0] == "call[poly/io/genbank.BuildLocationString](field[SequenceLocation](param[0]))" && lv[1] == "field[GbkLocationString](param[0])" {
				st = holds
				for k, e := range ph.Edges {
					pc := pathCond(ftb, bfs.Blocks[0], ph.Block().Preds[k])
					cached := ftb.T(e).String() == "field[GbkLocationString](param[0])"
					if cached && pc.implies(`binop[!=](const[""], field[GbkLocationString](param[0]))`, true) {
						st, why = broken, "the cached location text is used when it is empty and ignored when present"
					}
				}
			}
		})
		c.judge(st, "TERM", "location = cached text if non-empty else BuildLocationString(SequenceLocation)", bfs.Pos(), "a programmatically built feature gets its location printed from the structure", why)
	}
	// ---------------- WRAPPERS
	checkReturnIs(c, "WRAPPERS", "Read", w.fn("io/genbank", "Read"), 0, "call[poly/io/genbank.Parse](extract[0](call[os.ReadFile](param[0])))", "Read(path) = Parse(ReadFile(path))")
	checkFileWrite(c, "WRAPPERS", "Write", w.fn("io/genbank", "Write"), 1, "call[poly/io/genbank.Build](param[0])")
}

// writerLoopHazards: two ways a text writer loses data that are visible in its shape.
//
//	(1) a loop that writes one line per element of a list LEAVES the loop when an element's value is
//	    empty (break instead of continue): every later element is dropped.
//	(2) a value that is written as continuation lines is cut at a fixed column (s[:k], s[k:]) rather
//	    than at blanks: the reader re-joins continuation lines with a blank, so a long unbroken token
//	    comes back with a blank inside.
//
// One violation per site found; nothing is reported otherwise.
func writerLoopHazards(c *Ctx, rule string, fam []*ssa.Function) {
	for _, f := range fam {
		tb := newDeepTB(f)
		for _, b := range f.Blocks {
			ifi, ok := b.Instrs[len(b.Instrs)-1].(*ssa.If)
			if !ok {
				continue
			}
			hdr := enclosingLoopHeader(b)
			if hdr == nil || b == hdr {
				continue
			}
			inL := func(x *ssa.BasicBlock) bool { return x == hdr || (hdr.Dominates(x) && reaches(x, hdr)) }
			t := tb.T(ifi.Cond)
			// x == "" / len(x) == 0 on an element of the list being ranged over
			var elem *Term
			emptyOnTrue := true
			switch {
			case t.isBin("==") || t.isBin("!="):
				emptyOnTrue = t.isBin("==")
				for k := 0; k < 2; k++ {
					o := t.Args[1-k]
					if t.Args[k].isConst(`""`) {
						elem = o
					}
					if t.Args[k].isConst("0") && o.isCall("builtin:len") {
						elem = o.Args[0]
					}
				}
			}
			if elem == nil || !elem.contains(func(x *Term) bool { return x.Op == "each" || x.Op == "zip" }) {
				continue
			}
			emptySucc := b.Succs[0]
			if !emptyOnTrue {
				emptySucc = b.Succs[1]
			}
			if inL(emptySucc) {
				continue
			}
			// the loop writes lines
			writes := false
			for _, lb := range f.Blocks {
				if !inL(lb) {
					continue
				}
				for _, ins := range lb.Instrs {
					if ci, ok := ins.(ssa.CallInstruction); ok && (strings.Contains(calleeName(ci), ").Write") || calleeName(ci) == "builtin:append") {
						writes = true
					}
				}
			}
			if !writes {
				continue
			}
			if _, isRet := emptySucc.Instrs[len(emptySucc.Instrs)-1].(*ssa.Return); isRet && len(emptySucc.Instrs) == 1 {
				continue
			}
			c.bad(rule, "writer loop leaves at the first empty value in "+strings.TrimPrefix(fname(f), "poly/"), ifi.Cond.Pos(), "the loop that writes one item per element stops (break) when "+short(elem.String())+" is empty instead of skipping it: every later item - e.g. JOURNAL and PUBMED of a reference without TITLE - is silently dropped from the output")
		}
		// fixed-column cuts of a value into continuation lines
		eachInstr(f, func(i ssa.Instruction) {
			sl, ok := i.(*ssa.Slice)
			if !ok || !isStringType(sl.X.Type()) || !inLoop(sl.Block()) {
				return
			}
			if sl.High == nil {
				return
			}
			hi, isC := tb.T(sl.High).constInt()
			if !isC || hi < 20 || (sl.Low != nil && !tb.T(sl.Low).isConst("0")) {
				return
			}
			// the piece is kept as a line of its own (appended to a list / written)
			kept := false
			if sl.Referrers() != nil {
				for _, r := range *sl.Referrers() {
					switch x := r.(type) {
					case *ssa.Store:
						kept = kept || x.Val == ssa.Value(sl)
					case ssa.CallInstruction:
						kept = kept || strings.Contains(calleeName(x), ").Write")
					}
				}
			}
			// and the remainder continues from the same column
			rest := false
			eachInstr(f, func(j ssa.Instruction) {
				if s2, ok := j.(*ssa.Slice); ok && s2.X == sl.X && s2.High == nil && s2.Low != nil {
					if k, ok := tb.T(s2.Low).constInt(); ok && k == hi {
						rest = true
					}
				}
			})
			if kept && rest {
				c.bad(rule, "value cut at a fixed column in "+strings.TrimPrefix(fname(f), "poly/"), sl.Pos(), fmt.Sprintf("a line longer than %d characters is cut at column %d and continued on the next line: the reader joins continuation lines with a blank, so an unbroken token of that length (URL, cross-reference list) comes back with a blank inside it", hi, hi))
			}
		})
	}
}
