package main

// thorough.go: what the thorough tier adds on top of the quick rules.
//  (a) test files are loaded too (World.Tests) so whole-program ownership rules see every writer;
//  (b) the rules are re-run under other GOOS/GOARCH so no build-constrained file escapes;
//  (c) rule liveness: see selftest.go.

import (
	"fmt"
)

var extraPlatforms = [][2]string{{"linux", "386"}, {"windows", "amd64"}, {"darwin", "arm64"}}

func thoroughExtras(c *Ctx, run func(*Ctx), seed int64) {
	platforms := []string{"linux/amd64(default)"}
	for _, pl := range extraPlatforms {
		w2, err := loadWorld(c.W.Repo, true, pl[0], pl[1])
		name := pl[0] + "/" + pl[1]
		if err != nil {
			c.add("PLATFORM", name, VIOLATION, 0, "cannot load under "+name+": "+err.Error())
			continue
		}
		c2 := newCtx(w2, c.Prop, c.Tier)
		func() {
			defer func() {
				if r := recover(); r != nil {
					c2.add("PANIC", c.Prop, VIOLATION, 0, fmt.Sprint(r))
				}
			}()
			run(c2)
		}()
		// merge: only obligations that are not OK and not already present under the default platform
		have := map[string]Verdict{}
		for _, o := range c.Obs {
			have[o.Key] = o.Verdict
		}
		n := 0
		for _, o := range c2.Obs {
			n++
			if o.Verdict != OK && o.Verdict != UNDECIDED {
				if v, ok := have[o.Key]; ok && v != OK {
					continue // same finding as on the default platform
				}
				o2 := *o
				o2.Key = o.Key + "@" + name
				o2.Why = "[" + name + "] " + o.Why
				c.Obs = append(c.Obs, &o2)
				c.Counts[o2.Rule]++
			}
		}
		for r, fl := range c2.Floors {
			if c2.Counts[r] < fl {
				c.add("FLOOR", r+"@"+name, UNDECIDED, 0, fmt.Sprintf("rule %s matched %d < floor %d under %s", r, c2.Counts[r], fl, name))
			}
		}
		platforms = append(platforms, fmt.Sprintf("%s(%d obligations)", name, n))
	}
	c.Extra["platforms"] = platforms
	c.Extra["tests_loaded"] = true
	live := runLiveness(c.W.Repo, c.Prop, seed)
	if live != nil {
		c.Extra["liveness"] = live
	}
}
