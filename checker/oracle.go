package main

// oracle.go: frozen oracle tables, stored in a representation different from the repository's
// (DESIGN.md §6c). Nothing here is read from /repo.

import (
	"sort"
	"strings"
)

// ---------------------------------------------------------------------------
// NCBI genetic codes: standard code by codon family + per-table reassignments + start set.

// codon order used by NCBI gc.prt: TCAG for each position, first base slowest.
const ncbiBases = "TCAG"

func allCodonsNCBI() []string {
	var out []string
	for _, a := range ncbiBases {
		for _, b := range ncbiBases {
			for _, c := range ncbiBases {
				out = append(out, string([]rune{a, b, c}))
			}
		}
	}
	return out
}

// iupacSets: ambiguity code -> bases (bit-set style, as sorted string).
var iupacSets = map[byte]string{
	'A': "A", 'C': "C", 'G': "G", 'T': "T",
	'R': "AG", 'Y': "CT", 'S': "CG", 'W': "AT", 'K': "GT", 'M': "AC",
	'B': "CGT", 'D': "AGT", 'H': "ACT", 'V': "ACG", 'N': "ACGT",
}

func expandPattern(p string) []string {
	out := []string{""}
	for i := 0; i < len(p); i++ {
		var next []string
		for _, pre := range out {
			for _, b := range iupacSets[p[i]] {
				next = append(next, pre+string(b))
			}
		}
		out = next
	}
	return out
}

// standard code as families
var standardFamilies = map[byte][]string{
	'F': {"TTY"}, 'L': {"TTR", "CTN"}, 'S': {"TCN", "AGY"}, 'Y': {"TAY"}, '*': {"TAR", "TGA"},
	'C': {"TGY"}, 'W': {"TGG"}, 'P': {"CCN"}, 'H': {"CAY"}, 'Q': {"CAR"}, 'R': {"CGN", "AGR"},
	'I': {"ATH"}, 'M': {"ATG"}, 'T': {"ACN"}, 'N': {"AAY"}, 'K': {"AAR"}, 'V': {"GTN"},
	'A': {"GCN"}, 'D': {"GAY"}, 'E': {"GAR"}, 'G': {"GGN"},
}

func standardCode() map[string]byte {
	m := map[string]byte{}
	for aa, fams := range standardFamilies {
		for _, f := range fams {
			for _, c := range expandPattern(f) {
				m[c] = aa
			}
		}
	}
	return m
}

type ncbiCode struct {
	id       int
	reassign string // "AGA,AGG=* ATA=M"
	starts   string // "ATT ATC"
	ctxStops string // context-dependent stops: marked '*' in the start/stop line but keep a sense residue
}

var ncbiCodes = []ncbiCode{
	{1, "", "TTG CTG ATG", ""},
	{2, "AGA,AGG=* ATA=M TGA=W", "ATT ATC ATA ATG GTG", ""},
	{3, "ATA=M CTN=T TGA=W", "ATA ATG GTG", ""},
	{4, "TGA=W", "TTA TTG CTG ATT ATC ATA ATG GTG", ""},
	{5, "AGA,AGG=S ATA=M TGA=W", "TTG ATT ATC ATA ATG GTG", ""},
	{6, "TAA,TAG=Q", "ATG", ""},
	{9, "AAA=N AGA,AGG=S TGA=W", "ATG GTG", ""},
	{10, "TGA=C", "ATG", ""},
	{11, "", "TTG CTG ATT ATC ATA ATG GTG", ""},
	{12, "CTG=S", "CTG ATG", ""},
	{13, "AGA,AGG=G ATA=M TGA=W", "TTG ATA ATG GTG", ""},
	{14, "AAA=N AGA,AGG=S TAA=Y TGA=W", "ATG", ""},
	{16, "TAG=L", "ATG", ""},
	{21, "TGA=W ATA=M AGA,AGG=S AAA=N", "ATG GTG", ""},
	{22, "TCA=* TAG=L", "ATG", ""},
	{23, "TTA=*", "ATT ATG GTG", ""},
	{24, "AGA=S AGG=K TGA=W", "TTG CTG ATG GTG", ""},
	{25, "TGA=G", "TTG ATG GTG", ""},
	{26, "CTG=A", "CTG ATG", ""},
	{27, "TAA,TAG=Q TGA=W", "ATG", "TGA"},
	{28, "TAA,TAG=Q TGA=W", "ATG", "TAA TAG TGA"},
	{29, "TAA,TAG=Y", "ATG", ""},
	{30, "TAA,TAG=E", "ATG", ""},
	{31, "TGA=W TAA,TAG=E", "ATG", "TAA TAG"},
	{33, "TAA=Y TGA=W AGA=S AGG=K", "TTG CTG ATG GTG", ""},
}

// expand returns the 64-char residue string and the 64-char start/stop string in NCBI codon order.
func (c ncbiCode) expand() (aas, starts string) {
	code := standardCode()
	for _, r := range strings.Fields(c.reassign) {
		kv := strings.SplitN(r, "=", 2)
		for _, pat := range strings.Split(kv[0], ",") {
			for _, cod := range expandPattern(pat) {
				code[cod] = kv[1][0]
			}
		}
	}
	st := map[string]bool{}
	for _, s := range strings.Fields(c.starts) {
		st[s] = true
	}
	ctx := map[string]bool{}
	for _, s := range strings.Fields(c.ctxStops) {
		ctx[s] = true
	}
	var a, s strings.Builder
	for _, cod := range allCodonsNCBI() {
		a.WriteByte(code[cod])
		switch {
		case st[cod]:
			s.WriteByte('M')
		case code[cod] == '*' || ctx[cod]:
			s.WriteByte('*')
		default:
			s.WriteByte('-')
		}
	}
	return a.String(), s.String()
}

func ncbiIDs() []int {
	var ids []int
	for _, c := range ncbiCodes {
		ids = append(ids, c.id)
	}
	sort.Ints(ids)
	return ids
}

// ---------------------------------------------------------------------------
// complement pairs (upper case); lower case follows by case preservation.
var complementPairs = "AT CG RY KM BV DH SS WW NN"

func oracleComplement() map[rune]rune {
	m := map[rune]rune{}
	for _, p := range strings.Fields(complementPairs) {
		a, b := rune(p[0]), rune(p[1])
		m[a], m[b] = b, a
		m[a+32], m[b+32] = b+32, a+32
	}
	m['U'], m['u'] = 'A', 'a'
	return m
}

// ---------------------------------------------------------------------------
// Type IIS geometry from REBASE: site(k/m): cut k after the site on the top strand, m on the bottom.
type rebaseGeom struct {
	site string
	k, m int
}

var rebaseEnzymes = map[string]rebaseGeom{
	"BsaI":  {"GGTCTC", 1, 5},
	"BbsI":  {"GAAGAC", 2, 6},
	"BtgZI": {"GCGATG", 10, 14},
}

func rcOracle(s string) string {
	c := oracleComplement()
	r := []rune(s)
	out := make([]rune, len(r))
	for i, x := range r {
		out[len(r)-1-i] = c[x]
	}
	return string(out)
}

// alphabets
const iupac15 = "ACGTRYSWKMBDHVN"
const aa20 = "ACDEFGHIKLMNPQRSTVWY"
