package main

// C07 Optimized coding sequences translate back to the requested protein.

import (
	"go/token"
	"go/types"
	"math"
	"fmt"
	"strings"

	"golang.org/x/tools/go/ssa"
)

func init() { register("C07", ruleC07) }

func ruleC07(c *Ctx) {
	c.Decided = []string{
		"SHAPE-XLATE (shared with C06): Translate looks up ToUpper(3-letter window) in the map of all Triplet->Letter, one residue per complete window",
		"TERM-CHOOSER: a Choice is offered only under float(w)/float(sum of the same amino acid's weights) > 0.10 (strict), with Item = codon.Triplet and Weight = uint(codon.Weight) unchanged, stored under aminoAcid.Letter; amino acids with no eligible codon get no chooser",
		"TERM-OPT: Optimize emits, per input rune in order, Pick() of the chooser stored under that rune's string; chooser and translation map derive from the same AminoAcids[].Codons[] relation (C06)",
		"GUARD-MISS: the chooser lookup keyed by the caller's residue is comma-ok and the miss branch returns a non-nil error before any Pick",
		"TABLE-ALPHABET: the residue alphabet of random.ProteinSequence (and its fixed first letter) is within the 20 amino acids that every default table encodes",
		"GUARD: empty table / empty protein return the package's error values; SEED: if the global source is re-seeded it is from the nanosecond clock",
	}
	c.Undec = []string{"statistical proportionality over many draws (weightedrand and math/rand internals; only the weights handed over are decided)", "global rand.Seed side effects on other users of math/rand"}
	c.Trusted = []string{"github.com/mroth/weightedrand: Pick chooses among the given Choices in proportion to Weight", "C06 (triplets have 3 letters and translate back)"}
	c.floor("TERM-CHOOSER", 4)
	c.floor("TERM-OPT", 2)
	c.floor("GUARD-MISS", 1)
	c.floor("TABLE-ALPHABET", 1)
	c.floor("GUARD", 2)
	w := c.W
	opt := w.fn("transform/codon", "Optimize")
	if opt == nil {
		c.missing("TERM-OPT", "codon.Optimize", "exported function codon.Optimize")
		return
	}
	ch := w.method("transform/codon", "Table", "chooser")
	if ch == nil {
		// by role: the same-package function Optimize calls that returns the chooser map
		for _, g := range family(opt) {
			if g != opt && g.Signature.Results().Len() == 1 && strings.Contains(tname(g.Signature.Results().At(0).Type()), "weightedrand.Chooser") {
				ch = g
			}
		}
	}
	if ch == nil {
		c.missingHelper("TERM-CHOOSER", "chooser builder", "the function behind Optimize that builds the per-amino-acid choosers")
		return
	}
	c.useFn(opt)
	c.useFn(ch)
	checkChooser(c, ch)
	loopsRunToTheEnd(c, "TERM-CHOOSER", ch)
	checkOptimize(c, opt)
	checkProteinAlphabet(c)
	// the other half of the round trip: Translate(Optimize(p)) == p needs Translate to be the table applied codon by codon (shared with C06)
	checkTranslate(c)
}

// relHolds evaluates "a op b" on integers; ok=false for operators outside == != < <=.
func relHolds(op string, a, b int64) (bool, bool) {
	switch op {
	case "==":
		return a == b, true
	case "!=":
		return a != b, true
	case "<":
		return a < b, true
	case "<=":
		return a <= b, true
	}
	return false, false
}

// sumAddend: if t is a running total (a cyclic phi of tb.F fed by one "+= x" in a loop, from 0), the term x.
// A total computed by a module helper is followed into the helper, with its parameters substituted.
func sumAddend(tb *TermBuilder, t *Term) (*Term, bool) {
	t = stripConv(t)
	if t == nil || t.V == nil {
		return nil, false
	}
	if ph, ok := t.V.(*ssa.Phi); ok && ph.Parent() == tb.F {
		cs := additive(tb, ph)
		if len(cs) != 1 || cs[0].Neg || !cs[0].InLoop {
			return nil, false
		}
		return cs[0].T, true
	}
	if call, ok := t.V.(*ssa.Call); ok {
		g := call.Call.StaticCallee()
		if g == nil || !inModule(g) || g.Blocks == nil {
			return nil, false
		}
		rets := returnsOf(g)
		if len(rets) != 1 || len(rets[0].Results) != 1 {
			return nil, false
		}
		gtb := newTB(g)
		ad, ok := sumAddend(gtb, gtb.T(rets[0].Results[0]))
		if !ok {
			return nil, false
		}
		var args []*Term
		for _, a := range callArgs(call) {
			args = append(args, tb.T(a))
		}
		return substParams(ad, args), true
	}
	return nil, false
}

func checkChooser(c *Ctx, ch *ssa.Function) {
	tb := newTB(ch)
	aa := "each(field[AminoAcids](param[0]))"
	cod := "field[Codons](" + aa + ")"
	wgt := "field[Weight](each(" + cod + "))"
	trp := "field[Triplet](each(" + cod + "))"
	var upd *ssa.MapUpdate
	nUpd := 0
	eachInstr(ch, func(i ssa.Instruction) {
		if mu, ok := i.(*ssa.MapUpdate); ok && tb.T(mu.Value).isCall("github.com/mroth/weightedrand.NewChooser") {
			upd = mu
			nUpd++
		}
	})
	if nUpd != 1 {
		c.undecided("TERM-CHOOSER", "chooser map", ch.Pos(), fmt.Sprintf("%d stores of a weightedrand chooser into a map, the model needs 1", nUpd))
		return
	}
	c.cmpTerm("TERM-CHOOSER", "stored under aminoAcid.Letter", upd.Pos(), tb.T(upd.Key), "field[Letter]("+aa+")", "codonChooser[aminoAcid.Letter] = weightedrand.NewChooser(choices...)", "the chooser is stored under another key than its amino acid's letter", trp, wgt)
	val := tb.T(upd.Value)
	sites := topAppendSites(val.Args[0])
	if len(sites) != 1 {
		c.undecided("TERM-CHOOSER", "eligible iff share > 0.10", upd.Pos(), fmt.Sprintf("%d places append a Choice, the model needs 1", len(sites)))
		return
	}
	site := sites[0]
	it, wt := partialOf(site.Elem, "Item"), partialOf(site.Elem, "Weight")
	c.cmpTerm("TERM-CHOOSER", "Choice.Item = codon.Triplet", site.At.Pos(), it, trp, "the item offered is the codon's triplet", "the item offered", wgt)
	c.cmpTerm("TERM-CHOOSER", "Choice.Weight = uint(codon.Weight)", site.At.Pos(), wt, "conv[uint]("+wgt+")", "weights are handed to the chooser unchanged", "the weight handed to the chooser", trp)
	// threshold
	entry := loopBodyEntry(site.At.Block())
	st, why := unknown, "the Choice is not appended in a loop over the codons"
	if entry != nil {
		pc := pathCond(tb, entry, site.At.Block())
		why = "no share test found; the Choice is appended under " + short(pc.String())
		// "every codon" only if the loop runs over the table's own codon lists; a list that a helper has
		// already thresholded is another matter
		overOwnCodons := it != nil && !it.contains(func(x *Term) bool {
			return x.Op == "call" || x.Op == "phi" || x.Op == "alloc" || x.Op == "makeslice" || x.Op == "collect"
		})
		if pc.Op == "true" && !overOwnCodons {
			why = "the Choice is appended for every element of a list prepared elsewhere (" + short(it.String()) + "); whether that list is thresholded is not followed"
		} else if pc.Op == "true" {
			st, why = broken, "every codon is offered to the chooser, whatever its share (zero-weight and rare codons included)"
		}
		for _, at := range pc.atoms() {
			a := at.Atom
			if at.Disj || !(a.isBin("<") || a.isBin("<=")) {
				continue
			}
			// integer form: total < K*weight  (share > 1/K)
			if mul := a.Args[1]; mul.isBin("*") && len(mul.Args) == 2 {
				kk, isC := mul.Args[0].constInt()
				wv := mul.Args[1]
				if !isC {
					kk, isC = mul.Args[1].constInt()
					wv = mul.Args[0]
				}
				if ad, okSum := sumAddend(tb, a.Args[0]); isC && okSum && ad.String() == wgt && stripConv(wv).String() == wgt {
					switch {
					case at.Neg:
						st, why = broken, "a codon is offered when its share is NOT above the threshold (test inverted)"
					case a.isBin("<="):
						st, why = broken, fmt.Sprintf("a codon is eligible when total <= %d*weight, i.e. share >= 1/%d; the property requires strictly above 10%%", kk, kk)
					case kk != 10:
						st, why = broken, fmt.Sprintf("eligibility threshold is 1/%d, want 0.10", kk)
					default:
						st = holds
					}
					continue
				}
			}
			// const < share   (share > const);   share < const is the wrong way round
			k, isK := a.Args[0].constFloat()
			share := a.Args[1]
			flipped := false
			if !isK {
				k, isK = a.Args[1].constFloat()
				share, flipped = a.Args[0], true
			}
			if !isK || !stripConv(share).isBin("/") {
				continue
			}
			share = stripConv(share)
			num, den := share.Args[0], share.Args[1]
			ad, okSum := sumAddend(tb, den)
			// a share spelt in per cent (100*weight/sum against 10) is the same test, as long as the division is
			// not an integer division, which cuts 10.5 down to 10
			scale := 1.0
			if n0 := stripConv(num); n0.isBin("*") && len(n0.Args) == 2 {
				for j := 0; j < 2; j++ {
					if sc, isSc := n0.Args[j].constFloat(); isSc && sc != 0 && stripConv(n0.Args[1-j]).String() == wgt {
						scale = sc
						num = &Term{Op: "conv", Name: "float64", Args: []*Term{parseTerm(wgt)}}
					}
				}
			}
			intDiv := false
			if share.V != nil {
				if bt, isB := share.V.Type().Underlying().(*types.Basic); isB && bt.Info()&types.IsInteger != 0 {
					intDiv = true
				}
			}
			k = k / scale
			switch {
			case intDiv && !(flipped != at.Neg):
				st, why = broken, "the share is worked out by an integer division: it is cut down to a whole number before it is compared, so a codon whose share lies just above the threshold (10.5% against 10) is not eligible"
			case flipped != at.Neg && a.isBin("<") && flipped:
				// !(share < K)  == share >= K
				st, why = broken, "a codon is eligible when its share is >= the threshold; the property requires strictly above 10%"
			case flipped != at.Neg:
				st, why = broken, "a codon is offered when its share is NOT above the threshold (test inverted)"
			case a.isBin("<=") && !flipped:
				st, why = broken, "a codon is eligible when its share is >= the threshold; the property requires strictly above 10%"
			case math.Abs(k-0.1) > 1e-12:
				st, why = broken, fmt.Sprintf("eligibility threshold is %v, want 0.10", k)
			case num.String() != "conv[float64]("+wgt+")":
				st = stateOf(false, vocabOf(wgt), num)
				if st == broken && !localDiff(num, "conv[float64]("+wgt+")") {
					st = unknown
				}
				why = "the share's numerator is " + short(num.String()) + ", want the codon's own weight"
			case !okSum:
				st, why = unknown, "the share's denominator "+short(den.String())+" is not a recognised running total"
			case ad.String() != wgt:
				st = stateOf(false, vocabOf(wgt), ad)
				if st == broken && !localDiff(ad, wgt) {
					st = unknown
				}
				why = "the share's denominator sums " + short(ad.String()) + ", want the weights of the same amino acid's codons"
			default:
				st = holds
			}
		}
	}
	c.judge(st, "TERM-CHOOSER", "eligible iff share > 0.10", site.At.Pos(), "strict >, constant 0.10, share = own weight / sum over the same amino acid's codons", why)
	// the chooser map is a function of the table alone
	if sp := pkgOf(ch); sp != nil {
		var fs []*ssa.Function
		for _, f := range c.W.moduleFuncs() {
			if pkgOf(f) == sp {
				fs = append(fs, f)
			}
		}
		o := returnOrigins(fs)[ch]
		c.check(o&oGlobal == 0, "TERM-CHOOSER", "chooser map built from the table alone", ch.Pos(), "the chooser map returned is freshly built ("+o.String()+")", "the chooser map returned may come from package state (origin "+o.String()+"): a cached chooser outlives a re-weighting of the table it was built from, so Optimize keeps using the old weights")
	}
	// amino acids with no eligible codon get no chooser: the store is guarded by the number of eligible codons
	entry = loopBodyEntry(upd.Block())
	st, why = unknown, "the chooser is not stored in a loop over the amino acids"
	if entry != nil {
		pc := pathCond(tb, entry, upd.Block())
		st, why = unknown, "the chooser is stored under "+short(pc.String())
		if pc.Op == "true" {
			st, why = broken, "a chooser is stored even when no codon is eligible (all weights zero or all shares <= 10%): Pick on it panics in rand.Intn(0)"
		}
		// initial length of the choices list
		var initLen *Term
		if app, ok := site.At.(*ssa.Call); ok {
			seen := map[ssa.Value]bool{}
			var walk func(v ssa.Value)
			walk = func(v ssa.Value) {
				if seen[v] {
					return
				}
				seen[v] = true
				switch x := v.(type) {
				case *ssa.Phi:
					for _, e := range x.Edges {
						walk(e)
					}
				case *ssa.Call:
					if calleeName(x) == "builtin:append" {
						walk(x.Call.Args[0])
					}
				case *ssa.MakeSlice:
					initLen = tb.T(x.Len)
				case *ssa.Const:
					if x.Value == nil {
						initLen = &Term{Op: "const", Name: "0"}
					}
				}
			}
			walk(app.Call.Args[0])
		}
		for _, at := range pc.atoms() {
			a := at.Atom
			if at.Disj || a.Op != "binop" || len(a.Args) != 2 {
				continue
			}
			for k := 0; k < 2; k++ {
				x, other := a.Args[k], a.Args[1-k]
				// (1) a counter bumped by one at the append site, compared with a constant
				isCounter := false
				if ph, ok := x.V.(*ssa.Phi); ok && x.Op == "phi" {
					cs := additive(tb, ph)
					isCounter = len(cs) == 1 && cs[0].At != nil && cs[0].At.Block() == site.At.Block() && cs[0].T.isConst("1") && !cs[0].Neg
				}
				// (2) the length of the choices list
				isLen := x.isCall("builtin:len") && len(topAppendSites(x.Args[0])) == 1 && topAppendSites(x.Args[0])[0].At == site.At
				if !isCounter && !isLen {
					continue
				}
				base := int64(0)
				if isLen {
					if initLen == nil {
						st, why = unknown, "initial length of the choices list not found"
						continue
					}
					if other.String() != initLen.String() {
						if _, isC := other.constInt(); isC && initLen.Op != "const" {
							st, why = broken, "the guard compares len(choices) with "+other.Name+", but the list starts with "+short(initLen.String())+" zero entries, so its length never tells whether a codon is eligible: an amino acid without eligible codons still gets a chooser (of zero total weight; Pick panics)"
						} else {
							st, why = unknown, "len(choices) compared with "+short(other.String())+"; the list starts at length "+short(initLen.String())
						}
						continue
					}
					base = 5
				} else if n, isC := other.constInt(); isC {
					base = n
					if n != 0 {
						st, why = unknown, fmt.Sprintf("eligible-codon counter compared with %d", n)
						continue
					}
				} else {
					continue
				}
				// the store must happen for count = base+1 and not for count = base
				ev := func(cnt int64) (bool, bool) {
					l, r := cnt, base
					if k == 1 {
						l, r = base, cnt
					}
					v, ok := relHolds(a.Name, l, r)
					return v != at.Neg, ok
				}
				at0, ok0 := ev(base)
				at1, ok1 := ev(base + 1)
				switch {
				case !ok0 || !ok1:
					st, why = unknown, "guard operator "+a.Name+" not modelled"
				case !at0 && at1:
					st = holds
				default:
					st, why = broken, fmt.Sprintf("the chooser is stored when no codon is eligible: %v, when one is: %v (want false, true)", at0, at1)
				}
			}
		}
	}
	c.judge(st, "TERM-CHOOSER", "no chooser without an eligible codon", upd.Pos(), "the chooser is only stored when at least one codon is eligible, so Optimize sees a miss instead of an empty chooser", why)
}

func checkOptimize(c *Ctx, opt *ssa.Function) {
	chName := "(poly/transform/codon.Table).chooser"
	otb := newDeepTB(opt, chName)
	var succ []resultAlt
	for _, a := range resultAlts(otb, opt, 0) {
		if len(a.Ret.Results) == 2 {
			if e := otb.T(a.Ret.Results[1]); e.Op == "const" && strings.HasPrefix(e.Name, "nil:") {
				succ = append(succ, a)
			}
		}
	}
	var picks []ssa.CallInstruction
	if len(succ) != 1 || !succ[0].T.isCall("(*strings.Builder).String") {
		c.undecided("TERM-OPT", "per residue: Pick() of chooser[string(residue)] appended in order", opt.Pos(), fmt.Sprintf("%d success returns / result not a strings.Builder's content", len(succ)))
	} else {
		res := succ[0].T
		ws := bufWrites(opt, otb, res.Args[0].String())
		residue := "conv[string](extract[2](next(range(param[0]))))"
		chooserT := "call[" + chName + "](param[1])"
		if len(ws) != 1 {
			c.undecided("TERM-OPT", "per residue: Pick() of chooser[string(residue)] appended in order", opt.Pos(), fmt.Sprintf("%d writes feed the result, the model needs 1", len(ws)))
		} else {
			a := ws[0].arg
			st, why := unknown, "the written value is "+short(a.String())+"; the model needs Pick().(string)"
			if a.Op == "typeassert" && a.Args[0].isCall("(github.com/mroth/weightedrand.Chooser).Pick") {
				x := a.Args[0].Args[0]
				lk := x
				if x.Op == "extract" && x.Name == "0" {
					lk = x.Args[0]
				}
				switch {
				case lk.Op != "lookup":
					why = "picked from " + short(x.String())
				case lk.Args[0].String() != chooserT:
					voc := vocabOf(chooserT)
					voc["containers-opaque"] = true // a chooser map assembled in place (inlined helper): what it holds is not in the term
					st = stateOf(false, voc, lk.Args[0])
					why = "the chooser map is " + short(lk.Args[0].String()) + "; want the one built from the table argument"
				case "conv[string]("+lk.Args[1].String()+")" == residue:
					// a chooser map keyed by the residue rune itself instead of its one-letter string: same key
					st = holds
				case lk.Args[1].String() != residue:
					st = stateOf(false, vocabOf(residue), lk.Args[1])
					if st == broken && !localDiff(lk.Args[1], residue) {
						st = unknown
					}
					why = "the chooser is looked up under " + short(lk.Args[1].String()) + "; want string(residue)"
				default:
					st = holds
				}
			}
			if st == holds {
				// once per residue: directly in the loop over the protein, unconditionally but for the miss test
				hdr := enclosingLoopHeader(ws[0].call.Block())
				if hdr == nil {
					st, why = unknown, "the write is not in a loop"
				} else if ifi, ok := hdr.Instrs[len(hdr.Instrs)-1].(*ssa.If); !ok || !strings.HasPrefix(otb.T(ifi.Cond).String(), "extract[0](next(range(param[0])))") {
					st, why = unknown, "the write is not in the loop over the input's residues"
				}
			}
			c.judge(st, "TERM-OPT", "per residue: Pick() of chooser[string(residue)] appended in order", ws[0].call.Pos(), "one codon per residue, in input order, from the chooser stored under that residue", why)
		}
		picks = callsIn(opt, "(github.com/mroth/weightedrand.Chooser).Pick")
	}
	nCh := len(callsIn(opt, chName))
	c.checkShape(nCh == 1, "TERM-OPT", "chooser built once from the given table", opt.Pos(), "codonTable.chooser() called once", fmt.Sprintf("%d calls of the chooser builder in Optimize", nCh))
	// GUARD-MISS
	for _, p := range picks {
		recv := otb.T(p.Common().Args[0])
		pc := pathCond(otb, opt.Blocks[0], p.Block())
		st, why := unknown, "Pick is called on "+short(recv.String())
		switch {
		case recv.Op == "lookup" && recv.Name == "":
			st, why = broken, "the chooser map is indexed with a caller-controlled residue without a comma-ok test: an unencodable residue (lower case, a letter absent from the table, an amino acid with no usable codon) yields a zero Chooser and Pick panics in rand.Intn(0)"
		case recv.Op == "extract" && recv.Name == "0" && recv.Args[0].Op == "lookup" && recv.Args[0].Name == ",ok":
			okAtom := "extract[1](" + recv.Args[0].String() + ")"
			if !pc.implies(okAtom, false) {
				st, why = broken, "the comma-ok result of the chooser lookup is not tested before Pick: an unencodable residue yields a zero Chooser and Pick panics"
				for _, a := range pc.atoms() {
					if strings.Contains(a.Atom.String(), okAtom) || len(opaqueParts(a.Atom, vocabOf(okAtom))) > 0 {
						st = unknown
					}
				}
				break
			}
			why = "no return found in the miss branch"
			for _, r := range returnsOf(opt) {
				if len(r.Results) != 2 {
					continue
				}
				rp := pathCond(otb, opt.Blocks[0], r.Block())
				if rp.implies(okAtom, true) {
					e := otb.T(r.Results[1])
					if e.Op == "const" && strings.HasPrefix(e.Name, "nil:") {
						st, why = broken, "an unencodable residue makes Optimize return without an error (at "+c.W.pos(r.Pos())+")"
					} else {
						st = holds
					}
				}
			}
		}
		c.judge(st, "GUARD-MISS", "Pick only on a found chooser; miss returns an error", p.Pos(), "comma-ok lookup; the miss branch returns a non-nil error", why)
	}
	// GUARD: error values
	seenG := map[string]bool{}
	for _, r := range returnsOf(opt) {
		if len(r.Results) != 2 {
			continue
		}
		e := otb.T(r.Results[1])
		if e.Op != "global" {
			continue
		}
		pc := pathCond(otb, opt.Blocks[0], r.Block())
		pcs := pc.String()
		switch {
		case strings.HasSuffix(e.Name, "errEmtpyCodonTable") && strings.Contains(pcs, "field[AminoAcids](param[1])"):
			if !seenG["t"] {
				seenG["t"] = true
				c.ok("GUARD", "empty table -> error", r.Pos(), "returns the package's empty-table error when the table has no entries")
			}
		case strings.HasSuffix(e.Name, "errEmtpyAminoAcidString") && (pc.implies("binop[==](call[builtin:len](param[0]), const[0])", false) || pc.implies(`binop[==](const[""], param[0])`, false)):
			if !seenG["p"] {
				seenG["p"] = true
				c.ok("GUARD", "empty protein -> error", r.Pos(), "returns the package's empty-protein error for \"\"")
			}
		}
	}
	if !seenG["t"] {
		c.undecided("GUARD", "empty table -> error", opt.Pos(), "no return of the package's empty-table error under a test of the table's lists found")
	}
	if !seenG["p"] {
		c.undecided("GUARD", "empty protein -> error", opt.Pos(), "no return of the package's empty-protein error under a test for the empty string found")
	}
	// SEED
	for _, s := range callsIn(opt, "math/rand.Seed") {
		a := otb.T(s.Common().Args[0])
		fine := a.contains(func(x *Term) bool { return x.isCall("(time.Time).UnixNano") }) && !a.contains(func(x *Term) bool { return x.isBin("/") || x.isBin(">>") })
		stSeed := holds
		if !fine {
			stSeed = broken
			// a seed obtained some other way (helper, crypto/rand, ...) is not judged
			coarse := a.contains(func(x *Term) bool {
				return x.isCall("(time.Time).Unix") || x.isCall("(time.Time).UnixMilli") || x.isCall("(time.Time).Second") || x.Op == "const" || x.isBin("/") || x.isBin(">>")
			})
			if !coarse || len(opaqueParts(a, vocabOf("call[(time.Time).UnixNano](call[time.Now]())", "call[(time.Time).Unix](x)", "call[(time.Time).UTC](x)", "call[(time.Time).UnixMilli](x)"))) > 0 {
				stSeed = unknown
			}
		}
		c.judge(stSeed, "GUARD", "SEED: nanosecond clock", s.Pos(), "rand.Seed(time.Now().UnixNano())", "the global source is re-seeded from "+short(a.String())+": calls within the same clock tick replay one random stream, so pooled draws are not proportional to the weights")
	}
}

func checkProteinAlphabet(c *Ctx) {
	w := c.W
	ps := w.fn("random", "ProteinSequence")
	if ps == nil {
		c.missing("TABLE-ALPHABET", "random.ProteinSequence", "random.ProteinSequence")
		return
	}
	c.useFn(ps)
	alphaSet := map[string]bool{}
	var fixed []rune
	for _, f := range family(ps) {
		c.useFn(f)
		ptb := newTB(f)
		eachInstr(f, func(i ssa.Instruction) {
			st, ok := i.(*ssa.Store)
			if !ok {
				return
			}
			v := ptb.T(st.Val)
			if v.Op == "index" || v.Op == "zip" || v.Op == "each" {
				x := stripConv(v.Args[0])
				if g := globalInitTerm(x); g != nil {
					x = stripConv(g)
				}
				if s, ok := x.constStr(); ok {
					alphaSet[s] = true
				}
			}
			tn := tname(st.Val.Type())
			if k, ok := v.constInt(); ok && (tn == "rune" || tn == "byte" || tn == "int32" || tn == "uint8") {
				fixed = append(fixed, rune(k))
			}
		})
	}
	if len(alphaSet) != 1 {
		c.undecided("TABLE-ALPHABET", "generator alphabet", ps.Pos(), fmt.Sprintf("found %d constant alphabets indexed by the generator, the model needs 1", len(alphaSet)))
		return
	}
	alpha := ""
	for s := range alphaSet {
		alpha = s
	}
	var badL []string
	for _, r := range alpha {
		if !strings.ContainsRune(aa20, r) {
			badL = append(badL, string(r))
		}
	}
	for _, r := range fixed {
		if r != 'M' && r != '*' {
			badL = append(badL, "fixed letter "+string(r))
		}
	}
	// every default table encodes all 20 amino acids (checked against the tables read for C06)
	dt := readDefaultTables(c)
	var lacking []string
	if dt != nil {
		for _, id := range dt.ids {
			for _, r := range aa20 {
				if !strings.ContainsRune(dt.aas[id], r) {
					lacking = append(lacking, fmt.Sprintf("table %d lacks %c", id, r))
				}
			}
		}
	}
	if dt == nil {
		c.undecided("TABLE-ALPHABET", "random protein alphabet within the 20 encodable amino acids", ps.Pos(), "default tables not readable")
		return
	}
	c.check(len(badL) == 0 && len(lacking) == 0, "TABLE-ALPHABET", "random protein alphabet within the 20 encodable amino acids", ps.Pos(), fmt.Sprintf("alphabet %q, fixed letters %q", alpha, string(fixed)), fmt.Sprintf("alphabet %q: letters no table can encode %v; %v", alpha, badL, lacking))
}


// loopsRunToTheEnd: in the function that builds one entry per element of a list (a chooser per amino acid, a
// choice per codon), a range loop is left from its body for a reason other than an error return, while the
// function goes on to hand its result back: the elements after that point get no entry. Only exits whose
// condition does not come from a search result (a found-flag, an index looked for) are evidence.
func loopsRunToTheEnd(c *Ctx, rule string, f *ssa.Function) {
	tb := newTB(f)
	for _, hdr := range f.Blocks {
		if !strings.HasPrefix(hdr.Comment, "rangeindex.loop") && !strings.HasPrefix(hdr.Comment, "rangeiter.loop") {
			continue
		}
		L := naturalLoopOf(hdr)
		// the loop builds something: a map update, an append or an element store in its body
		builds := false
		for b := range L {
			for _, in := range b.Instrs {
				switch x := in.(type) {
				case *ssa.MapUpdate:
					builds = true
				case *ssa.Call:
					if calleeName(x) == "builtin:append" {
						builds = true
					}
				}
			}
		}
		if !builds {
			continue
		}
		// a list the function has put in order first (a copy sorted by descending weight): leaving the loop at
		// the first element that fails is what the order is for
		if loopOverSorted(f, hdr, L) {
			continue
		}
		var entry *ssa.BasicBlock
		for _, sx := range hdr.Succs {
			if L[sx] && sx != hdr {
				entry = sx
			}
		}
		if entry == nil {
			continue
		}
		for b := range L {
			if b == hdr || enclosingLoopHeader(b) != hdr {
				continue
			}
			for _, sx := range b.Succs {
				if L[sx] {
					continue
				}
				// where does this exit lead: straight to an error return, or on with the function?
				errorOnly := true
				for _, r := range returnsOf(f) {
					if !(sx == r.Block() || reaches(sx, r.Block())) {
						continue
					}
					isErr := false
					for _, res := range r.Results {
						if tname(res.Type()) == "error" {
							if k, isC := res.(*ssa.Const); !isC || !k.IsNil() {
								isErr = true
							}
						}
					}
					if !isErr {
						errorOnly = false
					}
				}
				if errorOnly || !entry.Dominates(b) {
					continue
				}
				guards := pathCond(tb, entry, b).atoms()
				if ifi, ok := b.Instrs[len(b.Instrs)-1].(*ssa.If); ok {
					guards = append(guards, condOfBool(tb, ifi.Cond, 0).atoms()...)
				}
				if len(guards) == 0 {
					continue
				}
				searching := false
				for _, a := range guards {
					if a.Atom.contains(func(x *Term) bool {
						return x.Op == "call" && (strings.Contains(x.Name, "Index") || strings.Contains(x.Name, "Contains") || strings.Contains(x.Name, "HasPrefix") || strings.Contains(x.Name, "Equal"))
					}) {
						searching = true
					}
				}
				if searching {
					continue
				}
				at := hdr.Instrs[0].Pos()
				if ifi, ok := b.Instrs[len(b.Instrs)-1].(*ssa.If); ok && ifi.Cond.Pos() != token.NoPos {
					at = ifi.Cond.Pos()
				}
				c.bad(rule, "the loop over "+short(loopSubject(tb, hdr))+" runs to the end of its list", at, "the loop at "+c.W.pos(hdr.Instrs[0].Pos())+" that builds one entry per element is left from its body under "+short(pathCondString(guards))+" and the function still returns its result: the elements after that one get no entry at all")
				return
			}
		}
	}
}

// loopSubject: what a range loop ranges over, for messages.
func loopSubject(tb *TermBuilder, hdr *ssa.BasicBlock) string {
	for _, in := range hdr.Instrs {
		if ph, ok := in.(*ssa.Phi); ok {
			_ = ph
		}
	}
	for _, p := range hdr.Preds {
		if hdr.Dominates(p) {
			continue
		}
		for _, in := range p.Instrs {
			if cl, ok := in.(*ssa.Call); ok && calleeName(cl) == "builtin:len" && len(cl.Call.Args) == 1 {
				return tb.T(cl.Call.Args[0]).String()
			}
		}
	}
	return "its list"
}


// loopOverSorted: the list a range loop walks was handed to a sort function earlier in f.
func loopOverSorted(f *ssa.Function, hdr *ssa.BasicBlock, L map[*ssa.BasicBlock]bool) bool {
	root := func(v ssa.Value) ssa.Value {
		for d := 0; d < 10; d++ {
			switch x := v.(type) {
			case *ssa.Slice:
				v = x.X
			case *ssa.MakeInterface:
				v = x.X
			case *ssa.ChangeType:
				v = x.X
			case *ssa.Convert:
				v = x.X
			case *ssa.UnOp:
				if x.Op.String() == "*" {
					if a, ok := x.X.(*ssa.Alloc); ok {
						return a
					}
				}
				return v
			default:
				return v
			}
		}
		return v
	}
	// the ranged list: the base of an element access by the loop's index, or the operand of len in the pre-header
	var ranged []ssa.Value
	for _, p := range hdr.Preds {
		if hdr.Dominates(p) {
			continue
		}
		for _, in := range p.Instrs {
			if cl, ok := in.(*ssa.Call); ok && calleeName(cl) == "builtin:len" && len(cl.Call.Args) == 1 {
				ranged = append(ranged, root(cl.Call.Args[0]))
			}
		}
	}
	if len(ranged) == 0 {
		return false
	}
	sorted := false
	eachInstr(f, func(i ssa.Instruction) {
		cl, ok := i.(*ssa.Call)
		if !ok || !sortFuncs[calleeName(cl)] || len(cl.Call.Args) == 0 || L[cl.Block()] {
			return
		}
		r0 := root(cl.Call.Args[0])
		for _, r := range ranged {
			if r == r0 {
				sorted = true
			}
		}
	})
	return sorted
}
