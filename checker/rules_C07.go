package main

// C07 Optimized coding sequences translate back to the requested protein.

import (
	"fmt"
	"strings"

	"golang.org/x/tools/go/ssa"
)

func init() { register("C07", ruleC07) }

func ruleC07(c *Ctx) {
	c.Decided = []string{
		"TERM-CHOOSER: a Choice is offered only under float(w)/float(sum of the same amino acid's weights) > 0.10 (strict), with Item = codon.Triplet and Weight = uint(codon.Weight) unchanged, stored under aminoAcid.Letter; amino acids with no eligible codon get no chooser",
		"TERM-OPT: Optimize emits, per input rune in order, Pick() of the chooser stored under that rune's string; chooser and translation map derive from the same AminoAcids[].Codons[] relation (C06)",
		"GUARD-MISS: the chooser lookup keyed by the caller's residue is comma-ok and the miss branch returns a non-nil error before any Pick",
		"TABLE-ALPHABET: the residue alphabet of random.ProteinSequence (and its fixed first letter) is within the 20 amino acids that every default table encodes",
		"GUARD: empty table / empty protein return the package's error values; SEED: if the global source is re-seeded it is from the nanosecond clock",
	}
	c.Undec = []string{"statistical proportionality over many draws (weightedrand and math/rand internals; only the weights handed over are decided)", "global rand.Seed side effects on other users of math/rand"}
	c.Trusted = []string{"github.com/mroth/weightedrand: Pick chooses among the given Choices in proportion to Weight", "C06 (triplets have 3 letters and translate back)"}
	c.floor("TERM-CHOOSER", 3)
	c.floor("TERM-OPT", 2)
	c.floor("GUARD-MISS", 1)
	c.floor("TABLE-ALPHABET", 1)
	c.floor("GUARD", 2)
	w := c.W
	opt := w.fn("transform/codon", "Optimize")
	ch := w.method("transform/codon", "Table", "chooser")
	if opt == nil || ch == nil {
		c.missing("TERM-OPT", "codon.Optimize / Table.chooser", "codon.Optimize and the chooser builder")
		return
	}
	c.useFn(opt)
	c.useFn(ch)
	// ---- chooser
	tb := newTB(ch)
	cod := "field[Codons](each(field[AminoAcids](param[0])))"
	wgt := "field[Weight](each(" + cod + "))"
	trp := "field[Triplet](each(" + cod + "))"
	var upd *ssa.MapUpdate
	nUpd := 0
	eachInstr(ch, func(i ssa.Instruction) {
		if mu, ok := i.(*ssa.MapUpdate); ok {
			upd = mu
			nUpd++
		}
	})
	if nUpd != 1 {
		c.bad("TERM-CHOOSER", "chooser map", ch.Pos(), fmt.Sprintf("%d stores into the chooser map, want 1", nUpd))
		return
	}
	keyOK := tb.T(upd.Key).String() == "field[Letter](each(field[AminoAcids](param[0])))"
	val := tb.T(upd.Value)
	okVal := val.isCall("github.com/mroth/weightedrand.NewChooser")
	c.check(keyOK && okVal, "TERM-CHOOSER", "stored under aminoAcid.Letter", upd.Pos(), "codonChooser[aminoAcid.Letter] = weightedrand.NewChooser(choices...)", "the chooser is stored under "+short(tb.T(upd.Key).String())+" / built by "+short(val.Name))
	if okVal {
		sites := topAppendSites(val.Args[0])
		good := len(sites) == 1
		why := fmt.Sprintf("%d places append a Choice, want 1", len(sites))
		if good {
			e := sites[0].Elem
			it, wt := partialOf(e, "Item"), partialOf(e, "Weight")
			okElem := it != nil && wt != nil && it.String() == trp && wt.String() == "conv[uint]("+wgt+")"
			// threshold condition
			hdr := enclosingLoopHeader(sites[0].At.Block())
			var pc *Cond
			if hdr != nil {
				pc = pathCond(tb, hdr.Succs[0], sites[0].At.Block())
			}
			okCond := false
			condS := "?"
			if pc != nil && pc.Op == "atom" {
				condS = pc.String()
				a := pc.Atom
				if a.isBin("<") && a.Args[0].isConst("0.1") && a.Args[1].isBin("/") {
					num, den := a.Args[1].Args[0], a.Args[1].Args[1]
					if num.String() == "conv[float64]("+wgt+")" && den.Op == "conv" && den.Name == "float64" {
						s, _, ok := sumOf(tb, den.Args[0].V)
						okCond = ok && s == wgt
					}
				}
			} else if pc != nil {
				condS = pc.String()
			}
			good = okElem && okCond
			why = fmt.Sprintf("Choice{Item: %s, Weight: %s} offered under %s; want {Triplet, uint(Weight)} under float(Weight)/float(sum of the amino acid's weights) > 0.10", short(fmt.Sprint(it)), short(fmt.Sprint(wt)), short(condS))
		}
		c.check(good, "TERM-CHOOSER", "eligible iff share > 0.10; Item=Triplet, Weight=uint(Weight)", upd.Pos(), "strict >, constant 0.10, share over the same amino acid's codons, weights handed over unchanged", why)
		// amino acids with no eligible codon are skipped: the map update is guarded
		hdr := enclosingLoopHeader(upd.Block())
		guarded := false
		if hdr != nil && len(sites) == 1 {
			pc := pathCond(tb, hdr.Succs[0], upd.Block())
			for _, a := range pc.atoms() {
				if a.Disj {
					continue
				}
				// the guard must depend on how many codons were eligible: a counter bumped at the append site, or the list itself
				a.Atom.walk(func(x *Term) {
					if ph, ok := x.V.(*ssa.Phi); ok && x.Op == "phi" {
						for _, k := range additive(tb, ph) {
							if k.At != nil && k.At.Block() == sites[0].At.Block() && k.T.isConst("1") {
								guarded = true
							}
						}
					}
					if x.isCall("builtin:len") && len(topAppendSites(x.Args[0])) == 1 && topAppendSites(x.Args[0])[0].At == sites[0].At {
						guarded = true
					}
				})
			}
		}
		c.check(guarded, "TERM-CHOOSER", "no chooser without an eligible codon", upd.Pos(), "the chooser is only stored when at least one codon is eligible, so Optimize sees a miss instead of an empty chooser", "a chooser is stored even when no codon is eligible (all weights zero or all shares <= 10%): Pick on it panics in rand.Intn(0)")
	}
	// ---- Optimize
	otb := newTB(opt)
	sr := successReturn(otb, opt, 1)
	if sr == nil {
		c.bad("TERM-OPT", "single success return", opt.Pos(), "expected exactly one (dna, nil) return")
		return
	}
	res := otb.T(sr.Results[0])
	okRes := res.isCall("(*strings.Builder).String")
	var picks []ssa.CallInstruction
	if okRes {
		ws := bufWrites(opt, otb, res.Args[0].String())
		residue := "conv[string](extract[2](next(range(param[0]))))"
		chooserT := "call[(poly/transform/codon.Table).chooser](param[1])"
		good := len(ws) == 1
		why := fmt.Sprintf("%d writes feed the result, want 1 per residue", len(ws))
		if good {
			a := ws[0].arg
			// typeassert[string](call Pick(X)) where X = lookup or extract[0](lookup,ok)
			if a.Op == "typeassert" && a.Args[0].isCall("(github.com/mroth/weightedrand.Chooser).Pick") {
				x := a.Args[0].Args[0]
				lk := x
				if x.Op == "extract" && x.Name == "0" {
					lk = x.Args[0]
				}
				if !(lk.Op == "lookup" && lk.Args[0].String() == chooserT && lk.Args[1].String() == residue) {
					good = false
					why = "picked from " + short(x.String()) + "; want chooser(codonTable)[string(residue)]"
				}
			} else {
				good = false
				why = "the written value is " + short(a.String()) + "; want Pick().(string)"
			}
			// write happens once per residue: in the range body, not in an inner loop
			hdr := enclosingLoopHeader(ws[0].call.Block())
			if hdr == nil || !strings.HasPrefix(otb.T(hdr.Instrs[len(hdr.Instrs)-1].(*ssa.If).Cond).String(), "extract[0](next(range(param[0])))") {
				good = false
				why = "the write is not executed once per input residue"
			}
		}
		c.check(good, "TERM-OPT", "per residue: Pick() of chooser[string(residue)] appended in order", opt.Pos(), "one codon per residue, in input order, from the chooser stored under that residue", why)
		picks = callsIn(opt, "(github.com/mroth/weightedrand.Chooser).Pick")
	} else {
		c.bad("TERM-OPT", "result", sr.Pos(), "result is not the accumulated builder string")
	}
	c.check(len(callsIn(opt, "(poly/transform/codon.Table).chooser")) == 1, "TERM-OPT", "chooser built once from the given table", opt.Pos(), "codonTable.chooser() called once", "the chooser is not built exactly once from the table argument")
	// GUARD-MISS
	for _, p := range picks {
		recv := otb.T(p.Common().Args[0])
		pc := pathCond(otb, opt.Blocks[0], p.Block())
		okMiss := false
		if recv.Op == "extract" && recv.Name == "0" && recv.Args[0].Op == "lookup" && recv.Args[0].Name == ",ok" {
			okAtom := "extract[1](" + recv.Args[0].String() + ")"
			if pc.implies(okAtom, false) {
				// miss branch returns an error
				for _, r := range returnsOf(opt) {
					rp := pathCond(otb, opt.Blocks[0], r.Block())
					if rp.implies(okAtom, true) {
						e := otb.T(r.Results[1])
						if !(e.Op == "const" && strings.HasPrefix(e.Name, "nil:")) {
							okMiss = true
						}
					}
				}
			}
		}
		c.check(okMiss, "GUARD-MISS", "Pick only on a found chooser; miss returns an error", p.Pos(), "comma-ok lookup; the miss branch returns a non-nil error", "the chooser map is indexed with a caller-controlled residue without a comma-ok test: an unencodable residue (lower case, a letter absent from the table, an amino acid with no usable codon) yields a zero Chooser and Pick panics in rand.Intn(0)")
	}
	// GUARD: error values
	nG := 0
	for _, r := range returnsOf(opt) {
		e := otb.T(r.Results[1])
		if e.Op == "global" {
			pc := pathCond(otb, opt.Blocks[0], r.Block()).String()
			switch {
			case strings.HasSuffix(e.Name, "errEmtpyCodonTable") && strings.Contains(pc, "field[AminoAcids](param[1])") && strings.Contains(pc, "field[StartCodons](param[1])"):
				nG++
				c.ok("GUARD", "empty table -> error", r.Pos(), "returns the package's empty-table error when the table has no start, stop or amino-acid entries")
			case strings.HasSuffix(e.Name, "errEmtpyAminoAcidString") && strings.Contains(pc, "binop[==](call[builtin:len](param[0]), const[0])"):
				nG++
				c.ok("GUARD", "empty protein -> error", r.Pos(), "returns the package's empty-protein error for \"\"")
			}
		}
	}
	if nG != 2 {
		c.bad("GUARD", "input guards", opt.Pos(), fmt.Sprintf("%d of the 2 input guards (empty table, empty protein) found", nG))
	}
	// SEED
	for _, s := range callsIn(opt, "math/rand.Seed") {
		a := otb.T(s.Common().Args[0])
		fine := a.contains(func(x *Term) bool { return x.isCall("(time.Time).UnixNano") }) && !a.contains(func(x *Term) bool { return x.isBin("/") || x.isBin(">>") })
		c.check(fine, "GUARD", "SEED: nanosecond clock", s.Pos(), "rand.Seed(time.Now().UnixNano())", "the global source is re-seeded from "+short(a.String())+": calls within the same clock tick replay one random stream, so pooled draws are not proportional to the weights")
	}
	// ---- TABLE-ALPHABET
	ps := w.fn("random", "ProteinSequence")
	if ps == nil {
		c.missing("TABLE-ALPHABET", "random.ProteinSequence", "random.ProteinSequence")
		return
	}
	c.useFn(ps)
	ptb := newTB(ps)
	var alpha []string
	var fixed []rune
	eachInstr(ps, func(i ssa.Instruction) {
		if st, ok := i.(*ssa.Store); ok {
			v := ptb.T(st.Val)
			if v.Op == "index" || v.Op == "zip" || v.Op == "each" {
				x := v.Args[0]
				if x.Op == "conv" {
					if s, ok := x.Args[0].constStr(); ok {
						alpha = append(alpha, s)
					}
				}
			}
			if k, ok := v.constInt(); ok && tname(st.Val.Type()) == "rune" {
				fixed = append(fixed, rune(k))
			}
		}
	})
	if len(alpha) != 1 {
		c.bad("TABLE-ALPHABET", "generator alphabet", ps.Pos(), fmt.Sprintf("found %d constant alphabets indexed by the generator, want 1 (unrecognised shape)", len(alpha)))
		return
	}
	var badL []string
	for _, r := range alpha[0] {
		if !strings.ContainsRune(aa20, r) {
			badL = append(badL, string(r))
		}
	}
	var missing []string
	for _, r := range aa20 {
		if !strings.ContainsRune(alpha[0], r) {
			missing = append(missing, string(r))
		}
	}
	okFixed := true
	for _, r := range fixed {
		if r != 'M' && r != '*' {
			okFixed = false
		}
	}
	// every default table encodes all 20 amino acids (checked against the tables read for C06)
	dt := readDefaultTables(c)
	all20 := dt != nil
	if dt != nil {
		for _, id := range dt.ids {
			for _, r := range aa20 {
				if !strings.ContainsRune(dt.aas[id], r) {
					all20 = false
				}
			}
		}
	}
	c.check(len(badL) == 0 && len(missing) == 0 && okFixed && all20, "TABLE-ALPHABET", "random protein alphabet = the 20 encodable amino acids", ps.Pos(), fmt.Sprintf("alphabet %q, fixed letters %q", alpha[0], string(fixed)), fmt.Sprintf("alphabet %q: letters no table can encode %v, amino acids never generated %v (fixed letters %q; every default table has all 20: %v)", alpha[0], badL, missing, string(fixed), all20))
}
