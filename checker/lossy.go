package main

// lossy.go (K10): no deleting/truncating string operation on a verbatim payload.

import (
	"fmt"
	"regexp"
	"strings"
)

// payload alphabet of C01: printable ASCII other than the double quote.
func payloadAlphabet() []byte {
	var out []byte
	for c := byte(0x20); c <= 0x7e; c++ {
		if c != '"' {
			out = append(out, c)
		}
	}
	return out
}

type lossyReport struct {
	lossy   []string
	neutral []string
	unknown []string
	sources int
}

func regexpPattern(t *Term) (string, bool) {
	// extract[0](call[regexp.Compile](const)) or call[regexp.MustCompile](const), possibly via a package-level variable
	if t.Op == "global" {
		if it := globalInitTerm(t); it != nil {
			t = it
		}
	}
	if t.Op == "extract" && t.Name == "0" && len(t.Args) == 1 {
		t = t.Args[0]
	}
	if t.Op == "call" && (t.Name == "regexp.Compile" || t.Name == "regexp.MustCompile") && len(t.Args) == 1 {
		return t.Args[0].constStr()
	}
	return "", false
}

// judgeSpine walks the def-use spine of a string value back to its sources and classifies each operation.
func judgeSpine(t *Term, isSource func(*Term) bool, rep *lossyReport, seen map[*Term]bool) {
	if t == nil || seen[t] {
		return
	}
	seen[t] = true
	alpha := payloadAlphabet()
	inAlpha := func(s string) []byte {
		var hit []byte
		for _, c := range alpha {
			if strings.IndexByte(s, c) >= 0 {
				hit = append(hit, c)
			}
		}
		return hit
	}
	if isSource(t) {
		rep.sources++
		return
	}
	switch {
	case t.Op == "phi" || t.Op == "anyof":
		for _, a := range t.Args {
			judgeSpine(a, isSource, rep, seen)
		}
	case t.Op == "rec" || t.Op == "const" || t.Op == "zero":
	case t.Op == "binop" && t.Name == "+":
		judgeSpine(t.Args[0], isSource, rep, seen)
		judgeSpine(t.Args[1], isSource, rep, seen)
	case t.isCall("strings.TrimSpace"):
		rep.neutral = append(rep.neutral, "TrimSpace (boundary whitespace: not judged)")
		judgeSpine(t.Args[0], isSource, rep, seen)
	case t.Op == "call" && (t.Name == "strings.Trim" || t.Name == "strings.TrimLeft" || t.Name == "strings.TrimRight" || t.Name == "strings.TrimPrefix" || t.Name == "strings.TrimSuffix"):
		cs, ok := t.Args[1].constStr()
		hit := inAlpha(cs)
		// a boundary trim of '/' on the qualifier KEY side or of the quote is fine; a cutset inside the payload alphabet may eat payload at the boundary
		if !ok {
			rep.unknown = append(rep.unknown, t.Name+" with a non-constant cutset")
		} else if len(hit) > 0 && !(t.Name == "strings.TrimPrefix" || t.Name == "strings.TrimSuffix") {
			rep.lossy = append(rep.lossy, fmt.Sprintf("%s(_, %q) strips payload characters %q at the boundary", t.Name, cs, string(hit)))
		} else {
			rep.neutral = append(rep.neutral, fmt.Sprintf("%s(_, %q)", t.Name, cs))
		}
		judgeSpine(t.Args[0], isSource, rep, seen)
	case t.Op == "index" && len(t.Args) == 2 && t.Args[0].isCall("strings.Split"):
		d, _ := t.Args[0].Args[1].constStr()
		k, _ := t.Args[1].constInt()
		if len(inAlpha(d)) > 0 {
			rep.lossy = append(rep.lossy, fmt.Sprintf("strings.Split(_, %q)[%d] truncates the value at the next %q, which may occur inside it", d, k, d))
		} else {
			rep.neutral = append(rep.neutral, fmt.Sprintf("Split(_, %q)[%d]", d, k))
		}
		judgeSpine(t.Args[0].Args[0], isSource, rep, seen)
	case t.Op == "index" && len(t.Args) == 2 && t.Args[0].isCall("strings.SplitN"):
		n, _ := t.Args[0].Args[2].constInt()
		k, _ := t.Args[1].constInt()
		d, _ := t.Args[0].Args[1].constStr()
		if n == 2 && k == 1 {
			rep.neutral = append(rep.neutral, fmt.Sprintf("SplitN(_, %q, 2)[1] keeps the whole remainder", d))
		} else if n == 2 && k == 0 {
			rep.neutral = append(rep.neutral, fmt.Sprintf("SplitN(_, %q, 2)[0] (key side)", d))
		} else {
			rep.lossy = append(rep.lossy, fmt.Sprintf("SplitN(_, %q, %d)[%d] drops later pieces", d, n, k))
		}
		judgeSpine(t.Args[0].Args[0], isSource, rep, seen)
	case t.isCall("(*regexp.Regexp).ReplaceAllString"):
		pat, ok := regexpPattern(t.Args[0])
		repl, okR := t.Args[2].constStr()
		if !ok || !okR {
			rep.unknown = append(rep.unknown, "regexp replacement with a non-constant pattern or replacement")
		} else {
			re, err := regexp.Compile(pat)
			if err != nil {
				rep.unknown = append(rep.unknown, "unparsable pattern "+pat)
			} else {
				var hit []byte
				for _, c := range alpha {
					if re.MatchString(string(c)) {
						hit = append(hit, c)
					}
				}
				if len(hit) > 0 && repl != string(hit) {
					rep.lossy = append(rep.lossy, fmt.Sprintf("regexp %q -> %q rewrites payload characters %q wherever they occur in the value", pat, repl, string(hit)))
				} else {
					rep.neutral = append(rep.neutral, fmt.Sprintf("regexp %q -> %q (matches no payload character)", pat, repl))
				}
			}
		}
		judgeSpine(t.Args[1], isSource, rep, seen)
	case t.isCall("strings.ReplaceAll") || t.isCall("strings.Replace"):
		old, ok := t.Args[1].constStr()
		nw, ok2 := t.Args[2].constStr()
		if !ok || !ok2 {
			rep.unknown = append(rep.unknown, t.Name+" with non-constant arguments")
		} else if len(inAlpha(old)) > 0 && old != nw {
			rep.lossy = append(rep.lossy, fmt.Sprintf("%s(_, %q, %q) rewrites payload text", t.Name, old, nw))
		} else {
			rep.neutral = append(rep.neutral, fmt.Sprintf("%s(_, %q, %q)", t.Name, old, nw))
		}
		judgeSpine(t.Args[0], isSource, rep, seen)
	case t.Op == "slice" && len(t.Args) == 3:
		rep.neutral = append(rep.neutral, "substring by offsets (column layout)")
		judgeSpine(t.Args[0], isSource, rep, seen)
	case t.isCall("strings.Join"):
		judgeSpine(t.Args[0], isSource, rep, seen)
	case t.Op == "collect" || t.Op == "each":
		for _, a := range t.Args {
			judgeSpine(a, isSource, rep, seen)
		}
	case t.Op == "extract" && len(t.Args) == 1 && t.Args[0].Op == "call":
		// the first result of a decoding call
		judgeSpine(t.Args[0], isSource, rep, seen)
	case t.isCall("strconv.Unquote") || t.isCall("strconv.UnquoteChar") || t.isCall("html.UnescapeString") || t.isCall("net/url.QueryUnescape") || t.isCall("net/url.PathUnescape"):
		// a decoder: the payload is plain text, not a quoted or escaped form of one; backslashes, '&', '%'
		// in it are rewritten (or the call fails and a fallback takes over)
		rep.lossy = append(rep.lossy, t.Name+" interprets escape sequences in the value: a backslash (lacZ\\alpha, C:\\temp) or an entity in the text of the file comes back as another character")
		if len(t.Args) > 0 {
			judgeSpine(t.Args[0], isSource, rep, seen)
		}
	case t.Op == "call":
		rep.unknown = append(rep.unknown, "unclassified operation "+t.Name+" on the verbatim value")
	default:
		rep.unknown = append(rep.unknown, "unclassified construct "+short(t.String()))
	}
}
