package main

import (
	"encoding/json"
	"flag"
	"fmt"
	"os"
	"runtime/debug"
	"sort"
	"strconv"
	"strings"
	"time"
)

type propRule struct {
	id  string
	run func(c *Ctx)
}

var registry = map[string]func(c *Ctx){}

// every property also gets the shared rules on package-level state (state.go)
func register(id string, f func(c *Ctx)) {
	registry[id] = func(c *Ctx) {
		f(c)
		stateRules(c)
	}
}

func main() {
	prop := flag.String("p", "", "property id (C01..C20) or 'all'")
	tier := flag.String("tier", "quick", "quick|thorough")
	repo := flag.String("repo", "/repo", "repository root to analyse")
	explain := flag.String("explain", "", "replay file: re-run that obligation verbosely")
	quiet := flag.Bool("q", false, "print only failures and the summary")
	noev := flag.Bool("no-evidence", false, "do not write evidence/replay files")
	dump := flag.String("dump", "", "debug: dump SSA terms of pkgrel:Func")
	selftest := flag.Bool("selftest", false, "run the liveness variants of every rule on the current tree (fatal on a silent rule)")
	flag.Parse()
	if t := os.Getenv("VERIF_TIER"); t != "" && !isFlagSet("tier") {
		*tier = t
	}
	seed := int64(0)
	if s := os.Getenv("VERIF_SEED"); s != "" {
		if n, err := strconv.ParseInt(s, 10, 64); err == nil {
			seed = n
		}
	}
	if *dump != "" {
		w, err := loadWorld(*repo, false, "", "")
		if err != nil {
			fmt.Println(err)
			os.Exit(2)
		}
		dumpFunc(w, *dump)
		return
	}
	if *explain != "" {
		os.Exit(runExplain(*explain, *repo))
	}
	if *selftest {
		os.Exit(runSelftest(*repo, *prop, seed))
	}
	if *prop == "" {
		fmt.Println("usage: polycheck -p Cxx [-tier quick|thorough]")
		os.Exit(2)
	}
	ids := []string{*prop}
	if *prop == "all" {
		ids = ids[:0]
		for id := range registry {
			ids = append(ids, id)
		}
		sort.Strings(ids)
	}
	exit := 0
	for _, id := range ids {
		if runProperty(id, *tier, *repo, *quiet, !*noev, seed) != 0 {
			exit = 1
		}
	}
	os.Exit(exit)
}

func isFlagSet(name string) bool {
	set := false
	flag.Visit(func(f *flag.Flag) {
		if f.Name == name {
			set = true
		}
	})
	return set
}

// runProperty loads the tree afresh and runs every rule of one property.
func runProperty(id, tier, repo string, quiet, writeEv bool, seed int64) (exit int) {
	start := time.Now()
	run, ok := registry[id]
	if !ok {
		fmt.Printf("unknown or unclaimed property %s\n", id)
		return 2
	}
	w, err := loadWorld(repo, tier == "thorough", "", "")
	c := newCtx(w, id, tier)
	if err != nil {
		c.W = &World{Repo: repo, Pkgs: nil}
		c.add("LOAD", "repo", VIOLATION, 0, "cannot load/type-check the repository: "+err.Error())
		res := c.finishNoWorld(start, writeEv, seed)
		_ = res
		return 1
	}
	func() {
		defer func() {
			if r := recover(); r != nil {
				// a rule that trips over a shape it did not expect has decided nothing: that is UNDECIDED (printed,
				// recorded in the evidence with the stack), not evidence against the code. Load and type errors
				// still fail. The obligations the rule did not get to are missing from the evidence, and the
				// floors of their rules report that.
				c.add("PANIC", id, UNDECIDED, 0, fmt.Sprintf("checker panic in a rule (nothing decided from here on): %v\n%s", r, trimStack(debug.Stack())))
			}
		}()
		run(c)
		if tier == "thorough" {
			thoroughExtras(c, run, seed)
		}
	}()
	res := c.finish(start, quiet, writeEv, seed)
	if res.violations > 0 {
		return 1
	}
	return 0
}

func trimStack(b []byte) string {
	lines := strings.Split(string(b), "\n")
	if len(lines) > 24 {
		lines = lines[:24]
	}
	return strings.Join(lines, "\n")
}

func (c *Ctx) finishNoWorld(start time.Time, writeEv bool, seed int64) runResult {
	res := runResult{}
	for _, o := range c.Obs {
		res.violations++
		fmt.Printf("FAIL %s %s\n", o.Key, o.Why)
		path := verifDir() + "/replay/" + c.Prop + "/" + strconv.Itoa(res.violations) + ".json"
		if writeEv {
			os.MkdirAll(verifDir()+"/replay/"+c.Prop, 0o755)
			b, _ := json.MarshalIndent(o, "", " ")
			os.WriteFile(path, b, 0o644)
		}
		fmt.Printf("VIOLATION property=%s replay=%s\n", c.Prop, path)
	}
	if writeEv {
		ev := map[string]interface{}{
			"property_id": c.Prop, "tier": c.Tier, "seed": seed, "level": "other",
			"coverage": map[string]interface{}{"explanation": "the repository could not be loaded or type-checked; nothing was decided", "obligations": len(c.Obs), "discharged": 0, "samples": c.Obs},
			"wall_s":   time.Since(start).Seconds(), "violations": res.violations,
		}
		b, _ := json.MarshalIndent(ev, "", " ")
		os.MkdirAll(verifDir()+"/evidence", 0o755)
		os.WriteFile(verifDir()+"/evidence/"+c.Prop+".json", b, 0o644)
	}
	return res
}

func runExplain(path, repo string) int {
	b, err := os.ReadFile(path)
	if err != nil {
		fmt.Println("cannot read replay file:", err)
		return 2
	}
	var r struct{ Property, Rule, Key, Tier string }
	if err := json.Unmarshal(b, &r); err != nil {
		fmt.Println("bad replay file:", err)
		return 2
	}
	run, ok := registry[r.Property]
	if !ok {
		fmt.Println("unknown property", r.Property)
		return 2
	}
	w, err := loadWorld(repo, false, "", "")
	if err != nil {
		fmt.Println("load failed:", err)
		return 1
	}
	c := newCtx(w, r.Property, "quick")
	func() {
		defer func() {
			if rec := recover(); rec != nil {
				c.add("PANIC", r.Property, VIOLATION, 0, fmt.Sprint(rec))
			}
		}()
		run(c)
	}()
	found := false
	code := 0
	for _, o := range c.Obs {
		if o.Key == r.Key {
			found = true
			fmt.Printf("replay %s: rule=%s key=%s\n  verdict now: %s\n  at: %s\n  reason: %s\n", path, o.Rule, o.Key, o.Verdict, o.Pos, o.Why)
			if o.Verdict == VIOLATION {
				code = 1
				fmt.Printf("VIOLATION property=%s replay=%s\n", r.Property, path)
			}
		}
	}
	if !found {
		fmt.Printf("obligation %s no longer exists on this tree (rule instances are keyed by construct)\n", r.Key)
	}
	return code
}
