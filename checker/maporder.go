package main

// maporder.go (K2): map iteration order must not reach output.

import (
	"fmt"
	"go/types"
	"strings"

	"golang.org/x/tools/go/ssa"
)

var sortFuncs = map[string]bool{
	"sort.Strings": true, "sort.Ints": true, "sort.Float64s": true, "sort.Slice": true, "sort.SliceStable": true, "sort.Sort": true, "sort.Stable": true,
	"slices.Sort": true, "slices.SortFunc": true, "slices.SortStableFunc": true,
}

// order-neutral callees inside a map-range body
func pureCallee(n string) bool {
	switch {
	case strings.HasPrefix(n, "builtin:"):
		return n != "builtin:print" && n != "builtin:println"
	case strings.HasPrefix(n, "strings.") && !strings.HasPrefix(n, "strings.NewReplacer"):
		return true
	case strings.HasPrefix(n, "strconv."), strings.HasPrefix(n, "unicode."), strings.HasPrefix(n, "math."):
		return true
	}
	return false
}

// checkMapOrder inspects every range-over-map in fs. A loop is order-insensitive when its body only
// updates maps, accumulates commutatively, or appends to slices that are sorted before any other use.
func checkMapOrder(c *Ctx, rule string, fs []*ssa.Function) int {
	n := 0
	for _, f := range fs {
		if f.Blocks == nil {
			continue
		}
		eachInstr(f, func(i ssa.Instruction) {
			rg, ok := i.(*ssa.Range)
			if !ok {
				return
			}
			if _, isMap := rg.X.Type().Underlying().(*types.Map); !isMap {
				return
			}
			n++
			c.useFn(f)
			tb := newTB(f)
			what := fname(f) + ":range(" + short(tb.T(rg.X).String()) + ")"
			// loop header = block of the Next; body = blocks dominated by the true successor
			var next *ssa.Next
			for _, r := range *rg.Referrers() {
				if nx, ok := r.(*ssa.Next); ok {
					next = nx
				}
			}
			if next == nil {
				c.bad(rule, what, rg.Pos(), "range without next (unrecognised shape)")
				return
			}
			hdr := next.Block()
			body := hdr.Succs[0]
			inBody := func(b *ssa.BasicBlock) bool { return body.Dominates(b) }
			var problems []string
			var unknowns []string
			type acc struct {
				phi *ssa.Phi
			}
			var accs []*ssa.Phi
			var allocAccs []*ssa.Alloc
			for _, b := range f.Blocks {
				if !inBody(b) {
					continue
				}
				for _, ins := range b.Instrs {
					switch x := ins.(type) {
					case *ssa.Send:
						problems = append(problems, "channel send in map order at "+c.W.pos(x.Pos()))
					case *ssa.Store:
						if a, _, ok := rootAlloc(x.Addr); ok && inBody(a.Block()) {
							continue // loop-local temporary
						}
						// a variable captured by a closure lives in an alloc: "v = append(v, x)" is the same accumulator idiom
						if a, pth, ok := rootAlloc(x.Addr); ok && len(pth) == 0 {
							if ap, isCall := x.Val.(*ssa.Call); isCall && calleeName(ap) == "builtin:append" {
								if ld, isLoad := ap.Call.Args[0].(*ssa.UnOp); isLoad && ld.X == ssa.Value(a) {
									allocAccs = append(allocAccs, a)
									continue
								}
							}
						}
						// the same idiom on a FIELD of an outer record (list.keys = append(list.keys, key)): the
						// record is an accumulator whose holder (often the caller, through sort.Sort on the record)
						// orders it later; not followed here
						if _, pth, ok := rootAlloc(x.Addr); ok && len(pth) > 0 {
							if ap, isCall := x.Val.(*ssa.Call); isCall && calleeName(ap) == "builtin:append" {
								if ld, isLoad := ap.Call.Args[0].(*ssa.UnOp); isLoad && ld.X == x.Addr {
									unknowns = append(unknowns, "a list kept in a field of an outer record is appended to in map order at "+c.W.pos(x.Pos())+"; whether the record is sorted before it is used is not followed")
									continue
								}
								if ld, isLoad := ap.Call.Args[0].(*ssa.UnOp); isLoad {
									if fa1, ok1 := ld.X.(*ssa.FieldAddr); ok1 {
										if fa2, ok2 := x.Addr.(*ssa.FieldAddr); ok2 && fa1.X == fa2.X && fa1.Field == fa2.Field {
											unknowns = append(unknowns, "a list kept in a field of an outer record is appended to in map order at "+c.W.pos(x.Pos())+"; whether the record is sorted before it is used is not followed")
											continue
										}
									}
								}
							}
						}
						if _, _, ok := rootAlloc(x.Addr); ok {
							// store to an outer local: last-writer-wins depends on order unless it's an accumulator pattern; be conservative
							problems = append(problems, "store to an outer variable in map order at "+c.W.pos(x.Pos()))
						} else {
							problems = append(problems, "store through a pointer in map order at "+c.W.pos(x.Pos()))
						}
					case ssa.CallInstruction:
						nm := calleeName(x)
						if nm == "builtin:append" {
							continue
						}
						if pureCallee(nm) {
							continue
						}
						if strings.Contains(nm, ").Write") || strings.HasPrefix(nm, "fmt.Fp") || strings.HasPrefix(nm, "fmt.Print") || strings.HasPrefix(nm, "io.WriteString") {
							problems = append(problems, "output call "+nm+" in map order at "+c.W.pos(x.Pos()))
						} else {
							unknowns = append(unknowns, "call to "+nm+" in the loop body at "+c.W.pos(x.Pos()))
						}
					case *ssa.BinOp:
						if isStringType(x.Type()) && x.Op.String() == "+" {
							// concatenation onto a loop-carried value?
							for _, op := range []ssa.Value{x.X, x.Y} {
								if ph, ok := op.(*ssa.Phi); ok && ph.Block() == hdr {
									problems = append(problems, "string concatenation in map order at "+c.W.pos(x.Pos()))
								}
							}
						}
					}
				}
			}
			// slice accumulators: phis in the header whose loop edge is an append
			for _, ins := range hdr.Instrs {
				ph, ok := ins.(*ssa.Phi)
				if !ok {
					continue
				}
				if _, isSlice := ph.Type().Underlying().(*types.Slice); !isSlice {
					continue
				}
				accs = append(accs, ph)
			}
			for _, ph := range accs {
				// the accumulator grows by plain append in the loop? If its loop-carried value is handed back by a
				// helper (insertOrdered(keys, k)), the helper decides the order
				viaHelper := ""
				for k, e := range ph.Edges {
					if k < len(hdr.Preds) && inBody(hdr.Preds[k]) {
						if cl, isCall := e.(*ssa.Call); isCall && calleeName(cl) != "builtin:append" && inModule(cl.Call.StaticCallee()) {
							viaHelper = calleeName(cl)
						}
					}
				}
				if viaHelper != "" {
					unknowns = append(unknowns, fmt.Sprintf("slice %s is filled in the map loop through %s, which decides its order", ph.Comment, viaHelper))
					continue
				}
				// uses of ph outside the body must be dominated by a sort call on ph
				var sorts []ssa.Instruction
				var uses []ssa.Instruction
				partSorted := false
				for _, r := range *ph.Referrers() {
					if inBody(r.Block()) {
						continue
					}
					if _, ok := r.(*ssa.DebugRef); ok {
						continue
					}
					// order-neutral uses: truncating to length 0 for reuse (also through the phi of an outer loop), len/cap
					if orderNeutralUse(r, 0) {
						continue
					}
					if ci, ok := r.(ssa.CallInstruction); ok && sortFuncs[calleeName(ci)] && unwrap(ci.Common().Args[0]) == ssa.Value(ph) {
						sorts = append(sorts, r)
						if why := tieBreakingLost(ci); why != "" {
							problems = append(problems, why+" (at "+c.W.pos(r.Pos())+")")
						}
						continue
					}
					if mi, ok := r.(*ssa.MakeInterface); ok {
						// sort.Slice(x, less) boxes x
						handled := false
						for _, rr := range *mi.Referrers() {
							if ci, ok := rr.(ssa.CallInstruction); ok && sortFuncs[calleeName(ci)] {
								sorts = append(sorts, rr)
								handled = true
								if why := tieBreakingLost(ci); why != "" {
									problems = append(problems, why+" (at "+c.W.pos(rr.Pos())+")")
								}
							}
						}
						if handled {
							continue
						}
					}
					if rv, isVal := r.(ssa.Value); isVal {
						if _, isConv := r.(*ssa.ChangeType); isConv {
							if ci := sortReachedFrom(rv, 0); ci != nil {
								sorts = append(sorts, ci) // sort.Sort(sort.Reverse(sort.StringSlice(keys)))
								continue
							}
						}
					}
					if sl, isSl := r.(*ssa.Slice); isSl {
						// a part of the list (its tail, say) is sorted in place through a sub-slice: which part the
						// map loop filled and which part the sort covers is arithmetic this rule does not do
						if ci := sortReachedFrom(sl, 0); ci != nil {
							partSorted = true
							continue
						}
					}
					uses = append(uses, r)
				}
				if partSorted {
					unknowns = append(unknowns, fmt.Sprintf("slice %s is filled in map order and a sub-slice of it is sorted in place; whether the sorted part is the part the loop filled is not decided", ph.Comment))
					continue
				}
				// kept in order while it is filled (binary search + insertion), not sorted afterwards: the loop
				// body searches the accumulator or writes it by index
				insertionOrdered := false
				for _, b := range f.Blocks {
					if !inBody(b) {
						continue
					}
					for _, in := range b.Instrs {
						switch x := in.(type) {
						case *ssa.Call:
							if n := calleeName(x); strings.HasPrefix(n, "sort.Search") || n == "builtin:copy" {
								insertionOrdered = true
							}
						}
					}
				}
				if insertionOrdered && len(sorts) == 0 {
					unknowns = append(unknowns, fmt.Sprintf("slice %s is filled inside the map loop with a binary search / copy (kept in order by insertion?)", ph.Comment))
					continue
				}
				for _, u := range uses {
					okU := false
					for _, s := range sorts {
						if domInstr(s, u) {
							okU = true
						}
					}
					if !okU {
						problems = append(problems, fmt.Sprintf("slice %s filled in map order is used at %s without a dominating sort", ph.Comment, c.W.pos(u.Pos())))
					}
				}
			}
			for _, a := range allocAccs {
				// every load of the accumulator outside the loop (and outside comparison closures handed to sort) must follow a sort of it
				var sorts, uses []ssa.Instruction
				for _, r := range *a.Referrers() {
					ld, ok := r.(*ssa.UnOp)
					if !ok || inBody(ld.Block()) {
						continue
					}
					isSortArg := false
					for _, rr := range *ld.Referrers() {
						if ci, ok := rr.(ssa.CallInstruction); ok && sortFuncs[calleeName(ci)] {
							sorts = append(sorts, rr)
							isSortArg = true
						}
						if mi, ok := rr.(*ssa.MakeInterface); ok {
							for _, r3 := range *mi.Referrers() {
								if ci, ok := r3.(ssa.CallInstruction); ok && sortFuncs[calleeName(ci)] {
									sorts = append(sorts, r3)
									isSortArg = true
									if why := tieBreakingLost(ci); why != "" {
										problems = append(problems, why+" (at "+c.W.pos(r3.Pos())+")")
									}
								}
							}
						}
					}
					if !isSortArg {
						uses = append(uses, ld)
					}
				}
				for _, u := range uses {
					okU := false
					for _, s := range sorts {
						if domInstr(s, u) {
							okU = true
						}
					}
					if !okU {
						problems = append(problems, fmt.Sprintf("slice %s filled in map order is read at %s without a dominating sort", a.Comment, c.W.pos(u.Pos())))
					}
				}
			}
			// a loop that keeps its list in order while filling it (binary search for the place, copy to open a
			// gap, store by index) produces the same list whatever order the map is walked in: what looks
			// like "stores in map order" is the insertion, and nothing is claimed about it
			keptOrdered := false
			for _, b := range f.Blocks {
				if !inBody(b) {
					continue
				}
				for _, in := range b.Instrs {
					if cl, ok := in.(*ssa.Call); ok {
						if n := calleeName(cl); strings.HasPrefix(n, "sort.Search") {
							keptOrdered = true
						}
					}
				}
			}
			if keptOrdered && len(problems) > 0 {
				unknowns = append(unknowns, problems...)
				problems = nil
			}
			st := holds
			if len(problems) > 0 {
				st = broken
			} else if len(unknowns) > 0 {
				st = unknown
			}
			c.judge(st, rule, what, rg.Pos(), "map range is order-insensitive (keys collected and sorted before use, or only map updates)", strings.Join(append(problems, unknowns...), "; ")+": two runs may produce different output")
		})
	}
	return n
}

// tieBreakingLost: a sort with a comparison function orders the elements by a KEY of each element. If
// that key is not unique per element (lower-cased text, trimmed text, a length), elements with equal
// keys keep the order they arrived in - which, for a slice filled from a map range, is random.
// Returns a description when the comparator visibly uses such a key; "" otherwise.
// sortReachedFrom: a sorting call that v flows into through conversions, interface boxing and the
// adapters of package sort (sort.StringSlice(x), sort.Reverse(...)).
func sortReachedFrom(v ssa.Value, depth int) ssa.CallInstruction {
	if v == nil || v.Referrers() == nil || depth > 5 {
		return nil
	}
	for _, r := range *v.Referrers() {
		switch x := r.(type) {
		case *ssa.ChangeType, *ssa.Convert, *ssa.MakeInterface, *ssa.ChangeInterface:
			if ci := sortReachedFrom(x.(ssa.Value), depth+1); ci != nil {
				return ci
			}
		case *ssa.Store:
			// kept in a cell because the comparison literal reads it: the loads of that cell are the same list
			if a, isA := x.Addr.(*ssa.Alloc); isA && x.Val == v && a.Referrers() != nil {
				for _, ar := range *a.Referrers() {
					if ld, isLd := ar.(*ssa.UnOp); isLd && ld.X == ssa.Value(a) {
						if ci := sortReachedFrom(ld, depth+1); ci != nil {
							return ci
						}
					}
				}
			}
		case *ssa.Call:
			n := calleeName(x)
			if sortFuncs[n] {
				return x
			}
			if n == "sort.Reverse" {
				if ci := sortReachedFrom(x, depth+1); ci != nil {
					return ci
				}
			}
		}
	}
	return nil
}

func tieBreakingLost(ci ssa.CallInstruction) string {
	args := ci.Common().Args
	if len(args) < 2 {
		return ""
	}
	fn, ok := unwrapClosure(args[1])
	if !ok || fn.Blocks == nil {
		return ""
	}
	tb := newTB(fn)
	rets := returnsOf(fn)
	if len(rets) != 1 || len(rets[0].Results) != 1 {
		return ""
	}
	t := tb.T(rets[0].Results[0])
	if !(t.isBin("<") || t.isBin("<=")) {
		return ""
	}
	for _, side := range t.Args {
		s := stripConv(side)
		if s.Op == "call" {
			switch s.Name {
			case "strings.ToLower", "strings.ToUpper", "strings.TrimSpace", "strings.Title", "strings.ToTitle", "builtin:len", "strings.TrimLeft", "strings.TrimRight", "strings.Trim":
				return "the slice filled in map order is sorted by " + s.Name + "(element), which is equal for distinct elements (e.g. keys differing only in case): their relative order is the map's random iteration order, so the output differs between two writes of the same data"
			}
		}
	}
	return ""
}

// orderNeutralUse: a use of a slice that cannot reveal the order of its elements.
func orderNeutralUse(r ssa.Instruction, depth int) bool {
	switch x := r.(type) {
	case *ssa.DebugRef:
		return true
	case *ssa.Slice:
		if x.High != nil {
			if k, ok := x.High.(*ssa.Const); ok && k.Value != nil && k.Value.ExactString() == "0" {
				return true
			}
		}
	case ssa.CallInstruction:
		n := calleeName(x)
		return n == "builtin:len" || n == "builtin:cap"
	case *ssa.Phi:
		if depth > 3 || x.Referrers() == nil {
			return false
		}
		for _, rr := range *x.Referrers() {
			if !orderNeutralUse(rr, depth+1) {
				return false
			}
		}
		return true
	}
	return false
}
